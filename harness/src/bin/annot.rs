//! Domain `annot` (C06): sheet list and annotations across save + reload.
//!
//! case = {"case": id, "steps": [ {"a":"Init","sheets":["S1","T2"]}, {"a":"AddLink","s":1,"cell":"B2","url":"..","loc":false},
//!                                {"a":"AddComment","s":1,"r":2,"c":3,"author":"..","runs":[{"t":"Ann:","b":true},{"t":"\n text ","b":false}]},
//!                                {"a":"SetCodeName","s":1,"code":".."}, {"a":"SetMacros"},
//!                                {"a":"AddName","home":0|sheet,"name":"..","addr":"'S1'!$A$1","ref":"S1","local":-1|k,"hidden":false},
//!                                .. (AddSheet Rename RemoveSheet SetState SetActive AddMerge AddDv AddCf SetAf SetTab SetView
//!                                    SetPageSetup SetHf SetProt SetWbProt: see `apply`) .., {"a":"SaveLoad","light":false} ]}
//! An AddName event also carries "canon": the address text as the library renders it (the model's token for it).
//! Sheet indices are 1-based (TLA+ sequences).  Building steps yield one small event each (the step's
//! fields + "outcome": "ok" | "err" | "panic"); they are applied through the public API only.
//! A SaveLoad step yields one event carrying
//!   "pre"   the projection (public getters) of the workbook before the save,
//!   "post"  the projection of the workbook read back from the written bytes (read_reader(.., true)),
//!   "hex"   the bytes written (checks/c06.py replaces it by pydec/annot_view.py's view of the file),
//!   "chars" for every text that occurs in `pre` in a channel the library writes as an XML attribute:
//!           (or as element text that the reader trims: header/footer) {"s": text, "c": [one-character strings]} - the trace specification verifies that c spells s
//!           and uses it to compute the escaped form that a known finding produces.
//! After a SaveLoad the case goes on with the reloaded workbook (second generation).
//! The driver never judges.
use serde_json::{json, Value};
use std::io::Cursor;
use std::panic::{catch_unwind, AssertUnwindSafe};
use umya_spreadsheet::structs::*;
use uverif::*;

fn main() {
    serve(run);
}

fn hex(b: &[u8]) -> String {
    let mut s = String::with_capacity(b.len() * 2);
    for x in b {
        s.push_str(&format!("{:02x}", x));
    }
    s
}

fn so<'a>(v: &'a Value, k: &str) -> &'a str {
    v.get(k).and_then(|x| x.as_str()).unwrap_or("")
}
fn bo(v: &Value, k: &str) -> bool {
    v.get(k).and_then(|x| x.as_bool()).unwrap_or(false)
}
fn io(v: &Value, k: &str) -> i64 {
    v.get(k).and_then(|x| x.as_i64()).unwrap_or(-1)
}

// ------------------------------------------------------------------------------------------------
// projection (public getters only)
// ------------------------------------------------------------------------------------------------
fn name_of(d: &DefinedName) -> Value {
    json!({"name": d.get_name(), "addr": d.get_address(),
           "local": if d.has_local_sheet_id() { *d.get_local_sheet_id() as i64 } else { -1 },
           "hidden": *d.get_hidden()})
}

fn coord_str(c: &Coordinate) -> String {
    c.get_coordinate()
}

fn project_sheet(ws: &Worksheet) -> Value {
    let merges: Vec<Value> = ws.get_merge_cells().iter().map(|r| json!(r.get_range())).collect();
    let mut links = vec![];
    for c in ws.get_cell_collection_sorted() {
        if let Some(h) = c.get_hyperlink() {
            links.push(json!({"cell": c.get_coordinate().get_coordinate(), "url": h.get_url(), "loc": *h.get_location(),
                               "tip": h.get_tooltip()}));
        }
    }
    let comments: Vec<Value> = ws
        .get_comments()
        .iter()
        .map(|c| {
            let cd = c.get_shape().get_client_data();
            let ar = cd.get_comment_row_target().map(|x| *x.get_value() as i64).unwrap_or(-1);
            let ac = cd.get_comment_column_target().map(|x| *x.get_value() as i64).unwrap_or(-1);
            json!({"r": *c.get_coordinate().get_row_num() as i64, "c": *c.get_coordinate().get_col_num() as i64,
                   "author": c.get_author(), "text": c.get_text().get_text().to_string(), "vr": ar, "vc": ac})
        })
        .collect();
    let dvs: Vec<Value> = match ws.get_data_validations() {
        None => vec![],
        Some(d) => d
            .get_data_validation_list()
            .iter()
            .map(|v| {
                json!({"sqref": v.get_sequence_of_references().get_sqref(), "type": v.get_type().get_value_string(),
                       "op": v.get_operator().get_value_string(), "blank": *v.get_allow_blank(),
                       "showin": *v.get_show_input_message(), "showerr": *v.get_show_error_message(),
                       "ptitle": v.get_prompt_title(), "prompt": v.get_prompt(), "etitle": v.get_error_title(),
                       "emsg": v.get_error_message(), "f1": v.get_formula1(), "f2": v.get_formula2()})
            })
            .collect(),
    };
    let cfs: Vec<Value> = ws
        .get_conditional_formatting_collection()
        .iter()
        .map(|x| {
            let rules: Vec<Value> = x
                .get_conditional_collection()
                .iter()
                .map(|r| {
                    json!({"type": r.get_type().get_value_string(), "op": r.get_operator().get_value_string(),
                           "prio": *r.get_priority(), "stop": *r.get_stop_if_true(),
                           "hasf": r.get_formula().is_some(),
                           "f": r.get_formula().map(|f| f.get_address_str()).unwrap_or_default()})
                })
                .collect();
            json!({"sqref": x.get_sequence_of_references().get_sqref(), "rules": rules})
        })
        .collect();
    let af: Vec<Value> = ws.get_auto_filter().iter().map(|a| json!(a.get_range().get_range())).collect();
    let tab: Vec<Value> = ws.get_tab_color().iter().map(|c| json!(c.get_argb())).collect();
    let views: Vec<Value> = ws
        .get_sheets_views()
        .get_sheet_view_list()
        .iter()
        .map(|v| {
            let pane: Vec<Value> = v
                .get_pane()
                .iter()
                .map(|p| {
                    json!({"xs": format!("{}", p.get_horizontal_split()), "ys": format!("{}", p.get_vertical_split()),
                           "tl": coord_str(p.get_top_left_cell()), "ap": p.get_active_pane().get_value_string(),
                           "st": p.get_state().get_value_string()})
                })
                .collect();
            let sel: Vec<Value> = v
                .get_selection()
                .iter()
                .map(|s| {
                    json!({"pane": s.get_pane().get_value_string(),
                           "cell": s.get_active_cell().map(coord_str).unwrap_or_default(),
                           "sqref": s.get_sequence_of_references().get_sqref()})
                })
                .collect();
            json!({"pane": pane, "sel": sel, "tl": v.get_top_left_cell(), "tabsel": *v.get_tab_selected()})
        })
        .collect();
    let ps = ws.get_page_setup();
    let hf = ws.get_header_footer();
    let prot: Vec<Value> = ws
        .get_sheet_protection()
        .iter()
        .map(|p| {
            json!({"sheet": *p.get_sheet(), "objects": *p.get_objects(), "scenarios": *p.get_scenarios(),
                   "formatCells": *p.get_format_cells(), "formatColumns": *p.get_format_columns(), "formatRows": *p.get_format_rows(),
                   "insertColumns": *p.get_insert_columns(), "insertRows": *p.get_insert_rows(),
                   "insertHyperlinks": *p.get_insert_hyperlinks(), "deleteColumns": *p.get_delete_columns(),
                   "deleteRows": *p.get_delete_rows(), "selectLocked": *p.get_select_locked_cells(),
                   "selectUnlocked": *p.get_select_unlocked_cells(), "sort": *p.get_sort(), "autoFilter": *p.get_auto_filter(),
                   "pivotTables": *p.get_pivot_tables(),
                   "alg": p.get_algorithm_name(), "hash": p.get_hash_value(), "salt": p.get_salt_value(),
                   "spin": *p.get_spin_count() as i64, "legacy": p.get_password_raw()})
        })
        .collect();
    let names: Vec<Value> = ws.get_defined_names().iter().map(name_of).collect();
    let code: Vec<Value> = ws.get_code_name().iter().map(|c| json!(c)).collect();
    json!({"name": ws.get_name(), "state": ws.get_state().get_value_string(), "code": code,
           "merges": merges, "links": links, "comments": comments, "dvs": dvs, "cfs": cfs, "af": af, "tab": tab,
           "views": views,
           "ps": {"paper": *ps.get_paper_size() as i64, "orient": ps.get_orientation().get_value_string(),
                  "scale": *ps.get_scale() as i64, "fith": *ps.get_fit_to_height() as i64, "fitw": *ps.get_fit_to_width() as i64,
                  "hdpi": *ps.get_horizontal_dpi() as i64, "vdpi": *ps.get_vertical_dpi() as i64},
           "hf": {"h": hf.get_odd_header().get_value(), "f": hf.get_odd_footer().get_value()},
           "prot": prot, "names": names})
}

fn project(book: &Spreadsheet) -> Value {
    let sheets: Vec<Value> = book.get_sheet_collection().iter().map(project_sheet).collect();
    let active = *book.get_workbook_view().get_active_tab() as i64;
    // the name of the active sheet through the public accessor ("" + FALSE when it panics: index past the end)
    let an = catch_unwind(AssertUnwindSafe(|| book.get_active_sheet().get_name().to_string()));
    let wbprot: Vec<Value> = book
        .get_workbook_protection()
        .iter()
        .map(|p| {
            json!({"lockStructure": *p.get_lock_structure(), "lockWindows": *p.get_lock_windows(), "lockRevision": *p.get_lock_revision(),
                   "alg": p.get_workbook_algorithm_name(), "hash": p.get_workbook_hash_value(), "salt": p.get_workbook_salt_value(),
                   "spin": *p.get_workbook_spin_count() as i64, "legacy": p.get_workbook_password_raw(),
                   "ralg": p.get_revisions_algorithm_name(), "rhash": p.get_revisions_hash_value(),
                   "rsalt": p.get_revisions_salt_value(), "rspin": *p.get_revisions_spin_count() as i64})
        })
        .collect();
    let names: Vec<Value> = book.get_defined_names().iter().map(name_of).collect();
    json!({"sheets": sheets, "active": active, "activeOk": an.is_ok(), "activeName": an.unwrap_or_default(),
           "names": names, "prot": wbprot})
}

fn empty_projection() -> Value {
    json!({"sheets": [], "active": -1, "activeOk": false, "activeName": "", "names": [], "prot": []})
}

/// the texts of the attribute channels of a projection, each with its spelling
fn chars_table(p: &Value) -> Value {
    let mut seen: std::collections::BTreeSet<String> = std::collections::BTreeSet::new();
    fn add(seen: &mut std::collections::BTreeSet<String>, v: &Value) {
        if let Some(s) = v.as_str() {
            seen.insert(s.to_string());
        }
    }
    let names_of = |seen: &mut std::collections::BTreeSet<String>, list: &Value| {
        for n in list.as_array().unwrap() {
            add(seen, &n["name"]);
        }
    };
    names_of(&mut seen, &p["names"]);
    for pr in p["prot"].as_array().unwrap() {
        for k in ["alg", "hash", "salt", "legacy", "ralg", "rhash", "rsalt"] {
            add(&mut seen, &pr[k]);
        }
    }
    for sh in p["sheets"].as_array().unwrap() {
        names_of(&mut seen, &sh["names"]);
        for l in sh["links"].as_array().unwrap() {
            add(&mut seen, &l["url"]);
            add(&mut seen, &l["tip"]);
        }
        for d in sh["dvs"].as_array().unwrap() {
            for k in ["ptitle", "prompt", "etitle", "emsg"] {
                add(&mut seen, &d[k]);
            }
        }
        for pr in sh["prot"].as_array().unwrap() {
            for k in ["alg", "hash", "salt", "legacy"] {
                add(&mut seen, &pr[k]);
            }
        }
        add(&mut seen, &sh["hf"]["h"]);
        add(&mut seen, &sh["hf"]["f"]);
    }
    Value::Array(
        seen.into_iter()
            .map(|s| {
                let c: Vec<Value> = s.chars().map(|ch| json!(ch.to_string())).collect();
                json!({"s": s, "c": c})
            })
            .collect(),
    )
}

// ------------------------------------------------------------------------------------------------
// building steps (public API only)
// ------------------------------------------------------------------------------------------------
fn sheet<'a>(book: &'a mut Spreadsheet, st: &Value) -> Result<&'a mut Worksheet, String> {
    let i = u(st, "s") as usize - 1;
    book.get_sheet_mut(&i).ok_or_else(|| "no such sheet".to_string())
}

fn make_name(st: &Value) -> DefinedName {
    let mut d = DefinedName::default();
    // DefinedName::set_name is crate-private: a name is created through Worksheet::add_defined_name
    let mut tmp = Worksheet::default();
    tmp.add_defined_name(s(st, "name").to_string(), s(st, "addr").to_string()).unwrap();
    if let Some(x) = tmp.get_defined_names().first() {
        d = x.clone();
    }
    if io(st, "local") >= 0 {
        d.set_local_sheet_id(io(st, "local") as u32);
    }
    if bo(st, "hidden") {
        d.set_hidden(true);
    }
    d
}

fn apply(book: &mut Spreadsheet, st: &Value) -> Result<(), String> {
    match s(st, "a") {
        "AddSheet" => {
            book.new_sheet(s(st, "name")).map_err(|e| e.to_string())?;
        }
        "RemoveSheet" => {
            book.remove_sheet(u(st, "s") as usize - 1).map_err(|e| e.to_string())?;
        }
        "Rename" => {
            book.set_sheet_name(u(st, "s") as usize - 1, s(st, "name")).map_err(|e| e.to_string())?;
        }
        "SetState" => {
            let v: SheetStateValues = s(st, "state").parse().map_err(|_| "bad state")?;
            sheet(book, st)?.set_state(v);
        }
        "SetActive" => {
            book.set_active_sheet(u(st, "i"));
        }
        "AddMerge" => {
            sheet(book, st)?.add_merge_cells(s(st, "range"));
        }
        "AddLink" => {
            let ws = sheet(book, st)?;
            let mut h = Hyperlink::default();
            h.set_url(s(st, "url")).set_location(b(st, "loc"));
            if !so(st, "tip").is_empty() {
                h.set_tooltip(so(st, "tip"));
            }
            ws.get_cell_mut(s(st, "cell")).set_hyperlink(h);
        }
        "AddComment" => {
            let ws = sheet(book, st)?;
            let mut c = Comment::default();
            c.new_comment((u(st, "c"), u(st, "r")));
            c.set_author(s(st, "author"));
            // the text as a list of runs {"t": text, "b": bold}: one run is set as a plain string, several as rich text
            let runs = st["runs"].as_array().ok_or("runs")?;
            if runs.len() == 1 && !bo(&runs[0], "b") {
                c.set_text_string(s(&runs[0], "t"));
            } else {
                let mut rich = RichText::default();
                for r in runs {
                    let mut el = TextElement::default();
                    el.set_text(s(r, "t"));
                    if bo(r, "b") {
                        el.get_font_mut().set_bold(true);
                    }
                    rich.add_rich_text_elements(el);
                }
                c.set_text(rich);
            }
            ws.add_comments(c);
        }
        "AddName" => {
            let d = make_name(st);
            let home = u(st, "home") as usize;
            if home == 0 {
                book.add_defined_names(d);
            } else {
                book.get_sheet_mut(&(home - 1)).ok_or("no such sheet")?.add_defined_names(d);
            }
        }
        "AddDv" => {
            let ws = sheet(book, st)?;
            let mut v = DataValidation::default();
            v.set_type(s(st, "type").parse().map_err(|_| "bad type")?);
            if !so(st, "op").is_empty() {
                v.set_operator(so(st, "op").parse().map_err(|_| "bad op")?);
            }
            v.get_sequence_of_references_mut().set_sqref(s(st, "sqref"));
            if bo(st, "blank") {
                v.set_allow_blank(true);
            }
            if bo(st, "showin") {
                v.set_show_input_message(true);
            }
            if bo(st, "showerr") {
                v.set_show_error_message(true);
            }
            if !so(st, "ptitle").is_empty() {
                v.set_prompt_title(so(st, "ptitle"));
            }
            if !so(st, "prompt").is_empty() {
                v.set_prompt(so(st, "prompt"));
            }
            if !so(st, "etitle").is_empty() {
                v.set_error_title(so(st, "etitle"));
            }
            if !so(st, "emsg").is_empty() {
                v.set_error_message(so(st, "emsg"));
            }
            if !so(st, "f1").is_empty() {
                v.set_formula1(so(st, "f1"));
            }
            if !so(st, "f2").is_empty() {
                v.set_formula2(so(st, "f2"));
            }
            if ws.get_data_validations().is_none() {
                ws.set_data_validations(DataValidations::default());
            }
            ws.get_data_validations_mut().unwrap().add_data_validation_list(v);
        }
        "AddCf" => {
            let ws = sheet(book, st)?;
            let mut cf = ConditionalFormatting::default();
            cf.get_sequence_of_references_mut().set_sqref(s(st, "sqref"));
            for r in st["rules"].as_array().ok_or("rules")? {
                let mut rule = ConditionalFormattingRule::default();
                rule.set_type(s(r, "type").parse().map_err(|_| "bad cf type")?);
                if !so(r, "op").is_empty() {
                    rule.set_operator(so(r, "op").parse().map_err(|_| "bad cf op")?);
                }
                rule.set_priority(io(r, "prio") as i32);
                if bo(r, "stop") {
                    rule.set_stop_if_true(true);
                }
                if bo(r, "hasf") {
                    let mut f = Formula::default();
                    f.set_string_value(so(r, "f"));
                    rule.set_formula(f);
                }
                cf.add_conditional_collection(rule);
            }
            ws.add_conditional_formatting_collection(cf);
        }
        "SetAf" => {
            sheet(book, st)?.set_auto_filter(s(st, "range"));
        }
        "SetCodeName" => {
            sheet(book, st)?.set_code_name(s(st, "code"));
        }
        "SetMacros" => {
            // any payload makes the workbook one "with macros": every sheet is then written with a code name
            book.set_macros_code(vec![0x56u8, 0x42, 0x41, 0x00, 0x01, 0x02, 0x03]);
        }
        "SetTab" => {
            sheet(book, st)?.get_tab_color_mut().set_argb(s(st, "argb"));
        }
        "SetView" => {
            let ws = sheet(book, st)?;
            let mut v = SheetView::default();
            if let Some(p) = st.get("pane").and_then(|x| x.as_array()).and_then(|x| x.first()) {
                let mut pane = Pane::default();
                pane.set_horizontal_split(so(p, "xs").parse::<f64>().map_err(|_| "xs")?);
                pane.set_vertical_split(so(p, "ys").parse::<f64>().map_err(|_| "ys")?);
                pane.get_top_left_cell_mut().set_coordinate(so(p, "tl"));
                pane.set_active_pane(so(p, "ap").parse().map_err(|_| "ap")?);
                pane.set_state(so(p, "st").parse().map_err(|_| "st")?);
                v.set_pane(pane);
            }
            for x in st["sel"].as_array().ok_or("sel")? {
                let mut sel = Selection::default();
                sel.set_pane(so(x, "pane").parse().map_err(|_| "selpane")?);
                if !so(x, "cell").is_empty() {
                    let mut c = Coordinate::default();
                    c.set_coordinate(so(x, "cell"));
                    sel.set_active_cell(c);
                }
                if !so(x, "sqref").is_empty() {
                    sel.get_sequence_of_references_mut().set_sqref(so(x, "sqref"));
                }
                v.set_selection(sel);
            }
            if !so(st, "tl").is_empty() {
                v.set_top_left_cell(so(st, "tl"));
            }
            if bo(st, "tabsel") {
                v.set_tab_selected(true);
            }
            ws.get_sheet_views_mut().add_sheet_view_list_mut(v);
        }
        "SetPageSetup" => {
            let ps = sheet(book, st)?.get_page_setup_mut();
            if io(st, "paper") >= 0 {
                ps.set_paper_size(io(st, "paper") as u32);
            }
            if !so(st, "orient").is_empty() {
                ps.set_orientation(so(st, "orient").parse().map_err(|_| "orient")?);
            }
            if io(st, "scale") >= 0 {
                ps.set_scale(io(st, "scale") as u32);
            }
            if io(st, "fith") >= 0 {
                ps.set_fit_to_height(io(st, "fith") as u32);
            }
            if io(st, "fitw") >= 0 {
                ps.set_fit_to_width(io(st, "fitw") as u32);
            }
            if io(st, "hdpi") >= 0 {
                ps.set_horizontal_dpi(io(st, "hdpi") as u32);
            }
            if io(st, "vdpi") >= 0 {
                ps.set_vertical_dpi(io(st, "vdpi") as u32);
            }
        }
        "SetHf" => {
            let hf = sheet(book, st)?.get_header_footer_mut();
            if !so(st, "h").is_empty() {
                hf.get_odd_header_mut().set_value(so(st, "h"));
            }
            if !so(st, "f").is_empty() {
                hf.get_odd_footer_mut().set_value(so(st, "f"));
            }
        }
        "SetProt" => {
            let p = sheet(book, st)?.get_sheet_protection_mut();
            let f = &st["flags"];
            for (k, v) in f.as_object().ok_or("flags")?.iter() {
                let x = v.as_bool().unwrap_or(false);
                match k.as_str() {
                    "sheet" => p.set_sheet(x),
                    "objects" => p.set_objects(x),
                    "scenarios" => p.set_scenarios(x),
                    "formatCells" => p.set_format_cells(x),
                    "formatColumns" => p.set_format_columns(x),
                    "formatRows" => p.set_format_rows(x),
                    "insertColumns" => p.set_insert_columns(x),
                    "insertRows" => p.set_insert_rows(x),
                    "insertHyperlinks" => p.set_insert_hyperlinks(x),
                    "deleteColumns" => p.set_delete_columns(x),
                    "deleteRows" => p.set_delete_rows(x),
                    "selectLocked" => p.set_select_locked_cells(x),
                    "selectUnlocked" => p.set_select_unlocked_cells(x),
                    "sort" => p.set_sort(x),
                    "autoFilter" => p.set_auto_filter(x),
                    "pivotTables" => p.set_pivot_tables(x),
                    _ => return Err(format!("unknown flag {}", k)),
                };
            }
            if !so(st, "alg").is_empty() {
                p.set_algorithm_name(so(st, "alg"));
                p.set_hash_value(so(st, "hash"));
                p.set_salt_value(so(st, "salt"));
                p.set_spin_count(io(st, "spin") as u32);
            }
            if !so(st, "legacy").is_empty() {
                p.set_password_raw(so(st, "legacy"));
            }
        }
        "SetWbProt" => {
            let p = book.get_workbook_protection_mut();
            if bo(st, "lockStructure") {
                p.set_lock_structure(true);
            }
            if bo(st, "lockWindows") {
                p.set_lock_windows(true);
            }
            if bo(st, "lockRevision") {
                p.set_lock_revision(true);
            }
            if !so(st, "alg").is_empty() {
                p.set_workbook_algorithm_name(so(st, "alg"));
                p.set_workbook_hash_value(so(st, "hash"));
                p.set_workbook_salt_value(so(st, "salt"));
                p.set_workbook_spin_count(io(st, "spin") as u32);
            }
            if !so(st, "ralg").is_empty() {
                p.set_revisions_algorithm_name(so(st, "ralg"));
                p.set_revisions_hash_value(so(st, "rhash"));
                p.set_revisions_salt_value(so(st, "rsalt"));
                p.set_revisions_spin_count(io(st, "rspin") as u32);
            }
            if !so(st, "legacy").is_empty() {
                p.set_workbook_password_raw(so(st, "legacy"));
            }
        }
        other => panic!("unknown step {}", other),
    }
    Ok(())
}

fn run(case: &Value) -> Vec<Value> {
    let id = case["case"].clone();
    let steps = case["steps"].as_array().expect("steps");
    let mut events = vec![];
    let mut book = umya_spreadsheet::new_file_empty_worksheet();
    for st in steps {
        let a = s(st, "a");
        let mut e = st.clone();
        e["case"] = id.clone();
        if a == "Init" {
            book = umya_spreadsheet::new_file_empty_worksheet();
            let mut ok = true;
            for n in st["sheets"].as_array().expect("sheets") {
                if book.new_sheet(n.as_str().unwrap()).is_err() {
                    ok = false;
                }
            }
            e["outcome"] = json!(if ok { "ok" } else { "err" });
            events.push(e);
            continue;
        }
        if a == "SaveLoad" {
            let pre = match catch_unwind(AssertUnwindSafe(|| project(&book))) {
                Ok(v) => v,
                Err(_) => {
                    e["outcome"] = json!("panic-pre");
                    e["pre"] = empty_projection();
                    e["post"] = empty_projection();
                    e["chars"] = json!([]);
                    e["hex"] = json!("");
                    events.push(e);
                    continue;
                }
            };
            let light = bo(st, "light");
            let saved = catch_unwind(AssertUnwindSafe(|| -> Result<Vec<u8>, String> {
                let mut buf: Vec<u8> = Vec::new();
                if light {
                    umya_spreadsheet::writer::xlsx::write_writer_light(&book, &mut buf).map_err(|e| format!("{:?}", e))?;
                } else {
                    umya_spreadsheet::writer::xlsx::write_writer(&book, &mut buf).map_err(|e| format!("{:?}", e))?;
                }
                Ok(buf)
            }));
            e["chars"] = chars_table(&pre);
            e["pre"] = pre;
            let (outcome, bytes) = match saved {
                Ok(Ok(b)) => ("ok", b),
                Ok(Err(_)) => ("save-err", vec![]),
                Err(_) => ("save-panic", vec![]),
            };
            e["hex"] = json!(hex(&bytes));
            if outcome != "ok" {
                e["outcome"] = json!(outcome);
                e["post"] = empty_projection();
                events.push(e);
                continue;
            }
            let loaded = catch_unwind(AssertUnwindSafe(|| {
                umya_spreadsheet::reader::xlsx::read_reader(Cursor::new(bytes), true).map_err(|e| format!("{:?}", e))
            }));
            match loaded {
                Ok(Ok(b2)) => match catch_unwind(AssertUnwindSafe(|| project(&b2))) {
                    Ok(p) => {
                        e["outcome"] = json!("ok");
                        e["post"] = p;
                        book = b2;
                    }
                    Err(_) => {
                        e["outcome"] = json!("project-panic");
                        e["post"] = empty_projection();
                    }
                },
                Ok(Err(_)) => {
                    e["outcome"] = json!("load-err");
                    e["post"] = empty_projection();
                }
                Err(_) => {
                    e["outcome"] = json!("load-panic");
                    e["post"] = empty_projection();
                }
            }
            events.push(e);
            continue;
        }
        let outcome = match catch_unwind(AssertUnwindSafe(|| apply(&mut book, st))) {
            Ok(Ok(())) => "ok",
            Ok(Err(_)) => "err",
            Err(_) => "panic",
        };
        if a == "AddName" {
            // the address text as the library renders it (its own quoting rules): the model's token for this name
            e["canon"] = match catch_unwind(AssertUnwindSafe(|| make_name(st).get_address())) {
                Ok(v) => json!(v),
                Err(_) => json!(""),
            };
        }
        e["outcome"] = json!(outcome);
        events.push(e);
    }
    events
}
