//! Domain `package` (C02): workbooks are built through the public API (or loaded from a corpus file),
//! saved into memory with `write_writer` / `write_writer_light`, and the written bytes are handed to the
//! independent Python decoder (pydec/xlsx.py) as hex.  Nothing is judged here.
//!
//! case = {"case": id, "repo": "/repo", "steps": [ step, .. ]}        sheet indices `s` are 1-based
//!   {"a":"New"}                                   empty workbook (no sheets)
//!   {"a":"Open","file":"aaa.xlsx"}                reader::xlsx::read(<repo>/tests/test_files/<file>)
//!   {"a":"AddSheet","name":..} {"a":"RemoveSheet","s":i} {"a":"RenameSheet","s":i,"name":..} {"a":"SetActive","i":k}
//!   {"a":"SetCell","s","r","c","k":"text|num|bool|err|rich","v":..,"f":formula or "","sty":format code or ""}
//!       k="num": v = 16 hex digits (bit pattern); k="rich": "runs":[..], v = their concatenation;
//!       with a formula the value is the cached result (k="blank": none)
//!   {"a":"Link","s","r","c","url","loc":bool,"tip"}  {"a":"Merge","s","g":{r1,c1,r2,c2}}
//!   {"a":"Name","s","name","addr"}  {"a":"Comment","s","r","c","author","text"}
//!   {"a":"Table","s","name","g":{..},"cols":[..]}  {"a":"Image","s","r","c","img":"sample1.png"[,"as":"stored name"]}  {"a":"Chart","s","r","c"}
//!   {"a":"Validation","s","sqref","list"}  {"a":"CondFmt","s","sqref","fmts":[kind,..]}  {"a":"Protect","s"}  {"a":"ProtectBook"}
//!   {"a":"RowHeight","s","r","h"}  {"a":"ColWidth","s","c","w"}  {"a":"Macro","on":bool}
//!   {"a":"Save","light":bool}
//! Every step yields one event: the step's fields + "outcome" ("ok" | "err" | "panic").  "Open" and "Save"
//! events carry "model": the content of the workbook as the public getters show it; "Save" also carries
//! "file_hex": the bytes the writer produced.
use serde_json::{json, Value};
use std::panic::{catch_unwind, AssertUnwindSafe};
use umya_spreadsheet::helper::coordinate::coordinate_from_index;
use umya_spreadsheet::structs::drawing::spreadsheet::MarkerType;
use std::collections::HashMap;
use umya_spreadsheet::structs::{
    Cell, CellFormulaValues, CellRawValue, Chart, DefinedName, ChartType, Comment, ConditionalFormatValues, ConditionalFormatting, ConditionalFormattingOperatorValues,
    ConditionalFormattingRule, DataValidation, DataValidationValues, DataValidations, Formula, Image, Range, RichText,
    Spreadsheet, Style, Table, TableColumn, TextElement,
};
use uverif::*;

fn main() {
    serve(run);
}

const OOB: u32 = 2_000_000_000;
fn clamp(x: u32) -> u32 {
    x.min(OOB)
}

fn hex(b: &[u8]) -> String {
    const D: &[u8; 16] = b"0123456789abcdef";
    let mut s = String::with_capacity(b.len() * 2);
    for x in b {
        s.push(D[(x >> 4) as usize] as char);
        s.push(D[(x & 15) as usize] as char);
    }
    s
}

fn rect_str(g: &Value) -> String {
    format!(
        "{}:{}",
        coordinate_from_index(&u(g, "c1"), &u(g, "r1")),
        coordinate_from_index(&u(g, "c2"), &u(g, "r2"))
    )
}

fn rect_of(r: &Range) -> Value {
    let c1 = r.get_coordinate_start_col().map(|x| *x.get_num()).unwrap_or(0);
    let r1 = r.get_coordinate_start_row().map(|x| *x.get_num()).unwrap_or(0);
    let c2 = r.get_coordinate_end_col().map(|x| *x.get_num()).unwrap_or(c1);
    let r2 = r.get_coordinate_end_row().map(|x| *x.get_num()).unwrap_or(r1);
    json!({"r1": clamp(r1), "c1": clamp(c1), "r2": clamp(r2), "c2": clamp(c2)})
}

/// The content of the workbook as the public getters show it (cells that carry a value or a formula,
/// hyperlinks, merged ranges, defined names, sheet list) plus the object counts the package structure
/// depends on.  Children of a shared formula are shown as such ("sm" = reference of the master cell, the
/// first cell of the group in row-major order), not with the text the reader derived for them.
fn name_of(d: &DefinedName) -> Value {
    json!({"name": d.get_name(), "addr": d.get_address(),
           "lsid": if d.has_local_sheet_id() { *d.get_local_sheet_id() as i64 } else { -1 }})
}

fn ext_of(name: &str) -> String {
    match name.rsplit_once('.') {
        Some((_, e)) => e.to_string(),
        None => String::new(),
    }
}

/// What a rule of a conditional format formats with, as the public getters show it (the level the
/// specification records): font (none / bold / not bold), fill colours, left border style, number format code,
/// protection.
fn fmt_of(style: Option<&Style>) -> Value {
    match style {
        None => json!({"has": false, "font": "", "fg": "", "bg": "", "border": "", "numfmt": "", "prot": false}),
        Some(st) => {
            let font = match st.get_font() {
                None => "",
                Some(f) => {
                    if *f.get_bold() {
                        "b"
                    } else {
                        "n"
                    }
                }
            };
            let pf = st.get_fill().and_then(|f| f.get_pattern_fill());
            let fg = pf.and_then(|p| p.get_foreground_color()).map(|c| c.get_argb().to_string()).unwrap_or_default();
            let bg = pf.and_then(|p| p.get_background_color()).map(|c| c.get_argb().to_string()).unwrap_or_default();
            let border = st.get_borders().map(|b| b.get_left_border().get_border_style().to_string()).unwrap_or_default();
            let border = if border == "none" { String::new() } else { border };
            let numfmt = st.get_number_format().map(|n| n.get_format_code().to_string()).unwrap_or_default();
            json!({"has": true, "font": font, "fg": fg, "bg": bg, "border": border, "numfmt": numfmt,
                   "prot": st.get_protection().is_some()})
        }
    }
}

fn model(book: &Spreadsheet) -> Value {
    let mut sheets = vec![];
    let gnames: Vec<Value> = book.get_defined_names().iter().map(name_of).collect();
    for ws in book.get_sheet_collection_no_check() {
        let mut all: Vec<&Cell> = ws.get_cell_collection();
        all.sort_by_key(|c| (*c.get_coordinate().get_row_num(), *c.get_coordinate().get_col_num()));
        // masters of shared formulas
        let mut masters: HashMap<u32, String> = HashMap::new();
        for c in &all {
            if let Some(f) = c.get_formula_obj() {
                if f.get_formula_type() == &CellFormulaValues::Shared {
                    let co = c.get_coordinate();
                    masters
                        .entry(*f.get_shared_index())
                        .or_insert_with(|| coordinate_from_index(co.get_col_num(), co.get_row_num()));
                }
            }
        }
        let mut cells: Vec<Value> = vec![];
        let mut links: Vec<Value> = vec![];
        for c in &all {
            let co = c.get_coordinate();
            let (r, col) = (*co.get_row_num(), *co.get_col_num());
            if let Some(h) = c.get_hyperlink() {
                links.push(json!({"r": clamp(r), "c": clamp(col), "url": h.get_url(), "loc": *h.get_location(),
                                  "tip": h.get_tooltip()}));
            }
            let raw = c.get_raw_value();
            let k = match raw {
                CellRawValue::String(_) | CellRawValue::RichText(_) => "text",
                CellRawValue::Numeric(_) => "num",
                CellRawValue::Bool(_) => "bool",
                CellRawValue::Error(_) => "err",
                CellRawValue::Lazy(_) => "lazy",
                CellRawValue::Empty => "blank",
            };
            if k == "blank" && !c.is_formula() {
                continue;
            }
            let d = c.get_value().to_string();
            let v = match raw {
                CellRawValue::Numeric(x) => f64_bits(*x),
                _ => d.clone(),
            };
            let mut f = c.get_formula().to_string();
            let mut sm = String::new();
            if let Some(fo) = c.get_formula_obj() {
                if fo.get_formula_type() == &CellFormulaValues::Shared {
                    let me = coordinate_from_index(&col, &r);
                    let master = masters.get(fo.get_shared_index()).cloned().unwrap_or_default();
                    if master != me {
                        sm = master;
                        f = String::new();
                    }
                }
            }
            let sty = c
                .get_style()
                .get_number_format()
                .map(|n| n.get_format_code().to_string())
                .unwrap_or_default();
            let sty = if sty == "General" { String::new() } else { sty };
            cells.push(json!({"r": clamp(r), "c": clamp(col), "k": k, "v": v, "d": d, "f": f, "sm": sm, "sty": sty}));
        }
        let merges: Vec<Value> = ws.get_merge_cells().iter().map(rect_of).collect();
        let names: Vec<Value> = ws.get_defined_names().iter().map(name_of).collect();
        let mut comments: Vec<(u32, u32)> = ws
            .get_comments()
            .iter()
            .map(|c| (*c.get_coordinate().get_row_num(), *c.get_coordinate().get_col_num()))
            .collect();
        comments.sort();
        let vmlnoimg = ws
            .get_comments()
            .iter()
            .filter(|c| match c.get_shape().get_image_data() {
                Some(i) => i.get_image().get_image_name().is_empty(),
                None => false,
            })
            .count();
        let imgs: Vec<Value> = ws
            .get_image_collection()
            .iter()
            .map(|i| {
                let e = ext_of(i.get_image_name());
                json!({"name": i.get_image_name(), "ext": e, "extl": e.to_lowercase()})
            })
            .collect();
        sheets.push(json!({"name": ws.get_name(), "cells": cells, "links": links, "merges": merges, "names": names,
                           "comments": comments.iter().map(|x| json!({"r": clamp(x.0), "c": clamp(x.1)})).collect::<Vec<_>>(),
                           "tables": ws.get_tables().iter().map(|t| t.get_name().to_string()).collect::<Vec<_>>(),
                           "imgs": imgs, "ncharts": ws.get_chart_collection().len(),
                           "nole": ws.get_ole_objects().get_ole_object().len(), "vmlnoimg": vmlnoimg,
                           "cfr": ws.get_conditional_formatting_collection().iter()
                               .map(|cf| Value::Array(cf.get_conditional_collection().iter().map(|r| fmt_of(r.get_style())).collect()))
                               .collect::<Vec<_>>()}));
    }
    json!({"sheets": sheets, "gnames": gnames, "active": *book.get_workbook_view().get_active_tab() as i64,
           "macro": book.get_has_macros()})
}

fn marker(r: u32, c: u32) -> MarkerType {
    let mut m = MarkerType::default();
    m.set_coordinate(coordinate_from_index(&c, &r));
    m
}

fn apply(book: &mut Spreadsheet, st: &Value, repo: &str) -> Result<(), String> {
    let a = s(st, "a");
    let si = || u(st, "s") as usize - 1;
    match a {
        "AddSheet" => {
            book.new_sheet(s(st, "name")).map_err(|e| e.to_string())?;
        }
        "RemoveSheet" => {
            book.remove_sheet(si()).map_err(|e| e.to_string())?;
        }
        "RenameSheet" => {
            book.set_sheet_name(si(), s(st, "name")).map_err(|e| e.to_string())?;
        }
        "SetActive" => {
            book.set_active_sheet(u(st, "i"));
        }
        "SetCell" => {
            // the step defines value, formula and number format of the cell; a hyperlink on it stays
            let ws = book.get_sheet_mut(&si()).ok_or("no sheet")?;
            let pos = (u(st, "c"), u(st, "r"));
            let keep = ws.get_cell(pos).and_then(|c| c.get_hyperlink().cloned());
            ws.remove_cell(pos);
            let cell = ws.get_cell_mut(pos);
            if let Some(h) = keep {
                cell.set_hyperlink(h);
            }
            let (k, v, f) = (s(st, "k"), s(st, "v"), s(st, "f"));
            if !f.is_empty() {
                cell.set_formula(f);
                if k != "blank" {
                    // the only public way to give a formula a cached result (type is guessed from the text)
                    let txt = if k == "num" { format!("{}", f64_from_bits(v)) } else { v.to_string() };
                    cell.set_formula_result_default(txt);
                }
            } else {
                match k {
                    "text" => {
                        cell.set_value_string(v);
                    }
                    "num" => {
                        cell.set_value_number(f64_from_bits(v));
                    }
                    "bool" => {
                        cell.set_value_bool(v == "TRUE");
                    }
                    "err" => {
                        cell.set_error(v);
                    }
                    "rich" => {
                        let mut rt = RichText::default();
                        for (i, run) in st["runs"].as_array().unwrap().iter().enumerate() {
                            let mut te = TextElement::default();
                            te.set_text(run.as_str().unwrap());
                            if i % 2 == 1 {
                                te.get_font_mut().set_bold(true);
                            }
                            rt.add_rich_text_elements(te);
                        }
                        cell.set_rich_text(rt);
                    }
                    _ => return Err(format!("unknown kind {}", k)),
                }
            }
            let sty = s(st, "sty");
            if !sty.is_empty() {
                cell.get_style_mut().get_number_format_mut().set_format_code(sty);
            }
        }
        "StyleCell" => {
            // a styled cell without a value (style carrier)
            let ws = book.get_sheet_mut(&si()).ok_or("no sheet")?;
            let cell = ws.get_cell_mut((u(st, "c"), u(st, "r")));
            cell.get_style_mut().get_font_mut().set_bold(true);
            if !s(st, "sty").is_empty() {
                cell.get_style_mut().get_number_format_mut().set_format_code(s(st, "sty"));
            }
        }
        "RemoveCell" => {
            let ws = book.get_sheet_mut(&si()).ok_or("no sheet")?;
            ws.remove_cell((u(st, "c"), u(st, "r")));
        }
        "Link" => {
            let ws = book.get_sheet_mut(&si()).ok_or("no sheet")?;
            let h = ws.get_cell_mut((u(st, "c"), u(st, "r"))).get_hyperlink_mut();
            h.set_url(s(st, "url"));
            h.set_location(b(st, "loc"));
            h.set_tooltip(s(st, "tip"));
        }
        "Merge" => {
            let ws = book.get_sheet_mut(&si()).ok_or("no sheet")?;
            ws.add_merge_cells(rect_str(&st["g"]));
        }
        "Name" => {
            let ws = book.get_sheet_mut(&si()).ok_or("no sheet")?;
            ws.add_defined_name(s(st, "name"), s(st, "addr")).map_err(|e| e.to_string())?;
        }
        "Comment" => {
            let ws = book.get_sheet_mut(&si()).ok_or("no sheet")?;
            let mut cm = Comment::default();
            cm.new_comment((u(st, "c"), u(st, "r")));
            cm.set_author(s(st, "author"));
            cm.set_text_string(s(st, "text"));
            ws.add_comments(cm);
        }
        "Table" => {
            let ws = book.get_sheet_mut(&si()).ok_or("no sheet")?;
            let g = &st["g"];
            let mut t = Table::new(s(st, "name"), ((u(g, "c1"), u(g, "r1")), (u(g, "c2"), u(g, "r2"))));
            for c in st["cols"].as_array().unwrap() {
                t.add_column(TableColumn::new(c.as_str().unwrap()));
            }
            ws.add_table(t);
        }
        "Image" => {
            let ws = book.get_sheet_mut(&si()).ok_or("no sheet")?;
            let name = s(st, "img");
            let data = std::fs::read(format!("{}/images/{}", repo, name)).map_err(|e| e.to_string())?;
            let mut im = Image::default();
            let store = st.get("as").and_then(|x| x.as_str()).unwrap_or(name);
            im.new_image_with_dimensions(40, 60, store, data, marker(u(st, "r"), u(st, "c")));
            ws.add_image(im);
        }
        "Chart" => {
            let ws = book.get_sheet_mut(&si()).ok_or("no sheet")?;
            let name = ws.get_name().to_string();
            let (r, c) = (u(st, "r"), u(st, "c"));
            let series = vec![format!("{}!$A$1:$A$3", name), format!("{}!$B$1:$B$3", name)];
            let mut ch = Chart::default();
            ch.new_chart(
                ChartType::LineChart,
                marker(r, c),
                marker(r + 8, c + 5),
                series.iter().map(|x| x.as_str()).collect(),
            )
            .set_series_title(vec!["L1", "L2"])
            .set_series_point_title(vec!["P1", "P2", "P3"])
            .set_title("Chart <&>");
            ws.add_chart(ch);
        }
        "Validation" => {
            let ws = book.get_sheet_mut(&si()).ok_or("no sheet")?;
            let mut dv = DataValidation::default();
            dv.set_type(DataValidationValues::List);
            dv.set_formula1(s(st, "list"));
            dv.get_sequence_of_references_mut().set_sqref(s(st, "sqref"));
            dv.set_prompt_title("pick <one>");
            dv.set_prompt("a & b");
            let mut dvs = match ws.get_data_validations() {
                Some(x) => x.clone(),
                None => DataValidations::default(),
            };
            dvs.add_data_validation_list(dv);
            ws.set_data_validations(dvs);
        }
        "CondFmt" => {
            // one <conditionalFormatting> whose rules carry styles of the given kinds:
            // "none" (no style), "empty" (Style::default()), "numfmt", "prot", "font" (bold), "fontn" (a font, not
            // bold), "fill:AARRGGBB", "border", "all"
            let ws = book.get_sheet_mut(&si()).ok_or("no sheet")?;
            let mut cf = ConditionalFormatting::default();
            cf.get_sequence_of_references_mut().set_sqref(s(st, "sqref"));
            for (k, kind) in st["fmts"].as_array().ok_or("fmts")?.iter().enumerate() {
                let kind = kind.as_str().ok_or("fmt kind")?;
                let mut style = Style::default();
                match kind {
                    "none" | "empty" => {}
                    "numfmt" => {
                        style.get_number_format_mut().set_format_code("0.00");
                    }
                    "prot" => {
                        style.get_protection_mut().set_locked(true);
                    }
                    "font" => {
                        style.get_font_mut().set_bold(true);
                    }
                    "fontn" => {
                        style.get_font_mut().set_italic(true);
                    }
                    "border" => {
                        style.get_borders_mut().get_left_border_mut().set_border_style("thin");
                    }
                    "all" => {
                        style.get_font_mut().set_bold(true);
                        style.set_background_color("FF0000FF");
                        style.get_borders_mut().get_left_border_mut().set_border_style("thin");
                        style.get_number_format_mut().set_format_code("0.00");
                    }
                    x if x.starts_with("fill:") => {
                        style.set_background_color(&x[5..]);
                    }
                    _ => return Err(format!("unknown format kind {}", kind)),
                }
                let mut f = Formula::default();
                f.set_string_value(format!("{}", 10 * (k + 1)));
                let mut rule = ConditionalFormattingRule::default();
                rule.set_type(ConditionalFormatValues::CellIs)
                    .set_operator(ConditionalFormattingOperatorValues::GreaterThan)
                    .set_priority(k as i32 + 1)
                    .set_formula(f);
                if kind != "none" {
                    rule.set_style(style);
                }
                cf.add_conditional_collection(rule);
            }
            ws.add_conditional_formatting_collection(cf);
        }
        "Protect" => {
            let ws = book.get_sheet_mut(&si()).ok_or("no sheet")?;
            ws.get_sheet_protection_mut().set_sheet(true).set_password_raw("CC1A");
        }
        "ProtectBook" => {
            book.get_workbook_protection_mut().set_lock_structure(true).set_workbook_password_raw("83AF");
        }
        "AutoFilter" => {
            let ws = book.get_sheet_mut(&si()).ok_or("no sheet")?;
            ws.set_auto_filter(rect_str(&st["g"]));
        }
        "RowHeight" => {
            let ws = book.get_sheet_mut(&si()).ok_or("no sheet")?;
            ws.get_row_dimension_mut(&u(st, "r")).set_height(u(st, "h") as f64);
        }
        "ColWidth" => {
            let ws = book.get_sheet_mut(&si()).ok_or("no sheet")?;
            ws.get_column_dimension_by_number_mut(&u(st, "c")).set_width(u(st, "w") as f64);
        }
        "InsertRows" => {
            let ws = book.get_sheet_mut(&si()).ok_or("no sheet")?;
            ws.insert_new_row(&u(st, "p"), &u(st, "n"));
        }
        "RemoveRows" => {
            let ws = book.get_sheet_mut(&si()).ok_or("no sheet")?;
            ws.remove_row(&u(st, "p"), &u(st, "n"));
        }
        "Macro" => {
            if b(st, "on") {
                let data = std::fs::read(format!("{}/tests/test_files/aaa.xlsm", repo)).map_err(|e| e.to_string())?;
                // any payload will do for the package structure: the writer stores it verbatim as xl/vbaProject.bin
                book.set_macros_code(data[..512.min(data.len())].to_vec());
            } else {
                book.remove_macros_code();
            }
        }
        _ => return Err(format!("unknown step {}", a)),
    }
    Ok(())
}

fn run(case: &Value) -> Vec<Value> {
    let id = case["case"].clone();
    let repo = case["repo"].as_str().unwrap_or("/repo").to_string();
    let steps = case["steps"].as_array().expect("steps");
    let mut events = vec![];
    let mut book = umya_spreadsheet::new_file_empty_worksheet();
    for st in steps {
        let a = s(st, "a");
        let mut e = st.clone();
        e["case"] = id.clone();
        match a {
            "New" => {
                book = umya_spreadsheet::new_file_empty_worksheet();
                e["outcome"] = json!("ok");
            }
            "Open" => {
                let path = format!("{}/tests/test_files/{}", repo, s(st, "file"));
                let r = catch_unwind(AssertUnwindSafe(|| umya_spreadsheet::reader::xlsx::read(std::path::Path::new(&path))));
                match r {
                    Ok(Ok(bk)) => {
                        book = bk;
                        match catch_unwind(AssertUnwindSafe(|| model(&book))) {
                            Ok(m) => {
                                e["outcome"] = json!("ok");
                                e["model"] = m;
                            }
                            Err(_) => e["outcome"] = json!("panic"),
                        }
                    }
                    Ok(Err(_)) => e["outcome"] = json!("err"),
                    Err(_) => e["outcome"] = json!("panic"),
                }
            }
            "Save" => {
                let light = b(st, "light");
                let r = catch_unwind(AssertUnwindSafe(|| {
                    let mut buf: Vec<u8> = Vec::new();
                    let res = if light {
                        umya_spreadsheet::writer::xlsx::write_writer_light(&book, &mut buf)
                    } else {
                        umya_spreadsheet::writer::xlsx::write_writer(&book, &mut buf)
                    };
                    res.map(|_| buf).map_err(|x| format!("{:?}", x))
                }));
                match r {
                    Ok(Ok(buf)) => match catch_unwind(AssertUnwindSafe(|| model(&book))) {
                        Ok(m) => {
                            e["outcome"] = json!("ok");
                            e["model"] = m;
                            e["file_hex"] = json!(hex(&buf));
                        }
                        Err(_) => e["outcome"] = json!("panic"),
                    },
                    Ok(Err(msg)) => {
                        e["outcome"] = json!("err");
                        e["msg"] = json!(msg);
                    }
                    Err(p) => {
                        e["outcome"] = json!("panic");
                        e["msg"] = json!(panic_msg(&p));
                    }
                }
            }
            _ => {
                let r = catch_unwind(AssertUnwindSafe(|| apply(&mut book, st, &repo)));
                match r {
                    Ok(Ok(())) => e["outcome"] = json!("ok"),
                    Ok(Err(msg)) => {
                        e["outcome"] = json!("err");
                        e["msg"] = json!(msg);
                    }
                    Err(p) => {
                        e["outcome"] = json!("panic");
                        e["msg"] = json!(panic_msg(&p));
                    }
                }
            }
        }
        events.push(e);
    }
    events
}
