//! Domain `media` (X03): life cycle of images and charts, driven through public API only.
//!
//! case = {"case": id, "tmp": dir, "steps": [ {"a":"Init","src":{"kind":"new","sheets":["Data","S1",..]}
//!                                                      | {"kind":"file","path":..,"lazy":bool}}, step, .. ]}
//! steps (sheet indices `s` and object indices `i` are 1-based, anchors are 1-based cells):
//!   AddImage    {s, path, r, c}                  Image::new_image(path, marker) + Worksheet::add_image
//!   AddChart    {s, ch: {ct, r1, c1, r2, c2, ser (or raw: the formulas as passed, ser then being their canonical form), ti, ..}} Chart::new_chart(..) (+ set_title if ti != "") + Worksheet::add_chart
//!   ReadSheet   {s}                              get_sheet_mut(s-1): materialises the sheet of a lazily opened workbook
//!   RemoveImage {s, i} / RemoveChart {s, i}      get_image_collection_mut().remove(i-1) / get_chart_collection_mut()
//!   ChangeImage {s, i, path}                     Image::change_image
//!   MoveImage   {s, i, r, c}                     from marker of the image's anchor := (r, c)
//!   MoveChart   {s, i, r1, c1, r2, c2}           from / to markers of the chart's anchor
//!   Insert / Remove {s, ax, p, n, lvl}           rows / columns, workbook ("wb") or worksheet ("ws") level
//!   AddSheet {name} / RemoveSheet {s} / RenameSheet {s, name}
//!   Reload {lazy}                                write_writer to <tmp>/c<case>-<k>.xlsx, read it back (eagerly / lazily);
//!                                                the loaded workbook replaces the current one iff both succeeded
//! Every step yields one event: the step's fields + "outcome" + "obs" (projection of every sheet through public
//! getters; a lazily opened workbook is projected on a fully read clone) + for Reload "sv"/"ld"/"file".
//! The driver never judges.
use serde_json::{json, Value};
use std::io::Cursor;
use std::panic::{catch_unwind, AssertUnwindSafe};
use umya_spreadsheet::structs::drawing::spreadsheet::MarkerType;
use umya_spreadsheet::structs::{Chart, ChartType, Image, Spreadsheet, Worksheet};
use uverif::*;

fn main() {
    serve(run);
}

const OOB: u32 = 2_000_000_000;
fn clamp(x: u32) -> u32 {
    x.min(OOB)
}

fn clamp64(x: i64) -> i64 {
    x.max(-(OOB as i64)).min(OOB as i64)
}

/// content token of a byte string: FNV-1a (64 bit) and the length; "none" for no bytes
fn digest(data: &[u8]) -> String {
    if data.is_empty() {
        return "none".to_string();
    }
    let mut h: u64 = 0xcbf29ce484222325;
    for b in data {
        h ^= *b as u64;
        h = h.wrapping_mul(0x100000001b3);
    }
    format!("{:016x}-{}", h, data.len())
}

fn marker(r: u32, c: u32) -> MarkerType {
    let mut m = MarkerType::default();
    m.set_row(r - 1).set_col(c - 1);
    m
}

fn chart_type(ct: &str) -> ChartType {
    match ct {
        "lineChart" => ChartType::LineChart,
        "line3DChart" => ChartType::Line3DChart,
        "pieChart" => ChartType::PieChart,
        "pie3DChart" => ChartType::Pie3DChart,
        "doughnutChart" => ChartType::DoughnutChart,
        "scatterChart" => ChartType::ScatterChart,
        "barChart" => ChartType::BarChart,
        "bar3DChart" => ChartType::Bar3DChart,
        "radarChart" => ChartType::RadarChart,
        "bubbleChart" => ChartType::BubbleChart,
        "areaChart" => ChartType::AreaChart,
        "area3DChart" => ChartType::Area3DChart,
        "ofPieChart" => ChartType::OfPieChart,
        _ => panic!("unknown chart type {}", ct),
    }
}

/// sheet name a series formula mentions: the text before the last '!' without its quotes ("" if unqualified)
fn sheet_of_ref(f: &str) -> String {
    match f.rfind('!') {
        None => String::new(),
        Some(k) => {
            let n = &f[..k];
            if n.len() >= 2 && n.starts_with('\'') && n.ends_with('\'') {
                n[1..n.len() - 1].replace("''", "'")
            } else {
                n.to_string()
            }
        }
    }
}

/// a series formula with its sheet name unquoted (quoting is a matter of form, judged separately)
fn canonical(f: &str) -> String {
    match f.rfind('!') {
        None => f.to_string(),
        Some(k) => format!("{}!{}", sheet_of_ref(f), &f[k + 1..]),
    }
}

/// ASCII punctuation that makes a sheet name need quotes in a formula, in a name without white space
fn needs_quotes_no_blank(name: &str) -> bool {
    !name.chars().any(|c| c.is_whitespace()) && name.chars().any(|c| c.is_ascii_punctuation() && c != '_' && c != '.')
}

fn project_image(im: &Image) -> Value {
    let from = im.get_from_marker_type();
    let (two, r2, c2, ro2, co2) = match im.get_to_marker_type() {
        Some(t) => (true, t.get_row() + 1, t.get_col() + 1, *t.get_row_off(), *t.get_col_off()),
        None => (false, 0, 0, 0, 0),
    };
    let ext = match im.get_one_cell_anchor() {
        Some(a) if !two => [clamp64(*a.get_extent().get_cx()), clamp64(*a.get_extent().get_cy())],
        _ => [0, 0],
    };
    json!({
        "r1": clamp(from.get_row() + 1), "c1": clamp(from.get_col() + 1), "r2": clamp(r2), "c2": clamp(c2), "two": two, "ext": ext,
        "off": [*from.get_col_off(), *from.get_row_off(), co2, ro2],
        "nm": im.get_image_name(), "dg": digest(im.get_image_data()),
    })
}

fn project_chart(ch: &Chart) -> Value {
    let a = ch.get_two_cell_anchor();
    let (f, t) = (a.get_from_marker(), a.get_to_marker());
    let mut copy = ch.clone();
    let chart = copy.get_chart_space_mut().get_chart_mut();
    let ser: Vec<String> = chart.get_formula_mut().iter().map(|x| x.get_address_str()).collect();
    let pa = chart.get_plot_area();
    let mut kinds: Vec<&str> = vec![];
    macro_rules! kind {
        ($get:ident, $name:expr) => {
            if pa.$get().is_some() {
                kinds.push($name);
            }
        };
    }
    kind!(get_area_3d_chart, "area3DChart");
    kind!(get_area_chart, "areaChart");
    kind!(get_bar_3d_chart, "bar3DChart");
    kind!(get_bar_chart, "barChart");
    kind!(get_bubble_chart, "bubbleChart");
    kind!(get_doughnut_chart, "doughnutChart");
    kind!(get_line_3d_chart, "line3DChart");
    kind!(get_line_chart, "lineChart");
    kind!(get_of_pie_chart, "ofPieChart");
    kind!(get_pie_3d_chart, "pie3DChart");
    kind!(get_pie_chart, "pieChart");
    kind!(get_radar_chart, "radarChart");
    kind!(get_scatter_chart, "scatterChart");
    let mut title = String::new();
    let mut trimmed = String::new();
    if let Some(t) = chart.get_title() {
        if let Some(ct) = t.get_chart_text() {
            for p in ct.get_rich_text().get_paragraph() {
                for r in p.get_run() {
                    title.push_str(r.get_text());
                    trimmed.push_str(r.get_text().trim_matches(|c| c == ' ' || c == '\t' || c == '\r' || c == '\n'));
                }
            }
        }
    }
    json!({
        "r1": clamp(f.get_row() + 1), "c1": clamp(f.get_col() + 1), "r2": clamp(t.get_row() + 1), "c2": clamp(t.get_col() + 1),
        "off": [*f.get_col_off(), *f.get_row_off(), *t.get_col_off(), *t.get_row_off()],
        "ct": kinds.join("+"), "refs": ser.iter().map(|x| sheet_of_ref(x)).collect::<Vec<String>>(),
        "qn": ser.iter().filter(|x| needs_quotes_no_blank(&sheet_of_ref(x))).count(),
        "ser": ser.iter().map(|x| canonical(x)).collect::<Vec<String>>(), "ti": title, "tt": trimmed,
    })
}

fn project_sheet(ws: &Worksheet) -> Value {
    let d = ws.get_worksheet_drawing();
    let imgs: Vec<Value> = ws.get_image_collection().iter().map(project_image).collect();
    let charts: Vec<Value> = ws.get_chart_collection().iter().map(project_chart).collect();
    let oth = d.get_one_cell_anchor_collection().len() + d.get_two_cell_anchor_collection().len() + ws.get_ole_objects().get_ole_object().len();
    json!({"name": ws.get_name(), "imgs": imgs, "charts": charts, "oth": oth})
}

/// projection of all sheets; a workbook with raw sheets is projected on a fully read clone
fn project(book: &Spreadsheet) -> Value {
    let mut copy = book.clone();
    copy.read_sheet_collection();
    Value::Array(copy.get_sheet_collection().iter().map(project_sheet).collect())
}

fn new_book(names: &[Value]) -> Spreadsheet {
    let mut book = umya_spreadsheet::new_file_empty_worksheet();
    for n in names {
        let name = n.as_str().unwrap();
        let ws = book.new_sheet(name).unwrap();
        // a few numbers for chart series to point at
        for r in 1..=4u32 {
            for c in 1..=3u32 {
                ws.get_cell_mut((c, r)).set_value_number((r * 10 + c) as f64);
            }
        }
    }
    book
}

fn init(src: &Value) -> Spreadsheet {
    match s(src, "kind") {
        "new" => new_book(src["sheets"].as_array().unwrap()),
        "file" => {
            let bytes = std::fs::read(s(src, "path")).expect("source file");
            umya_spreadsheet::reader::xlsx::read_reader(Cursor::new(bytes), !b(src, "lazy")).expect("load source")
        }
        k => panic!("unknown source kind {}", k),
    }
}

fn apply(book: &mut Spreadsheet, st: &Value) {
    let a = s(st, "a");
    match a {
        "AddSheet" => {
            book.new_sheet(s(st, "name")).unwrap();
            return;
        }
        "RemoveSheet" => {
            book.remove_sheet(u(st, "s") as usize - 1).unwrap();
            return;
        }
        "RenameSheet" => {
            book.set_sheet_name(u(st, "s") as usize - 1, s(st, "name")).unwrap();
            return;
        }
        _ => {}
    }
    let si = u(st, "s") as usize - 1;
    if (a == "Insert" || a == "Remove") && s(st, "lvl") == "wb" {
        let (p, n) = (u(st, "p"), u(st, "n"));
        let row = s(st, "ax") == "row";
        let name = book.get_sheet_collection_no_check()[si].get_name().to_string();
        match (a, row) {
            ("Insert", true) => book.insert_new_row(&name, &p, &n),
            ("Insert", false) => book.insert_new_column_by_index(&name, &p, &n),
            ("Remove", true) => book.remove_row(&name, &p, &n),
            _ => book.remove_column_by_index(&name, &p, &n),
        }
        return;
    }
    let ws = book.get_sheet_mut(&si).expect("sheet index");
    match a {
        "AddImage" => {
            let mut im = Image::default();
            im.new_image(s(st, "path"), marker(u(st, "r"), u(st, "c")));
            ws.add_image(im);
        }
        "AddChart" => {
            let c = &st["ch"];
            let given = if c.get("raw").is_some() { &c["raw"] } else { &c["ser"] };
            let ser: Vec<&str> = given.as_array().unwrap().iter().map(|x| x.as_str().unwrap()).collect();
            let mut ch = Chart::default();
            ch.new_chart(chart_type(s(c, "ct")), marker(u(c, "r1"), u(c, "c1")), marker(u(c, "r2"), u(c, "c2")), ser);
            if !s(c, "ti").is_empty() {
                ch.set_title(s(c, "ti"));
            }
            ws.add_chart(ch);
        }
        "ReadSheet" => {}
        "RemoveImage" => {
            ws.get_image_collection_mut().remove(u(st, "i") as usize - 1);
        }
        "RemoveChart" => {
            ws.get_chart_collection_mut().remove(u(st, "i") as usize - 1);
        }
        "ChangeImage" => {
            ws.get_image_collection_mut()[u(st, "i") as usize - 1].change_image(s(st, "path"));
        }
        "MoveImage" => {
            let im = &mut ws.get_image_collection_mut()[u(st, "i") as usize - 1];
            let (r, c) = (u(st, "r") - 1, u(st, "c") - 1);
            if let Some(an) = im.get_one_cell_anchor_mut() {
                an.get_from_marker_mut().set_row(r).set_col(c);
            } else if let Some(an) = im.get_two_cell_anchor_mut() {
                an.get_from_marker_mut().set_row(r).set_col(c);
            }
        }
        "MoveChart" => {
            let ch = &mut ws.get_chart_collection_mut()[u(st, "i") as usize - 1];
            let an = ch.get_two_cell_anchor_mut();
            an.get_from_marker_mut().set_row(u(st, "r1") - 1).set_col(u(st, "c1") - 1);
            an.get_to_marker_mut().set_row(u(st, "r2") - 1).set_col(u(st, "c2") - 1);
        }
        "Insert" | "Remove" => {
            let (p, n) = (u(st, "p"), u(st, "n"));
            let row = s(st, "ax") == "row";
            match (a, row) {
                ("Insert", true) => ws.insert_new_row(&p, &n),
                ("Insert", false) => ws.insert_new_column_by_index(&p, &n),
                ("Remove", true) => ws.remove_row(&p, &n),
                _ => ws.remove_column_by_index(&p, &n),
            }
        }
        _ => panic!("unknown step {}", a),
    }
}

fn observe(book: &Spreadsheet, e: &mut Value) {
    e["obs"] = match catch_unwind(AssertUnwindSafe(|| project(book))) {
        Ok(v) => v,
        Err(_) => {
            e["outcome"] = json!("panic");
            json!([])
        }
    };
}

fn run(case: &Value) -> Vec<Value> {
    let id = case["case"].clone();
    let idtxt = match &id {
        Value::String(x) => x.clone(),
        v => v.to_string(),
    };
    let tmp = case["tmp"].as_str().unwrap_or("/tmp").to_string();
    let steps = case["steps"].as_array().expect("steps");
    let mut events = vec![];
    let mut e0 = steps[0].clone();
    e0["case"] = id.clone();
    let mut book = match catch_unwind(AssertUnwindSafe(|| init(&steps[0]["src"]))) {
        Ok(b) => {
            e0["outcome"] = json!("ok");
            b
        }
        Err(_) => {
            e0["outcome"] = json!("panic");
            e0["obs"] = json!([]);
            return vec![e0];
        }
    };
    observe(&book, &mut e0);
    events.push(e0);
    let mut nsave = 0;
    for st in &steps[1..] {
        let mut e = st.clone();
        e["case"] = id.clone();
        if s(st, "a") == "Reload" {
            nsave += 1;
            let file = format!("{}/c{}-{}.xlsx", tmp, idtxt, nsave);
            let saved = catch_unwind(AssertUnwindSafe(|| {
                let mut buf: Vec<u8> = Vec::new();
                umya_spreadsheet::writer::xlsx::write_writer(&book, &mut buf).map(|_| buf)
            }));
            let mut sv = "ok";
            let mut ld = "none";
            e["file"] = json!("");
            match saved {
                Err(_) => sv = "panic",
                Ok(Err(_)) => sv = "err",
                Ok(Ok(bytes)) => {
                    std::fs::write(&file, &bytes).expect("write tmp file");
                    e["file"] = json!(file);
                    let eager = !b(st, "lazy");
                    match catch_unwind(AssertUnwindSafe(|| umya_spreadsheet::reader::xlsx::read_reader(Cursor::new(&bytes), eager))) {
                        Err(_) => ld = "panic",
                        Ok(Err(_)) => ld = "err",
                        Ok(Ok(nb)) => {
                            ld = "ok";
                            book = nb;
                        }
                    }
                }
            }
            e["sv"] = json!(sv);
            e["ld"] = json!(ld);
            e["outcome"] = json!(if sv == "ok" && ld == "ok" { "ok" } else { "fail" });
        } else {
            let outcome = match catch_unwind(AssertUnwindSafe(|| apply(&mut book, st))) {
                Ok(()) => "ok",
                Err(_) => "panic",
            };
            e["outcome"] = json!(outcome);
        }
        observe(&book, &mut e);
        events.push(e);
    }
    events
}
