//! Domain `styles` (C05): styles and dimensions of cells, rows and columns across save / reload.
//!
//! case = {"case": id, "steps": [ {"a":"Init","n":2},          n new workbooks (default 1)
//!           {"a":"Assign","w":1,"cells":[{"r","c","sty"}],"rows":[{"r","ht","ch","ord","hid","tb","dd","sty"}],"cols":[{"c","w","hid","bf","sty"}]},
//!                        (row: height, customHeight and the order of their two setters, hidden, thickBot, dyDescent; column: bestFit)
//!           {"a":"Import","w":1,"v":2,"items":[{"k":"cell"|"row"|"col","r","c","r2","c2"}]},
//!                        the Style of cell (r2,c2) of workbook v (get_style(..).clone()) is set on a carrier of workbook w
//!           {"a":"Save","w":1}, {"a":"Reload","w":1}, .. ]}      ("w" = workbook acted on, 1-based, default 1)
//! A style of a script (`sty`) is in *assigned form*: every component is [] (not given) or [record]:
//!   font  [{name,size,bold,italic,underline,strike,color,sch}]     size/tint travel as decimal strings
//!   fill  [{pattern,fg,bg}]           colour = {argb,theme,tint}, {"","0"-less} = no colour: argb "" and theme 0
//!   border[{left,right,top,bottom,diagonal:{style,color},up,down}]
//!   align [{h,v,wrap,rot}]   numFmt [{code,id}] (or ["code"]; the id is the model's, ignored here)   prot [{locked,hidden}]
//! Every step yields one event: the step's fields + "outcome" + "obs" = projection of the one sheet of workbook w
//! through public getters in *effective form* (a component that is absent is read as the default
//! component of Style::get_default_value(), as DESIGN.md Appendix A fixes it); Save adds "hex", the
//! bytes written (projected by pydec/styles_view.py before TLC sees the event).
//! The driver never judges.
use serde_json::{json, Value};
use std::io::Cursor;
use std::panic::{catch_unwind, AssertUnwindSafe};
use std::str::FromStr;
use umya_spreadsheet::structs::{
    Alignment, Border, BorderStyleValues, Color, EnumTrait, Fill, HorizontalAlignmentValues, PatternFill,
    PatternValues, Protection, Spreadsheet, Style, UnderlineValues, VerticalAlignmentValues, Worksheet,
};
use uverif::*;

fn main() {
    serve(run);
}

fn hex(b: &[u8]) -> String {
    let mut s = String::with_capacity(b.len() * 2);
    for x in b {
        s.push_str(&format!("{:02x}", x));
    }
    s
}

fn fnum(s: &str) -> f64 {
    s.parse::<f64>().unwrap_or_else(|_| panic!("bad number {}", s))
}

// ---------------------------------------------------------------------------------------------
// script -> library objects (public setters only)
// ---------------------------------------------------------------------------------------------
fn is_no_color(c: &Value) -> bool {
    s(c, "argb").is_empty() && u(c, "theme") == 0 && s(c, "tint") == "0"
}

fn make_color(c: &Value) -> Color {
    let mut col = Color::default();
    if !s(c, "argb").is_empty() {
        col.set_argb(s(c, "argb"));
    } else if u(c, "theme") > 0 {
        col.set_theme_index(u(c, "theme"));
    }
    if s(c, "tint") != "0" {
        col.set_tint(fnum(s(c, "tint")));
    }
    col
}

fn make_edge(e: &Value) -> Border {
    let mut b = Border::default();
    if s(e, "style") != "none" {
        b.set_style(BorderStyleValues::from_str(s(e, "style")).unwrap_or_else(|_| panic!("border style")));
    }
    if !is_no_color(&e["color"]) {
        b.set_color(make_color(&e["color"]));
    }
    b
}

fn make_style(st: &Value) -> Style {
    let mut style = Style::default();
    if let Some(f) = st["font"].as_array().and_then(|a| a.first()) {
        // what a user does: start from the default font of get_font_mut() and change attributes
        let font = style.get_font_mut();
        font.set_name(s(f, "name"));
        font.set_scheme(s(f, "sch"));
        font.set_size(fnum(s(f, "size")));
        if b(f, "bold") {
            font.set_bold(true);
        }
        if b(f, "italic") {
            font.set_italic(true);
        }
        if s(f, "underline") != "none" {
            font.set_underline(s(f, "underline"));
        }
        if b(f, "strike") {
            font.set_strikethrough(true);
        }
        font.set_color(make_color(&f["color"]));
    }
    if let Some(f) = st["fill"].as_array().and_then(|a| a.first()) {
        let mut pf = PatternFill::default();
        pf.set_pattern_type(PatternValues::from_str(s(f, "pattern")).unwrap_or_else(|_| panic!("pattern")));
        if !is_no_color(&f["fg"]) {
            *pf.get_foreground_color_mut() = make_color(&f["fg"]);
        }
        if !is_no_color(&f["bg"]) {
            *pf.get_background_color_mut() = make_color(&f["bg"]);
        }
        let mut fill = Fill::default();
        fill.set_pattern_fill(pf);
        style.set_fill(fill);
    }
    if let Some(bd) = st["border"].as_array().and_then(|a| a.first()) {
        // (the type of the borders component cannot be named outside the crate)
        let bs = style.get_borders_mut();
        bs.set_left(make_edge(&bd["left"]));
        bs.set_right(make_edge(&bd["right"]));
        bs.set_top(make_edge(&bd["top"]));
        bs.set_bottom(make_edge(&bd["bottom"]));
        bs.set_diagonal(make_edge(&bd["diagonal"]));
        if b(bd, "up") {
            bs.set_diagonal_up(true);
        }
        if b(bd, "down") {
            bs.set_diagonal_down(true);
        }
    }
    if let Some(a) = st["align"].as_array().and_then(|a| a.first()) {
        let mut al = Alignment::default();
        al.set_horizontal(HorizontalAlignmentValues::from_str(s(a, "h")).unwrap_or_else(|_| panic!("h")));
        al.set_vertical(VerticalAlignmentValues::from_str(s(a, "v")).unwrap_or_else(|_| panic!("v")));
        al.set_wrap_text(b(a, "wrap"));
        al.set_text_rotation(u(a, "rot"));
        style.set_alignment(al);
    }
    if let Some(code) = st["numFmt"].as_array().and_then(|a| a.first()) {
        // ["code"] or [{"code": .., "id": ..}] (the id is the model's bookkeeping: a format made through the
        // API carries no table id)
        let c = code.as_str().or_else(|| code["code"].as_str()).expect("code");
        style.get_number_format_mut().set_format_code(c);
    }
    if let Some(p) = st["prot"].as_array().and_then(|a| a.first()) {
        let mut pr = Protection::default();
        pr.set_locked(b(p, "locked"));
        pr.set_hidden(b(p, "hidden"));
        style.set_protection(pr);
    }
    style
}

// ---------------------------------------------------------------------------------------------
// library objects -> effective form (public getters only)
// ---------------------------------------------------------------------------------------------
fn show_f64(x: f64) -> String {
    format!("{}", x)
}

fn eff_color(c: Option<&Color>) -> Value {
    match c {
        None => json!({"argb": "", "theme": 0, "tint": "0"}),
        Some(c) => json!({"argb": c.get_argb(), "theme": (*c.get_theme_index()).min(1_000_000), "tint": show_f64(*c.get_tint())}),
    }
}

fn eff_edge(e: &Border) -> Value {
    json!({"style": e.get_border_style(), "color": eff_color(Some(e.get_color()))})
}

fn underline_str(v: &UnderlineValues) -> String {
    v.get_value_string().to_string()
}

fn eff_style(st: &Style, def: &Style) -> Value {
    let font = st.get_font().or(def.get_font()).expect("default font");
    let fill = st.get_fill().or(def.get_fill()).expect("default fill");
    let bord = st.get_borders().or(def.get_borders()).expect("default borders");
    let (pattern, fg, bg) = match fill.get_pattern_fill() {
        Some(p) => (
            p.get_pattern_type().get_value_string().to_string(),
            eff_color(p.get_foreground_color()),
            eff_color(p.get_background_color()),
        ),
        None => {
            if fill.get_gradient_fill().is_some() {
                ("gradient".to_string(), eff_color(None), eff_color(None))
            } else {
                ("none".to_string(), eff_color(None), eff_color(None))
            }
        }
    };
    let al = st.get_alignment().cloned().unwrap_or_default();
    let mut pr = st.get_protection().cloned().unwrap_or_default();
    let code = st.get_number_format().map(|n| n.get_format_code().to_string()).unwrap_or_else(|| "General".to_string());
    json!({
        "font": {"name": font.get_name(), "size": show_f64(*font.get_size()), "bold": font.get_bold(), "italic": font.get_italic(),
                 "underline": underline_str(font.get_font_underline().get_val()), "strike": font.get_strikethrough(),
                 "color": eff_color(Some(font.get_color()))},
        "fill": {"pattern": pattern, "fg": fg, "bg": bg},
        "border": {"left": eff_edge(bord.get_left()), "right": eff_edge(bord.get_right()), "top": eff_edge(bord.get_top()),
                   "bottom": eff_edge(bord.get_bottom()), "diagonal": eff_edge(bord.get_diagonal()),
                   "up": bord.get_diagonal_up(), "down": bord.get_diagonal_down()},
        "align": {"h": al.get_horizontal().get_value_string(), "v": al.get_vertical().get_value_string(),
                  "wrap": al.get_wrap_text(), "rot": (*al.get_text_rotation()).min(1_000_000)},
        "numFmt": code,
        "prot": {"locked": pr.get_locked(), "hidden": *pr.get_hidden()},
    })
}

const OOB: u32 = 2_000_000_000;

/// Cells, rows and columns whose effective formatting or dimension is not the default one.
fn project(ws: &Worksheet) -> Value {
    let def = Style::get_default_value();
    let plain = eff_style(&Style::default(), &def);
    let mut cells = vec![];
    for c in ws.get_cell_collection_sorted() {
        let co = c.get_coordinate();
        // observe_at: Worksheet::get_style
        let e = eff_style(ws.get_style((*co.get_col_num(), *co.get_row_num())), &def);
        if e != plain {
            cells.push(json!({"r": (*co.get_row_num()).min(OOB), "c": (*co.get_col_num()).min(OOB), "sty": e}));
        }
    }
    let mut rnums: Vec<u32> = ws.get_row_dimensions().iter().map(|r| *r.get_row_num()).collect();
    rnums.sort();
    let mut rows = vec![];
    for rn in rnums {
        if let Some(r) = ws.get_row_dimension(&rn) {
            let e = eff_style(r.get_style(), &def);
            let ht = show_f64(*r.get_height());
            let dd = show_f64(*r.get_descent());
            if ht != "0" || *r.get_hidden() || *r.get_custom_height() || *r.get_thick_bot() || dd != "0" || e != plain {
                rows.push(json!({"r": rn.min(OOB), "ht": ht, "hid": r.get_hidden(), "ch": r.get_custom_height(),
                                 "tb": r.get_thick_bot(), "dd": dd, "sty": e}));
            }
        }
    }
    let mut cnums: Vec<u32> = ws.get_column_dimensions().iter().map(|c| *c.get_col_num()).collect();
    cnums.sort();
    let mut cols = vec![];
    for cn in cnums {
        if let Some(c) = ws.get_column_dimension_by_number(&cn) {
            let e = eff_style(c.get_style(), &def);
            let w = show_f64(*c.get_width());
            if w != "8.38" || *c.get_hidden() || *c.get_best_fit() || e != plain {
                cols.push(json!({"c": cn.min(OOB), "w": w, "hid": c.get_hidden(), "bf": c.get_best_fit(), "sty": e}));
            }
        }
    }
    json!({"cells": cells, "rows": rows, "cols": cols})
}

fn project_book(book: &Spreadsheet) -> Value {
    match book.get_sheet(&0) {
        Some(ws) => project(ws),
        None => json!({"cells": [], "rows": [], "cols": []}),
    }
}

fn assign(book: &mut Spreadsheet, st: &Value) {
    let ws = book.get_sheet_mut(&0).expect("sheet");
    for r in st["rows"].as_array().unwrap() {
        let row = ws.get_row_dimension_mut(&u(r, "r"));
        // the two orders of the height setters: "hc" set_height, set_custom_height / "ch" the other way round
        // (set_height switches customHeight on); a height "0" means: no set_height call
        if s(r, "ord") == "ch" {
            row.set_custom_height(b(r, "ch"));
        }
        if s(r, "ht") != "0" {
            row.set_height(fnum(s(r, "ht")));
        }
        if s(r, "ord") != "ch" {
            row.set_custom_height(b(r, "ch"));
        }
        row.set_hidden(b(r, "hid"));
        row.set_thick_bot(b(r, "tb"));
        if s(r, "dd") != "0" {
            row.set_descent(fnum(s(r, "dd")));
        }
        row.set_style(make_style(&r["sty"]));
    }
    for c in st["cols"].as_array().unwrap() {
        let col = ws.get_column_dimension_by_number_mut(&u(c, "c"));
        col.set_width(fnum(s(c, "w")));
        col.set_hidden(b(c, "hid"));
        col.set_best_fit(b(c, "bf"));
        col.set_style(make_style(&c["sty"]));
    }
    for c in st["cells"].as_array().unwrap() {
        ws.set_style((u(c, "c"), u(c, "r")), make_style(&c["sty"]));
    }
}

/// Import: the `Style` of a cell of workbook v (what get_style returns, cloned) is set on a cell, row or
/// column of workbook w - what copying formats from a template workbook does.
fn import(books: &mut [Spreadsheet], w: usize, v: usize, st: &Value) {
    for it in st["items"].as_array().unwrap() {
        let style = books[v].get_sheet(&0).expect("sheet").get_style((u(it, "c2"), u(it, "r2"))).clone();
        let ws = books[w].get_sheet_mut(&0).expect("sheet");
        match s(it, "k") {
            "cell" => {
                ws.set_style((u(it, "c"), u(it, "r")), style);
            }
            "row" => {
                ws.get_row_dimension_mut(&u(it, "r")).set_style(style);
            }
            "col" => {
                ws.get_column_dimension_by_number_mut(&u(it, "c")).set_style(style);
            }
            k => panic!("unknown import target {}", k),
        }
    }
}

fn run(case: &Value) -> Vec<Value> {
    let id = case["case"].clone();
    let steps = case["steps"].as_array().expect("steps");
    // workbook objects of the case (1-based "w" in the steps; a step without "w" means workbook 1)
    let mut books: Vec<Spreadsheet> = vec![umya_spreadsheet::new_file()];
    let mut files: Vec<Option<Vec<u8>>> = vec![None];
    let mut events = vec![];
    // every font name seen in this case (the default font included), for the "names" table of Reload
    let mut names: std::collections::BTreeSet<String> = std::collections::BTreeSet::new();
    names.insert("Calibri".to_string());
    for st in steps {
        let a = s(st, "a");
        let w = st.get("w").and_then(|x| x.as_u64()).unwrap_or(1) as usize - 1;
        let mut hexout = String::new();
        let r = catch_unwind(AssertUnwindSafe(|| -> Result<(), String> {
            match a {
                "Init" => {
                    let n = st.get("n").and_then(|x| x.as_u64()).unwrap_or(1) as usize;
                    books = (0..n).map(|_| umya_spreadsheet::new_file()).collect();
                    files = vec![None; n];
                }
                "Assign" => assign(&mut books[w], st),
                "Import" => {
                    let v = u(st, "v") as usize - 1;
                    import(&mut books, w, v, st);
                }
                "Save" => {
                    let mut buf: Vec<u8> = Vec::new();
                    umya_spreadsheet::writer::xlsx::write_writer(&books[w], &mut buf).map_err(|e| format!("{:?}", e))?;
                    hexout = hex(&buf);
                    files[w] = Some(buf);
                }
                "Reload" => {
                    let data = files[w].clone().ok_or("never saved")?;
                    books[w] = umya_spreadsheet::reader::xlsx::read_reader(Cursor::new(data), true).map_err(|e| format!("{:?}", e))?;
                }
                _ => panic!("unknown step {}", a),
            }
            Ok(())
        }));
        let mut outcome = match r {
            Ok(Ok(())) => "ok",
            Ok(Err(_)) => "err",
            Err(_) => "panic",
        };
        let mut e = st.clone();
        e["case"] = id.clone();
        e["w"] = json!(w + 1);
        // the workbook the step acted on
        e["obs"] = match catch_unwind(AssertUnwindSafe(|| project_book(&books[w]))) {
            Ok(v) => v,
            Err(_) => {
                outcome = "panic";
                json!({"cells": [], "rows": [], "cols": []})
            }
        };
        e["outcome"] = json!(outcome);
        for kind in ["cells", "rows", "cols"] {
            for x in e["obs"][kind].as_array().unwrap() {
                names.insert(s(&x["sty"]["font"], "name").to_string());
            }
        }
        if a == "Save" {
            e["hex"] = json!(hexout);
        }
        if a == "Reload" {
            // the names as characters: TLC cannot look inside a string (it checks s = concatenation of chars)
            e["names"] = Value::Array(
                names
                    .iter()
                    .map(|n| json!({"s": n, "chars": n.chars().map(|c| c.to_string()).collect::<Vec<_>>()}))
                    .collect(),
            );
        }
        events.push(e);
    }
    events
}
