//! Domain `resave` (C04): re-saving is stable (spec/Resave.tla, spec/Trace_Resave.tla).
//!
//! case = {"case": id, "src": {"kind":"corpus","path":"/repo/tests/test_files/aaa.xlsx","name":"aaa.xlsx"}
//!                          | {"kind":"gen","wb":{..workbook description, see `build`..}}
//!                          | {"kind":"hex","hex":"<the bytes of a file built by checks/c04.py from a TLC behaviour>","name":".."},
//!         "gens": 3, "light": false,
//!         "edit": [] | [{"si": 0-based sheet pick, "mode": "existing"|"at"|"class" (+ "class": a cell class, see run)
//!                        |"echo" (+ "echo": "plain-of-rich"|"rich-of-plain"|"rich-of-rich", "where": "before"|"after": the cell
//!                        next to the pick-th rich / plain string cell gets the same characters in the other kind / in other runs;
//!                        without such a cell the edit falls back to mode "at"), "pick": n, "r": .., "c": ..,
//!                        "k": "text"|"num"|"bool"|"formula", "v": "..", "b": "<16 hex digits>"}]}
//!
//! Protocol of one case (every step is one event; the driver never judges):
//!   Load        the original bytes (corpus file, or the generated workbook saved once) are read with
//!               read_reader(.., true): "obs" = full projection through public getters (generation 0),
//!               "hex" = the original bytes
//!   Resave A,1  the loaded workbook is saved (write_writer / write_writer_light) and the bytes are loaded:
//!               "obs" = projection of generation 1, "hex" = the bytes written
//!   SaveTwice   the same, unchanged generation-0 workbook object is saved a second time; the bytes are loaded:
//!               "obs", "hex"
//!   Resave A,2..n   save generation k-1, load it: "obs", "hex"
//!   Edit        (for every edit of the case) the original bytes are loaded afresh and one cell is edited through
//!               get_cell_mut + set_value_*: "s","r","c" = the cell, "cell" = its projection right after the edit,
//!               "orphans" = if the cell was the master of a shared formula (Cell::get_formula_obj: type shared with a
//!               ref), the coordinates of the other cells with the same Cell::get_formula_shared_index, else []
//!   Resave B,1..n   as chain A, starting from the edited workbook
//! "outcome" of every event: "ok" | "unreadable" (Load only: the library rejects the original) |
//! "save-err" | "save-panic" | "load-err" | "load-panic" | "project-panic" | "edit-panic".
//! After an outcome other than "ok" the case stops.
//!
//! Projection: see `project`.  Style digests: a cell/row/column carries "s" = 16 hex digits (FNV-1a 64 of
//! the JSON text of its effective style, the form of C05's driver); the event's "sty" table maps every
//! digest that occurs to that JSON text (diagnostics only).  Numbers that are not small integers travel
//! as strings.  checks/c04.py replaces every "hex" by pydec/resave_view.py's view of the bytes.
use serde_json::{json, Map, Value};
use std::collections::BTreeMap;
use std::io::Cursor;
use std::panic::{catch_unwind, AssertUnwindSafe};
use std::str::FromStr;
use umya_spreadsheet::structs::*;
use uverif::*;

fn main() {
    serve(run);
}

fn hex(b: &[u8]) -> String {
    const H: &[u8; 16] = b"0123456789abcdef";
    let mut s = String::with_capacity(b.len() * 2);
    for x in b {
        s.push(H[(x >> 4) as usize] as char);
        s.push(H[(x & 15) as usize] as char);
    }
    s
}

fn fnv(s: &str) -> String {
    let mut h: u64 = 0xcbf29ce484222325;
    for b in s.as_bytes() {
        h ^= *b as u64;
        h = h.wrapping_mul(0x100000001b3);
    }
    format!("{:016x}", h)
}

fn fnv_bytes(s: &[u8]) -> String {
    let mut h: u64 = 0xcbf29ce484222325;
    for b in s {
        h ^= *b as u64;
        h = h.wrapping_mul(0x100000001b3);
    }
    format!("{:016x}", h)
}

const OOB: u32 = 2_000_000_000;
fn cl(x: u32) -> u32 {
    x.min(OOB)
}
fn show(x: f64) -> String {
    format!("{}", x)
}
fn so<'a>(v: &'a Value, k: &str) -> &'a str {
    v.get(k).and_then(|x| x.as_str()).unwrap_or("")
}
fn bo(v: &Value, k: &str) -> bool {
    v.get(k).and_then(|x| x.as_bool()).unwrap_or(false)
}
fn io(v: &Value, k: &str) -> i64 {
    v.get(k).and_then(|x| x.as_i64()).unwrap_or(-1)
}
fn arr<'a>(v: &'a Value, k: &str) -> &'a [Value] {
    v.get(k).and_then(|x| x.as_array()).map(|x| x.as_slice()).unwrap_or(&[])
}

// ------------------------------------------------------------------------------------------------
// effective style (copied from harness/src/bin/styles.rs, C05) + digest
// ------------------------------------------------------------------------------------------------
fn eff_color(c: Option<&Color>) -> Value {
    match c {
        None => json!({"argb": "", "theme": 0, "tint": "0"}),
        Some(c) => json!({"argb": c.get_argb(), "theme": (*c.get_theme_index()).min(1_000_000), "tint": show(*c.get_tint())}),
    }
}

fn eff_edge(e: &Border) -> Value {
    json!({"style": e.get_border_style(), "color": eff_color(Some(e.get_color()))})
}

fn font_json(font: &Font) -> Value {
    json!({"name": font.get_name(), "size": show(*font.get_size()), "bold": font.get_bold(), "italic": font.get_italic(),
           "underline": font.get_font_underline().get_val().get_value_string(), "strike": font.get_strikethrough(),
           "color": eff_color(Some(font.get_color()))})
}

fn eff_style(st: &Style, def: &Style) -> Value {
    let font = st.get_font().or(def.get_font()).expect("default font");
    let fill = st.get_fill().or(def.get_fill()).expect("default fill");
    let bord = st.get_borders().or(def.get_borders()).expect("default borders");
    let (pattern, fg, bg) = match fill.get_pattern_fill() {
        Some(p) => (
            p.get_pattern_type().get_value_string().to_string(),
            eff_color(p.get_foreground_color()),
            eff_color(p.get_background_color()),
        ),
        None => {
            if fill.get_gradient_fill().is_some() {
                ("gradient".to_string(), eff_color(None), eff_color(None))
            } else {
                ("none".to_string(), eff_color(None), eff_color(None))
            }
        }
    };
    let al = st.get_alignment().cloned().unwrap_or_default();
    let mut pr = st.get_protection().cloned().unwrap_or_default();
    let code = st.get_number_format().map(|n| n.get_format_code().to_string()).unwrap_or_else(|| "General".to_string());
    json!({
        "font": font_json(font),
        "fill": {"pattern": pattern, "fg": fg, "bg": bg},
        "border": {"left": eff_edge(bord.get_left()), "right": eff_edge(bord.get_right()), "top": eff_edge(bord.get_top()),
                   "bottom": eff_edge(bord.get_bottom()), "diagonal": eff_edge(bord.get_diagonal()),
                   "up": bord.get_diagonal_up(), "down": bord.get_diagonal_down()},
        "align": {"h": al.get_horizontal().get_value_string(), "v": al.get_vertical().get_value_string(),
                  "wrap": al.get_wrap_text(), "rot": (*al.get_text_rotation()).min(1_000_000)},
        "numFmt": code,
        "prot": {"locked": pr.get_locked(), "hidden": *pr.get_hidden()},
    })
}

struct Styles {
    def: Style,
    table: BTreeMap<String, String>,
    plain: String,
}
impl Styles {
    fn new() -> Self {
        let def = Style::get_default_value();
        let plain = eff_style(&Style::default(), &def).to_string();
        let mut table = BTreeMap::new();
        table.insert(fnv(&plain), plain.clone());
        Styles { def, table, plain }
    }
    fn digest(&mut self, st: &Style) -> String {
        let j = eff_style(st, &self.def).to_string();
        let h = fnv(&j);
        self.table.entry(h.clone()).or_insert(j);
        h
    }
    fn plain_digest(&self) -> String {
        fnv(&self.plain)
    }
    fn to_json(&self) -> Value {
        Value::Array(self.table.iter().map(|(h, j)| json!({"h": h, "j": j})).collect())
    }
}

// ------------------------------------------------------------------------------------------------
// projection (public getters only)
// ------------------------------------------------------------------------------------------------
fn kind_of(v: &CellRawValue) -> &'static str {
    match v {
        CellRawValue::String(_) => "text",
        CellRawValue::RichText(_) => "rich",
        CellRawValue::Numeric(_) => "num",
        CellRawValue::Bool(_) => "bool",
        CellRawValue::Error(_) => "err",
        CellRawValue::Empty => "blank",
        CellRawValue::Lazy(_) => "lazy",
    }
}

fn rich_digest(rt: &RichText) -> String {
    let runs: Vec<Value> = rt
        .get_rich_text_elements()
        .iter()
        .map(|te| json!({"t": te.get_text(), "font": te.get_font().map(font_json).unwrap_or(json!("none"))}))
        .collect();
    Value::Array(runs).to_string()
}

fn project_cell(c: &Cell, st: &mut Styles) -> Value {
    let co = c.get_coordinate();
    let rt = match c.get_raw_value() {
        CellRawValue::RichText(r) => rich_digest(r),
        _ => String::new(),
    };
    json!({
        "r": cl(*co.get_row_num()), "c": cl(*co.get_col_num()),
        "k": kind_of(c.get_raw_value()),
        "v": c.get_value().to_string(),
        "b": c.get_value_number().map(f64_bits).unwrap_or_default(),
        "f": c.get_formula(),
        "rt": rt,
        "s": st.digest(c.get_style()),
    })
}

fn name_of(d: &DefinedName) -> Value {
    json!({"name": d.get_name(), "addr": d.get_address(),
           "local": if d.has_local_sheet_id() { *d.get_local_sheet_id() as i64 } else { -1 },
           "hidden": *d.get_hidden()})
}

fn coord_pair(a: &Coordinate) -> String {
    a.get_coordinate()
}

fn project_sheet(ws: &Worksheet, st: &mut Styles) -> Value {
    let mut cells = vec![];
    let mut links = vec![];
    let mut all: Vec<&Cell> = ws.get_cell_collection();
    all.sort_by_key(|c| (*c.get_coordinate().get_row_num(), *c.get_coordinate().get_col_num()));
    for c in all {
        cells.push(project_cell(c, st));
        if let Some(h) = c.get_hyperlink() {
            links.push(json!({"cell": c.get_coordinate().get_coordinate(), "url": h.get_url(), "loc": *h.get_location(),
                              "tip": h.get_tooltip()}));
        }
    }
    let mut rnums: Vec<u32> = ws.get_row_dimensions().iter().map(|r| *r.get_row_num()).collect();
    rnums.sort();
    let mut rows = vec![];
    for rn in rnums {
        if let Some(r) = ws.get_row_dimension(&rn) {
            rows.push(json!({"r": cl(rn), "ht": show(*r.get_height()), "hid": *r.get_hidden(), "custom": *r.get_custom_height(),
                             "thick": *r.get_thick_bot(), "desc": show(*r.get_descent()), "s": st.digest(r.get_style())}));
        }
    }
    let mut cnums: Vec<u32> = ws.get_column_dimensions().iter().map(|c| *c.get_col_num()).collect();
    cnums.sort();
    let mut cols = vec![];
    for cn in cnums {
        if let Some(c) = ws.get_column_dimension_by_number(&cn) {
            cols.push(json!({"c": cl(cn), "w": show(*c.get_width()), "hid": *c.get_hidden(), "best": *c.get_best_fit(),
                             "s": st.digest(c.get_style())}));
        }
    }
    let mut merges: Vec<String> = ws.get_merge_cells().iter().map(|r| r.get_range()).collect();
    merges.sort();
    let mut comments: Vec<Value> = ws
        .get_comments()
        .iter()
        .map(|c| {
            json!({"r": cl(*c.get_coordinate().get_row_num()), "c": cl(*c.get_coordinate().get_col_num()),
                   "author": c.get_author(), "text": c.get_text().get_text().to_string(),
                   "rt": fnv(&rich_digest(c.get_text()))})
        })
        .collect();
    comments.sort_by_key(|x| (x["r"].as_u64(), x["c"].as_u64()));
    let dvs: Vec<Value> = match ws.get_data_validations() {
        None => vec![],
        Some(d) => d
            .get_data_validation_list()
            .iter()
            .map(|v| {
                json!({"sqref": v.get_sequence_of_references().get_sqref(), "type": v.get_type().get_value_string(),
                       "op": v.get_operator().get_value_string(), "blank": *v.get_allow_blank(),
                       "showin": *v.get_show_input_message(), "showerr": *v.get_show_error_message(),
                       "ptitle": v.get_prompt_title(), "prompt": v.get_prompt(), "etitle": v.get_error_title(),
                       "emsg": v.get_error_message(), "f1": v.get_formula1(), "f2": v.get_formula2()})
            })
            .collect(),
    };
    let cfs: Vec<Value> = ws
        .get_conditional_formatting_collection()
        .iter()
        .map(|x| {
            let rules: Vec<Value> = x
                .get_conditional_collection()
                .iter()
                .map(|r| {
                    json!({"type": r.get_type().get_value_string(), "op": r.get_operator().get_value_string(),
                           "prio": *r.get_priority(), "stop": *r.get_stop_if_true(),
                           "hasf": r.get_formula().is_some(),
                           "f": r.get_formula().map(|f| f.get_address_str()).unwrap_or_default(),
                           "text": r.get_text(),
                           "sty": r.get_style().map(|s| st.digest(s)).unwrap_or_default()})
                })
                .collect();
            json!({"sqref": x.get_sequence_of_references().get_sqref(), "rules": rules})
        })
        .collect();
    let af: Vec<Value> = ws.get_auto_filter().iter().map(|a| json!(a.get_range().get_range())).collect();
    let tab: Vec<Value> = ws.get_tab_color().iter().map(|c| json!(c.get_argb())).collect();
    let views: Vec<Value> = ws
        .get_sheets_views()
        .get_sheet_view_list()
        .iter()
        .map(|v| {
            let pane: Vec<Value> = v
                .get_pane()
                .iter()
                .map(|p| {
                    json!({"xs": show(*p.get_horizontal_split()), "ys": show(*p.get_vertical_split()),
                           "tl": coord_pair(p.get_top_left_cell()), "ap": p.get_active_pane().get_value_string(),
                           "st": p.get_state().get_value_string()})
                })
                .collect();
            let sel: Vec<Value> = v
                .get_selection()
                .iter()
                .map(|s| {
                    json!({"pane": s.get_pane().get_value_string(),
                           "cell": s.get_active_cell().map(coord_pair).unwrap_or_default(),
                           "sqref": s.get_sequence_of_references().get_sqref()})
                })
                .collect();
            json!({"pane": pane, "sel": sel, "tl": v.get_top_left_cell(), "tabsel": *v.get_tab_selected(),
                   "zoom": *v.get_zoom_scale() as i64, "grid": *v.get_show_grid_lines()})
        })
        .collect();
    let ps = ws.get_page_setup();
    let pm = ws.get_page_margins();
    let po = ws.get_print_options();
    let hf = ws.get_header_footer();
    let sf = ws.get_sheet_format_properties();
    let prot: Vec<Value> = ws
        .get_sheet_protection()
        .iter()
        .map(|p| {
            json!({"sheet": *p.get_sheet(), "objects": *p.get_objects(), "scenarios": *p.get_scenarios(),
                   "formatCells": *p.get_format_cells(), "formatColumns": *p.get_format_columns(), "formatRows": *p.get_format_rows(),
                   "insertColumns": *p.get_insert_columns(), "insertRows": *p.get_insert_rows(),
                   "insertHyperlinks": *p.get_insert_hyperlinks(), "deleteColumns": *p.get_delete_columns(),
                   "deleteRows": *p.get_delete_rows(), "selectLocked": *p.get_select_locked_cells(),
                   "selectUnlocked": *p.get_select_unlocked_cells(), "sort": *p.get_sort(), "autoFilter": *p.get_auto_filter(),
                   "pivotTables": *p.get_pivot_tables(),
                   "alg": p.get_algorithm_name(), "hash": p.get_hash_value(), "salt": p.get_salt_value(),
                   "spin": (*p.get_spin_count()).min(OOB) as i64, "legacy": p.get_password_raw()})
        })
        .collect();
    let mut names: Vec<Value> = ws.get_defined_names().iter().map(name_of).collect();
    names.sort_by_key(|x| x.to_string());
    let tables: Vec<Value> = ws
        .get_tables()
        .iter()
        .map(|t| {
            let cols: Vec<Value> = t
                .get_columns()
                .iter()
                .map(|c| {
                    json!({"name": c.get_name(), "label": c.get_totals_row_label().unwrap_or(""),
                           "fn": c.get_totals_row_function().get_value_string(),
                           "calc": c.get_calculated_column_formula().cloned().unwrap_or_default()})
                })
                .collect();
            let si: Vec<Value> = t
                .get_style_info()
                .iter()
                .map(|s| {
                    json!({"name": s.get_name(), "first": s.is_show_first_col(), "last": s.is_show_last_col(),
                           "rows": s.is_show_row_stripes(), "cols": s.is_show_col_stripes()})
                })
                .collect();
            json!({"name": t.get_name(), "display": t.get_display_name(),
                   "area": format!("{}:{}", t.get_area().0.get_coordinate(), t.get_area().1.get_coordinate()),
                   "cols": cols, "style": si, "totals": *t.get_totals_row_shown(), "tcount": (*t.get_totals_row_count()).min(OOB)})
        })
        .collect();
    let images: Vec<Value> = ws
        .get_image_collection()
        .iter()
        .map(|i| json!({"name": i.get_image_name(), "at": i.get_coordinate(), "len": i.get_image_data().len().min(OOB as usize),
                        "h": fnv_bytes(i.get_image_data())}))
        .collect();
    let charts: Vec<Value> = ws.get_chart_collection().iter().map(|c| json!(c.get_coordinate())).collect();
    let wd = ws.get_worksheet_drawing();
    json!({"name": ws.get_name(), "state": ws.get_state().get_value_string(), "code": ws.get_code_name().unwrap_or(""),
           "cells": cells, "rows": rows, "cols": cols,
           "merges": merges, "links": links, "comments": comments, "dvs": dvs, "cfs": cfs, "af": af, "tab": tab,
           "views": views,
           "ps": {"paper": *ps.get_paper_size() as i64, "orient": ps.get_orientation().get_value_string(),
                  "scale": *ps.get_scale() as i64, "fith": *ps.get_fit_to_height() as i64, "fitw": *ps.get_fit_to_width() as i64,
                  "hdpi": *ps.get_horizontal_dpi() as i64, "vdpi": *ps.get_vertical_dpi() as i64},
           "pm": {"l": show(*pm.get_left()), "r": show(*pm.get_right()), "t": show(*pm.get_top()), "b": show(*pm.get_bottom()),
                  "h": show(*pm.get_header()), "f": show(*pm.get_footer())},
           "po": {"hc": *po.get_horizontal_centered(), "vc": *po.get_vertical_centered()},
           "hf": {"h": hf.get_odd_header().get_value(), "f": hf.get_odd_footer().get_value()},
           "sf": {"dw": show(*sf.get_default_column_width()), "dh": show(*sf.get_default_row_height()),
                  "ch": *sf.get_custom_height(), "olc": *sf.get_outline_level_column() as i64, "olr": *sf.get_outline_level_row() as i64},
           "prot": prot, "names": names, "tables": tables,
           "draw": {"images": images, "charts": charts, "shapes": wd.get_shape_collection().len(),
                    "conn": wd.get_connection_shape_collection().len(), "ole": ws.get_ole_objects().get_ole_object().len(),
                    "pivots": ws.get_pivot_tables().len()},
           "brk": {"rows": ws.get_row_breaks().get_break_list().iter().map(|b| (*b.get_id()).min(OOB)).collect::<Vec<u32>>(),
                   "cols": ws.get_column_breaks().get_break_list().iter().map(|b| (*b.get_id()).min(OOB)).collect::<Vec<u32>>()}})
}

fn project(book: &Spreadsheet) -> (Value, Value) {
    let mut st = Styles::new();
    let sheets: Vec<Value> = book.get_sheet_collection().iter().map(|ws| project_sheet(ws, &mut st)).collect();
    let active = *book.get_workbook_view().get_active_tab() as i64;
    let wbprot: Vec<Value> = book
        .get_workbook_protection()
        .iter()
        .map(|p| {
            json!({"lockStructure": *p.get_lock_structure(), "lockWindows": *p.get_lock_windows(), "lockRevision": *p.get_lock_revision(),
                   "alg": p.get_workbook_algorithm_name(), "hash": p.get_workbook_hash_value(), "salt": p.get_workbook_salt_value(),
                   "spin": (*p.get_workbook_spin_count()).min(OOB) as i64, "legacy": p.get_workbook_password_raw(),
                   "ralg": p.get_revisions_algorithm_name(), "rhash": p.get_revisions_hash_value(),
                   "rsalt": p.get_revisions_salt_value(), "rspin": (*p.get_revisions_spin_count()).min(OOB) as i64})
        })
        .collect();
    let mut names: Vec<Value> = book.get_defined_names().iter().map(name_of).collect();
    names.sort_by_key(|x| x.to_string());
    let p = book.get_properties();
    let custom: Vec<Value> = p
        .get_custom_properties()
        .get_custom_document_property_list()
        .iter()
        .map(|c| json!({"name": c.get_name(), "value": c.get_value().to_string(), "link": c.get_link_target()}))
        .collect();
    let props = json!({"creator": p.get_creator(), "lastModifiedBy": p.get_last_modified_by(), "created": p.get_created(),
                       "modified": p.get_modified(), "title": p.get_title(), "description": p.get_description(),
                       "subject": p.get_subject(), "keywords": p.get_keywords(), "revision": p.get_revision(),
                       "category": p.get_category(), "version": p.get_version(), "manager": p.get_manager(),
                       "company": p.get_company(), "custom": custom});
    let obs = json!({"sheets": sheets, "active": active, "names": names, "prot": wbprot, "props": props,
                     "macros": book.get_has_macros(), "plain": st.plain_digest()});
    (obs, st.to_json())
}

fn empty_obs() -> Value {
    json!({"sheets": [], "active": -1, "names": [], "prot": [], "props": {}, "macros": false, "plain": ""})
}

// ------------------------------------------------------------------------------------------------
// generated workbooks (public API only)
// ------------------------------------------------------------------------------------------------
fn make_color(argb: &str) -> Color {
    let mut c = Color::default();
    c.set_argb(argb);
    c
}

fn apply_style(style: &mut Style, sp: &Value) {
    if let Some(f) = sp.get("font") {
        let font = style.get_font_mut();
        if !so(f, "name").is_empty() {
            font.set_name(so(f, "name"));
        }
        if !so(f, "size").is_empty() {
            font.set_size(so(f, "size").parse::<f64>().expect("size"));
        }
        if bo(f, "bold") {
            font.set_bold(true);
        }
        if bo(f, "italic") {
            font.set_italic(true);
        }
        if !so(f, "color").is_empty() {
            font.set_color(make_color(so(f, "color")));
        }
    }
    if !so(sp, "numfmt").is_empty() {
        style.get_number_format_mut().set_format_code(so(sp, "numfmt"));
    }
    if !so(sp, "fill").is_empty() {
        style.set_background_color(so(sp, "fill"));
    }
    if !so(sp, "halign").is_empty() {
        style
            .get_alignment_mut()
            .set_horizontal(HorizontalAlignmentValues::from_str(so(sp, "halign")).expect("halign"));
    }
    if bo(sp, "wrap") {
        style.get_alignment_mut().set_wrap_text(true);
    }
    if !so(sp, "border").is_empty() {
        let mut b = Border::default();
        b.set_style(BorderStyleValues::from_str(so(sp, "border")).expect("border style"));
        style.get_borders_mut().set_bottom(b);
    }
}

fn set_cell_value(cell: &mut Cell, c: &Value) {
    let v = so(c, "v");
    match so(c, "k") {
        "blank" => {}
        "text" => {
            cell.set_value_string(v);
        }
        "num" => {
            cell.set_value_number(f64_from_bits(so(c, "b")));
        }
        "bool" => {
            cell.set_value_bool(v == "TRUE");
        }
        "err" => {
            cell.set_error(v);
        }
        "rich" => {
            let mut rt = RichText::default();
            for run in arr(c, "runs") {
                let mut te = TextElement::default();
                te.set_text(run[0].as_str().unwrap());
                if run[1].as_bool().unwrap() {
                    te.get_font_mut().set_bold(true);
                }
                rt.add_rich_text_elements(te);
            }
            cell.set_rich_text(rt);
        }
        other => panic!("unknown kind {}", other),
    }
    if !so(c, "f").is_empty() {
        cell.set_formula(so(c, "f"));
    }
}

fn build(wb: &Value) -> Spreadsheet {
    let mut book = umya_spreadsheet::new_file_empty_worksheet();
    for sh in arr(wb, "sheets") {
        let ws = book.new_sheet(so(sh, "name")).expect("sheet name");
        if !so(sh, "state").is_empty() {
            ws.set_state(SheetStateValues::from_str(so(sh, "state")).expect("state"));
        }
        for c in arr(sh, "cells") {
            let cell = ws.get_cell_mut((u(c, "c"), u(c, "r")));
            set_cell_value(cell, c);
            if let Some(sp) = c.get("sty") {
                apply_style(cell.get_style_mut(), sp);
            }
        }
        for r in arr(sh, "rows") {
            let row = ws.get_row_dimension_mut(&u(r, "r"));
            if !so(r, "ht").is_empty() {
                row.set_height(so(r, "ht").parse::<f64>().expect("ht"));
            }
            if bo(r, "hid") {
                row.set_hidden(true);
            }
            if let Some(sp) = r.get("sty") {
                apply_style(row.get_style_mut(), sp);
            }
        }
        for c in arr(sh, "cols") {
            let col = ws.get_column_dimension_by_number_mut(&u(c, "c"));
            if !so(c, "w").is_empty() {
                col.set_width(so(c, "w").parse::<f64>().expect("w"));
            }
            if bo(c, "hid") {
                col.set_hidden(true);
            }
            if let Some(sp) = c.get("sty") {
                apply_style(col.get_style_mut(), sp);
            }
        }
        for m in arr(sh, "merges") {
            ws.add_merge_cells(m.as_str().unwrap());
        }
        for l in arr(sh, "links") {
            let mut h = Hyperlink::default();
            h.set_url(so(l, "url")).set_location(bo(l, "loc"));
            if !so(l, "tip").is_empty() {
                h.set_tooltip(so(l, "tip"));
            }
            ws.get_cell_mut(so(l, "cell")).set_hyperlink(h);
        }
        for c in arr(sh, "comments") {
            let mut cm = Comment::default();
            cm.new_comment((u(c, "c"), u(c, "r")));
            cm.set_author(so(c, "author"));
            cm.set_text_string(so(c, "text"));
            ws.add_comments(cm);
        }
        for d in arr(sh, "dvs") {
            let mut v = DataValidation::default();
            v.set_type(so(d, "type").parse().expect("dv type"));
            if !so(d, "op").is_empty() {
                v.set_operator(so(d, "op").parse().expect("dv op"));
            }
            v.get_sequence_of_references_mut().set_sqref(so(d, "sqref"));
            if bo(d, "blank") {
                v.set_allow_blank(true);
            }
            if bo(d, "showin") {
                v.set_show_input_message(true);
            }
            if bo(d, "showerr") {
                v.set_show_error_message(true);
            }
            if !so(d, "ptitle").is_empty() {
                v.set_prompt_title(so(d, "ptitle"));
            }
            if !so(d, "prompt").is_empty() {
                v.set_prompt(so(d, "prompt"));
            }
            if !so(d, "etitle").is_empty() {
                v.set_error_title(so(d, "etitle"));
            }
            if !so(d, "emsg").is_empty() {
                v.set_error_message(so(d, "emsg"));
            }
            if !so(d, "f1").is_empty() {
                v.set_formula1(so(d, "f1"));
            }
            if !so(d, "f2").is_empty() {
                v.set_formula2(so(d, "f2"));
            }
            if ws.get_data_validations().is_none() {
                ws.set_data_validations(DataValidations::default());
            }
            ws.get_data_validations_mut().unwrap().add_data_validation_list(v);
        }
        for x in arr(sh, "cfs") {
            let mut cf = ConditionalFormatting::default();
            cf.get_sequence_of_references_mut().set_sqref(so(x, "sqref"));
            for r in arr(x, "rules") {
                let mut rule = ConditionalFormattingRule::default();
                rule.set_type(so(r, "type").parse().expect("cf type"));
                if !so(r, "op").is_empty() {
                    rule.set_operator(so(r, "op").parse().expect("cf op"));
                }
                rule.set_priority(io(r, "prio") as i32);
                if bo(r, "hasf") {
                    let mut f = Formula::default();
                    f.set_string_value(so(r, "f"));
                    rule.set_formula(f);
                }
                if let Some(sp) = r.get("sty") {
                    let mut s = Style::default();
                    apply_style(&mut s, sp);
                    rule.set_style(s);
                }
                cf.add_conditional_collection(rule);
            }
            ws.add_conditional_formatting_collection(cf);
        }
        if !so(sh, "af").is_empty() {
            ws.set_auto_filter(so(sh, "af"));
        }
        if !so(sh, "tab").is_empty() {
            ws.get_tab_color_mut().set_argb(so(sh, "tab"));
        }
        if let Some(h) = sh.get("hf") {
            let hf = ws.get_header_footer_mut();
            if !so(h, "h").is_empty() {
                hf.get_odd_header_mut().set_value(so(h, "h"));
            }
            if !so(h, "f").is_empty() {
                hf.get_odd_footer_mut().set_value(so(h, "f"));
            }
        }
        for t in arr(sh, "tables") {
            let area = so(t, "area");
            let (a, b) = area.split_once(':').expect("table area");
            let mut tb = Table::new(so(t, "name"), (a, b));
            if !so(t, "display").is_empty() {
                tb.set_display_name(so(t, "display"));
            }
            for c in arr(t, "cols") {
                tb.add_column(TableColumn::new(c.as_str().unwrap()));
            }
            if !so(t, "style").is_empty() {
                tb.set_style_info(Some(TableStyleInfo::new(so(t, "style"), false, false, true, false)));
            }
            ws.add_table(tb);
        }
        if let Some(p) = sh.get("ps") {
            let ps = ws.get_page_setup_mut();
            if io(p, "paper") >= 0 {
                ps.set_paper_size(io(p, "paper") as u32);
            }
            if !so(p, "orient").is_empty() {
                ps.set_orientation(so(p, "orient").parse().expect("orient"));
            }
            if io(p, "scale") >= 0 {
                ps.set_scale(io(p, "scale") as u32);
            }
        }
    }
    for n in arr(wb, "names") {
        // DefinedName::set_name is crate-private: a name is created through Worksheet::add_defined_name
        let mut tmp = Worksheet::default();
        tmp.add_defined_name(so(n, "name").to_string(), so(n, "addr").to_string()).expect("defined name");
        let mut d = tmp.get_defined_names().first().expect("name").clone();
        if io(n, "local") >= 0 {
            d.set_local_sheet_id(io(n, "local") as u32);
        }
        if bo(n, "hidden") {
            d.set_hidden(true);
        }
        let home = io(n, "home").max(0) as usize;
        if home == 0 {
            book.add_defined_names(d);
        } else {
            book.get_sheet_mut(&(home - 1)).expect("home sheet").add_defined_names(d);
        }
    }
    if let Some(p) = wb.get("props") {
        let pr = book.get_properties_mut();
        for (k, v) in p.as_object().expect("props").iter() {
            let x = v.as_str().unwrap_or("");
            match k.as_str() {
                "title" => pr.set_title(x),
                "creator" => pr.set_creator(x),
                "lastModifiedBy" => pr.set_last_modified_by(x),
                "subject" => pr.set_subject(x),
                "description" => pr.set_description(x),
                "keywords" => pr.set_keywords(x),
                "category" => pr.set_category(x),
                "manager" => pr.set_manager(x),
                "company" => pr.set_company(x),
                "custom" => {
                    for c in v.as_array().expect("custom") {
                        let mut cp = umya_spreadsheet::structs::custom_properties::CustomDocumentProperty::default();
                        cp.set_name(so(c, "name"));
                        cp.set_value_string(so(c, "value"));
                        pr.get_custom_properties_mut().add_custom_document_property_list(cp);
                    }
                    &mut *pr
                }
                other => panic!("unknown property {}", other),
            };
        }
    }
    if io(wb, "active") >= 0 {
        book.set_active_sheet(io(wb, "active") as u32);
    }
    book
}

// ------------------------------------------------------------------------------------------------
// protocol
// ------------------------------------------------------------------------------------------------
fn save(book: &Spreadsheet, light: bool) -> Result<Vec<u8>, &'static str> {
    let r = catch_unwind(AssertUnwindSafe(|| -> Result<Vec<u8>, String> {
        let mut buf: Vec<u8> = Vec::new();
        if light {
            umya_spreadsheet::writer::xlsx::write_writer_light(book, &mut buf).map_err(|e| format!("{:?}", e))?;
        } else {
            umya_spreadsheet::writer::xlsx::write_writer(book, &mut buf).map_err(|e| format!("{:?}", e))?;
        }
        Ok(buf)
    }));
    match r {
        Ok(Ok(b)) => Ok(b),
        Ok(Err(_)) => Err("save-err"),
        Err(_) => Err("save-panic"),
    }
}

fn load(bytes: &[u8]) -> Result<Spreadsheet, &'static str> {
    let r = catch_unwind(AssertUnwindSafe(|| {
        umya_spreadsheet::reader::xlsx::read_reader(Cursor::new(bytes.to_vec()), true).map_err(|e| format!("{:?}", e))
    }));
    match r {
        Ok(Ok(b)) => Ok(b),
        Ok(Err(_)) => Err("load-err"),
        Err(_) => Err("load-panic"),
    }
}

fn proj(book: &Spreadsheet) -> Result<(Value, Value), &'static str> {
    catch_unwind(AssertUnwindSafe(|| project(book))).map_err(|_| "project-panic")
}

fn base(id: &Value, a: &str) -> Map<String, Value> {
    let mut m = Map::new();
    m.insert("case".into(), id.clone());
    m.insert("a".into(), json!(a));
    m
}

fn fail(mut m: Map<String, Value>, outcome: &str, bytes: &[u8]) -> Value {
    m.insert("outcome".into(), json!(outcome));
    m.insert("obs".into(), empty_obs());
    m.insert("sty".into(), json!([]));
    m.insert("hex".into(), json!(hex(bytes)));
    Value::Object(m)
}

/// save `book`, load the bytes, project: one event; returns the loaded workbook
fn save_load_event(mut m: Map<String, Value>, book: &Spreadsheet, light: bool, events: &mut Vec<Value>) -> Option<Spreadsheet> {
    let bytes = match save(book, light) {
        Ok(b) => b,
        Err(o) => {
            events.push(fail(m, o, &[]));
            return None;
        }
    };
    let b2 = match load(&bytes) {
        Ok(b) => b,
        Err(o) => {
            events.push(fail(m, o, &bytes));
            return None;
        }
    };
    match proj(&b2) {
        Ok((obs, sty)) => {
            m.insert("outcome".into(), json!("ok"));
            m.insert("obs".into(), obs);
            m.insert("sty".into(), sty);
            m.insert("hex".into(), json!(hex(&bytes)));
            events.push(Value::Object(m));
            Some(b2)
        }
        Err(o) => {
            events.push(fail(m, o, &bytes));
            None
        }
    }
}

fn chain(id: &Value, name: &str, first: Spreadsheet, from: u32, gens: u32, light: bool, events: &mut Vec<Value>) {
    let mut book = first;
    for g in from..=gens {
        let mut m = base(id, "Resave");
        m.insert("chain".into(), json!(name));
        m.insert("gen".into(), json!(g));
        match save_load_event(m, &book, light, events) {
            Some(b) => book = b,
            None => return,
        }
    }
}

fn run(case: &Value) -> Vec<Value> {
    let id = case["case"].clone();
    let gens = case.get("gens").and_then(|x| x.as_u64()).unwrap_or(3) as u32;
    let light = bo(case, "light");
    let src = &case["src"];
    let mut events = vec![];
    // the original bytes
    let (orig, label): (Vec<u8>, String) = match s(src, "kind") {
        "corpus" => (std::fs::read(s(src, "path")).expect("corpus file"), so(src, "name").to_string()),
        "gen" => {
            let book = build(&src["wb"]);
            match save(&book, false) {
                Ok(b) => (b, "generated".to_string()),
                Err(o) => {
                    let mut m = base(&id, "Load");
                    m.insert("src".into(), json!("generated"));
                    m.insert("kind".into(), json!("gen"));
                    events.push(fail(m, o, &[]));
                    return events;
                }
            }
        }
        "hex" => {
            let h = s(src, "hex");
            let bytes: Vec<u8> = (0..h.len() / 2).map(|i| u8::from_str_radix(&h[2 * i..2 * i + 2], 16).expect("hex")).collect();
            (bytes, so(src, "name").to_string())
        }
        other => panic!("unknown source kind {}", other),
    };
    let mut m = base(&id, "Load");
    m.insert("src".into(), json!(label));
    m.insert("kind".into(), json!(s(src, "kind")));
    let book0 = match load(&orig) {
        Ok(b) => b,
        Err(_) => {
            events.push(fail(m, "unreadable", &[]));
            return events;
        }
    };
    match proj(&book0) {
        Ok((obs, sty)) => {
            m.insert("outcome".into(), json!("ok"));
            m.insert("obs".into(), obs);
            m.insert("sty".into(), sty);
            m.insert("hex".into(), json!(hex(&orig)));
            events.push(Value::Object(m));
        }
        Err(o) => {
            events.push(fail(m, o, &[]));
            return events;
        }
    }
    // chain A, generation 1
    let mut m = base(&id, "Resave");
    m.insert("chain".into(), json!("A"));
    m.insert("gen".into(), json!(1));
    let a1 = match save_load_event(m, &book0, light, &mut events) {
        Some(b) => b,
        None => return events,
    };
    // the same unchanged workbook saved a second time
    if save_load_event(base(&id, "SaveTwice"), &book0, light, &mut events).is_none() {
        return events;
    }
    chain(&id, "A", a1, 2, gens, light, &mut events);
    if events.last().map(|e| e["outcome"] != json!("ok")).unwrap_or(true) {
        return events;
    }
    // chain B: one single-cell edit between load and first save
    for ed in arr(case, "edit") {
        let mut book = match load(&orig) {
            Ok(b) => b,
            Err(_) => return events,
        };
        let mut m = base(&id, "Edit");
        let ns = book.get_sheet_count();
        if ns == 0 {
            return events;
        }
        let si = (u(ed, "si") as usize) % ns;
        let r = catch_unwind(AssertUnwindSafe(|| -> (u32, u32, Value, Value, Value) {
            let ws = book.get_sheet_mut(&si).expect("sheet");
            // mode "echo": the edit repeats the characters of an existing string cell in another kind / run structure,
            // right before or right behind that cell in writing order (row by row)
            let mut echo_runs: Option<Vec<(String, bool, bool)>> = None; // Some(vec![]) = plain text in `echo_text`
            let mut echo_text = String::new();
            let mut echo_at: Option<(u32, u32)> = None;
            if so(ed, "mode") == "echo" {
                let what = so(ed, "echo");
                let src_kind = if what == "rich-of-plain" { "text" } else { "rich" };
                let mut hits: Vec<(u32, u32)> = ws
                    .get_cell_collection()
                    .iter()
                    .filter(|c| kind_of(c.get_raw_value()) == src_kind && c.get_formula().is_empty() && c.get_value().chars().count() >= 2)
                    .map(|c| (*c.get_coordinate().get_row_num(), *c.get_coordinate().get_col_num()))
                    .collect();
                hits.sort();
                if !hits.is_empty() {
                    let (sr, sc) = hits[(u(ed, "pick") as usize) % hits.len()];
                    let src = ws.get_cell((sc, sr)).expect("source cell");
                    echo_text = src.get_value().to_string();
                    let chars: Vec<char> = echo_text.chars().collect();
                    let old_runs: Vec<String> = match src.get_raw_value() {
                        CellRawValue::RichText(r) => r.get_rich_text_elements().iter().map(|t| t.get_text().to_string()).collect(),
                        _ => vec![],
                    };
                    echo_runs = Some(match what {
                        "plain-of-rich" => vec![],
                        "rich-of-plain" => {
                            let h = chars.len() / 2;
                            vec![(chars[..h].iter().collect(), true, false), (chars[h..].iter().collect(), false, false)]
                        }
                        _ => {
                            // other run boundaries and other fonts than the source
                            if old_runs.len() == 1 {
                                vec![(chars[..1].iter().collect(), false, true), (chars[1..].iter().collect(), true, true)]
                            } else {
                                vec![(echo_text.clone(), true, true)]
                            }
                        }
                    });
                    let before = so(ed, "where") == "before";
                    echo_at = Some(if before && sc > 1 {
                        (sc - 1, sr)
                    } else if before && sr > 1 {
                        (sc, sr - 1)
                    } else {
                        (sc + 1, sr)
                    });
                }
            }
            let (col, row) = if let Some(at) = echo_at {
                at
            } else if so(ed, "mode") == "existing" && !ws.get_cell_collection().is_empty() {
                let cells = ws.get_cell_collection_sorted();
                let c = cells[(u(ed, "pick") as usize) % cells.len()];
                (*c.get_coordinate().get_col_num(), *c.get_coordinate().get_row_num())
            } else if so(ed, "mode") == "class" {
                // the pick-th cell of a class: a value kind, "formula" (not shared), "master" / "child" of a shared formula, "link"
                let want = so(ed, "class");
                let mut hits: Vec<(u32, u32)> = ws
                    .get_cell_collection()
                    .iter()
                    .filter(|c| {
                        let shared = c.get_formula_shared_index().is_some();
                        let master = c.get_formula_obj().map(|f| shared && !f.get_reference().is_empty()).unwrap_or(false);
                        match want {
                            "formula" => !c.get_formula().is_empty() && !shared,
                            "master" => master,
                            "child" => shared && !master,
                            "link" => c.get_hyperlink().is_some(),
                            k => kind_of(c.get_raw_value()) == k && c.get_formula().is_empty(),
                        }
                    })
                    .map(|c| (*c.get_coordinate().get_row_num(), *c.get_coordinate().get_col_num()))
                    .collect();
                hits.sort();
                if hits.is_empty() {
                    (u(ed, "c"), u(ed, "r"))
                } else {
                    let (r, c) = hits[(u(ed, "pick") as usize) % hits.len()];
                    (c, r)
                }
            } else {
                (u(ed, "c"), u(ed, "r"))
            };
            // is the cell the master of a shared formula (the member that carries text and ref)?  then: the other
            // members of its group, as the public getters show them before the edit
            let mut orphans: Vec<Value> = vec![];
            let master_si: Option<u32> = ws.get_cell((col, row)).and_then(|c| c.get_formula_obj()).and_then(|f| {
                if f.get_formula_type() == &CellFormulaValues::Shared && !f.get_reference().is_empty() {
                    Some(*f.get_shared_index())
                } else {
                    None
                }
            });
            if let Some(msi) = master_si {
                let mut others: Vec<(u32, u32)> = ws
                    .get_cell_collection()
                    .iter()
                    .filter(|c| c.get_formula_shared_index() == Some(&msi))
                    .map(|c| (*c.get_coordinate().get_row_num(), *c.get_coordinate().get_col_num()))
                    .filter(|rc| *rc != (row, col))
                    .collect();
                others.sort();
                orphans = others.into_iter().map(|(r, c)| json!({"r": cl(r), "c": cl(c)})).collect();
            }
            let cell = ws.get_cell_mut((col, row));
            let kind = if echo_at.is_some() { "echo" } else { so(ed, "k") };
            match kind {
                "echo" => {
                    let runs = echo_runs.clone().unwrap_or_default();
                    if runs.is_empty() {
                        cell.set_value_string(echo_text.clone());
                    } else {
                        let mut rt = RichText::default();
                        for (t, bold, italic) in runs {
                            let mut te = TextElement::default();
                            te.set_text(t);
                            let f = te.get_font_mut();
                            f.set_bold(bold);
                            f.set_italic(italic);
                            rt.add_rich_text_elements(te);
                        }
                        cell.set_rich_text(rt);
                    }
                }
                "text" => {
                    cell.set_value_string(so(ed, "v"));
                }
                "num" => {
                    cell.set_value_number(f64_from_bits(so(ed, "b")));
                }
                "bool" => {
                    cell.set_value_bool(so(ed, "v") == "TRUE");
                }
                "formula" => {
                    // a formula with a plain cached text (cached rich / padded text are C01's open findings)
                    cell.set_value_string(if so(ed, "cached").is_empty() { "cached" } else { so(ed, "cached") });
                    cell.set_formula(so(ed, "v"));
                }
                other => panic!("unknown edit kind {}", other),
            }
            let mut st = Styles::new();
            let pc = project_cell(ws.get_cell((col, row)).expect("edited cell"), &mut st);
            (col, row, pc, st.to_json(), json!({"orphans": orphans, "echoed": echo_at.is_some()}))
        }));
        match r {
            Ok((col, row, pc, sty, more)) => {
                m.insert("orphans".into(), more["orphans"].clone());
                m.insert("echoed".into(), more["echoed"].clone());
                m.insert("s".into(), json!(si + 1));
                m.insert("r".into(), json!(cl(row)));
                m.insert("c".into(), json!(cl(col)));
                m.insert("cell".into(), pc);
                m.insert("sty".into(), sty);
                m.insert("outcome".into(), json!("ok"));
                events.push(Value::Object(m));
            }
            Err(_) => {
                m.insert("s".into(), json!(si + 1));
                m.insert("r".into(), json!(0));
                m.insert("c".into(), json!(0));
                m.insert("cell".into(), json!({"r": 0, "c": 0, "k": "blank", "v": "", "b": "", "f": "", "rt": "", "s": ""}));
                m.insert("sty".into(), json!([]));
                m.insert("orphans".into(), json!([]));
                m.insert("echoed".into(), json!(false));
                m.insert("outcome".into(), json!("edit-panic"));
                events.push(Value::Object(m));
                return events;
            }
        }
        chain(&id, "B", book, 1, gens, light, &mut events);
    }
    events
}
