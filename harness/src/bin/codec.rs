//! Domain `codec` (C17): column letters, coordinates, ranges, addresses.
use uverif::*;
use serde_json::{json, Value};
use umya_spreadsheet::helper::{address, coordinate, range};
use umya_spreadsheet::structs::{Address, Coordinate, Range};

/// (col,row,lock,lock) with every component present; a missing component makes the whole result the
/// (type-compatible) tuple [0,0,false,false] - TLC cannot compare values of different types.
fn opt_tuple(t: (Option<u32>, Option<u32>, Option<bool>, Option<bool>)) -> Value {
    match t {
        (Some(c), Some(r), Some(lc), Some(lr)) => json!([c, r, lc, lr]),
        _ => json!([0, 0, false, false]),
    }
}

fn range_record(r: &Range) -> Value {
    let sc = r.get_coordinate_start_col();
    let sr = r.get_coordinate_start_row();
    let ec = r.get_coordinate_end_col();
    let er = r.get_coordinate_end_row();
    match (sc, sr, ec, er) {
        (Some(c1), Some(r1), None, None) => json!({"k":"cell","c1":c1.get_num(),"lc1":c1.get_is_lock(),
            "r1":r1.get_num(),"lr1":r1.get_is_lock()}),
        (Some(c1), Some(r1), Some(c2), Some(r2)) => json!({"k":"rect","c1":c1.get_num(),"lc1":c1.get_is_lock(),
            "r1":r1.get_num(),"lr1":r1.get_is_lock(),"c2":c2.get_num(),"lc2":c2.get_is_lock(),
            "r2":r2.get_num(),"lr2":r2.get_is_lock()}),
        (None, Some(r1), None, Some(r2)) => json!({"k":"rows","r1":r1.get_num(),"lr1":r1.get_is_lock(),
            "r2":r2.get_num(),"lr2":r2.get_is_lock()}),
        (Some(c1), None, Some(c2), None) => json!({"k":"cols","c1":c1.get_num(),"lc1":c1.get_is_lock(),
            "c2":c2.get_num(),"lc2":c2.get_is_lock()}),
        _ => json!({"k":"other","sc":sc.is_some(),"sr":sr.is_some(),"ec":ec.is_some(),"er":er.is_some()}),
    }
}

fn main() {
    serve(run);
}

fn run(case: &Value) -> Vec<Value> {
    let a = s(case, "a");
    let id = case["case"].clone();
    match a {
        "cols" => {
            let from = u(case, "from");
            let sn = case["sn"].as_array().unwrap();
            // a panic is logged as the (type-compatible) name "!panic" / index 0
            let names: Vec<Value> = (0..sn.len() as u32)
                .map(|j| match guard(move || json!(coordinate::string_from_column_index(&(from + j)))) {
                    Value::String(x) if x == "panic" => json!("!panic"),
                    v => v,
                })
                .collect();
            let back: Vec<Value> = sn
                .iter()
                .map(|x| {
                    let t = x.as_str().unwrap().to_string();
                    match guard(move || json!(coordinate::column_index_from_string(&t))) {
                        Value::String(_) => json!(0),
                        v => v,
                    }
                })
                .collect();
            vec![json!({"a":"cols","case":id,"from":from,"sn":sn,"names":names,"back":back})]
        }
        "coords" => {
            // one Coordinate object parses every string of the batch in turn (q3): what it shows must not
            // depend on what it held before
            let mut reused = Coordinate::default();
            let items: Vec<Value> = case["items"]
                .as_array()
                .unwrap()
                .iter()
                .map(|it| {
                    let (c, r, lc, lr) = (u(it, "c"), u(it, "r"), b(it, "lc"), b(it, "lr"));
                    let st = s(it, "s").to_string();
                    let st2 = st.clone();
                    let st3 = st.clone();
                    let mut taken = std::mem::take(&mut reused);
                    let (q3, back) = match std::panic::catch_unwind(std::panic::AssertUnwindSafe(move || {
                        taken.set_coordinate(&st3);
                        let v = json!([taken.get_col_num(), taken.get_row_num(), taken.get_is_lock_col(), taken.get_is_lock_row()]);
                        (v, taken)
                    })) {
                        Ok((v, t)) => (v, t),
                        Err(_) => (json!("panic"), Coordinate::default()),
                    };
                    reused = back;
                    let p = guard(move || json!(coordinate::coordinate_from_index_with_lock(&c, &r, &lc, &lr)));
                    let p0 = guard(move || json!(coordinate::coordinate_from_index(&c, &r)));
                    let q = guard(move || opt_tuple(coordinate::index_from_coordinate(&st)));
                    let p2 = guard(move || {
                        let mut co = Coordinate::default();
                        co.set_col_num(c).set_row_num(r).set_is_lock_col(lc).set_is_lock_row(lr);
                        let a = co.get_coordinate();
                        let b = co.to_string();
                        if a == b { json!(a) } else { json!(format!("{} / {}", a, b)) }
                    });
                    let q2 = guard(move || {
                        let mut co = Coordinate::default();
                        co.set_coordinate(&st2);
                        json!([co.get_col_num(), co.get_row_num(), co.get_is_lock_col(), co.get_is_lock_row()])
                    });
                    finish(json!({"c":c,"r":r,"lc":lc,"lr":lr,"s":it["s"],"p":p,"p0":p0,"q":q,"p2":p2,"q2":q2,"q3":q3}))
                })
                .collect();
            vec![json!({"a":"coords","case":id,"items":items})]
        }
        "ranges" => {
            // one Range object parses every string of the batch in turn (rc3)
            let mut reused = Range::default();
            let items: Vec<Value> = case["items"]
                .as_array()
                .unwrap()
                .iter()
                .map(|it| {
                    let st = s(it, "s").to_string();
                    let (s1, s2, s3) = (st.clone(), st.clone(), st.clone());
                    let mut taken = std::mem::take(&mut reused);
                    let (rc3, back) = match std::panic::catch_unwind(std::panic::AssertUnwindSafe(move || {
                        taken.set_range(s3);
                        let v = range_record(&taken);
                        (v, taken)
                    })) {
                        Ok((v, t)) => (v, t),
                        Err(_) => (json!("panic"), Range::default()),
                    };
                    reused = back;
                    // helper::range enumerates cells: its contract ("Non-standard range.") covers
                    // cell and cell:cell only, whole rows/columns go through structs::Range below
                    let kind = s(&it["g"], "k");
                    let corners = if kind == "cell" || kind == "rect" {
                        guard(move || {
                            let (a, b, c, d) = range::get_start_and_end_point(&st);
                            json!([a, b, c, d])
                        })
                    } else {
                        json!([0, 0, 0, 0])
                    };
                    let rs = guard(move || {
                        let mut r = Range::default();
                        r.set_range(s1);
                        json!(r.get_range())
                    });
                    let rc = guard(move || {
                        let mut r = Range::default();
                        r.set_range(s2);
                        range_record(&r)
                    });
                    finish(json!({"g":it["g"],"s":it["s"],"corners":corners,"rs":rs,"rc":rc,"rc3":rc3}))
                })
                .collect();
            vec![json!({"a":"ranges","case":id,"items":items})]
        }
        "addrs" => {
            let items: Vec<Value> = case["items"]
                .as_array()
                .unwrap()
                .iter()
                .map(|it| {
                    let name = s(it, "name").to_string();
                    let rng = s(it, "rng").to_string();
                    let (n1, r1) = (name.clone(), rng.clone());
                    let join = guard(move || json!(address::join_address(&n1, &r1)));
                    let split = match &join {
                        Value::String(j) if j != "panic" => {
                            let j = j.clone();
                            guard(move || {
                                let (a, b) = address::split_address(&j);
                                json!([a, b])
                            })
                        }
                        _ => json!("panic"),
                    };
                    let (n2, r2) = (name.clone(), rng.clone());
                    let text = guard(move || {
                        let mut ad = Address::default();
                        ad.set_sheet_name(n2);
                        let mut rg = Range::default();
                        rg.set_range(r2);
                        ad.set_range(rg);
                        json!(ad.get_address())
                    });
                    let (split2, parsed) = match &text {
                        Value::String(t) if t != "panic" => {
                            let (t1, t2) = (t.clone(), t.clone());
                            (
                                guard(move || {
                                    let (a, b) = address::split_address(&t1);
                                    json!([a, b])
                                }),
                                guard(move || {
                                    let mut ad = Address::default();
                                    ad.set_address(t2);
                                    json!([ad.get_sheet_name(), ad.get_range().get_range()])
                                }),
                            )
                        }
                        _ => (json!("panic"), json!("panic")),
                    };
                    finish(json!({"chars":it["chars"],"name":name,"rng":rng,"join":join,"split":split,"text":text,
                           "split2":split2,"parsed":parsed}))
                })
                .collect();
            vec![json!({"a":"addrs","case":id,"items":items})]
        }
        _ => panic!("unknown codec action {}", a),
    }
}
