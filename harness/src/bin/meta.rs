//! Domain `meta` (X01): per-sheet settings and workbook metadata - setters / getters, sheet-list operations,
//! save + load (eager, lazy with and without materialising sheets).
//!
//! case = {"case": id, "tmp": dir, "steps": [ {"a":"Init","base":"empty"|"new_file","sheets":["S1",..]}, .. ]}
//! Steps (sheet indices `s` are 1-based: TLA+ sequences):
//!   sheet list   AddSheet{name} RemoveSheet{s} Rename{s,name} SetActive{i}
//!   sheet        SetState{s,v} SetStateStr{s,v} SetActiveCell{s,v} SetTab{s,v} ClearTab{s}
//!                SetZoom{s,v} SetZoomNormal{s,v} SetGrid{s,v} SetMode{s,v} SetTabSel{s,v} SetTopLeft{s,v}
//!                SetPane{s,xs,ys,tl,ap,st} AddSel{s,pane,cell,sqref}
//!                SetProt{s,flags:{..}} SetProtPw{s,pw} ClearProt{s}
//!                SetOrient{s,v} SetPsNum{s,k,v} SetPo{s,k,v} SetPm{s,k,v} SetHf{s,k,v}
//!                SetRowHidden{s,r,v} SetColHidden{s,c,v} SetAf{s,v} ClearAf{s}
//!                AddDv{s,..} ClearDvs{s} AddCf{s,sqref,rules:[{type,op,prio,stop,hasf,f,sty:[{bold,fill}],text,rank,percent,bottom}]}
//!   workbook     SetProp{k,v} AddCustom{name,kind,v,n,b}
//!   storage      Save{via:"path"|"mem",light} Load{mode:"eager"|"lazy",via} Materialise{s}
//! Every step yields one event: the step's fields + "outcome" ("ok" | "err" | "panic" | ..) + "obs", the projection
//! of the whole workbook through public getters after the step.  To keep traces small a sheet whose projection
//! equals the projection of sheet j in the PREVIOUS event is logged as {"ref": j} (pure compression: the trace
//! specification expands it again); "props" likewise ({"ref": 1}).  A sheet that is still raw (lazy loading; the
//! public `get_sheet` refuses it) shows only its name and state, "mat": false and blank values elsewhere.
//! Save writes the workbook to <tmp>/<case>-<k>.xlsx ("path"; checks/x01.py adds "file" = pydec/meta_view.py's
//! independent view of it); via "path" uses writer::xlsx::write / reader::xlsx::read / lazy_read, via "mem"
//! write_writer / read_reader(.., true|false) on the same bytes.  SetProtPw logs "tok": the hash fields the
//! library produced (random salt: the model cannot predict them).  The driver never judges.
use serde_json::{json, Map, Value};
use std::io::Cursor;
use std::panic::{catch_unwind, AssertUnwindSafe};
use std::path::PathBuf;
use umya_spreadsheet::structs::custom_properties::CustomDocumentProperty;
use umya_spreadsheet::structs::*;
use uverif::*;

fn main() {
    serve(run);
}

fn so<'a>(v: &'a Value, k: &str) -> &'a str {
    v.get(k).and_then(|x| x.as_str()).unwrap_or("")
}
fn bo(v: &Value, k: &str) -> bool {
    v.get(k).and_then(|x| x.as_bool()).unwrap_or(false)
}
fn io(v: &Value, k: &str) -> i64 {
    v.get(k).and_then(|x| x.as_i64()).unwrap_or(-1)
}
fn num(x: f64) -> String {
    format!("{}", x)
}

// ------------------------------------------------------------------------------------------------
// projection (public getters only)
// ------------------------------------------------------------------------------------------------
const FLAGS: [&str; 16] = [
    "sheet", "objects", "scenarios", "formatCells", "formatColumns", "formatRows", "insertColumns", "insertRows",
    "insertHyperlinks", "deleteColumns", "deleteRows", "selectLocked", "selectUnlocked", "sort", "autoFilter", "pivotTables",
];

fn flag_get(p: &SheetProtection, k: &str) -> bool {
    match k {
        "sheet" => *p.get_sheet(),
        "objects" => *p.get_objects(),
        "scenarios" => *p.get_scenarios(),
        "formatCells" => *p.get_format_cells(),
        "formatColumns" => *p.get_format_columns(),
        "formatRows" => *p.get_format_rows(),
        "insertColumns" => *p.get_insert_columns(),
        "insertRows" => *p.get_insert_rows(),
        "insertHyperlinks" => *p.get_insert_hyperlinks(),
        "deleteColumns" => *p.get_delete_columns(),
        "deleteRows" => *p.get_delete_rows(),
        "selectLocked" => *p.get_select_locked_cells(),
        "selectUnlocked" => *p.get_select_unlocked_cells(),
        "sort" => *p.get_sort(),
        "autoFilter" => *p.get_auto_filter(),
        "pivotTables" => *p.get_pivot_tables(),
        _ => panic!("flag {}", k),
    }
}

fn flag_set(p: &mut SheetProtection, k: &str, x: bool) {
    match k {
        "sheet" => p.set_sheet(x),
        "objects" => p.set_objects(x),
        "scenarios" => p.set_scenarios(x),
        "formatCells" => p.set_format_cells(x),
        "formatColumns" => p.set_format_columns(x),
        "formatRows" => p.set_format_rows(x),
        "insertColumns" => p.set_insert_columns(x),
        "insertRows" => p.set_insert_rows(x),
        "insertHyperlinks" => p.set_insert_hyperlinks(x),
        "deleteColumns" => p.set_delete_columns(x),
        "deleteRows" => p.set_delete_rows(x),
        "selectLocked" => p.set_select_locked_cells(x),
        "selectUnlocked" => p.set_select_unlocked_cells(x),
        "sort" => p.set_sort(x),
        "autoFilter" => p.set_auto_filter(x),
        "pivotTables" => p.set_pivot_tables(x),
        _ => panic!("flag {}", k),
    };
}

/// PaneValues by variant (not through the text forms of the library: a value is what the variant means)
fn pane_from(x: &str) -> Result<PaneValues, String> {
    match x {
        "bottomLeft" => Ok(PaneValues::BottomLeft),
        "bottomRight" => Ok(PaneValues::BottomRight),
        "topLeft" => Ok(PaneValues::TopLeft),
        "topRight" => Ok(PaneValues::TopRight),
        _ => Err(format!("pane {}", x)),
    }
}
fn pane_text(p: &PaneValues) -> &'static str {
    match p {
        PaneValues::BottomLeft => "bottomLeft",
        PaneValues::BottomRight => "bottomRight",
        PaneValues::TopLeft => "topLeft",
        PaneValues::TopRight => "topRight",
    }
}

fn tok_of(p: &SheetProtection) -> Value {
    json!({"alg": p.get_algorithm_name(), "hash": p.get_hash_value(), "salt": p.get_salt_value(),
           "spin": *p.get_spin_count() as i64, "legacy": p.get_password_raw()})
}

fn blank_sheet(name: &str, state: &str) -> Value {
    json!({"name": name, "mat": false, "state": state, "sstate": "", "acell": "", "tab": [], "views": [], "prot": [],
           "ps": {"orient": "default", "paper": 0, "scale": 0, "fitw": 0, "fith": 0},
           "po": {"hc": false, "vc": false},
           "pm": {"l": "0", "r": "0", "t": "0", "b": "0", "h": "0", "f": "0"},
           "hf": {"h": "", "f": ""}, "hrows": [], "hcols": [], "af": [], "dvs": [], "cfs": []})
}

fn project_sheet(ws: &Worksheet) -> Value {
    let tab: Vec<Value> = ws.get_tab_color().iter().map(|c| json!(c.get_argb())).collect();
    let views: Vec<Value> = ws
        .get_sheets_views()
        .get_sheet_view_list()
        .iter()
        .map(|v| {
            let pane: Vec<Value> = v
                .get_pane()
                .iter()
                .map(|p| {
                    json!({"xs": num(*p.get_horizontal_split()), "ys": num(*p.get_vertical_split()),
                           "tl": p.get_top_left_cell().get_coordinate(), "ap": pane_text(p.get_active_pane()),
                           "st": p.get_state().get_value_string()})
                })
                .collect();
            let sel: Vec<Value> = v
                .get_selection()
                .iter()
                .map(|s| {
                    json!({"pane": pane_text(s.get_pane()),
                           "cell": s.get_active_cell().map(|c| c.get_coordinate()).unwrap_or_default(),
                           "sqref": s.get_sequence_of_references().get_sqref()})
                })
                .collect();
            json!({"zoom": *v.get_zoom_scale() as i64, "zoomn": *v.get_zoom_scale_normal() as i64,
                   "grid": *v.get_show_grid_lines(), "mode": v.get_view().get_value_string(),
                   "tabsel": *v.get_tab_selected(), "tl": v.get_top_left_cell(), "pane": pane, "sel": sel})
        })
        .collect();
    let prot: Vec<Value> = ws
        .get_sheet_protection()
        .iter()
        .map(|p| {
            let mut m = Map::new();
            for k in FLAGS {
                m.insert(k.to_string(), json!(flag_get(p, k)));
            }
            json!({"flags": Value::Object(m), "tok": tok_of(p)})
        })
        .collect();
    let ps = ws.get_page_setup();
    let po = ws.get_print_options();
    let pm = ws.get_page_margins();
    let hf = ws.get_header_footer();
    let mut hrows: Vec<u32> = ws.get_row_dimensions().iter().filter(|r| *r.get_hidden()).map(|r| *r.get_row_num()).collect();
    hrows.sort();
    let mut hcols: Vec<u32> = ws.get_column_dimensions().iter().filter(|c| *c.get_hidden()).map(|c| *c.get_col_num()).collect();
    hcols.sort();
    let af: Vec<Value> = ws.get_auto_filter().iter().map(|a| json!(a.get_range().get_range())).collect();
    let dvs: Vec<Value> = match ws.get_data_validations() {
        None => vec![],
        Some(d) => d
            .get_data_validation_list()
            .iter()
            .map(|v| {
                json!({"sqref": v.get_sequence_of_references().get_sqref(), "type": v.get_type().get_value_string(),
                       "op": v.get_operator().get_value_string(), "blank": *v.get_allow_blank(),
                       "showin": *v.get_show_input_message(), "showerr": *v.get_show_error_message(),
                       "ptitle": v.get_prompt_title(), "prompt": v.get_prompt(), "etitle": v.get_error_title(),
                       "emsg": v.get_error_message(), "f1": v.get_formula1(), "f2": v.get_formula2()})
            })
            .collect(),
    };
    let cfs: Vec<Value> = ws
        .get_conditional_formatting_collection()
        .iter()
        .map(|x| {
            let rules: Vec<Value> = x
                .get_conditional_collection()
                .iter()
                .map(|r| {
                    let sty: Vec<Value> = r
                        .get_style()
                        .iter()
                        .map(|st| {
                            json!({"bold": st.get_font().map(|f| *f.get_bold()).unwrap_or(false),
                                   "fill": st.get_background_color().map(|c| c.get_argb().to_string()).unwrap_or_default()})
                        })
                        .collect();
                    json!({"type": r.get_type().get_value_string(), "op": r.get_operator().get_value_string(),
                           "prio": *r.get_priority(), "stop": *r.get_stop_if_true(), "hasf": r.get_formula().is_some(),
                           "f": r.get_formula().map(|f| f.get_address_str()).unwrap_or_default(), "sty": sty,
                           "text": r.get_text(), "rank": *r.get_rank() as i64, "percent": *r.get_percent(), "bottom": *r.get_bottom()})
                })
                .collect();
            json!({"sqref": x.get_sequence_of_references().get_sqref(), "rules": rules})
        })
        .collect();
    json!({"name": ws.get_name(), "mat": true, "state": ws.get_state().get_value_string(),
           "sstate": ws.get_sheet_state(), "acell": ws.get_active_cell(), "tab": tab, "views": views, "prot": prot,
           "ps": {"orient": ps.get_orientation().get_value_string(), "paper": *ps.get_paper_size() as i64,
                  "scale": *ps.get_scale() as i64, "fitw": *ps.get_fit_to_width() as i64, "fith": *ps.get_fit_to_height() as i64},
           "po": {"hc": *po.get_horizontal_centered(), "vc": *po.get_vertical_centered()},
           "pm": {"l": num(*pm.get_left()), "r": num(*pm.get_right()), "t": num(*pm.get_top()), "b": num(*pm.get_bottom()),
                  "h": num(*pm.get_header()), "f": num(*pm.get_footer())},
           "hf": {"h": hf.get_odd_header().get_value(), "f": hf.get_odd_footer().get_value()},
           "hrows": hrows, "hcols": hcols, "af": af, "dvs": dvs, "cfs": cfs})
}

fn project_props(book: &Spreadsheet) -> Value {
    let p = book.get_properties();
    json!({"title": p.get_title(), "subject": p.get_subject(), "creator": p.get_creator(), "keywords": p.get_keywords(),
           "description": p.get_description(), "lastmod": p.get_last_modified_by(), "category": p.get_category(),
           "version": p.get_version(), "revision": p.get_revision(), "created": p.get_created(), "modified": p.get_modified(),
           "manager": p.get_manager(), "company": p.get_company()})
}

fn project_custom(book: &Spreadsheet) -> Value {
    let list: Vec<Value> = book
        .get_properties()
        .get_custom_properties()
        .get_custom_document_property_list()
        .iter()
        .map(|c| {
            let (kind, n, b) = match (c.get_value_number(), c.get_value_bool()) {
                (Some(n), _) => ("num", n as i64, false),
                (_, Some(b)) => ("bool", 0, b),
                _ => ("text", 0, false),
            };
            json!({"name": c.get_name(), "kind": kind, "v": c.get_value().to_string(), "n": n, "b": b})
        })
        .collect();
    Value::Array(list)
}

/// full projection: (sheets, props, custom, active)
fn project(book: &Spreadsheet) -> (Vec<Value>, Value, Value, i64) {
    let n = book.get_sheet_count();
    let mut sheets = vec![];
    for i in 0..n {
        let got = catch_unwind(AssertUnwindSafe(|| book.get_sheet(&i).map(project_sheet)));
        match got {
            Ok(Some(v)) => sheets.push(v),
            _ => {
                // still raw: name and state come from the workbook part
                let ws = &book.get_sheet_collection_no_check()[i];
                sheets.push(blank_sheet(ws.get_name(), ws.get_state().get_value_string()));
            }
        }
    }
    (sheets, project_props(book), project_custom(book), *book.get_workbook_view().get_active_tab() as i64)
}

struct Prev {
    sheets: Vec<Value>,
    props: Value,
}

fn observe(book: &Spreadsheet, prev: &mut Prev) -> Value {
    let (sheets, props, custom, active) = project(book);
    let mut out = vec![];
    for (i, sh) in sheets.iter().enumerate() {
        let j = if prev.sheets.get(i) == Some(sh) { Some(i) } else { prev.sheets.iter().position(|p| p == sh) };
        match j {
            Some(j) => out.push(json!({"ref": j + 1})),
            None => out.push(sh.clone()),
        }
    }
    let p = if prev.props == props { json!({"ref": 1}) } else { props.clone() };
    prev.sheets = sheets;
    prev.props = props;
    json!({"sheets": out, "props": p, "custom": custom, "active": active})
}

// ------------------------------------------------------------------------------------------------
// steps (public API only)
// ------------------------------------------------------------------------------------------------
fn sheet<'a>(book: &'a mut Spreadsheet, st: &Value) -> Result<&'a mut Worksheet, String> {
    let i = u(st, "s") as usize - 1;
    book.get_sheet_mut(&i).ok_or_else(|| "no such sheet".to_string())
}

/// the first sheet view, created when the sheet has none
fn view<'a>(book: &'a mut Spreadsheet, st: &Value) -> Result<&'a mut SheetView, String> {
    let ws = sheet(book, st)?;
    if ws.get_sheets_views().get_sheet_view_list().is_empty() {
        ws.get_sheet_views_mut().add_sheet_view_list_mut(SheetView::default());
    }
    Ok(&mut ws.get_sheet_views_mut().get_sheet_view_list_mut()[0])
}

fn apply(book: &mut Spreadsheet, st: &Value) -> Result<(), String> {
    match s(st, "a") {
        "AddSheet" => {
            book.new_sheet(s(st, "name")).map_err(|e| e.to_string())?;
        }
        "RemoveSheet" => {
            book.remove_sheet(u(st, "s") as usize - 1).map_err(|e| e.to_string())?;
        }
        "Rename" => {
            book.set_sheet_name(u(st, "s") as usize - 1, s(st, "name")).map_err(|e| e.to_string())?;
        }
        "SetActive" => {
            book.set_active_sheet(u(st, "i"));
        }
        "Materialise" => {
            book.read_sheet(u(st, "s") as usize - 1);
        }
        "SetState" => {
            let v: SheetStateValues = s(st, "v").parse().map_err(|_| "bad state")?;
            sheet(book, st)?.set_state(v);
        }
        "SetStateStr" => {
            sheet(book, st)?.set_sheet_state(s(st, "v").to_string());
        }
        "SetActiveCell" => {
            sheet(book, st)?.set_active_cell(s(st, "v"));
        }
        "SetTab" => {
            sheet(book, st)?.get_tab_color_mut().set_argb(s(st, "v"));
        }
        "ClearTab" => {
            sheet(book, st)?.remove_tab_color();
        }
        "SetZoom" => {
            view(book, st)?.set_zoom_scale(u(st, "v"));
        }
        "SetZoomNormal" => {
            view(book, st)?.set_zoom_scale_normal(u(st, "v"));
        }
        "SetGrid" => {
            view(book, st)?.set_show_grid_lines(b(st, "v"));
        }
        "SetMode" => {
            let m: SheetViewValues = s(st, "v").parse().map_err(|_| "bad mode")?;
            view(book, st)?.set_view(m);
        }
        "SetTabSel" => {
            view(book, st)?.set_tab_selected(b(st, "v"));
        }
        "SetTopLeft" => {
            view(book, st)?.set_top_left_cell(s(st, "v"));
        }
        "SetPane" => {
            let mut pane = Pane::default();
            pane.set_horizontal_split(s(st, "xs").parse::<f64>().map_err(|_| "xs")?);
            pane.set_vertical_split(s(st, "ys").parse::<f64>().map_err(|_| "ys")?);
            pane.get_top_left_cell_mut().set_coordinate(s(st, "tl"));
            pane.set_active_pane(pane_from(s(st, "ap"))?);
            pane.set_state(s(st, "st").parse().map_err(|_| "st")?);
            view(book, st)?.set_pane(pane);
        }
        "AddSel" => {
            let mut sel = Selection::default();
            sel.set_pane(pane_from(s(st, "pane"))?);
            if !so(st, "cell").is_empty() {
                let mut c = Coordinate::default();
                c.set_coordinate(so(st, "cell"));
                sel.set_active_cell(c);
            }
            if !so(st, "sqref").is_empty() {
                sel.get_sequence_of_references_mut().set_sqref(so(st, "sqref"));
            }
            view(book, st)?.set_selection(sel);
        }
        "SetProt" => {
            let p = sheet(book, st)?.get_sheet_protection_mut();
            for (k, v) in st["flags"].as_object().ok_or("flags")?.iter() {
                flag_set(p, k, v.as_bool().unwrap_or(false));
            }
        }
        "SetProtPw" => {
            sheet(book, st)?.get_sheet_protection_mut().set_password(s(st, "pw"));
        }
        "ClearProt" => {
            sheet(book, st)?.remove_sheet_protection();
        }
        "SetOrient" => {
            let v: OrientationValues = s(st, "v").parse().map_err(|_| "orient")?;
            sheet(book, st)?.get_page_setup_mut().set_orientation(v);
        }
        "SetPsNum" => {
            let ps = sheet(book, st)?.get_page_setup_mut();
            let v = u(st, "v");
            match s(st, "k") {
                "paper" => ps.set_paper_size(v),
                "scale" => ps.set_scale(v),
                "fitw" => ps.set_fit_to_width(v),
                "fith" => ps.set_fit_to_height(v),
                k => return Err(format!("ps key {}", k)),
            };
        }
        "SetPo" => {
            let po = sheet(book, st)?.get_print_options_mut();
            match s(st, "k") {
                "hc" => po.set_horizontal_centered(b(st, "v")),
                "vc" => po.set_vertical_centered(b(st, "v")),
                k => return Err(format!("po key {}", k)),
            };
        }
        "SetPm" => {
            let pm = sheet(book, st)?.get_page_margins_mut();
            let v = s(st, "v").parse::<f64>().map_err(|_| "pm value")?;
            match s(st, "k") {
                "l" => pm.set_left(v),
                "r" => pm.set_right(v),
                "t" => pm.set_top(v),
                "b" => pm.set_bottom(v),
                "h" => pm.set_header(v),
                "f" => pm.set_footer(v),
                k => return Err(format!("pm key {}", k)),
            };
        }
        "SetHf" => {
            let hf = sheet(book, st)?.get_header_footer_mut();
            match s(st, "k") {
                "h" => {
                    hf.get_odd_header_mut().set_value(s(st, "v"));
                }
                "f" => {
                    hf.get_odd_footer_mut().set_value(s(st, "v"));
                }
                k => return Err(format!("hf key {}", k)),
            };
        }
        "SetRowHidden" => {
            sheet(book, st)?.get_row_dimension_mut(&u(st, "r")).set_hidden(b(st, "v"));
        }
        "SetColHidden" => {
            sheet(book, st)?.get_column_dimension_by_number_mut(&u(st, "c")).set_hidden(b(st, "v"));
        }
        "SetAf" => {
            sheet(book, st)?.set_auto_filter(s(st, "v"));
        }
        "ClearAf" => {
            sheet(book, st)?.remove_auto_filter();
        }
        "AddDv" => {
            let ws = sheet(book, st)?;
            let mut v = DataValidation::default();
            v.set_type(s(st, "type").parse().map_err(|_| "bad type")?);
            if !so(st, "op").is_empty() {
                v.set_operator(so(st, "op").parse().map_err(|_| "bad op")?);
            }
            v.get_sequence_of_references_mut().set_sqref(s(st, "sqref"));
            if bo(st, "blank") {
                v.set_allow_blank(true);
            }
            if bo(st, "showin") {
                v.set_show_input_message(true);
            }
            if bo(st, "showerr") {
                v.set_show_error_message(true);
            }
            if !so(st, "ptitle").is_empty() {
                v.set_prompt_title(so(st, "ptitle"));
            }
            if !so(st, "prompt").is_empty() {
                v.set_prompt(so(st, "prompt"));
            }
            if !so(st, "etitle").is_empty() {
                v.set_error_title(so(st, "etitle"));
            }
            if !so(st, "emsg").is_empty() {
                v.set_error_message(so(st, "emsg"));
            }
            if !so(st, "f1").is_empty() {
                v.set_formula1(so(st, "f1"));
            }
            if !so(st, "f2").is_empty() {
                v.set_formula2(so(st, "f2"));
            }
            if ws.get_data_validations().is_none() {
                ws.set_data_validations(DataValidations::default());
            }
            ws.get_data_validations_mut().unwrap().add_data_validation_list(v);
        }
        "ClearDvs" => {
            sheet(book, st)?.remove_data_validations();
        }
        "AddCf" => {
            let ws = sheet(book, st)?;
            let mut cf = ConditionalFormatting::default();
            cf.get_sequence_of_references_mut().set_sqref(s(st, "sqref"));
            for r in st["rules"].as_array().ok_or("rules")? {
                let mut rule = ConditionalFormattingRule::default();
                rule.set_type(s(r, "type").parse().map_err(|_| "bad cf type")?);
                if !so(r, "op").is_empty() {
                    rule.set_operator(so(r, "op").parse().map_err(|_| "bad cf op")?);
                }
                rule.set_priority(io(r, "prio") as i32);
                if bo(r, "stop") {
                    rule.set_stop_if_true(true);
                }
                if bo(r, "hasf") {
                    let mut f = Formula::default();
                    f.set_string_value(so(r, "f"));
                    rule.set_formula(f);
                }
                if !so(r, "text").is_empty() {
                    rule.set_text(so(r, "text"));
                }
                if io(r, "rank") > 0 {
                    rule.set_rank(io(r, "rank") as u32);
                }
                if bo(r, "percent") {
                    rule.set_percent(true);
                }
                if bo(r, "bottom") {
                    rule.set_bottom(true);
                }
                if let Some(x) = r["sty"].as_array().and_then(|a| a.first()) {
                    let mut sty = Style::default();
                    if bo(x, "bold") {
                        sty.get_font_mut().set_bold(true);
                    }
                    if !so(x, "fill").is_empty() {
                        sty.set_background_color(so(x, "fill"));
                    }
                    rule.set_style(sty);
                }
                cf.add_conditional_collection(rule);
            }
            ws.add_conditional_formatting_collection(cf);
        }
        "SetProp" => {
            let p = book.get_properties_mut();
            let v = s(st, "v");
            match s(st, "k") {
                "title" => p.set_title(v),
                "subject" => p.set_subject(v),
                "creator" => p.set_creator(v),
                "keywords" => p.set_keywords(v),
                "description" => p.set_description(v),
                "lastmod" => p.set_last_modified_by(v),
                "category" => p.set_category(v),
                "version" => p.set_version(v),
                "revision" => p.set_revision(v),
                "created" => p.set_created(v),
                "modified" => p.set_modified(v),
                "manager" => p.set_manager(v),
                "company" => p.set_company(v),
                k => return Err(format!("prop key {}", k)),
            };
        }
        "AddCustom" => {
            let mut c = CustomDocumentProperty::default();
            c.set_name(s(st, "name"));
            match s(st, "kind") {
                "str" => {
                    c.set_value_string(s(st, "v"));
                }
                "date" => {
                    c.set_value_date_manual(s(st, "v"));
                }
                "num" => {
                    c.set_value_number(i(st, "n") as i32);
                }
                "bool" => {
                    c.set_value_bool(b(st, "b"));
                }
                k => return Err(format!("custom kind {}", k)),
            };
            book.get_properties_mut().get_custom_properties_mut().add_custom_document_property_list(c);
        }
        other => panic!("unknown step {}", other),
    }
    Ok(())
}

fn save(book: &Spreadsheet, st: &Value, path: &PathBuf) -> Result<(), String> {
    let light = bo(st, "light");
    if so(st, "via") == "mem" {
        let mut buf: Vec<u8> = Vec::new();
        if light {
            umya_spreadsheet::writer::xlsx::write_writer_light(book, &mut buf).map_err(|e| format!("{:?}", e))?;
        } else {
            umya_spreadsheet::writer::xlsx::write_writer(book, &mut buf).map_err(|e| format!("{:?}", e))?;
        }
        std::fs::write(path, &buf).map_err(|e| e.to_string())
    } else if light {
        umya_spreadsheet::writer::xlsx::write_light(book, path).map_err(|e| format!("{:?}", e))
    } else {
        umya_spreadsheet::writer::xlsx::write(book, path).map_err(|e| format!("{:?}", e))
    }
}

fn load(st: &Value, path: &PathBuf) -> Result<Spreadsheet, String> {
    let lazy = s(st, "mode") == "lazy";
    if so(st, "via") == "mem" {
        let bytes = std::fs::read(path).map_err(|e| e.to_string())?;
        umya_spreadsheet::reader::xlsx::read_reader(Cursor::new(bytes), !lazy).map_err(|e| format!("{:?}", e))
    } else if lazy {
        umya_spreadsheet::reader::xlsx::lazy_read(path).map_err(|e| format!("{:?}", e))
    } else {
        umya_spreadsheet::reader::xlsx::read(path).map_err(|e| format!("{:?}", e))
    }
}

fn run(case: &Value) -> Vec<Value> {
    let id = case["case"].clone();
    let idtxt = match &id {
        Value::String(x) => x.clone(),
        other => other.to_string(),
    };
    let tmp = PathBuf::from(so(case, "tmp"));
    let steps = case["steps"].as_array().expect("steps");
    let mut events = vec![];
    let mut book = umya_spreadsheet::new_file_empty_worksheet();
    let mut prev = Prev { sheets: vec![], props: Value::Null };
    let mut last_path: Option<PathBuf> = None;
    let mut nsave = 0;
    for st in steps {
        let a = s(st, "a");
        let mut e = st.clone();
        e["case"] = id.clone();
        let outcome: String = match a {
            "Init" => {
                let mut ok = true;
                let names = st["sheets"].as_array().expect("sheets");
                if so(st, "base") == "new_file" {
                    book = umya_spreadsheet::new_file();
                    for n in names.iter().skip(1) {
                        ok &= book.new_sheet(n.as_str().unwrap()).is_ok();
                    }
                } else {
                    book = umya_spreadsheet::new_file_empty_worksheet();
                    for n in names {
                        ok &= book.new_sheet(n.as_str().unwrap()).is_ok();
                    }
                }
                prev = Prev { sheets: vec![], props: Value::Null };
                last_path = None;
                (if ok { "ok" } else { "err" }).to_string()
            }
            "OpenFile" => {
                // a corpus file as the initial state
                let p = PathBuf::from(s(st, "path"));
                prev = Prev { sheets: vec![], props: Value::Null };
                match catch_unwind(AssertUnwindSafe(|| load(st, &p))) {
                    Ok(Ok(b2)) => {
                        book = b2;
                        last_path = Some(p);
                        "ok".to_string()
                    }
                    Ok(Err(_)) => "load-err".to_string(),
                    Err(_) => "load-panic".to_string(),
                }
            }
            "Save" => {
                nsave += 1;
                let path = tmp.join(format!("{}-{}.xlsx", idtxt, nsave));
                let r = catch_unwind(AssertUnwindSafe(|| save(&book, st, &path)));
                e["path"] = json!(path.to_string_lossy());
                match r {
                    Ok(Ok(())) => {
                        last_path = Some(path);
                        "ok".to_string()
                    }
                    Ok(Err(_)) => "save-err".to_string(),
                    Err(_) => "save-panic".to_string(),
                }
            }
            "Load" => match &last_path {
                None => "no-file".to_string(),
                Some(p) => match catch_unwind(AssertUnwindSafe(|| load(st, p))) {
                    Ok(Ok(b2)) => {
                        book = b2;
                        "ok".to_string()
                    }
                    Ok(Err(_)) => "load-err".to_string(),
                    Err(_) => "load-panic".to_string(),
                },
            },
            _ => match catch_unwind(AssertUnwindSafe(|| apply(&mut book, st))) {
                Ok(Ok(())) => "ok".to_string(),
                Ok(Err(_)) => "err".to_string(),
                Err(_) => "panic".to_string(),
            },
        };
        if a == "SetProtPw" {
            let i = u(st, "s") as usize - 1;
            e["tok"] = catch_unwind(AssertUnwindSafe(|| book.get_sheet(&i).and_then(|w| w.get_sheet_protection()).map(tok_of)))
                .ok()
                .flatten()
                .unwrap_or(json!({"alg": "", "hash": "", "salt": "", "spin": 0, "legacy": ""}));
        }
        e["outcome"] = json!(outcome);
        e["obs"] = match catch_unwind(AssertUnwindSafe(|| observe(&book, &mut prev))) {
            Ok(v) => v,
            Err(_) => {
                e["outcome"] = json!("project-panic");
                prev = Prev { sheets: vec![], props: Value::Null };
                json!({"sheets": [], "props": project_props(&umya_spreadsheet::new_file_empty_worksheet()), "custom": [], "active": -1})
            }
        };
        events.push(e);
    }
    events
}
