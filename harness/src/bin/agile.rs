//! Domain `agile` (C14): password-encrypted output (ECMA-376 agile encryption).
//!
//! A case is a history of saves.  Every save writes one encrypted file through one of the three
//! public entry points and, next to it, the *unencrypted package* it must decrypt to:
//!   set_password                the input file (arbitrary bytes of any size, written by this driver)
//!   write_with_password(_light) `write_writer(_light)` of the same workbook into memory, taken
//!                               before and after the encrypted save (ref / ref2)
//! The driver only writes files and reports their paths; the compound file is opened and decrypted
//! by /verif/pydec (independent decryptor), the verdict is TLC's (spec/Trace_Agile.tla).
use serde_json::{json, Value};
use std::path::PathBuf;
use umya_spreadsheet::writer::xlsx;
use umya_spreadsheet::Spreadsheet;
use uverif::*;

fn main() {
    serve(run);
}

struct Rng(u64);
impl Rng {
    fn next(&mut self) -> u64 {
        // splitmix64
        self.0 = self.0.wrapping_add(0x9E37_79B9_7F4A_7C15);
        let mut z = self.0;
        z = (z ^ (z >> 30)).wrapping_mul(0xBF58_476D_1CE4_E5B9);
        z = (z ^ (z >> 27)).wrapping_mul(0x94D0_49BB_1331_11EB);
        z ^ (z >> 31)
    }
    fn text(&mut self, n: usize) -> String {
        const A: &[u8] = b"abcdefghijklmnopqrstuvwxyzABCDEFGHIJKLMNOPQRSTUVWXYZ0123456789";
        (0..n).map(|_| A[(self.next() % A.len() as u64) as usize] as char).collect()
    }
}

fn package(book: &Spreadsheet, light: bool) -> Vec<u8> {
    let mut v: Vec<u8> = Vec::new();
    if light {
        xlsx::write_writer_light(book, &mut v).unwrap();
    } else {
        xlsx::write_writer(book, &mut v).unwrap();
    }
    v
}

/// Build the workbook of a write_with_password save: `cells` cells in column A (kind "num": numbers,
/// kind "str": shared strings) and a filler formula of `filler` random characters in B1.
fn make_book(sv: &Value, filler: usize) -> Spreadsheet {
    let mut book = umya_spreadsheet::new_file();
    let mut rng = Rng(sv["seed"].as_u64().unwrap_or(1));
    let cells = sv["cells"].as_u64().unwrap_or(0) as u32;
    let tlen = sv["text_len"].as_u64().unwrap_or(8) as usize;
    let strings = sv["kind"].as_str() == Some("str");
    let pool = rng.text(filler);
    let sheet = book.get_sheet_by_name_mut("Sheet1").unwrap();
    for k in 0..cells {
        if strings {
            sheet.get_cell_mut((1, k + 1)).set_value_string(rng.text(tlen));
        } else {
            sheet.get_cell_mut((1, k + 1)).set_value_number((rng.next() % 1_000_000_007) as f64 / 64.0);
        }
    }
    if filler > 0 {
        sheet.get_cell_mut((2, 1)).set_formula(format!("LEN(\"{}\")", pool));
    }
    book
}

/// Optional "fit": {"m": m, "r": r}: the filler grows until the package length is congruent to r
/// modulo m (best effort, bounded; a fresh workbook per attempt because saving is not pure).
fn build_book(sv: &Value, light: bool) -> Spreadsheet {
    let mut len = sv["filler"].as_u64().unwrap_or(0) as usize;
    if let (Some(m), Some(r)) = (sv["fit"]["m"].as_u64(), sv["fit"]["r"].as_u64()) {
        let (m, r) = (m as usize, r as usize);
        for _ in 0..600 {
            let cur = package(&make_book(sv, len), light).len();
            let d = (r + m - cur % m) % m;
            if d == 0 {
                break;
            }
            // one more character grows the package by at most about one byte: no overshoot
            len += if d > 48 { d - 32 } else { 1 };
        }
    }
    make_book(sv, len)
}

fn run(case: &Value) -> Vec<Value> {
    let id = case["case"].clone();
    let dir = PathBuf::from(s(case, "dir"));
    std::fs::create_dir_all(&dir).unwrap();
    let mut out = vec![];
    for (i, sv) in case["saves"].as_array().unwrap().iter().enumerate() {
        let via = s(sv, "via").to_string();
        let pw = s(sv, "pw").to_string();
        let enc = dir.join(format!("enc{}.xlsx", i));
        let refp = dir.join(format!("ref{}.bin", i));
        let ref2 = dir.join(format!("ref{}b.bin", i));
        let _ = std::fs::remove_file(&enc);
        let (encc, refc, ref2c, pwc, viac, svc) = (enc.clone(), refp.clone(), ref2.clone(), pw.clone(), via.clone(), sv.clone());
        let res = std::panic::catch_unwind(move || -> Result<(), String> {
            match viac.as_str() {
                "set_password" => {
                    let n = svc["size"].as_u64().unwrap() as usize;
                    let mut rng = Rng(svc["seed"].as_u64().unwrap_or(7));
                    let mut data = Vec::with_capacity(n + 8);
                    while data.len() < n {
                        data.extend_from_slice(&rng.next().to_le_bytes());
                    }
                    data.truncate(n);
                    std::fs::write(&refc, &data).unwrap();
                    std::fs::write(&ref2c, &data).unwrap();
                    xlsx::set_password(&refc, &encc, &pwc).map_err(|e| format!("{:?}", e))
                }
                "write_with_password" | "write_with_password_light" => {
                    let light = viac.ends_with("_light");
                    let book = build_book(&svc, light);
                    std::fs::write(&refc, package(&book, light)).unwrap();
                    let r = if light {
                        xlsx::write_with_password_light(&book, &encc, &pwc)
                    } else {
                        xlsx::write_with_password(&book, &encc, &pwc)
                    };
                    std::fs::write(&ref2c, package(&book, light)).unwrap();
                    r.map_err(|e| format!("{:?}", e))
                }
                other => panic!("unknown entry point {}", other),
            }
        });
        let (outcome, msg) = match res {
            Ok(Ok(())) => ("ok", String::new()),
            Ok(Err(e)) => ("err", e),
            Err(p) => ("panic", panic_msg(&p)),
        };
        out.push(json!({"a": "Save", "case": id, "i": i, "via": via, "pw": pw, "outcome": outcome, "msg": msg,
                        "enc": enc.to_string_lossy(), "ref": refp.to_string_lossy(), "ref2": ref2.to_string_lossy()}));
    }
    out
}
