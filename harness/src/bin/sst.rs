//! Domain `sst` (C12, C16): histories over several workbook objects (clones, reloads) with saves,
//! and concurrent saves under a cooperative scheduler driven through the cfg(umya_verif) yield points.
//!
//! case = {"case": id, "steps": [{"a":"Init"}, {"a":"SetText","w":1,"sh":1,"r":1,"s":"STR_a"}, .. ]}
//! Sequential steps yield one event each: step fields + "outcome" + "texts" (col-A text cells of every
//! live workbook through public getters) and, for Save, "hex" (the bytes written, decoded by
//! pydec/sst_view.py before TLC sees the event).
//! {"a":"ConcSave","savers":[w,..],"schedule":[i,..]} runs one thread per saver (savers naming the same
//! workbook share one object through Arc) and releases them yield point by yield point in exactly the
//! given order; it yields one "Step" event per schedule entry and a final "Done" event with the bytes
//! every saver produced.
use serde_json::{json, Value};
use std::io::Cursor;
use std::panic::{catch_unwind, AssertUnwindSafe};
use std::sync::{Arc, Condvar, Mutex};
use std::time::Duration;
use umya_spreadsheet::structs::Spreadsheet;
use uverif::*;

fn main() {
    serve(run);
}

fn hex(b: &[u8]) -> String {
    let mut s = String::with_capacity(b.len() * 2);
    for x in b {
        s.push_str(&format!("{:02x}", x));
    }
    s
}

/// Projection of one workbook object.  Sheets that are still raw (lazy loading) are detected through
/// the public accessor's assertion; their content is read from a materialised *clone*, so that
/// observing never changes which sheets of the original are loaded.
fn texts(orig: &Spreadsheet) -> Value {
    let mut raw = vec![];
    for i in 0..orig.get_sheet_count() {
        let r = catch_unwind(AssertUnwindSafe(|| orig.get_sheet(&i).map(|w| w.get_name().to_string())));
        if r.is_err() {
            let name = orig.get_sheet_collection_no_check()[i].get_name().to_string();
            raw.push(if name == "S1" { 1 } else if name == "S2" { 2 } else { i as u32 + 10 });
        }
    }
    let mut copy;
    let book: &Spreadsheet = if raw.is_empty() {
        orig
    } else {
        copy = orig.clone();
        copy.read_sheet_collection();
        &copy
    };
    let mut cells = vec![];
    let mut names = vec![];
    for (si, ws) in book.get_sheet_collection().iter().enumerate() {
        names.push(ws.get_name().to_string());
        for c in ws.get_cell_collection_sorted() {
            if *c.get_coordinate().get_col_num() == 1 && !c.get_value().is_empty() {
                let shno = if ws.get_name() == "S1" { 1 } else if ws.get_name() == "S2" { 2 } else { si as u32 + 10 };
                cells.push(json!([shno, c.get_coordinate().get_row_num(), c.get_value().to_string()]));
            }
        }
    }
    json!({"sheets": names, "cells": cells, "raw": raw})
}

fn all_texts(books: &[Spreadsheet]) -> Value {
    Value::Array(books.iter().map(texts).collect())
}

struct Sched {
    at: Vec<u8>,        // yield point a thread waits at (0 = running)
    granted: Vec<bool>, // permission to leave the yield point
    done: Vec<bool>,
    free: bool, // let everybody run
}

fn conc_save(books: &[Spreadsheet], st: &Value, id: &Value) -> Vec<Value> {
    let savers: Vec<usize> = st["savers"].as_array().unwrap().iter().map(|x| x.as_u64().unwrap() as usize).collect();
    let schedule: Vec<usize> = st["schedule"].as_array().unwrap().iter().map(|x| x.as_u64().unwrap() as usize).collect();
    let n = savers.len();
    // optional: file names (in a fresh scratch directory) for path-based saves
    let dir = std::env::temp_dir().join(format!("uverif-sst-{}-{}", std::process::id(), id));
    let names: Vec<String> = st.get("paths").and_then(|x| x.as_array()).map(|a| a.iter().map(|x| x.as_str().unwrap().to_string()).collect()).unwrap_or_default();
    if !names.is_empty() {
        let _ = std::fs::remove_dir_all(&dir);
        std::fs::create_dir_all(&dir).expect("scratch dir");
    }
    let paths: Vec<String> = names.iter().map(|x| dir.join(x).to_string_lossy().to_string()).collect();
    // one shared object per distinct workbook named (a clone of the harness's own object: it shares
    // whatever a clone shares with its original)
    let mut objs: std::collections::HashMap<usize, Arc<Spreadsheet>> = std::collections::HashMap::new();
    for w in &savers {
        objs.entry(*w).or_insert_with(|| Arc::new(books[*w - 1].clone()));
    }
    let sched = Arc::new((Mutex::new(Sched { at: vec![0; n], granted: vec![false; n], done: vec![false; n], free: false }), Condvar::new()));
    let results: Arc<Mutex<Vec<Option<Result<Vec<u8>, String>>>>> = Arc::new(Mutex::new(vec![None; n]));
    let mut handles = vec![];
    for i in 0..n {
        let book = objs[&savers[i]].clone();
        let paths = paths.clone();
        let sched = sched.clone();
        let results = results.clone();
        handles.push(std::thread::spawn(move || {
            let s2 = sched.clone();
            umya_spreadsheet::verif_hooks::set_yield_hook(Some(Box::new(move |p: u8| {
                let (m, cv) = &*s2;
                let mut g = m.lock().unwrap();
                if g.free {
                    return;
                }
                g.at[i] = p;
                cv.notify_all();
                while !g.granted[i] && !g.free {
                    g = cv.wait(g).unwrap();
                }
                g.granted[i] = false;
                g.at[i] = 0;
            })));
            let path = paths.get(i).cloned();
            let r = catch_unwind(AssertUnwindSafe(|| match &path {
                None => {
                    let mut buf: Vec<u8> = Vec::new();
                    umya_spreadsheet::writer::xlsx::write_writer(&book, &mut buf).map(|_| buf).map_err(|e| format!("{:?}", e))
                }
                // path-based save: the bytes are read back from the destination once every saver has finished
                Some(p) => umya_spreadsheet::writer::xlsx::write(&book, std::path::Path::new(p)).map(|_| Vec::new()).map_err(|e| format!("{:?}", e)),
            }));
            umya_spreadsheet::verif_hooks::set_yield_hook(None);
            let r = match r {
                Ok(x) => x,
                Err(_) => Err("panic".to_string()),
            };
            results.lock().unwrap()[i] = Some(r);
            let (m, cv) = &*sched;
            let mut g = m.lock().unwrap();
            g.done[i] = true;
            g.at[i] = 0;
            cv.notify_all();
        }));
    }
    let (m, cv) = &*sched;
    let wait = Duration::from_secs(10);
    let mut events = vec![];
    let mut stuck = false;
    // wait until every thread is parked at its first yield point
    {
        let g = m.lock().unwrap();
        let (_g, to) = cv
            .wait_timeout_while(g, wait, |g| (0..n).any(|i| g.at[i] == 0 && !g.done[i]))
            .unwrap();
        if to.timed_out() {
            stuck = true;
        }
    }
    for &t in &schedule {
        if stuck {
            break;
        }
        let i = t - 1;
        let mut g = m.lock().unwrap();
        let at = g.at[i];
        if g.done[i] {
            events.push(json!({"a":"Step","case":id,"t":t,"at":0,"next":0,"outcome":"ok"}));
            continue;
        }
        g.granted[i] = true;
        cv.notify_all();
        let (g2, to) = cv.wait_timeout_while(g, wait, |g| g.granted[i] || (g.at[i] == 0 && !g.done[i])).unwrap();
        if to.timed_out() {
            events.push(json!({"a":"Step","case":id,"t":t,"at":at,"next":0,"outcome":"timeout"}));
            stuck = true;
            break;
        }
        let next = if g2.done[i] { 0 } else { g2.at[i] };
        events.push(json!({"a":"Step","case":id,"t":t,"at":at,"next":next,"outcome":"ok"}));
    }
    // release everybody and collect
    {
        let mut g = m.lock().unwrap();
        g.free = true;
        cv.notify_all();
        let (_g, to) = cv.wait_timeout_while(g, wait, |g| (0..n).any(|i| !g.done[i])).unwrap();
        if to.timed_out() {
            stuck = true;
        }
    }
    let mut outs = vec![];
    if !stuck {
        for h in handles {
            let _ = h.join();
        }
        for (i, r) in results.lock().unwrap().iter().enumerate() {
            outs.push(match r {
                Some(Ok(b)) if !paths.is_empty() => match std::fs::read(&paths[i]) {
                    Ok(bytes) => json!({"outcome":"ok","hex":hex(&bytes)}),
                    Err(_) => json!({"outcome":"err","hex":""}),
                },
                Some(Ok(b)) => json!({"outcome":"ok","hex":hex(b)}),
                Some(Err(e)) if e == "panic" => json!({"outcome":"panic","hex":""}),
                Some(Err(_)) => json!({"outcome":"err","hex":""}),
                None => json!({"outcome":"timeout","hex":""}),
            });
        }
    }
    // anything left in the scratch directory besides the destinations (e.g. temporary files)
    let mut leftovers: Vec<String> = vec![];
    if !paths.is_empty() {
        if let Ok(rd) = std::fs::read_dir(&dir) {
            for e in rd.flatten() {
                let nm = e.file_name().to_string_lossy().to_string();
                if !names.contains(&nm) {
                    leftovers.push(nm);
                }
            }
        }
        leftovers.sort();
        let _ = std::fs::remove_dir_all(&dir);
    }
    events.push(json!({"a":"Done","case":id,"leftovers":leftovers,"savers":st["savers"],"outcome": if stuck {"timeout"} else {"ok"},"outs":outs,
                       "texts": all_texts(books)}));
    events
}

/// {"a":"FreeSave","savers":[w,..],"rounds":R}: one free-running thread per saver (no yield hook: the operating
/// system schedules them), all released together, each saving R times into memory.  Savers naming the same
/// workbook share one object.  The outs are listed thread by thread, round by round.
fn free_save(books: &[Spreadsheet], st: &Value, id: &Value) -> Vec<Value> {
    let savers: Vec<usize> = st["savers"].as_array().unwrap().iter().map(|x| x.as_u64().unwrap() as usize).collect();
    let rounds = st.get("rounds").and_then(|x| x.as_u64()).unwrap_or(1) as usize;
    let n = savers.len();
    let mut objs: std::collections::HashMap<usize, Arc<Spreadsheet>> = std::collections::HashMap::new();
    for w in &savers {
        objs.entry(*w).or_insert_with(|| Arc::new(books[*w - 1].clone()));
    }
    let gate = Arc::new(std::sync::Barrier::new(n));
    let mut handles = vec![];
    for i in 0..n {
        let book = objs[&savers[i]].clone();
        let gate = gate.clone();
        handles.push(std::thread::spawn(move || {
            let mut outs: Vec<Result<Vec<u8>, String>> = vec![];
            for _ in 0..rounds {
                gate.wait();
                let r = catch_unwind(AssertUnwindSafe(|| {
                    let mut buf: Vec<u8> = Vec::new();
                    umya_spreadsheet::writer::xlsx::write_writer(&book, &mut buf).map(|_| buf).map_err(|e| format!("{:?}", e))
                }));
                outs.push(match r {
                    Ok(x) => x,
                    Err(_) => Err("panic".to_string()),
                });
            }
            outs
        }));
    }
    let mut outs = vec![];
    let mut who = vec![];
    for (i, h) in handles.into_iter().enumerate() {
        let rs = h.join().unwrap_or_else(|_| (0..rounds).map(|_| Err("panic".to_string())).collect());
        for r in rs {
            who.push(json!(savers[i]));
            outs.push(match r {
                Ok(b) => json!({"outcome":"ok","hex":hex(&b)}),
                Err(e) if e == "panic" => json!({"outcome":"panic","hex":""}),
                Err(_) => json!({"outcome":"err","hex":""}),
            });
        }
    }
    vec![json!({"a":"Done","case":id,"leftovers":[],"savers":who,"outcome":"ok","outs":outs,"texts": all_texts(books)})]
}

fn run(case: &Value) -> Vec<Value> {
    let id = case["case"].clone();
    let steps = case["steps"].as_array().expect("steps");
    let mut books: Vec<Spreadsheet> = vec![];
    let mut files: Vec<Option<Vec<u8>>> = vec![];
    let mut events = vec![];
    for st in steps {
        let a = s(st, "a");
        if a == "ConcSave" {
            events.extend(conc_save(&books, st, &id));
            continue;
        }
        if a == "FreeSave" {
            events.extend(free_save(&books, st, &id));
            continue;
        }
        let mut hexout = String::new();
        let r = catch_unwind(AssertUnwindSafe(|| -> Result<(), String> {
            match a {
                "Init" => {
                    let mut b = umya_spreadsheet::new_file_empty_worksheet();
                    b.new_sheet("S1").unwrap();
                    b.new_sheet("S2").unwrap();
                    books.push(b);
                    files.push(None);
                }
                "SetText" => {
                    let w = u(st, "w") as usize - 1;
                    let name = if u(st, "sh") == 1 { "S1" } else { "S2" };
                    let cell = books[w].get_sheet_by_name_mut(name).ok_or("no sheet")?.get_cell_mut((1, u(st, "r")));
                    let text = s(st, "s");
                    if st.get("rich").and_then(|x| x.as_bool()).unwrap_or(false) {
                        // a rich text of two runs whose concatenation is the text
                        let mid = text.char_indices().nth(text.chars().count() / 2).map(|x| x.0).unwrap_or(0);
                        let mut rt = umya_spreadsheet::structs::RichText::default();
                        let mut a = umya_spreadsheet::structs::TextElement::default();
                        a.set_text(&text[..mid]);
                        a.get_font_mut().set_bold(true);
                        let mut b = umya_spreadsheet::structs::TextElement::default();
                        b.set_text(&text[mid..]);
                        rt.add_rich_text_elements(a);
                        rt.add_rich_text_elements(b);
                        cell.set_rich_text(rt);
                    } else {
                        cell.set_value_string(text);
                    }
                }
                "Fill" => {
                    // rows 1..n of column A get the labels in turn, starting with label number `off`
                    let w = u(st, "w") as usize - 1;
                    let name = if u(st, "sh") == 1 { "S1" } else { "S2" };
                    let labels: Vec<String> = st["labels"].as_array().ok_or("labels")?.iter().map(|x| x.as_str().unwrap().to_string()).collect();
                    let off = st.get("off").and_then(|x| x.as_u64()).unwrap_or(0) as usize;
                    let ws = books[w].get_sheet_by_name_mut(name).ok_or("no sheet")?;
                    for r in 1..=u(st, "n") {
                        ws.get_cell_mut((1, r)).set_value_string(labels[(off + r as usize - 1) % labels.len()].clone());
                    }
                }
                "Delete" => {
                    let w = u(st, "w") as usize - 1;
                    let name = if u(st, "sh") == 1 { "S1" } else { "S2" };
                    books[w].get_sheet_by_name_mut(name).ok_or("no sheet")?.remove_cell((1, u(st, "r")));
                }
                "RemoveRow" => {
                    let w = u(st, "w") as usize - 1;
                    books[w].remove_row("S1", &u(st, "r"), &1);
                }
                "RemoveSheet" => {
                    let w = u(st, "w") as usize - 1;
                    books[w].remove_sheet_by_name("S2").map_err(|e| e.to_string())?;
                }
                "ReadSheet" => {
                    let w = u(st, "w") as usize - 1;
                    let name = if u(st, "sh") == 1 { "S1" } else { "S2" };
                    books[w].read_sheet_by_name(name);
                }
                "Clone" => {
                    let w = u(st, "w") as usize - 1;
                    let c = books[w].clone();
                    books.push(c);
                    files.push(None);
                }
                "Save" => {
                    let w = u(st, "w") as usize - 1;
                    let mut buf: Vec<u8> = Vec::new();
                    let light = st.get("light").and_then(|x| x.as_bool()).unwrap_or(false);
                    if light {
                        umya_spreadsheet::writer::xlsx::write_writer_light(&books[w], &mut buf).map_err(|e| format!("{:?}", e))?;
                    } else {
                        umya_spreadsheet::writer::xlsx::write_writer(&books[w], &mut buf).map_err(|e| format!("{:?}", e))?;
                    }
                    hexout = hex(&buf);
                    files[w] = Some(buf);
                }
                "Reload" => {
                    let w = u(st, "w") as usize - 1;
                    let data = files[w].clone().ok_or("never saved")?;
                    let lazy = st.get("lazy").and_then(|x| x.as_bool()).unwrap_or(false);
                    let b = umya_spreadsheet::reader::xlsx::read_reader(Cursor::new(data), !lazy).map_err(|e| format!("{:?}", e))?;
                    books.push(b);
                    files.push(None);
                }
                _ => panic!("unknown step {}", a),
            }
            Ok(())
        }));
        let outcome = match r {
            Ok(Ok(())) => "ok",
            Ok(Err(_)) => "err",
            Err(_) => "panic",
        };
        let mut e = st.clone();
        e["case"] = id.clone();
        e["outcome"] = json!(outcome);
        e["hex"] = json!(hexout);
        e["texts"] = all_texts(&books);
        events.push(e);
    }
    events
}
