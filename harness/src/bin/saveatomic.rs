//! Domain `saveatomic` (C13): saving to a path under I/O failure, saving to a failing sink.
//!
//! Case kinds (one JSON object per stdin line, see checks/c13.py):
//!   "size"  reference size (payload volume) of the new file of an instance, no fault
//!   "path"  save to a path in a fresh scratch directory in a *child process* (this same binary,
//!           `saveatomic child <json>`) that runs under `strace`; faults are made by the operating
//!           system: RLIMIT_FSIZE = k with SIGXFSZ ignored (EFBIG from byte k on), strace's
//!           syscall fault injection (error at the i-th write / rename / unlink / openat), an
//!           unwritable directory (the child drops root), a directory in the way, a left-over
//!           temporary file of `stale` junk bytes (an earlier save was killed), SIGKILL at the
//!           j-th system call or after a delay.  The raw strace lines, the child's exit status and
//!           the final content of the directory are returned; /verif/pydec/strace_events.py turns
//!           the lines one-to-one into events.
//!   "sink"  write_writer / write_writer_light / csv::write_writer into a caller-supplied writer
//!           that accepts a given number of bytes at each of its first calls and then accepts
//!           everything / fails / returns Ok(0) / is interrupted once; every call it received is
//!           logged.
//! The driver never judges: TLC does (spec/Trace_SaveAtomic.tla).
use serde_json::{json, Value};
use std::collections::HashMap;
use std::io::{self, Cursor, Read, Seek, SeekFrom, Write};
use std::panic::AssertUnwindSafe;
use std::path::{Path, PathBuf};
use std::process::{Command, Stdio};
use std::sync::Mutex;
use std::time::{Duration, Instant};
use umya_spreadsheet::structs::CsvWriterOption;
use umya_spreadsheet::writer::{csv, xlsx};
use umya_spreadsheet::Spreadsheet;
use uverif::*;

const PASSWORD: &str = "pw-C13";
const TRACE_SET: &str = "trace=open,openat,creat,write,pwrite64,writev,pwritev,lseek,rename,renameat,renameat2,unlink,unlinkat,fsync,fdatasync,ftruncate,truncate,close,link,linkat,sendfile,copy_file_range";

fn main() {
    let args: Vec<String> = std::env::args().collect();
    if args.len() >= 3 && args[1] == "child" {
        child(&args[2]);
    }
    serve(run);
}

// ---------------------------------------------------------------------------------------------
// workbooks
// ---------------------------------------------------------------------------------------------
struct Rng(u64);
impl Rng {
    fn next(&mut self) -> u64 {
        self.0 = self.0.wrapping_add(0x9E37_79B9_7F4A_7C15);
        let mut z = self.0;
        z = (z ^ (z >> 30)).wrapping_mul(0xBF58_476D_1CE4_E5B9);
        z = (z ^ (z >> 27)).wrapping_mul(0x94D0_49BB_1331_11EB);
        z ^ (z >> 31)
    }
    fn text(&mut self, n: usize) -> String {
        const A: &[u8] = b"abcdefghijklmnopqrstuvwxyzABCDEFGHIJKLMNOPQRSTUVWXYZ0123456789";
        (0..n).map(|_| A[(self.next() % A.len() as u64) as usize] as char).collect()
    }
}

fn is_csv(inst: &str) -> bool {
    inst == "csv"
}

/// The workbook saved by a case.  `label` is "old" or "new" (different content, so that the two
/// files differ), `vol` steers the size: for csv the exported file has exactly max(vol, 8) bytes
/// (one cell in A1), for the xlsx writers `vol` cells of 16 random characters are added.
fn build_book(inst: &str, label: &str, vol: usize) -> Spreadsheet {
    let mut book = umya_spreadsheet::new_file();
    let sheet = book.get_sheet_by_name_mut("Sheet1").unwrap();
    if is_csv(inst) {
        let n = vol.max(8) - 2; // + "\r\n"
        let mut t = String::with_capacity(n);
        t.push_str(if label == "old" { "OLD" } else { "NEW" });
        let mut rng = Rng(if label == "old" { 11 } else { 23 });
        t.push_str(&rng.text(n - 3));
        sheet.get_cell_mut((1, 1)).set_value_string(t);
    } else {
        sheet.get_cell_mut((1, 1)).set_value_string(if label == "old" { "OLD-CONTENT" } else { "NEW-CONTENT" });
        let mut rng = Rng(if label == "old" { 5 } else { 7 });
        for k in 0..vol as u32 {
            sheet.get_cell_mut((1 + k % 4, 2 + k / 4)).set_value_string(rng.text(16));
        }
    }
    book
}

fn ext_of(inst: &str) -> &'static str {
    if is_csv(inst) {
        "csv"
    } else {
        "xlsx"
    }
}

/// the bytes a fault-free save of the instance produces, where they are a function of the workbook
/// (the password-protected instances draw random salts: no reference bytes)
fn reference_bytes(inst: &str, book: &Spreadsheet) -> Option<Vec<u8>> {
    let mut cur = Cursor::new(Vec::new());
    match inst {
        "xlsx" => xlsx::write_writer(book, &mut cur).ok()?,
        "light" => xlsx::write_writer_light(book, &mut cur).ok()?,
        "csv" => csv::write_writer(book, &mut cur, &CsvWriterOption::default()).ok()?,
        _ => return None,
    }
    Some(cur.into_inner())
}

/// the package a password-protected save encrypts
fn package_bytes(inst: &str, book: &Spreadsheet) -> Vec<u8> {
    let mut cur = Cursor::new(Vec::new());
    match inst {
        "pwlight" => xlsx::write_writer_light(book, &mut cur).unwrap(),
        _ => xlsx::write_writer(book, &mut cur).unwrap(),
    }
    cur.into_inner()
}

fn fnv1a64(b: &[u8]) -> String {
    let mut h: u64 = 0xcbf29ce484222325;
    for x in b {
        h = (h ^ (*x as u64)).wrapping_mul(0x100000001b3);
    }
    format!("{:016x}", h)
}

fn save_to_path(inst: &str, book: &Spreadsheet, dest: &Path, from: &Path) -> Result<(), String> {
    let r = match inst {
        "xlsx" => xlsx::write(book, dest),
        "light" => xlsx::write_light(book, dest),
        "csv" => csv::write(book, dest, None),
        "pw" => xlsx::write_with_password(book, dest, PASSWORD),
        "pwlight" => xlsx::write_with_password_light(book, dest, PASSWORD),
        "setpw" => xlsx::set_password(from, dest, PASSWORD),
        _ => panic!("unknown instance {}", inst),
    };
    r.map_err(|e| format!("{:?}", e))
}

// ---------------------------------------------------------------------------------------------
// the child process: one save, exit status = outcome
// ---------------------------------------------------------------------------------------------
fn child(arg: &str) -> ! {
    std::panic::set_hook(Box::new(|_| {}));
    let c: Value = serde_json::from_str(arg).expect("child argument");
    let inst = s(&c, "inst").to_string();
    let vol = u(&c, "vol") as usize;
    let dest = PathBuf::from(s(&c, "dest"));
    let from = PathBuf::from(s(&c, "from"));
    let book = build_book(&inst, "new", vol);
    let fsize = i(&c, "fsize");
    let uid = i(&c, "uid");
    unsafe {
        if fsize >= 0 {
            libc::signal(libc::SIGXFSZ, libc::SIG_IGN);
            let lim = libc::rlimit { rlim_cur: fsize as libc::rlim_t, rlim_max: fsize as libc::rlim_t };
            if libc::setrlimit(libc::RLIMIT_FSIZE, &lim) != 0 {
                std::process::exit(40);
            }
        }
        if uid > 0 {
            if libc::setgid(uid as libc::gid_t) != 0 || libc::setuid(uid as libc::uid_t) != 0 {
                std::process::exit(41);
            }
        }
    }
    // marker: everything before this line in the system call log is preparation
    let _ = std::fs::File::open("/verif-c13-marker/begin");
    let r = std::panic::catch_unwind(AssertUnwindSafe(|| save_to_path(&inst, &book, &dest, &from)));
    let _ = std::fs::File::open("/verif-c13-marker/end");
    let code = match r {
        Ok(Ok(())) => 10,
        Ok(Err(_)) => 11,
        Err(_) => 12,
    };
    unsafe { libc::_exit(code) }
}

// ---------------------------------------------------------------------------------------------
// parent side
// ---------------------------------------------------------------------------------------------
fn hex(b: &[u8]) -> String {
    let mut t = String::with_capacity(b.len() * 2);
    for x in b {
        t.push_str(&format!("{:02x}", x));
    }
    t
}

fn scratch_root() -> PathBuf {
    PathBuf::from(std::env::var("VERIF_C13_SCRATCH").unwrap_or_else(|_| "/tmp".to_string()))
}

fn run(case: &Value) -> Vec<Value> {
    match s(case, "kind") {
        "size" => run_size(case),
        "path" => run_path(case),
        "sink" => run_sink(case),
        k => panic!("unknown case kind {}", k),
    }
}

fn run_size(case: &Value) -> Vec<Value> {
    let inst = s(case, "inst");
    let vol = u(case, "vol") as usize;
    let book = build_book(inst, "new", vol);
    let n = match reference_bytes(inst, &book) {
        Some(b) => b.len(),
        None => package_bytes(inst, &book).len(),
    };
    vec![json!({"a": "Size", "case": case["case"], "inst": inst, "vol": vol, "size": n})]
}

static VOLUME: Mutex<Option<HashMap<String, (usize, usize)>>> = Mutex::new(None);

struct ChildRun {
    elapsed_us: u64,
    lines: Vec<String>,
    status: String, // "ok" | "err" | "panic" | "killed" | "timeout" | "tool:<code>"
}

/// run the child under strace; `inject` are complete `-e inject=...` expressions
fn run_child(dir: &Path, arg: &Value, inject: &[String], traced: bool, kill_after_us: i64) -> ChildRun {
    let exe = std::env::current_exe().expect("current_exe");
    let log = dir.join("strace.log");
    let mut cmd;
    if traced {
        cmd = Command::new("strace");
        cmd.arg("-f").arg("-qq").arg("-s").arg("0").arg("-o").arg(&log).arg("-e").arg(TRACE_SET);
        for x in inject {
            cmd.arg("-e").arg(x);
        }
        cmd.arg(&exe);
    } else {
        cmd = Command::new(&exe);
    }
    cmd.arg("child").arg(arg.to_string());
    cmd.stdin(Stdio::null()).stdout(Stdio::null()).stderr(Stdio::null());
    let mut ch = cmd.spawn().expect("spawn child");
    let t0 = Instant::now();
    let mut killed_by_us = false;
    let status = loop {
        match ch.try_wait().expect("wait") {
            Some(st) => break Some(st),
            None => {
                let el = t0.elapsed();
                if kill_after_us >= 0 && !killed_by_us && el >= Duration::from_micros(kill_after_us as u64) {
                    let _ = ch.kill();
                    killed_by_us = true;
                } else if el > Duration::from_secs(60) {
                    let _ = ch.kill();
                    let _ = ch.wait();
                    break None;
                }
                if kill_after_us >= 0 && !killed_by_us {
                    std::hint::spin_loop();
                } else {
                    std::thread::sleep(Duration::from_micros(300));
                }
            }
        }
    };
    let elapsed_us = t0.elapsed().as_micros() as u64;
    use std::os::unix::process::ExitStatusExt;
    let status = match status {
        None => "timeout".to_string(),
        Some(st) => match (st.code(), st.signal()) {
            (Some(10), _) => "ok".to_string(),
            (Some(11), _) => "err".to_string(),
            (Some(12), _) => "panic".to_string(),
            (Some(c), _) => format!("tool:{}", c),
            (None, Some(9)) => "killed".to_string(),
            (None, Some(sg)) => format!("tool:signal{}", sg),
            _ => "tool:?".to_string(),
        },
    };
    let mut lines = vec![];
    if traced {
        let mut t = String::new();
        if let Ok(mut f) = std::fs::File::open(&log) {
            let _ = f.read_to_string(&mut t);
        }
        lines = t.lines().map(|x| x.to_string()).collect();
        let _ = std::fs::remove_file(&log);
    }
    ChildRun { elapsed_us, lines, status }
}

fn run_path(case: &Value) -> Vec<Value> {
    let id = case["case"].clone();
    let inst = s(case, "inst").to_string();
    let vol = u(case, "vol") as usize;
    let oldvol = u(case, "oldvol") as usize;
    let existed = b(case, "existed");
    let fault = &case["fault"];
    let ft = s(fault, "t").to_string();
    let root = scratch_root().join(format!("saveatomic-{}-{}", std::process::id(), id.to_string().replace('"', "")));
    let _ = std::fs::remove_dir_all(&root);
    let dir = root.join("d");
    std::fs::create_dir_all(&dir).expect("scratch dir");
    let ext = ext_of(&inst);
    let dest = dir.join(format!("book.{}", ext));
    let tmp = dir.join(format!("book.{}tmp", ext));
    let from = root.join("input.xlsx");

    // the old destination and the reference of the new one
    let oldinst = if is_csv(&inst) { "csv" } else { "xlsx" };
    let old_bytes = reference_bytes(oldinst, &build_book(oldinst, "old", oldvol)).expect("old bytes");
    let newbook = build_book(&inst, "new", vol);
    let new_bytes = reference_bytes(&inst, &newbook);
    let mut pkg_len = 0usize;
    let mut pkg_fnv = String::new();
    if inst == "setpw" {
        let input = reference_bytes("xlsx", &newbook).expect("input bytes");
        pkg_len = input.len();
        pkg_fnv = fnv1a64(&input);
        std::fs::write(&from, &input).expect("write input");
    } else if new_bytes.is_none() {
        let p = package_bytes(&inst, &newbook);
        pkg_len = p.len();
        pkg_fnv = fnv1a64(&p);
    }
    if existed {
        std::fs::write(&dest, &old_bytes).expect("write old");
    }
    let arg = json!({"inst": inst, "vol": vol, "dest": dest.to_str().unwrap(), "from": from.to_str().unwrap(),
                     "fsize": if ft == "fsize" { i(fault, "k") } else { -1 },
                     "uid": if ft == "rodir" { 65534 } else { 0 }});

    // payload volume of a fault-free save: the file size where the bytes are a function of the
    // workbook, else (password instances) the number of bytes a fault-free traced save writes
    let mut ref_len = new_bytes.as_ref().map_or(0, |b| b.len());
    let volume = match &new_bytes {
        Some(b) => b.len(),
        None => {
            let key = format!("{}/{}", inst, vol);
            let known = VOLUME.lock().unwrap().get_or_insert_with(HashMap::new).get(&key).cloned();
            match known {
                Some((v, fl)) => {
                    ref_len = fl;
                    v
                }
                None => {
                    let rdir = root.join("ref");
                    std::fs::create_dir_all(&rdir).unwrap();
                    let rdest = rdir.join(format!("book.{}", ext));
                    let mut a2 = arg.clone();
                    a2["dest"] = json!(rdest.to_str().unwrap());
                    a2["fsize"] = json!(-1);
                    a2["uid"] = json!(0);
                    let r = run_child(&rdir, &a2, &[], true, -1);
                    let mut v = 0usize;
                    let mut fds: Vec<String> = vec![];
                    for l in &r.lines {
                        // "<pid> openat(AT_FDCWD, "<path>", ...) = <fd>" / "<pid> write(<fd>, ""..., n) = m"
                        if l.contains(rdir.to_str().unwrap()) && l.contains("openat(") {
                            if let Some(fd) = l.rsplit("= ").next() {
                                fds.push(fd.trim().to_string());
                            }
                        } else if let Some(p) = l.find("write(") {
                            let rest = &l[p + 6..];
                            let fd = rest.split(',').next().unwrap_or("").trim().to_string();
                            if fds.contains(&fd) {
                                if let Some(m) = l.rsplit("= ").next() {
                                    v += m.trim().parse::<usize>().unwrap_or(0);
                                }
                            }
                        }
                    }
                    let flen = std::fs::metadata(&rdest).map(|m| m.len() as usize).unwrap_or(0);
                    if r.status != "ok" || v == 0 {
                        panic!("reference run of {} failed: {}", key, r.status);
                    }
                    VOLUME.lock().unwrap().get_or_insert_with(HashMap::new).insert(key, (v, flen));
                    let _ = std::fs::remove_dir_all(&rdir);
                    ref_len = flen;
                    v
                }
            }
        }
    };

    // environment faults that are properties of the directory
    match ft.as_str() {
        "rodir" => {
            use std::os::unix::fs::PermissionsExt;
            std::fs::set_permissions(&root, std::fs::Permissions::from_mode(0o755)).unwrap();
            std::fs::set_permissions(&dir, std::fs::Permissions::from_mode(0o555)).unwrap();
        }
        "tmpisdir" => {
            std::fs::create_dir_all(&tmp).unwrap();
        }
        _ => {}
    }
    // a temporary file that an earlier, killed save left behind: `stale` bytes of junk
    let stale = case["stale"].as_u64().unwrap_or(0) as usize;
    if stale > 0 && ft != "tmpisdir" {
        let mut rng = Rng(0x57A1E);
        let junk: Vec<u8> = (0..stale).map(|_| (rng.next() & 0xff) as u8 | 0x80).collect();
        std::fs::write(&tmp, &junk).expect("write stale temporary file");
    }
    let mut inject: Vec<String> = vec![];
    if ft == "inject" {
        for x in fault["exprs"].as_array().unwrap() {
            inject.push(format!("inject={}", x.as_str().unwrap()));
        }
    }
    let kill_us = if ft == "killtime" { i(fault, "us") } else { -1 };
    let traced = ft != "killtime";
    let r = run_child(&root, &arg, &inject, traced, kill_us);

    // final observation
    if ft == "rodir" {
        use std::os::unix::fs::PermissionsExt;
        let _ = std::fs::set_permissions(&dir, std::fs::Permissions::from_mode(0o755));
    }
    let mut names: Vec<String> = std::fs::read_dir(&dir)
        .map(|rd| rd.filter_map(|e| e.ok()).map(|e| e.file_name().to_string_lossy().to_string()).collect())
        .unwrap_or_default();
    names.sort();
    let mut dest_hex = String::new();
    let (dest_class, dest_len) = match std::fs::read(&dest) {
        Err(_) => (if dest.exists() { "other" } else { "absent" }, 0usize),
        Ok(bytes) => {
            let cl = if bytes == old_bytes {
                "old"
            } else if Some(&bytes) == new_bytes.as_ref() {
                "new"
            } else if new_bytes.as_ref().map_or(false, |nb| nb.starts_with(&bytes)) {
                "prefix" // a proper prefix of the reference bytes (possibly empty)
            } else {
                if new_bytes.is_none() {
                    dest_hex = hex(&bytes);
                }
                "other"
            };
            (cl, bytes.len())
        }
    };
    let (tmp_class, tmp_len) = if tmp.is_dir() {
        ("dir", 0usize)
    } else {
        match std::fs::metadata(&tmp) {
            Ok(m) => ("present", m.len() as usize),
            Err(_) => ("absent", 0usize),
        }
    };
    let out = json!({
        "a": "Raw", "case": id, "kind": "path", "inst": inst, "vol": vol, "existed": existed, "fault": fault, "stale": stale,
        "size": volume, "reflen": ref_len, "pkglen": pkg_len, "pkgfnv": pkg_fnv, "password": PASSWORD,
        "dir": dir.to_str().unwrap(), "dest": dest.to_str().unwrap(), "tmp": tmp.to_str().unwrap(),
        "status": r.status, "elapsed_us": r.elapsed_us, "lines": r.lines,
        "final": {"names": names, "dest": dest_class, "destlen": dest_len, "tmp": tmp_class, "tmplen": tmp_len,
                  "desthex": dest_hex, "oldlen": old_bytes.len()},
    });
    let _ = std::fs::remove_dir_all(&root);
    vec![out]
}

// ---------------------------------------------------------------------------------------------
// failing sinks
// ---------------------------------------------------------------------------------------------
struct Sink {
    accepts: Vec<i64>, // call i (1-based, i <= len) accepts min(len, accepts[i-1]) bytes; -1 = all of them
    after: String,     // later calls: "ok" accept everything | "err" Err(other) | "zero" Ok(0) |
    //                    "intr" Err(Interrupted) once (not a failure: write_all retries), then everything
    calls: usize,
    got: usize,
    log: Vec<Value>,
}

impl Write for Sink {
    fn write(&mut self, buf: &[u8]) -> io::Result<usize> {
        self.calls += 1;
        let i = self.calls;
        if i > self.accepts.len() {
            match self.after.as_str() {
                "zero" => {
                    self.log.push(json!({"n": buf.len(), "m": 0, "res": "zero"}));
                    return Ok(0);
                }
                "intr" if i == self.accepts.len() + 1 => {
                    self.log.push(json!({"n": buf.len(), "m": 0, "res": "intr"}));
                    return Err(io::Error::new(io::ErrorKind::Interrupted, "injected EINTR"));
                }
                "err" => {
                    self.log.push(json!({"n": buf.len(), "m": 0, "res": "err"}));
                    return Err(io::Error::new(io::ErrorKind::Other, "injected sink failure"));
                }
                _ => {}
            }
        }
        let cap = if i <= self.accepts.len() { self.accepts[i - 1] } else { -1 };
        let m = if cap < 0 { buf.len() } else { buf.len().min(cap as usize) };
        self.got += m;
        self.log.push(json!({"n": buf.len(), "m": m, "res": if m == 0 && !buf.is_empty() { "zero" } else { "ok" }}));
        Ok(m)
    }
    fn flush(&mut self) -> io::Result<()> {
        Ok(())
    }
}

impl Seek for Sink {
    fn seek(&mut self, _pos: SeekFrom) -> io::Result<u64> {
        Ok(self.got as u64)
    }
}

fn run_sink(case: &Value) -> Vec<Value> {
    let id = case["case"].clone();
    let inst = s(case, "inst").to_string();
    let vol = u(case, "vol") as usize;
    let book = build_book(&inst, "new", vol);
    let size = reference_bytes(&inst, &book).expect("reference").len();
    let mut sink = Sink {
        accepts: case["accepts"].as_array().unwrap().iter().map(|x| x.as_i64().unwrap()).collect(),
        after: s(case, "after").to_string(),
        calls: 0,
        got: 0,
        log: vec![],
    };
    let r = std::panic::catch_unwind(AssertUnwindSafe(|| match inst.as_str() {
        "xlsx" => xlsx::write_writer(&book, &mut sink).map_err(|e| format!("{:?}", e)),
        "light" => xlsx::write_writer_light(&book, &mut sink).map_err(|e| format!("{:?}", e)),
        "csv" => csv::write_writer(&book, &mut sink, &CsvWriterOption::default()).map_err(|e| format!("{:?}", e)),
        _ => panic!("unknown sink instance"),
    }));
    let (outcome, msg) = match r {
        Ok(Ok(())) => ("ok", String::new()),
        Ok(Err(e)) => ("err", e),
        Err(p) => ("panic", panic_msg(&p)),
    };
    let mut evs = vec![json!({"a": "Begin", "case": id, "kind": "sink", "inst": inst, "size": size,
                              "existed": false, "tmp0": "absent", "tmp0len": 0, "traced": true,
                              "fault": format!("writer accepts {:?} then {}", sink.accepts, sink.after)})];
    for w in &sink.log {
        evs.push(json!({"a": "SinkWrite", "n": w["n"], "m": w["m"], "res": w["res"]}));
    }
    evs.push(json!({"a": "Return", "outcome": outcome, "msg": msg.chars().take(120).collect::<String>()}));
    evs
}
