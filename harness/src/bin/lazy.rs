//! Domain `lazy` (C11): a workbook opened lazily (reader::xlsx::read_reader(.., false)) is driven through a
//! history of sheet materialisations, edits, sheet additions / removals / renames and saves, next to an
//! eagerly opened twin (read_reader(.., true)) of the same bytes that gets the same history.
//!
//! case = {"case": id, "tmp": dir, "steps": [ {"a":"Open","src":{"kind":"file","path":..} | {"kind":"gen","sheets":[..]}},
//!          {"a":"ReadSheet","i":2}, {"a":"Edit","i":1,"via":"idx","t":"s","k":1,"v":"M1"}, {"a":"RemoveSheet","i":1},
//!          {"a":"Save"}, .. ]}           (sheet indices are 1-based: TLA+ sequences)
//! Every step yields one event: the step's fields + "outcome" + "obs" = for every sheet of the lazy workbook its
//! name, whether it is materialised (public `get_sheet` does not refuse it) and, if so, its *view*: one digest
//! per aspect of the sheet read through public getters ("base", everything outside the marker zone) and the list
//! of marks (edits made by this driver, all inside the marker zone: column >= 16000 / row >= 1000000).
//! "tobs" is the same observation of the twin.  Open also logs "orig": the views of all sheets after an eager load of the same bytes, and "file": the path
//! of the original bytes.  Save writes the lazy workbook and the twin with write_writer, reloads both results
//! eagerly and logs "lz"/"tw" = {outcome, sheets:[{name, v}]} plus the paths of both written files (decoded by
//! pydec/lazy_view.py before TLC sees the event).  The driver never judges.
use serde_json::{json, Value};
use std::fmt::Write as FmtWrite;
use std::io::Cursor;
use std::panic::{catch_unwind, AssertUnwindSafe};
use umya_spreadsheet::structs::{Comment, Spreadsheet, Table, TableColumn, Worksheet};
use uverif::*;

fn main() {
    serve(run);
}

const MARK_COL: u32 = 16000; // marker zone: columns >= MARK_COL
const MARK_ROW: u32 = 1_000_000; // and rows >= MARK_ROW
const FAR_ROW: u32 = 1_040_000; // workbook-level insert/remove happens below every object

// ---- digests: Debug output of public getter results, streamed into FNV-1a 64 -------------------
struct Fnv(u64);
impl Fnv {
    fn new() -> Self {
        Fnv(0xcbf29ce484222325)
    }
    fn hex(&self) -> String {
        format!("{:016x}", self.0)
    }
}
impl FmtWrite for Fnv {
    fn write_str(&mut self, s: &str) -> std::fmt::Result {
        for b in s.as_bytes() {
            self.0 ^= *b as u64;
            self.0 = self.0.wrapping_mul(0x100000001b3);
        }
        Ok(())
    }
}
fn dig<T: std::fmt::Debug>(x: &T) -> String {
    let mut h = Fnv::new();
    let _ = write!(h, "{:?}", x);
    h.hex()
}
fn dig_list(items: &[String]) -> String {
    let mut h = Fnv::new();
    for s in items {
        let _ = h.write_str(s);
        let _ = h.write_str("|");
    }
    format!("{}:{}", items.len(), h.hex())
}

fn empty_view() -> Value {
    let mut base = serde_json::Map::new();
    for k in ASPECTS {
        base.insert(k.to_string(), json!(""));
    }
    json!({"base": Value::Object(base), "marks": []})
}

const ASPECTS: [&str; 18] = [
    "cells", "styles", "links", "linkset", "rows", "cols", "merges", "comments", "cf", "dv", "af", "drawing", "ole",
    "tables", "pivots", "page", "props", "names",
];

/// Projection of one materialised sheet through public getters.
fn view(ws: &Worksheet) -> Value {
    let mut cells = vec![];
    let mut styles = vec![];
    let mut links = vec![];
    let mut link_cells = vec![];
    let mut link_urls = vec![];
    let mut marks: Vec<(u32, String, String)> = vec![];
    for c in ws.get_cell_collection_sorted() {
        let col = *c.get_coordinate().get_col_num();
        let row = *c.get_coordinate().get_row_num();
        if col >= MARK_COL || row >= MARK_ROW {
            // marker zone: a value mark ("s" plain text, "b" bold text)
            if col == MARK_COL && row > MARK_ROW {
                let bold = c.get_style().get_font().map(|f| *f.get_bold()).unwrap_or(false);
                marks.push((row - MARK_ROW, (if bold { "b" } else { "s" }).to_string(), c.get_value().to_string()));
            }
            continue;
        }
        cells.push(format!("{},{}:{}", col, row, dig(c.get_cell_value())));
        styles.push(format!("{},{}:{}", col, row, dig(c.get_style())));
        if let Some(h) = c.get_hyperlink() {
            links.push(format!("{},{}:{}", col, row, dig(h)));
            link_cells.push(format!("{},{}", col, row));
            link_urls.push(format!("{}|{}|{}", h.get_url(), h.get_location(), h.get_tooltip()));
        }
    }
    link_urls.sort();
    let mut linkset = link_cells.clone();
    linkset.extend(link_urls);
    let mut rows: Vec<(u32, String)> = ws
        .get_row_dimensions()
        .iter()
        .filter(|r| *r.get_row_num() < MARK_ROW)
        .map(|r| (*r.get_row_num(), dig(r)))
        .collect();
    rows.sort();
    let rows: Vec<String> = rows.into_iter().map(|(n, d)| format!("{}:{}", n, d)).collect();
    let cols: Vec<String> = ws.get_column_dimensions().iter().filter(|c| *c.get_col_num() < MARK_COL).map(dig).collect();
    let merges: Vec<String> = ws.get_merge_cells().iter().map(|r| r.get_range()).collect();
    let mut comments = vec![];
    for cm in ws.get_comments() {
        let col = *cm.get_coordinate().get_col_num();
        let row = *cm.get_coordinate().get_row_num();
        if col >= MARK_COL || row >= MARK_ROW {
            if row > MARK_ROW {
                marks.push((row - MARK_ROW, "c".to_string(), cm.get_text().get_text().to_string()));
            }
            continue;
        }
        comments.push(format!("{:08},{:08}:{}", col, row, dig(cm)));
    }
    comments.sort();
    let mut tables = vec![];
    for t in ws.get_tables() {
        let col = *t.get_area().0.get_col_num();
        let row = *t.get_area().0.get_row_num();
        if col >= MARK_COL || row >= MARK_ROW {
            if row > MARK_ROW {
                marks.push(((row - MARK_ROW) / 10, "t".to_string(), t.get_name().to_string()));
            }
            continue;
        }
        tables.push(format!("{}:{}", t.get_name(), dig(t)));
    }
    tables.sort();
    let cf: Vec<String> = ws.get_conditional_formatting_collection().iter().map(dig).collect();
    let dv = vec![dig(&ws.get_data_validations()), dig(&ws.get_data_validations_2010())];
    let af = vec![dig(&ws.get_auto_filter())];
    let drawing = vec![dig(ws.get_worksheet_drawing())];
    let ole = vec![dig(ws.get_ole_objects())];
    let pivots: Vec<String> = ws.get_pivot_tables().iter().map(dig).collect();
    let page = vec![
        dig(ws.get_page_setup()),
        dig(ws.get_page_margins()),
        dig(ws.get_header_footer()),
        dig(ws.get_print_options()),
        dig(ws.get_column_breaks()),
        dig(ws.get_row_breaks()),
    ];
    let props = vec![
        dig(ws.get_sheets_views()),
        dig(ws.get_sheet_format_properties()),
        dig(&ws.get_sheet_protection()),
        dig(&ws.get_tab_color()),
        dig(ws.get_state()),
        dig(&ws.get_code_name()),
    ];
    // defined names attached to the sheet: set_sheet_name rewrites the sheet name inside them, so they are an aspect
    // of their own that is only compared with the original while the sheet keeps its name
    let names: Vec<String> = ws.get_defined_names().iter().map(dig).collect();
    marks.sort();
    json!({
        "base": {
            "cells": dig_list(&cells), "styles": dig_list(&styles), "links": dig_list(&links),
            "linkset": dig_list(&linkset), "rows": dig_list(&rows), "cols": dig_list(&cols),
            "merges": dig_list(&merges), "comments": dig_list(&comments), "cf": dig_list(&cf), "dv": dig_list(&dv),
            "af": dig_list(&af), "drawing": dig_list(&drawing), "ole": dig_list(&ole), "tables": dig_list(&tables),
            "pivots": dig_list(&pivots), "page": dig_list(&page), "props": dig_list(&props),
            "names": dig_list(&names),
        },
        "marks": marks.iter().map(|(k, t, v)| json!({"k": k, "t": t, "v": v})).collect::<Vec<_>>(),
    })
}

fn is_loaded(book: &Spreadsheet, i: usize) -> bool {
    catch_unwind(AssertUnwindSafe(|| book.get_sheet(&i).is_some())).unwrap_or(false)
}

/// name / loaded / view of every sheet of a workbook (views only of materialised sheets)
fn observe(book: &Spreadsheet) -> Value {
    let mut out = vec![];
    for (i, ws) in book.get_sheet_collection_no_check().iter().enumerate() {
        let loaded = is_loaded(book, i);
        let v = if loaded {
            match catch_unwind(AssertUnwindSafe(|| view(ws))) {
                Ok(v) => v,
                Err(_) => {
                    let mut e = empty_view();
                    e["base"]["cells"] = json!("panic");
                    e
                }
            }
        } else {
            empty_view()
        };
        out.push(json!({"name": ws.get_name(), "loaded": loaded, "v": v}));
    }
    Value::Array(out)
}

fn eager_views(bytes: &[u8]) -> Value {
    let r = catch_unwind(AssertUnwindSafe(|| umya_spreadsheet::reader::xlsx::read_reader(Cursor::new(bytes), true)));
    match r {
        Ok(Ok(book)) => {
            let o = catch_unwind(AssertUnwindSafe(|| observe(&book)));
            match o {
                Ok(v) => json!({"outcome": "ok", "sheets": v}),
                Err(_) => json!({"outcome": "panic", "sheets": []}),
            }
        }
        Ok(Err(_)) => json!({"outcome": "err", "sheets": []}),
        Err(_) => json!({"outcome": "panic", "sheets": []}),
    }
}

// ---- generated source workbooks ----------------------------------------------------------------
fn has(feat: &Value, f: &str) -> bool {
    feat.as_array().map(|a| a.iter().any(|x| x.as_str() == Some(f))).unwrap_or(false)
}

fn generate(src: &Value) -> Vec<u8> {
    let mut book = umya_spreadsheet::new_file_empty_worksheet();
    let all: Vec<String> = src["sheets"].as_array().unwrap().iter().map(|x| s(x, "name").to_string()).collect();
    for (idx, sh) in src["sheets"].as_array().unwrap().iter().enumerate() {
        let n = idx as u32 + 1;
        let feat = &sh["feat"];
        let ws = book.new_sheet(s(sh, "name")).unwrap();
        ws.get_cell_mut((1, 1)).set_value_string("common text");
        ws.get_cell_mut((1, 2)).set_value_string(format!("only on sheet {}", n));
        ws.get_cell_mut((2, 1)).set_value_number(n as f64 * 1.5);
        ws.get_cell_mut((2, 2)).set_formula("B1*2").set_formula_result_default("0");
        // one reference into every sheet, to a cell below the row where workbook-level insertion/removal happens:
        // such an edit of one sheet must be seen by the formulas of all the others, raw or not
        for (m, other) in all.iter().enumerate() {
            ws.get_cell_mut((8 + m as u32, 1))
                .set_formula(format!("{}!B{}", other, FAR_ROW + 1000))
                .set_formula_result_default("0");
        }
        if has(feat, "style") {
            let c = ws.get_cell_mut((3, 1));
            c.set_value_string(format!("styled {}", n));
            c.get_style_mut().get_font_mut().set_bold(true);
            c.get_style_mut().get_number_format_mut().set_format_code(format!("0.{}", "0".repeat(n as usize)));
            c.get_style_mut().set_background_color(format!("FF{:02X}8040", 16 * n));
        }
        if has(feat, "comment") {
            let mut cm = Comment::default();
            cm.new_comment((4, 1));
            cm.set_text_string(format!("comment of sheet {}", n));
            ws.add_comments(cm);
        }
        if has(feat, "link") {
            let c = ws.get_cell_mut((5, 1));
            c.set_value_string("link");
            c.get_hyperlink_mut().set_url(format!("http://example.invalid/sheet{}", n));
        }
        if has(feat, "table") {
            ws.get_cell_mut((1, 4)).set_value_string("colA");
            ws.get_cell_mut((2, 4)).set_value_string("colB");
            ws.get_cell_mut((1, 5)).set_value_number(1);
            ws.get_cell_mut((2, 5)).set_value_number(2);
            let mut t = Table::new(&format!("Tbl{}", n), ((1, 4), (2, 5)));
            t.add_column(TableColumn::new("colA"));
            t.add_column(TableColumn::new("colB"));
            ws.add_table(t);
        }
        if has(feat, "merge") {
            ws.add_merge_cells("F1:G2");
        }
    }
    let mut buf: Vec<u8> = Vec::new();
    umya_spreadsheet::writer::xlsx::write_writer(&book, &mut buf).unwrap();
    buf
}

// ---- one step on one workbook --------------------------------------------------------------------
fn apply(book: &mut Spreadsheet, st: &Value) -> &'static str {
    let a = s(st, "a");
    let r = catch_unwind(AssertUnwindSafe(|| -> &'static str {
        match a {
            "ReadSheet" => {
                book.read_sheet(u(st, "i") as usize - 1);
                "ok"
            }
            "ReadByName" => {
                book.read_sheet_by_name(s(st, "name"));
                "ok"
            }
            "GetMut" => {
                if book.get_sheet_mut(&(u(st, "i") as usize - 1)).is_some() {
                    "ok"
                } else {
                    "err"
                }
            }
            "GetByNameMut" => {
                if book.get_sheet_by_name_mut(s(st, "name")).is_some() {
                    "ok"
                } else {
                    "err"
                }
            }
            "ReadAll" => {
                book.read_sheet_collection();
                "ok"
            }
            "GetCollMut" => {
                let _ = book.get_sheet_collection_mut().len();
                "ok"
            }
            "Edit" => {
                let ws = if s(st, "via") == "name" {
                    book.get_sheet_by_name_mut(s(st, "name"))
                } else {
                    book.get_sheet_mut(&(u(st, "i") as usize - 1))
                };
                let ws = match ws {
                    Some(w) => w,
                    None => return "err",
                };
                let k = u(st, "k");
                let v = s(st, "v");
                match s(st, "t") {
                    "s" => {
                        ws.get_cell_mut((MARK_COL, MARK_ROW + k)).set_value_string(v);
                    }
                    "b" => {
                        let c = ws.get_cell_mut((MARK_COL, MARK_ROW + k));
                        c.set_value_string(v);
                        c.get_style_mut().get_font_mut().set_bold(true);
                    }
                    "c" => {
                        let mut cm = Comment::default();
                        cm.new_comment((MARK_COL + 3, MARK_ROW + k));
                        cm.set_text_string(v);
                        ws.add_comments(cm);
                    }
                    "t" => {
                        let r0 = MARK_ROW + 10 * k;
                        let mut t = Table::new(v, ((MARK_COL + 1, r0), (MARK_COL + 2, r0 + 1)));
                        t.add_column(TableColumn::new("m1"));
                        t.add_column(TableColumn::new("m2"));
                        ws.add_table(t);
                    }
                    _ => panic!("unknown mark kind"),
                }
                "ok"
            }
            "NewSheet" => match book.new_sheet(s(st, "name")) {
                Ok(_) => "ok",
                Err(_) => "err",
            },
            "RemoveSheet" => match book.remove_sheet(u(st, "i") as usize - 1) {
                Ok(_) => "ok",
                Err(_) => "err",
            },
            "Rename" => match book.set_sheet_name(u(st, "i") as usize - 1, s(st, "name")) {
                Ok(_) => "ok",
                Err(_) => "err",
            },
            "WbInsertRows" => {
                book.insert_new_row(s(st, "name"), &FAR_ROW, &1);
                "ok"
            }
            "WbRemoveRows" => {
                book.remove_row(s(st, "name"), &FAR_ROW, &1);
                "ok"
            }
            _ => panic!("unknown action {}", a),
        }
    }));
    r.unwrap_or("panic")
}

fn save(book: &Spreadsheet) -> (&'static str, Vec<u8>, String) {
    let r = catch_unwind(AssertUnwindSafe(|| {
        let mut buf: Vec<u8> = Vec::new();
        umya_spreadsheet::writer::xlsx::write_writer(book, &mut buf).map(|_| buf)
    }));
    match r {
        Ok(Ok(b)) => ("ok", b, String::new()),
        Ok(Err(e)) => ("err", vec![], format!("{:?}", e)),
        Err(p) => ("panic", vec![], panic_msg(&p)),
    }
}

fn run(case: &Value) -> Vec<Value> {
    let id = case["case"].clone();
    let tmp = case["tmp"].as_str().unwrap_or("/tmp").to_string();
    let mut events = vec![];
    let mut lazy: Option<Spreadsheet> = None;
    let mut twin: Option<Spreadsheet> = None;
    for (n, st) in case["steps"].as_array().unwrap().iter().enumerate() {
        let mut ev = st.clone();
        ev["case"] = id.clone();
        ev["step"] = json!(n);
        let a = s(st, "a");
        if a == "Open" {
            let src = &st["src"];
            let (bytes, file) = if s(src, "kind") == "file" {
                (std::fs::read(s(src, "path")).unwrap(), s(src, "path").to_string())
            } else {
                let b = generate(src);
                let p = format!("{}/c{}-src.xlsx", tmp, id);
                std::fs::write(&p, &b).unwrap();
                (b, p)
            };
            ev["file"] = json!(file);
            let orig = eager_views(&bytes);
            ev["orig"] = orig["sheets"].clone();
            let l = catch_unwind(AssertUnwindSafe(|| umya_spreadsheet::reader::xlsx::read_reader(Cursor::new(&bytes), false)));
            let t = catch_unwind(AssertUnwindSafe(|| umya_spreadsheet::reader::xlsx::read_reader(Cursor::new(&bytes), true)));
            match (l, t) {
                (Ok(Ok(l)), Ok(Ok(t))) if orig["outcome"] == "ok" => {
                    ev["outcome"] = json!("ok");
                    ev["obs"] = observe(&l);
                    ev["tobs"] = observe(&t);
                    lazy = Some(l);
                    twin = Some(t);
                }
                _ => {
                    ev["outcome"] = json!("err");
                    ev["obs"] = json!([]);
                    ev["tobs"] = json!([]);
                    events.push(ev);
                    break;
                }
            }
            events.push(ev);
            continue;
        }
        let book = lazy.as_mut().expect("Open must be the first step");
        let tw = twin.as_mut().unwrap();
        if a == "Save" {
            let (o, bytes, msg) = save(book);
            let (to, tbytes, _) = save(tw);
            ev["msg"] = json!(msg);
            let f = format!("{}/c{}-s{}-lazy.xlsx", tmp, id, n);
            let tf = format!("{}/c{}-s{}-twin.xlsx", tmp, id, n);
            std::fs::write(&f, &bytes).unwrap();
            std::fs::write(&tf, &tbytes).unwrap();
            ev["outcome"] = json!(o);
            ev["tw_outcome"] = json!(to);
            ev["file"] = json!(f);
            ev["twfile"] = json!(tf);
            ev["lz"] = if o == "ok" { eager_views(&bytes) } else { json!({"outcome": "nosave", "sheets": []}) };
            ev["tw"] = if to == "ok" { eager_views(&tbytes) } else { json!({"outcome": "nosave", "sheets": []}) };
        } else {
            let o = apply(book, st);
            let to = apply(tw, st);
            ev["outcome"] = json!(o);
            ev["tw_outcome"] = json!(to);
        }
        ev["obs"] = observe(book);
        ev["tobs"] = observe(tw);
        events.push(ev);
    }
    events
}
