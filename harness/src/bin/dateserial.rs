//! Domain `dateserial` (C18): calendar date + time of day <-> Excel serial number (1900 system),
//! and the display of a date-formatted cell.
//!
//! Observed through public API only:
//!   helper::date::convert_date, helper::date::convert_date_windows_1900,
//!   helper::date::excel_to_date_time_object, Worksheet::get_formatted_value (cell with the number
//!   format "yyyy-mm-dd hh:mm:ss"; action "disp": with any number format given by the case).
//!
//! An f64 cannot travel through TLC's Json reader, so a serial x is logged *losslessly* as five
//! integers [n, f3, f2, f1, f0]:  n = floor(x)  and  x - n = (f3*2^39 + f2*2^26 + f1*2^13 + f0) / 2^52
//! with 0 <= fi < 2^13 (for 1 <= x < 2^31 the fraction of a double is a multiple of 2^-52, and both
//! the subtraction and the scaling by 2^52 are exact).  A value that has no such encoding (not
//! finite, negative, >= 2^31, or with bits below 2^-52) gives the item outcome "unrep".
use serde_json::{json, Value};
use umya_spreadsheet::helper::date;
use uverif::*;

const FORMAT: &str = "yyyy-mm-dd hh:mm:ss";

fn main() {
    serve(run);
}

fn enc(x: f64) -> Option<[i64; 5]> {
    if !x.is_finite() || x < 0.0 || x >= 2147483648.0 {
        return None;
    }
    let n = x.floor();
    let scaled = (x - n) * 4503599627370496.0; // 2^52
    if scaled.fract() != 0.0 || scaled < 0.0 || scaled >= 4503599627370496.0 {
        return None;
    }
    let f = scaled as u64;
    Some([
        n as i64,
        ((f >> 39) & 0x1fff) as i64,
        ((f >> 26) & 0x1fff) as i64,
        ((f >> 13) & 0x1fff) as i64,
        (f & 0x1fff) as i64,
    ])
}

/// "1900-01-01 00:00:00" (Display of the returned chrono value) -> [y,m,d,h,mi,s]
fn parse_civil(text: &str) -> Option<[i64; 6]> {
    let (dpart, tpart) = text.split_once(' ')?;
    let mut t = tpart.split(':');
    let (h, mi, s) = (t.next()?, t.next()?, t.next()?);
    if t.next().is_some() {
        return None;
    }
    let mut d = dpart.rsplitn(3, '-');
    let (dd, mm, yy) = (d.next()?, d.next()?, d.next()?);
    let p = |x: &str| x.parse::<i64>().ok().filter(|v| v.abs() < 2_000_000_000);
    Some([p(yy)?, p(mm)?, p(dd)?, p(h)?, p(mi)?, p(s)?])
}

struct Sheet {
    book: umya_spreadsheet::Spreadsheet,
}

impl Sheet {
    fn new() -> Sheet {
        Sheet::with_format(FORMAT)
    }
    fn with_format(code: &str) -> Sheet {
        let mut book = umya_spreadsheet::new_file();
        {
            let ws = book.get_sheet_mut(&0).unwrap();
            ws.get_style_mut("A1").get_number_format_mut().set_format_code(code);
        }
        Sheet { book }
    }
    fn display(&mut self, serial: f64) -> String {
        let ws = self.book.get_sheet_mut(&0).unwrap();
        ws.get_cell_mut("A1").set_value_number(serial);
        ws.get_formatted_value("A1")
    }
}

/// One observation: the six civil components -> serial (both entry points) -> back, and the display.
fn item(c: [i32; 6], sheet: &mut Option<Sheet>) -> Value {
    let zero5 = json!([0, 0, 0, 0, 0]);
    let zero6 = json!([0, 0, 0, 0, 0, 0]);
    let mut out = json!({"c": c, "s": zero5, "w": zero5, "b": zero6, "t": "", "o": "ok"});
    let r = std::panic::catch_unwind(|| {
        (
            date::convert_date(c[0], c[1], c[2], c[3], c[4], c[5]),
            date::convert_date_windows_1900(c[0], c[1], c[2], c[3], c[4], c[5]),
        )
    });
    let (x, w) = match r {
        Ok(v) => v,
        Err(_) => {
            out["o"] = json!("panic");
            return out;
        }
    };
    match (enc(x), enc(w)) {
        (Some(a), Some(b)) => {
            out["s"] = json!(a);
            out["w"] = json!(b);
        }
        _ => {
            out["o"] = json!("unrep");
            return out;
        }
    }
    match std::panic::catch_unwind(|| format!("{}", date::excel_to_date_time_object(&x, None))) {
        Ok(text) => match parse_civil(&text) {
            Some(b) => out["b"] = json!(b),
            None => {
                out["o"] = json!("unparsed");
                return out;
            }
        },
        Err(_) => {
            out["o"] = json!("panic");
            return out;
        }
    }
    if let Some(sh) = sheet.as_mut() {
        match std::panic::catch_unwind(std::panic::AssertUnwindSafe(|| sh.display(x))) {
            Ok(t) => out["t"] = json!(t),
            Err(_) => {
                *sheet = Some(Sheet::new());
                out["o"] = json!("panic");
            }
        }
    }
    out
}

fn run(case: &Value) -> Vec<Value> {
    let a = s(case, "a");
    let id = case["case"].clone();
    let fmt = case["fmt"].as_bool().unwrap_or(false);
    let mut sheet = if fmt { Some(Sheet::new()) } else { None };
    match a {
        // every listed day [y,m,d] at one time of day (sod = second of the day)
        "days" => {
            let sod = i(case, "sod") as i32;
            let (h, mi, se) = (sod / 3600, (sod / 60) % 60, sod % 60);
            let items: Vec<Value> = case["days"]
                .as_array()
                .unwrap()
                .iter()
                .map(|d| {
                    let g = |k: usize| d[k].as_i64().unwrap() as i32;
                    item([g(0), g(1), g(2), h, mi, se], &mut sheet)
                })
                .collect();
            vec![json!({"a":"days","case":id,"y":case["y"],"sod":sod,"fmt":fmt,"full":case["full"],"items":items})]
        }
        // `count` consecutive seconds of one day starting at second `from`
        "secs" => {
            let (y, m, d) = (i(case, "y") as i32, i(case, "m") as i32, i(case, "d") as i32);
            let from = i(case, "from") as i32;
            let count = i(case, "count") as i32;
            let items: Vec<Value> = (from..from + count)
                .map(|t| item([y, m, d, t / 3600, (t / 60) % 60, t % 60], &mut sheet))
                .collect();
            vec![json!({"a":"secs","case":id,"y":y,"m":m,"d":d,"from":from,"fmt":fmt,"items":items})]
        }
        // the displayed text of a cell holding convert_date(c) under an arbitrary number format
        "disp" => {
            let code = s(case, "format").to_string();
            let mut sh = Sheet::with_format(&code);
            let items: Vec<Value> = case["items"]
                .as_array()
                .unwrap()
                .iter()
                .map(|ci| {
                    let g = |k: usize| ci[k].as_i64().unwrap() as i32;
                    let c = [g(0), g(1), g(2), g(3), g(4), g(5)];
                    let mut out = json!({"c": c, "s": [0, 0, 0, 0, 0], "t": "", "o": "ok"});
                    let x = match std::panic::catch_unwind(|| date::convert_date(c[0], c[1], c[2], c[3], c[4], c[5])) {
                        Ok(x) => x,
                        Err(_) => {
                            out["o"] = json!("panic");
                            return out;
                        }
                    };
                    match enc(x) {
                        Some(e) => out["s"] = json!(e),
                        None => {
                            out["o"] = json!("unrep");
                            return out;
                        }
                    }
                    match std::panic::catch_unwind(std::panic::AssertUnwindSafe(|| sh.display(x))) {
                        Ok(t) => out["t"] = json!(t),
                        Err(_) => {
                            sh = Sheet::with_format(&code);
                            out["o"] = json!("panic");
                        }
                    }
                    out
                })
                .collect();
            vec![json!({"a":"disp","case":id,"format":code,"items":items})]
        }
        _ => panic!("unknown dateserial action {}", a),
    }
}
