//! Domain `workbook` (C01): cell content survives save and reload (spec/Workbook.tla).
//!
//! case = {"case": id, "steps": [
//!   {"a":"Init","n":2},                                               n empty sheets "S1".."Sn"
//!   {"a":"SetValue","s":1,"r":1,"c":1,"k":"text","v":"..","b":"","runs":[["a",true],["b",false]],"sty":""},
//!   {"a":"SetFormula","s":1,"r":1,"c":1,"f":"A1+1"},
//!   {"a":"RemoveCell","s":1,"r":1,"c":1},
//!   {"a":"SaveLoad","w":"std"|"light"} ]}
//! k is one of blank | text | rich | num | bool | err.  For k = num the number is given by its bit
//! pattern `b` (16 hex digits) and the event's `v` is the value text the library reports right
//! after the value was set.  Every step yields one event: the step's fields, "vc"/"fc" (the
//! characters of v / f, one string per Unicode scalar value, so that the specification can look
//! inside the text), "outcome" and "obs" = projection of every sheet through public getters
//! (Worksheet::get_cell_collection_sorted, Cell::{get_raw_value, get_data_type, get_value,
//! get_value_number, get_formula}).  SaveLoad writes the workbook into memory with write_writer /
//! write_writer_light, reads the bytes back with read_reader(.., true) and continues with the
//! reloaded workbook.  Sheet indices are 1-based (TLA+ sequences).  The driver never judges.
use serde_json::{json, Value};
use std::io::Cursor;
use std::panic::{catch_unwind, AssertUnwindSafe};
use umya_spreadsheet::structs::{CellRawValue, RichText, Spreadsheet, TextElement, Worksheet};
use uverif::*;

fn main() {
    serve(run);
}

fn chars(t: &str) -> Value {
    Value::Array(t.chars().map(|ch| Value::String(ch.to_string())).collect())
}

fn kind_of(v: &CellRawValue) -> &'static str {
    match v {
        CellRawValue::String(_) => "text",
        CellRawValue::RichText(_) => "rich",
        CellRawValue::Numeric(_) => "num",
        CellRawValue::Bool(_) => "bool",
        CellRawValue::Error(_) => "err",
        CellRawValue::Empty => "blank",
        CellRawValue::Lazy(_) => "lazy",
    }
}

fn project_sheet(ws: &Worksheet) -> Value {
    let mut cells = vec![];
    for c in ws.get_cell_collection_sorted() {
        let co = c.get_coordinate();
        cells.push(json!({
            "r": (*co.get_row_num()).min(2_000_000_000), "c": (*co.get_col_num()).min(2_000_000_000),
            "k": kind_of(c.get_raw_value()), "dt": c.get_data_type(),
            "v": c.get_value().to_string(),
            "b": c.get_value_number().map(f64_bits).unwrap_or_default(),
            "f": c.get_formula(),
        }));
    }
    json!({"name": ws.get_name(), "cells": cells})
}

fn project(book: &Spreadsheet) -> Value {
    Value::Array(book.get_sheet_collection().iter().map(project_sheet).collect())
}

fn build(step: &Value) -> Spreadsheet {
    let mut book = umya_spreadsheet::new_file_empty_worksheet();
    for k in 1..=u(step, "n") {
        book.new_sheet(format!("S{}", k)).unwrap();
    }
    book
}

/// Applies one editing step; returns the fields the driver adds to the event.
fn apply(book: &mut Spreadsheet, st: &Value, e: &mut Value) {
    let a = s(st, "a");
    let si = u(st, "s") as usize - 1;
    let (r, c) = (u(st, "r"), u(st, "c"));
    let ws = book.get_sheet_mut(&si).expect("sheet index");
    match a {
        "SetValue" => {
            let cell = ws.get_cell_mut((c, r));
            let v = s(st, "v");
            match s(st, "k") {
                "blank" => {
                    cell.set_blank();
                }
                "text" => {
                    cell.set_value_string(v);
                }
                "num" => {
                    cell.set_value_number(f64_from_bits(s(st, "b")));
                }
                "bool" => {
                    cell.set_value_bool(v == "TRUE");
                }
                "err" => {
                    cell.get_cell_value_mut().remove_formula();
                    cell.set_error(v);
                }
                "rich" => {
                    let mut rt = RichText::default();
                    for run in st["runs"].as_array().expect("runs") {
                        let mut te = TextElement::default();
                        te.set_text(run[0].as_str().unwrap());
                        if run[1].as_bool().unwrap() {
                            te.get_font_mut().set_bold(true);
                        }
                        rt.add_rich_text_elements(te);
                    }
                    cell.set_rich_text(rt);
                }
                other => panic!("unknown kind {}", other),
            }
            let sty = st["sty"].as_str().unwrap_or("");
            if !sty.is_empty() {
                cell.get_style_mut().get_number_format_mut().set_format_code(sty);
            }
            let seen = cell.get_value().to_string();
            if s(st, "k") == "num" {
                e["v"] = json!(seen);
            }
            e["vc"] = chars(e["v"].as_str().unwrap());
        }
        "SetFormula" => {
            ws.get_cell_mut((c, r)).set_formula(s(st, "f"));
            e["fc"] = chars(s(st, "f"));
        }
        "RemoveCell" => {
            ws.remove_cell((c, r));
        }
        _ => panic!("unknown step {}", a),
    }
}

fn save_load(book: &Spreadsheet, light: bool) -> Result<Spreadsheet, String> {
    let mut buf: Vec<u8> = Vec::new();
    {
        let cur = Cursor::new(&mut buf);
        let res = if light {
            umya_spreadsheet::writer::xlsx::write_writer_light(book, cur)
        } else {
            umya_spreadsheet::writer::xlsx::write_writer(book, cur)
        };
        if let Err(err) = res {
            return Err(format!("write: {:?}", err));
        }
    }
    umya_spreadsheet::reader::xlsx::read_reader(Cursor::new(buf), true).map_err(|err| format!("read: {:?}", err))
}

fn run(case: &Value) -> Vec<Value> {
    let id = case["case"].clone();
    let steps = case["steps"].as_array().expect("steps");
    let mut events = vec![];
    let mut book = build(&steps[0]);
    let mut e0 = steps[0].clone();
    e0["case"] = id.clone();
    e0["outcome"] = json!("ok");
    e0["obs"] = project(&book);
    events.push(e0);
    for st in &steps[1..] {
        let mut e = st.clone();
        e["case"] = id.clone();
        e["msg"] = json!("");
        let outcome = if s(st, "a") == "SaveLoad" {
            let light = s(st, "w") == "light";
            match catch_unwind(AssertUnwindSafe(|| save_load(&book, light))) {
                Ok(Ok(nb)) => {
                    book = nb;
                    "ok"
                }
                Ok(Err(m)) => {
                    e["msg"] = json!(m);
                    "err"
                }
                Err(p) => {
                    e["msg"] = json!(panic_msg(&p));
                    "panic"
                }
            }
        } else {
            match catch_unwind(AssertUnwindSafe(|| apply(&mut book, st, &mut e))) {
                Ok(()) => "ok",
                Err(p) => {
                    e["msg"] = json!(panic_msg(&p));
                    "panic"
                }
            }
        };
        e["outcome"] = json!(outcome);
        e["obs"] = match catch_unwind(AssertUnwindSafe(|| project(&book))) {
            Ok(v) => v,
            Err(_) => {
                e["outcome"] = json!("panic");
                json!([])
            }
        };
        events.push(e);
    }
    events
}
