//! Shared part of the `drive_*` binaries (one per domain, so that a domain that does not compile
//! against a changed /repo cannot take the other checks down with it).
//!
//! A driver reads one JSON case per line on stdin, executes it against the real library (path
//! dependency on /repo, built from its current working tree) and prints one line per case: the JSON
//! array of the events the case produced (arguments, outcome, projection of the real state through
//! public API).  Drivers never judge: events are validated by TLC against /verif/spec/Trace_*.tla.
//! Output is ASCII-only JSON (non-ASCII as \uXXXX); floats and u64 are logged as strings; values
//! of one field always have one type (TLC cannot compare a string with a tuple).
use serde_json::{json, Value};
use std::any::Any;
use std::io::{BufRead, Write};

/// Main loop of a driver: `run(case)` returns the events of that case.  A panic that escapes `run`
/// becomes a single {"a":"Fatal","outcome":"panic"} event: a panic of the code under test is data.
pub fn serve(run: fn(&Value) -> Vec<Value>) {
    std::panic::set_hook(Box::new(|_| {}));
    let stdin = std::io::stdin();
    let stdout = std::io::stdout();
    let mut out = stdout.lock();
    for line in stdin.lock().lines() {
        let line = match line {
            Ok(l) => l,
            Err(_) => break,
        };
        if line.trim().is_empty() {
            continue;
        }
        let case: Value = match serde_json::from_str(&line) {
            Ok(v) => v,
            Err(e) => {
                eprintln!("bad case: {}", e);
                std::process::exit(2);
            }
        };
        let id = case.get("case").cloned().unwrap_or(json!(0));
        let events = match std::panic::catch_unwind(|| run(&case)) {
            Ok(ev) => ev,
            Err(p) => vec![json!({"a": "Fatal", "case": id, "outcome": "panic", "msg": panic_msg(&p)})],
        };
        let s = ascii_json(&Value::Array(events));
        if out.write_all(s.as_bytes()).is_err() || out.write_all(b"\n").is_err() || out.flush().is_err() {
            break;
        }
    }
}

/// Serialise with every non-ASCII character written as \uXXXX (TLC's Json module mangles raw UTF-8).
pub fn ascii_json(v: &Value) -> String {
    let s = serde_json::to_string(v).unwrap();
    if s.is_ascii() {
        return s;
    }
    let mut o = String::with_capacity(s.len() + 16);
    for ch in s.chars() {
        if (ch as u32) < 0x7f {
            o.push(ch);
        } else {
            let mut buf = [0u16; 2];
            for u in ch.encode_utf16(&mut buf) {
                o.push_str(&format!("\\u{:04x}", u));
            }
        }
    }
    o
}

pub fn panic_msg(p: &Box<dyn Any + Send>) -> String {
    if let Some(s) = p.downcast_ref::<&str>() {
        s.to_string()
    } else if let Some(s) = p.downcast_ref::<String>() {
        s.clone()
    } else {
        "?".to_string()
    }
}

/// Run `f`; a panic becomes the JSON string "panic".  Callers must turn that into a type-compatible
/// value or an item-level `"outcome":"panic"` before logging (see `finish`).
pub fn guard<F: FnOnce() -> Value + std::panic::UnwindSafe>(f: F) -> Value {
    match std::panic::catch_unwind(f) {
        Ok(v) => v,
        Err(_) => Value::String("panic".to_string()),
    }
}

/// Item-level outcome: adds "outcome":"ok" unless one of the item's fields is the string "panic"
/// (then "outcome":"panic" and the trace specification must not read the other fields).
pub fn finish(mut item: Value) -> Value {
    let mut bad: Vec<String> = vec![];
    if let Some(m) = item.as_object() {
        for (k, v) in m.iter() {
            if v == &Value::String("panic".into()) {
                bad.push(k.clone());
            }
        }
    }
    item["outcome"] = if bad.is_empty() { json!("ok") } else { json!("panic") };
    item["panicked"] = json!(bad.join(","));
    item
}

pub fn u(v: &Value, k: &str) -> u32 {
    v[k].as_u64().unwrap_or_else(|| panic!("case field {} missing", k)) as u32
}
pub fn i(v: &Value, k: &str) -> i64 {
    v[k].as_i64().unwrap_or_else(|| panic!("case field {} missing", k))
}
pub fn b(v: &Value, k: &str) -> bool {
    v[k].as_bool().unwrap_or_else(|| panic!("case field {} missing", k))
}
pub fn s<'a>(v: &'a Value, k: &str) -> &'a str {
    v[k].as_str().unwrap_or_else(|| panic!("case field {} missing", k))
}

/// f64 as the 16-hex-digit bit pattern (TLC's Json reader truncates floats, so they travel as strings)
pub fn f64_bits(x: f64) -> String {
    format!("{:016x}", x.to_bits())
}
pub fn f64_from_bits(s: &str) -> f64 {
    f64::from_bits(u64::from_str_radix(s, 16).expect("hex f64"))
}
