# Shared machinery behind /verif/bin/check.
#
#   build_harness()            cargo build of /verif/harness against /repo's working tree
#   tlc_mc(...)                run TLC on an MC_*.cfg, parse statistics / coverage / REPLAY lines
#   run_cases(...)             feed case scripts to supervised `drive <domain>` workers
#   validate(...)              validate recorded ndjson traces against a Trace_*.tla with TLC
#   Check                      bookkeeping: violations, known findings, evidence file, exit code
#
# Exit codes of a check: 0 = property held on everything explored (KNOWN-FINDING lines allowed),
# 1 = VIOLATION line(s) printed with a replay file, 2 = tool error / timeout / vacuous run.
import json, os, re, select, shutil, subprocess, sys, tempfile, threading, time, hashlib, random
from concurrent.futures import ThreadPoolExecutor

ROOT = os.path.dirname(os.path.dirname(os.path.abspath(__file__)))
SPEC = os.path.join(ROOT, "spec")
WORK = os.path.join(ROOT, "work")
HARNESS = os.path.join(ROOT, "harness")
BIN_DIR = os.path.join(HARNESS, "target", "release")
REPO = os.environ.get("VERIF_REPO", "/repo")
JAR = "/opt/veriftools/tla/tla2tools.jar:/opt/veriftools/tla/CommunityModules-deps.jar"
NCPU = os.cpu_count() or 4


class ToolError(Exception):
    pass


def log(*a):
    print(*a, flush=True)


def ensure_dirs():
    for d in (WORK, os.path.join(ROOT, "evidence"), os.path.join(ROOT, "replays")):
        os.makedirs(d, exist_ok=True)


# ---------------------------------------------------------------------------------------------
# harness build
# ---------------------------------------------------------------------------------------------
_built = {}


def harness_dir():
    """The harness crate to build.  With VERIF_REPO=<scratch copy of the repository> (used to try
    the checks on mutated copies without touching /repo) a copy of the harness whose path dependency
    points there is kept under work/."""
    if os.path.realpath(REPO) == "/repo":
        return HARNESS
    d = os.path.join(WORK, "alt-harness-" + hashlib.sha1(os.path.realpath(REPO).encode()).hexdigest()[:8])
    os.makedirs(d, exist_ok=True)
    subprocess.run(["rsync", "-a", "--delete", "--exclude", "target", HARNESS + "/", d + "/"], check=True)
    ct = open(os.path.join(d, "Cargo.toml")).read().replace('path = "/repo"', f'path = "{os.path.realpath(REPO)}"')
    open(os.path.join(d, "Cargo.toml"), "w").write(ct)
    return d


def build_harness(domain):
    """(Re)build the driver binary of one domain (harness/src/bin/<domain>.rs) against /repo's
    current working tree (path dependency, so edits under /repo are always picked up)."""
    if domain in _built:
        return _built[domain]
    ensure_dirs()
    env = dict(os.environ, CARGO_NET_OFFLINE="true")
    hdir = harness_dir()
    lock = os.path.join(hdir, "Cargo.lock")
    if not os.path.exists(lock):
        shutil.copy(os.path.join(REPO, "Cargo.lock"), lock)
    t0 = time.time()
    for attempt in (1, 2):
        p = subprocess.run(["cargo", "build", "--release", "--offline", "--quiet", "--bin", domain], cwd=hdir, env=env,
                           stdout=subprocess.PIPE, stderr=subprocess.STDOUT, text=True)
        if p.returncode == 0:
            break
        if attempt == 1 and ("lock file" in p.stdout or "Cargo.lock" in p.stdout):
            shutil.copy(os.path.join(REPO, "Cargo.lock"), lock)
            continue
        sys.stdout.write(p.stdout[-6000:])
        raise ToolError("cargo build of the harness failed (the tree under /repo does not compile with the hooks on?)")
    log(f"[build] driver '{domain}' built against {REPO} in {time.time()-t0:.1f}s")
    _built[domain] = os.path.join(hdir, "target", "release", domain)
    return _built[domain]


# ---------------------------------------------------------------------------------------------
# TLC
# ---------------------------------------------------------------------------------------------
class TlcResult:
    def __init__(self):
        self.rc = None
        self.out = ""
        self.generated = 0
        self.distinct = 0
        self.ok = False
        self.violation = None      # text of the first "Error:" line if any
        self.replays = []          # decoded REPLAY payloads
        self.prints = []           # decoded other PrintT tuples, as raw text lines
        self.coverage = {}         # action name -> (distinct, taken)
        self.wall = 0.0
        self.depth = 0


def _unquote_tla(s):
    """PrintT of a TLA+ string prints it as a quoted literal; its escapes are a subset of JSON's."""
    return json.loads(s)


def _balance(line):
    """<< >> nesting depth of a printed TLC value, ignoring string literals."""
    d, i, n, instr = 0, 0, len(line), False
    while i < n:
        ch = line[i]
        if instr:
            if ch == "\\":
                i += 1
            elif ch == '"':
                instr = False
        elif ch == '"':
            instr = True
        elif line.startswith("<<", i):
            d += 1
            i += 1
        elif line.startswith(">>", i):
            d -= 1
            i += 1
        i += 1
    return d


def _join_prints(lines):
    """TLC pretty-prints long PrintT values over several lines: re-join every value that starts with
    <<" until its brackets balance."""
    out, cur, depth = [], None, 0
    for line in lines:
        if cur is None:
            if re.match(r'^<<\s*"', line):
                line = re.sub(r'^<<\s*"', '<<"', line)
                depth = _balance(line)
                if depth > 0:
                    cur = [line]
                    continue
            out.append(line)
        else:
            cur.append(line.strip())
            depth += _balance(line)
            if depth <= 0:
                out.append(re.sub(r"\s+", " ", " ".join(cur)))
                cur = None
    if cur is not None:
        out.append(" ".join(cur))
    return out


_cov_re = re.compile(r"^<(\w+) (line \d+, col \d+ to line \d+, col \d+ of module \w+)(?: \([\d ]+\))?>: (\d+):(\d+)")


def run_tlc(module, cfg, workers=8, env=None, timeout=3600, simulate=None, heap="6g", coverage=True,
            deque=False, stack=None, extra=None, quiet=True):
    """Run TLC in /verif/spec on <module>.tla with <cfg>.  Returns TlcResult.  Never raises on a
    property violation (res.violation is set); raises ToolError on timeouts and parse errors."""
    ensure_dirs()
    meta = tempfile.mkdtemp(prefix="tlc-", dir=WORK)
    # (TLC creates an empty directory tlc-<n> under java.io.tmpdir at every start: keep it inside the metadir that is removed)
    jopts = ["-XX:+UseParallelGC", f"-Xmx{heap}", f"-Djava.io.tmpdir={meta}"]
    if stack:
        jopts.append(f"-Xss{stack}")
    if deque:
        jopts.append("-Dtlc2.tool.queue.IStateQueue=StateDeque")
    cmd = ["java"] + jopts + ["-cp", JAR, "tlc2.TLC", "-workers", str(workers), "-metadir", meta, "-cleanup",
                               "-noGenerateSpecTE", "-config", cfg]
    if coverage:
        cmd += ["-coverage", "1"]
    if simulate:
        cmd += ["-simulate", simulate]
    if extra:
        cmd += extra
    cmd.append(module)
    e = dict(os.environ)
    e.pop("JAVA_TOOL_OPTIONS", None)
    if env:
        e.update(env)
    t0 = time.time()
    try:
        # bytes, decoded by hand: text mode would translate a lone CR inside a printed string into LF
        p = subprocess.run(cmd, cwd=SPEC, env=e, stdout=subprocess.PIPE, stderr=subprocess.STDOUT, timeout=timeout)
        p.stdout = p.stdout.decode("utf-8", "replace")
    except subprocess.TimeoutExpired:
        shutil.rmtree(meta, ignore_errors=True)
        raise ToolError(f"TLC timed out after {timeout}s on {module} / {cfg}")
    shutil.rmtree(meta, ignore_errors=True)
    r = TlcResult()
    covloc = {}
    r.rc = p.returncode
    r.out = p.stdout
    r.wall = time.time() - t0
    for line in _join_prints(p.stdout.split("\n")):      # (str.splitlines would also split at VT, FF, NEL, LS, PS)
        if line.startswith('<<"REPLAY", '):
            body = line[len('<<"REPLAY", '):-2]
            try:
                r.replays.append(json.loads(_unquote_tla(body)))
            except Exception as ex:
                raise ToolError(f"cannot decode REPLAY line: {line[:200]} ({ex})")
        elif line.startswith('<<"'):
            r.prints.append(line)
        else:
            m = re.match(r"^(\d+) states generated, (\d+) distinct states found", line)
            if m:
                r.generated, r.distinct = int(m.group(1)), int(m.group(2))
            m = re.match(r"^The depth of the complete state graph search is (\d+)", line)
            if m:
                r.depth = int(m.group(1))
            m = _cov_re.match(line)
            if m:
                # cumulative figures may be printed several times: keep the last per location
                covloc[(m.group(1), m.group(2))] = (int(m.group(3)), int(m.group(4)))
            if line.startswith("Error:") and r.violation is None:
                r.violation = line
    for (name, _loc), (d, t) in covloc.items():
        old = r.coverage.get(name, (0, 0))
        r.coverage[name] = (old[0] + d, old[1] + t)
    r.ok = (p.returncode == 0 and r.violation is None and
            ("No error has been found" in p.stdout or simulate is not None))
    return r


def tlc_mc(module, cfg, workers=8, timeout=3600, heap="6g", env=None, must_take=None, check=None, coverage=True,
           stack=None):
    """Model-check an MC config of the *intended* design.  A violation here is a tool error: the
    specification itself is wrong (never reported as a pass, never as a VIOLATION of the code)."""
    if os.environ.get("VERIF_DEBUG_SKIP_MC") and check is not None:      # development aid only
        log(f"[tlc] SKIPPED {module} {cfg} (VERIF_DEBUG_SKIP_MC)")
        check.states += 1
        check.transitions += 1
        return None
    r = run_tlc(module, cfg, workers=workers, timeout=timeout, heap=heap, env=env, coverage=coverage, stack=stack)
    if not r.ok:
        sys.stdout.write(r.out[-5000:])
        raise ToolError(f"TLC did not complete cleanly on {module}/{cfg}: rc={r.rc} {r.violation}")
    if must_take:
        for a in must_take:
            if r.coverage.get(a, (0, 0))[1] == 0:
                raise ToolError(f"vacuous model checking run: action {a} of {module}/{cfg} was never taken")
    log(f"[tlc] {module} {cfg}: {r.generated} states generated, {r.distinct} distinct, depth {r.depth}, {r.wall:.1f}s")
    if check is not None:
        check.add_mc(module, cfg, r)
    return r


# ---------------------------------------------------------------------------------------------
# driving the real library
# ---------------------------------------------------------------------------------------------
class Worker:
    """One `drive <domain>` sub-process.  One JSON case per input line, one JSON line (the list of
    events the case produced) per output line.  A case that does not answer within `timeout`
    seconds is recorded as outcome "timeout" and the worker is restarted: a hang is data."""

    def __init__(self, domain, timeout):
        self.domain, self.timeout = domain, timeout
        self.p = None

    def start(self):
        self.p = subprocess.Popen([build_harness(self.domain)], stdin=subprocess.PIPE, stdout=subprocess.PIPE,
                                  stderr=subprocess.DEVNULL, bufsize=0)
        self.buf = b""

    def stop(self):
        if self.p:
            try:
                self.p.kill()
                self.p.wait()
            except Exception:
                pass
            self.p = None

    def _readline(self, deadline):
        fd = self.p.stdout.fileno()
        while b"\n" not in self.buf:
            left = deadline - time.time()
            if left <= 0:
                return None
            r, _, _ = select.select([fd], [], [], left)
            if not r:
                return None
            chunk = os.read(fd, 1 << 20)
            if not chunk:
                return b""
            self.buf += chunk
        line, self.buf = self.buf.split(b"\n", 1)
        return line

    def run(self, case):
        if self.p is None:
            self.start()
        data = (json.dumps(case, ensure_ascii=True) + "\n").encode()
        try:
            self.p.stdin.write(data)
            self.p.stdin.flush()
        except (BrokenPipeError, OSError):
            self.stop()
            return {"fatal": "crash"}
        line = self._readline(time.time() + self.timeout)
        if line is None:
            self.stop()
            return {"fatal": "timeout"}
        if line == b"":
            self.stop()
            return {"fatal": "crash"}
        try:
            return {"events": json.loads(line)}
        except Exception:
            self.stop()
            raise ToolError("driver produced a malformed line: " + line[:300].decode("latin1"))


def run_cases(domain, cases, timeout=10.0, jobs=None, fatal_event=None):
    """Run every case (a JSON-serialisable dict with a unique "case" id) on the real library.
    Returns a list (same order) of event lists.  `fatal_event(case, kind)` builds the event that
    stands for a case which hung ("timeout") or killed the process ("crash", e.g. stack overflow
    or abort); by default {"a": "Fatal", "case": id, "outcome": kind}."""
    build_harness(domain)
    jobs = jobs or max(1, min(NCPU - 2, 12, (len(cases) + 199) // 200))
    results = [None] * len(cases)
    idx = list(range(len(cases)))
    chunks = [idx[i::jobs] for i in range(jobs)]

    fatal = {}

    def work(ch):
        w = Worker(domain, timeout)
        streak = 0
        try:
            for i in ch:
                r = w.run(cases[i])
                if "fatal" in r:
                    fatal[i] = r["fatal"]
                    # a library that hangs on case after case must not cost the full limit every time: after three
                    # time-outs in a row this worker only waits 2 s (cases normally answer in milliseconds)
                    streak = streak + 1 if r["fatal"] == "timeout" else 0
                    if streak >= 3:
                        w.timeout = min(w.timeout, 2.0)
                else:
                    streak = 0
                    results[i] = r["events"]
        finally:
            w.stop()

    with ThreadPoolExecutor(max_workers=jobs) as ex:
        list(ex.map(work, chunks))
    # A case that hung or died while a dozen workers (and possibly other checks) competed for the machine is run
    # once more on its own with a generous limit: only what hangs or dies again is data about the library; a slow
    # answer under load is not.  (At most 40 such re-runs: a library that hangs everywhere is reported as it is.)
    retried, confirmed = 0, 0
    for i in sorted(fatal):
        # (once two re-runs hung or died again the rest is taken as observed: re-running every case of a library that
        # really hangs would take hours)
        if retried < 40 and confirmed < 2:
            retried += 1
            w = Worker(domain, min(180.0, max(60.0, timeout * 3)))
            try:
                r = w.run(cases[i])
            finally:
                w.stop()
            if "fatal" not in r:
                results[i] = r["events"]
                log(f"[run] case {cases[i].get('case', i)} of '{domain}': {fatal[i]} under load, answered when re-run alone")
                continue
            fatal[i] = r["fatal"]
            confirmed += 1
        c = cases[i]
        results[i] = fatal_event(c, fatal[i]) if fatal_event else \
            [{"a": "Fatal", "case": c.get("case", i), "outcome": fatal[i]}]
    return results


# ---------------------------------------------------------------------------------------------
# trace validation
# ---------------------------------------------------------------------------------------------
def write_ndjson(path, events):
    with open(path, "w") as f:
        for e in events:
            f.write(json.dumps(e, ensure_ascii=True, separators=(",", ":")))
            f.write("\n")


class ValResult:
    def __init__(self):
        self.lines = 0
        self.consumed = 0
        self.mismatches = []   # (line index 1-based, detail text)
        self.kf = []           # (finding id, line index)
        self.notes = 0         # <<"NOTE", ...>> lines: diagnostics that are not verdicts
        self.states = 0
        self.out = ""


def validate_file(trace_module, cfg, path, known_ids, timeout=3600, heap="3g", extra_env=None):
    """Validate one ndjson trace with TLC.  The trace specification consumes one event per step;
    an event is accepted if the intended action explains it, else through an enabled known-finding
    deviation (printed as <<"KF", id, l>>), else it prints <<"MISMATCH", l, ...>> and resynchronises
    on the observed state so that the rest of the trace is still checked."""
    kpath = path + ".known.json"
    with open(kpath, "w") as f:
        json.dump(sorted(known_ids) if known_ids else ["-"], f)
    n = sum(1 for _ in open(path))
    env = {"TRACE": path, "KNOWN": kpath}
    if extra_env:
        env.update(extra_env)
    r = run_tlc(trace_module, cfg, workers=1, env=env, timeout=timeout, heap=heap, coverage=False,
                deque=True, stack="1g")
    v = ValResult()
    v.lines = n
    v.out = r.out
    v.states = r.distinct
    for line in r.prints:
        m = re.match(r'^<<"MISMATCH", (\d+)(?:, (.*?))?\s*>>$', line)
        if m:
            v.mismatches.append((int(m.group(1)), m.group(2) or ""))
            continue
        m = re.match(r'^<<"KF", "([^"]+)", (\d+)>>$', line)
        if m:
            v.kf.append((m.group(1), int(m.group(2))))
            continue
        if line.startswith('<<"NOTE"'):
            v.notes += 1
            continue
        m = re.match(r'^<<"CONSUMED", (\d+)>>$', line)
        if m:
            v.consumed = int(m.group(1))
    raw_mm = len(re.findall(r'^<<\s*"MISMATCH"', r.out, re.M))
    raw_kf = len(re.findall(r'^<<\s*"KF"', r.out, re.M))
    if raw_mm != len(v.mismatches) or raw_kf != len(v.kf):
        sys.stdout.write(r.out[-2500:])
        raise ToolError(f"could not parse every MISMATCH/KF line of TLC's output for {path} "
                        f"({raw_mm}/{len(v.mismatches)} mismatches, {raw_kf}/{len(v.kf)} known-finding hits)")
    if r.rc != 0 or r.violation or v.consumed != n:
        sys.stdout.write(r.out[-2500:])
        raise ToolError(f"trace validation of {path} with {trace_module} did not run to the end "
                        f"(rc={r.rc}, consumed {v.consumed} of {n} events): specification or tool error")
    try:
        os.remove(kpath)
    except OSError:
        pass
    return v


def validate(trace_module, cfg, event_lists, known_ids, tag, chunk_events=4000, jobs=None, timeout=3600,
             extra_env=None, heap="3g"):
    """event_lists: list of per-case event lists.  Cases are concatenated into chunks (each case
    starts with its own Reset/first event, so chunks are independent), validated in parallel.
    Returns list of (case_index, ValResult-like info) for mismatches and the known-finding hits."""
    ensure_dirs()
    chunks, cur, cur_idx, count = [], [], [], 0
    for ci, evs in enumerate(event_lists):
        if count + len(evs) > chunk_events and cur:
            chunks.append((cur, cur_idx))
            cur, cur_idx, count = [], [], 0
        cur_idx.append((ci, len(cur) + 1, len(cur) + len(evs)))
        cur.extend(evs)
        count += len(evs)
    if cur:
        chunks.append((cur, cur_idx))
    jobs = jobs or max(1, min(NCPU - 2, 12, len(chunks)))
    out = {"mismatch": [], "kf": [], "events": 0, "states": 0, "chunks": len(chunks), "notes": 0}

    def work(k):
        evs, idxs = chunks[k]
        path = os.path.join(WORK, f"trace-{tag}-{os.getpid()}-{k}.ndjson")
        write_ndjson(path, evs)
        v = validate_file(trace_module, cfg, path, known_ids, timeout=timeout, extra_env=extra_env, heap=heap)
        os.remove(path)

        def case_of(l):
            for ci, a, b in idxs:
                if a <= l <= b:
                    return ci, l - a
            return idxs[-1][0], 0
        mm = [(case_of(l) + (d,)) for l, d in v.mismatches]
        kf = [(fid,) + case_of(l) for fid, l in v.kf]
        return mm, kf, len(evs), v.states, v.notes

    with ThreadPoolExecutor(max_workers=jobs) as ex:
        for mm, kf, n, st, nt in ex.map(work, range(len(chunks))):
            out["notes"] += nt
            out["mismatch"].extend(mm)
            out["kf"].extend(kf)
            out["events"] += n
            out["states"] += st
    return out


# ---------------------------------------------------------------------------------------------
# known findings
# ---------------------------------------------------------------------------------------------
def load_known(prop):
    # (VERIF_KNOWN: development aid for trying a repair - an alternative list; evidence then goes to scratch)
    path = os.environ.get("VERIF_KNOWN") or os.path.join(ROOT, "known_findings.json")
    if not prop.startswith("C"):          # extension domains (X01...) keep their findings apart
        path = os.path.join(ROOT, "ext_findings.json")
    if not os.path.exists(path):
        return []
    with open(path) as f:
        data = json.load(f)
    return [e for e in data.get("findings", []) if e.get("property") == prop]


# ---------------------------------------------------------------------------------------------
# a check run
# ---------------------------------------------------------------------------------------------
class Check:
    def __init__(self, prop, tier, seed, level="model_checking"):
        self.prop, self.tier, self.seed, self.level = prop, tier, seed, level
        self.t0 = time.time()
        self.states = 0
        self.transitions = 0
        self.mc_runs = []
        self.traces = 0
        self.events = 0
        self.evaluations = 0
        self.nontrivial = set()
        self.samples = []
        self.violations = []
        self.kf_hits = {}
        self.assumptions = []
        self.extra = {}
        self.rule = ""
        self.known = load_known(prop)
        self.open_ids = [e["id"] for e in self.known if e.get("status") == "open"]
        self.rng = random.Random(seed)

    # -- bookkeeping ---------------------------------------------------------------------------
    def add_mc(self, module, cfg, r):
        self.states += r.distinct
        self.transitions += r.generated
        self.mc_runs.append({"module": module, "cfg": cfg, "distinct_states": r.distinct,
                             "states_generated": r.generated, "depth": r.depth, "wall_s": round(r.wall, 2),
                             "actions_taken": {k: v[1] for k, v in sorted(r.coverage.items())}})

    def sample(self, x, limit=6):
        if len(self.samples) < limit:
            self.samples.append(x)

    def violation(self, replay_obj, what=""):
        """Record a violation: writes the replay file and prints the VIOLATION line."""
        ensure_dirs()
        h = hashlib.sha1(json.dumps(replay_obj, sort_keys=True).encode()).hexdigest()[:10]
        path = os.path.join(ROOT, "replays", f"{self.prop}-{self.seed}-{h}.json")
        replay_obj = dict(replay_obj, property=self.prop, seed=self.seed, what=what)
        if len(self.violations) < 200:               # at most 200 replay files per run (all are counted)
            with open(path, "w") as f:
                json.dump(replay_obj, f, indent=1, ensure_ascii=True)
        else:
            path = self.violations[-1]
        self.violations.append(path)
        if len(self.violations) <= 8:
            log(f"VIOLATION property={self.prop} replay={path}")
            if what:
                log(f"  detail: {what[:400]}")
        elif len(self.violations) == 9:
            log("  (further VIOLATION lines suppressed; every violation has its replay file)")
        return path

    def known_hit(self, fid, n=1):
        self.kf_hits[fid] = self.kf_hits.get(fid, 0) + n

    def process_validation(self, out, cases, events, domain, describe=None):
        """Turn validate()'s output into violations / known-finding counts.  cases[i] is the script
        of case i, events[i] its recorded events."""
        self.events += out["events"]
        self.states += out["states"]
        self.transitions += out["events"]
        bad_cases = {}
        for ci, off, detail in out["mismatch"]:
            if ci not in bad_cases or off < bad_cases[ci][0]:
                bad_cases[ci] = (off, detail)
        self.traces += len(cases) - len(bad_cases)
        for fid, ci, off in out["kf"]:
            self.known_hit(fid)
        for ci, (off, detail) in sorted(bad_cases.items()):
            ev = events[ci][off] if off < len(events[ci]) else None
            self.violation({"domain": domain, "script": cases[ci], "first_mismatch": {"i": off, "observed": ev,
                                                                                      "spec": detail}},
                           what=(describe(cases[ci], ev, detail) if describe else f"event {off}: {detail}"))

    # -- end of run ----------------------------------------------------------------------------
    def finish(self):
        for e in self.known:
            if e.get("status") == "open" and self.kf_hits.get(e["id"], 0) > 0:
                log(f"KNOWN-FINDING: property={self.prop} {e['id']}: {e['what']} "
                    f"[{self.kf_hits[e['id']]} occurrence(s) in this run]")
        for fid in self.kf_hits:
            if fid not in self.open_ids:
                raise ToolError(f"deviation {fid} was taken although it is not an open finding")
        cov = {
            "states": self.states, "transitions": self.transitions,
            "traces_validated_against_impl": self.traces,
            "trace_events_validated": self.events,
            "evaluations": max(self.evaluations, self.traces),
            "distinct_nontrivial": len(self.nontrivial),
            "rule": self.rule,
            "samples": self.samples if self.samples else ["(none)"],
            "model_checking_runs": self.mc_runs,
            "known_findings_hit": self.kf_hits,
        }
        cov.update(self.extra)
        ev = {"property_id": self.prop, "tier": self.tier, "seed": self.seed, "level": self.level,
              "coverage": cov, "assumptions": self.assumptions, "wall_s": round(time.time() - self.t0, 2),
              "violations": len(self.violations)}
        ensure_dirs()
        # the evidence file describes a run of the check on /repo itself: runs against a scratch copy
        # (VERIF_REPO), replays and development runs write theirs under work/ instead
        edir = os.path.join(ROOT, "evidence")
        if (os.path.realpath(REPO) != "/repo" or os.environ.get("VERIF_DEBUG_SKIP_MC")
                or os.environ.get("VERIF_NO_EVIDENCE") or os.environ.get("VERIF_KNOWN") or getattr(self, "is_replay", False)):
            edir = os.path.join(WORK, "evidence-scratch")
            os.makedirs(edir, exist_ok=True)
        elif not self.prop.startswith("C"):
            # extension domains (X01...: behaviour beyond the twenty listed properties, DESIGN.md 10.7) keep their
            # evidence apart from the per-property evidence files the manifest names
            edir = os.path.join(ROOT, "evidence-ext")
            os.makedirs(edir, exist_ok=True)
        with open(os.path.join(edir, f"{self.prop}.json"), "w") as f:
            json.dump(ev, f, indent=1, ensure_ascii=True)
        log(f"[{self.prop}] tier={self.tier} seed={self.seed}: {self.states} states, {self.traces} traces "
            f"({self.events} events) validated, {len(self.violations)} violation(s), "
            f"{sum(self.kf_hits.values())} known-finding occurrence(s), {time.time()-self.t0:.1f}s")
        return 1 if self.violations else 0
