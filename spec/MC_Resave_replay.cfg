CONSTANTS MaxGen = 1 DropStyledBlank = FALSE ColFold = "adjacent" RowSkip = "never" Family = "small" EmitReplay = TRUE
SPECIFICATION MCSpec
INVARIANTS Emit
CHECK_DEADLOCK FALSE
