CONSTANTS MaxGen = 1 DropStyledBlank = FALSE RowSkip = "never" Family = "small" EmitReplay = TRUE
SPECIFICATION MCSpec
INVARIANTS Emit
CHECK_DEADLOCK FALSE
