CONSTANTS MaxGen = 1 DropStyledBlank = FALSE Family = "small" EmitReplay = TRUE
SPECIFICATION MCSpec
INVARIANTS Emit
CHECK_DEADLOCK FALSE
