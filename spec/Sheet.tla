------------------------------- MODULE Sheet -------------------------------
(***************************************************************************)
(* The reference grid of C07: a workbook is a sequence of sheets, a sheet  *)
(* is a record of finite sets                                              *)
(*   cells    {[r, c, v, f, s, u]}  value text, formula text, style token, *)
(*                                  hyperlink url ("" = none)              *)
(*   rows     {[r, h]}              rows with an explicit height           *)
(*   cols     {[c, w]}              columns with an explicit width         *)
(*   merges   {[r1, c1, r2, c2]}    merged ranges                          *)
(*   comments {[r, c, t]}                                                  *)
(*   cf       {[id, g]}             conditional formats (one range each)   *)
(*   af       <<>> or <<rect>>      auto filter                            *)
(* Every public structural operation is one action, written as             *)
(* sh' = [sh EXCEPT ![s] = Post(sh[s], args)] with Post a plain operator.  *)
(* No operator quantifies over the grid, only over the objects present, so *)
(* the same module is used with the real grid limits for trace validation. *)
(***************************************************************************)
EXTENDS Grid, Sequences, FiniteSets, TLC

CONSTANTS MaxRow, MaxCol

Lines(ax) == IF ax = "row" THEN MaxRow ELSE MaxCol

(* ---- insert ------------------------------------------------------------ *)
InsSheet(S, ax, p, n) ==
  [S EXCEPT !.cells    = {PtIns(x, ax, p, n) : x \in @},
            !.rows     = IF ax = "row" THEN {[x EXCEPT !.r = InsIdx(@, p, n)] : x \in @} ELSE @,
            !.cols     = IF ax = "col" THEN {[x EXCEPT !.c = InsIdx(@, p, n)] : x \in @} ELSE @,
            !.merges   = {InsRect(g, ax, p, n) : g \in @},
            !.comments = {PtIns(x, ax, p, n) : x \in @},
            !.cf       = {[x EXCEPT !.g = InsRect(@, ax, p, n)] : x \in @},
            !.af       = [i \in DOMAIN @ |-> InsRect(@[i], ax, p, n)]]

(* highest occupied line of a sheet on an axis (0 if nothing) *)
Max0(T) == IF T = {} THEN 0 ELSE CHOOSE m \in T : \A y \in T : y <= m
Extent(S, ax) ==
  IF ax = "row"
  THEN Max0({x.r : x \in S.cells} \cup {x.r : x \in S.rows} \cup {g.r2 : g \in S.merges} \cup
            {x.r : x \in S.comments} \cup {x.g.r2 : x \in S.cf} \cup {S.af[i].r2 : i \in DOMAIN S.af})
  ELSE Max0({x.c : x \in S.cells} \cup {x.c : x \in S.cols} \cup {g.c2 : g \in S.merges} \cup
            {x.c : x \in S.comments} \cup {x.g.c2 : x \in S.cf} \cup {S.af[i].c2 : i \in DOMAIN S.af})

(* in-range arguments: nothing is pushed beyond the grid *)
CanInsert(S, ax, p, n) == p >= 1 /\ n >= 1 /\ p <= Lines(ax) /\ Extent(S, ax) + n <= Lines(ax)
CanRemove(S, ax, p, n) == p >= 1 /\ n >= 1 /\ p + n - 1 <= Lines(ax)

(* ---- remove ------------------------------------------------------------ *)
RemSheet(S, ax, p, n) ==
  [S EXCEPT !.cells    = {PtRem(x, ax, p, n) : x \in {y \in @ : ~PtInBand(y, ax, p, n)}},
            !.rows     = IF ax = "row" THEN {[x EXCEPT !.r = RemIdx(@, p, n)] : x \in {y \in @ : ~InBand(y.r, p, n)}}
                         ELSE @,
            !.cols     = IF ax = "col" THEN {[x EXCEPT !.c = RemIdx(@, p, n)] : x \in {y \in @ : ~InBand(y.c, p, n)}}
                         ELSE @,
            !.merges   = {RemRect(g, ax, p, n) : g \in {h \in @ : ~RectDeleted(h, ax, p, n)}},
            !.comments = {PtRem(x, ax, p, n) : x \in {y \in @ : ~PtInBand(y, ax, p, n)}},
            !.cf       = {[x EXCEPT !.g = RemRect(@, ax, p, n)] : x \in {y \in @ : ~RectDeleted(y.g, ax, p, n)}},
            !.af       = IF @ # <<>> /\ RectDeleted(@[1], ax, p, n) THEN <<>>
                         ELSE [i \in DOMAIN @ |-> RemRect(@[i], ax, p, n)]]

(* ---- move / copy of a rectangle g by (dr, dc): only cells are concerned -- *)
CanMove(g, dr, dc) == RectOK(g) /\ g.r1 + dr >= 1 /\ g.c1 + dc >= 1 /\ g.r2 + dr <= MaxRow /\ g.c2 + dc <= MaxCol
Shifted(x, dr, dc) == [x EXCEPT !.r = @ + dr, !.c = @ + dc]
DestRect(g, dr, dc) == [r1 |-> g.r1 + dr, c1 |-> g.c1 + dc, r2 |-> g.r2 + dr, c2 |-> g.c2 + dc]
SrcCells(S, g)     == {x \in S.cells : InRect(x.r, x.c, g)}
MoveSheet(S, g, dr, dc) ==
  LET src == SrcCells(S, g)
      d   == DestRect(g, dr, dc)
      keep == {x \in S.cells : ~InRect(x.r, x.c, g) /\ ~InRect(x.r, x.c, d)}
  IN [S EXCEPT !.cells = keep \cup {Shifted(x, dr, dc) : x \in src}]
CopySheet(S, g, dr, dc) ==
  LET src == SrcCells(S, g)
      new == {Shifted(x, dr, dc) : x \in src}
      keep == {x \in S.cells : ~\E y \in new : y.r = x.r /\ y.c = x.c}
  IN [S EXCEPT !.cells = keep \cup new]

(* ---- single cells -------------------------------------------------------- *)
SetCellSheet(S, cell) ==
  [S EXCEPT !.cells = {x \in @ : ~(x.r = cell.r /\ x.c = cell.c)} \cup {cell}]
RemoveCellSheet(S, r, c) == [S EXCEPT !.cells = {x \in @ : ~(x.r = r /\ x.c = c)}]

---------------------------------------------------------------------------
(* well-formedness of a sheet *)
KeysUnique(S) ==
  /\ \A x, y \in S.cells : (x.r = y.r /\ x.c = y.c) => x = y
  /\ \A x, y \in S.rows : x.r = y.r => x = y
  /\ \A x, y \in S.cols : x.c = y.c => x = y
  /\ \A x, y \in S.comments : (x.r = y.r /\ x.c = y.c) => x = y
RectInGrid(g) == RectOK(g) /\ g.r1 >= 1 /\ g.c1 >= 1 /\ g.r2 <= MaxRow /\ g.c2 <= MaxCol
SheetInGrid(S) ==
  /\ \A x \in S.cells : x.r \in 1..MaxRow /\ x.c \in 1..MaxCol
  /\ \A x \in S.rows : x.r \in 1..MaxRow
  /\ \A x \in S.cols : x.c \in 1..MaxCol
  /\ \A g \in S.merges : RectInGrid(g)
  /\ \A x \in S.comments : x.r \in 1..MaxRow /\ x.c \in 1..MaxCol
  /\ \A x \in S.cf : RectInGrid(x.g)
  /\ \A i \in DOMAIN S.af : RectInGrid(S.af[i])

---------------------------------------------------------------------------
VARIABLES sh,      \* sequence of sheets
          last     \* the last operation, for action properties: [op, s, ...]
vars == <<sh, last>>

Axes == {"row", "col"}

InsertLines(s, ax, p, n) ==
  /\ CanInsert(sh[s], ax, p, n)
  /\ sh' = [sh EXCEPT ![s] = InsSheet(@, ax, p, n)]
  /\ last' = [op |-> "ins", s |-> s, ax |-> ax, p |-> p, n |-> n]
RemoveLines(s, ax, p, n) ==
  /\ CanRemove(sh[s], ax, p, n)
  /\ sh' = [sh EXCEPT ![s] = RemSheet(@, ax, p, n)]
  /\ last' = [op |-> "rem", s |-> s, ax |-> ax, p |-> p, n |-> n]
MoveRange(s, g, dr, dc) ==
  /\ CanMove(g, dr, dc)
  /\ sh' = [sh EXCEPT ![s] = MoveSheet(@, g, dr, dc)]
  /\ last' = [op |-> "move", s |-> s, g |-> g, dr |-> dr, dc |-> dc]
CopyRange(s, g, dr, dc) ==
  /\ CanMove(g, dr, dc)
  /\ sh' = [sh EXCEPT ![s] = CopySheet(@, g, dr, dc)]
  /\ last' = [op |-> "copy", s |-> s, g |-> g, dr |-> dr, dc |-> dc]
SetCell(s, cell) ==
  /\ sh' = [sh EXCEPT ![s] = SetCellSheet(@, cell)]
  /\ last' = [op |-> "set", s |-> s, cell |-> cell]
RemoveCell(s, r, c) ==
  /\ sh' = [sh EXCEPT ![s] = RemoveCellSheet(@, r, c)]
  /\ last' = [op |-> "del", s |-> s, r |-> r, c |-> c]

(* ---- the properties of C07 ------------------------------------------------ *)
InGrid     == \A s \in DOMAIN sh : SheetInGrid(sh[s])
WellFormed == \A s \in DOMAIN sh : KeysUnique(sh[s])
(* an operation on sheet s leaves every other sheet untouched *)
OthersUntouched == [][\A t \in DOMAIN sh : t # last'.s => sh'[t] = sh[t]]_vars
(* remove undoes insert, in every reachable state and for every in-range (ax, p, n) *)
RemoveUndoesInsertAt(S, ax, p, n) == CanInsert(S, ax, p, n) => RemSheet(InsSheet(S, ax, p, n), ax, p, n) = S
(* moving: source rectangle empty (unless overlapped by the destination), destination = translated source *)
MoveExactAt(S, g, dr, dc) ==
  LET T == MoveSheet(S, g, dr, dc)
      d == DestRect(g, dr, dc)
  IN /\ {x \in T.cells : InRect(x.r, x.c, d)} = {Shifted(x, dr, dc) : x \in SrcCells(S, g)}
     /\ {x \in T.cells : InRect(x.r, x.c, g) /\ ~InRect(x.r, x.c, d)} = {}
     /\ {x \in T.cells : ~InRect(x.r, x.c, g) /\ ~InRect(x.r, x.c, d)}
          = {x \in S.cells : ~InRect(x.r, x.c, g) /\ ~InRect(x.r, x.c, d)}
CopyExactAt(S, g, dr, dc) ==
  LET T == CopySheet(S, g, dr, dc)
  IN /\ \A x \in SrcCells(S, g) : Shifted(x, dr, dc) \in T.cells
     /\ \A x \in T.cells : x \in S.cells \/ \E y \in SrcCells(S, g) : x = Shifted(y, dr, dc)
     /\ \A x \in S.cells : x \in T.cells \/ \E y \in SrcCells(S, g) : (y.r + dr = x.r /\ y.c + dc = x.c)
=============================================================================
