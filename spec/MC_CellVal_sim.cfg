CONSTANTS Pos = {1, 2} PoolName = "full" Wide = TRUE Bounded = TRUE Depth = 40 EmitReplay = TRUE Deviant = "none"
CONSTANTS
  Texts <- MCTexts
  Forms <- MCForms
  Nums <- MCNums
  RichPool <- MCRich
  OrcOf <- MCOrc
SPECIFICATION MCSpec
INVARIANTS Emit TypeOK Consistent
CHECK_DEADLOCK FALSE
