---------------------------- MODULE Trace_Codec ----------------------------
(***************************************************************************)
(* Conformance of helper::coordinate / helper::range / helper::address and *)
(* structs::{Coordinate,Range,Address} with Codec.tla.                     *)
(* Every event carries the arguments, the strings the generator fed to the *)
(* parsers (field "s", checked here to be exactly the specification's      *)
(* rendering, kind "gen" if not) and what the library returned.            *)
(***************************************************************************)
EXTENDS Codec, TraceBase

VARIABLE l
tvars == <<l, n, ds>>

Ev == Rec[l]

(* first failing item of a batch, 0 if none *)
FirstBad(items, Ok(_)) ==
  LET bad == {j \in DOMAIN items : ~Ok(items[j])} IN IF bad = {} THEN 0 ELSE MinOf(bad)

----------------------------------------------------------------------------
(* columns: names[j] printed by the library for index from+j-1, back[j] parsed from sn[j] *)
ColsGenOk(e) == \A j \in DOMAIN e.sn : e.sn[j] = ColName(e.from + j - 1)
ColsOk(e) ==
  LET badP == {j \in DOMAIN e.names : e.names[j] # ColName(e.from + j - 1)}
      badQ == {j \in DOMAIN e.back  : e.back[j] # e.from + j - 1}
  IN  /\ IF badP = {} THEN TRUE
         ELSE Mismatch(l, <<"impl", "string_from_column_index", e.from + MinOf(badP) - 1,
                            e.names[MinOf(badP)], ColName(e.from + MinOf(badP) - 1)>>)
      /\ IF badQ = {} THEN TRUE
         ELSE Mismatch(l, <<"impl", "column_index_from_string", ColName(e.from + MinOf(badQ) - 1),
                            e.back[MinOf(badQ)], e.from + MinOf(badQ) - 1>>)

(* coordinates *)
CoordWant(it)   == CoordStr(it.c, it.r, it.lc, it.lr)
CoordGenOk(it)  == it.s = CoordWant(it)
CoordTuple(it)  == <<it.c, it.r, it.lc, it.lr>>
CoordItemOk(it) == /\ it.outcome = "ok"
                   /\ it.p  = CoordWant(it)          \* coordinate_from_index_with_lock
                   /\ it.q  = CoordTuple(it)         \* index_from_coordinate(s)
                   /\ it.p2 = CoordWant(it)          \* Coordinate::set_* then get_coordinate / to_string
                   /\ it.q2 = CoordTuple(it)         \* Coordinate::set_coordinate(s) then getters
                   /\ it.q3 = CoordTuple(it)         \* the same on an object that parsed the previous items
                   /\ (~it.lc /\ ~it.lr) => it.p0 = CoordWant(it)   \* coordinate_from_index
CoordsOk(e) ==
  LET j == FirstBad(e.items, CoordItemOk)
  IN  IF j = 0 THEN TRUE ELSE Mismatch(l, <<"impl", "coordinate", e.items[j], CoordWant(e.items[j])>>)

(* ranges *)
RangeGenOk(it)  == it.s = RangeStr(it.g)
(* helper::range::get_start_and_end_point enumerates cells: by its own contract ("Non-standard
   range.") it covers cell and cell:cell only; whole rows/columns go through structs::Range. *)
RangeItemOk(it) == /\ it.outcome = "ok"
                   /\ it.g.k \in {"cell", "rect"} => it.corners = RangeCorners(it.g)
                   /\ it.rs = RangeStr(it.g)              \* Range::set_range(s).get_range()
                   /\ it.rc = it.g                        \* Range getters after set_range(s), as a record
                   /\ it.rc3 = it.g                       \* the same on an object that parsed the previous items
RangesOk(e) ==
  LET j == FirstBad(e.items, RangeItemOk)
  IN  IF j = 0 THEN TRUE
      ELSE Mismatch(l, <<"impl", "range", e.items[j], RangeStr(e.items[j].g), RangeCorners(e.items[j].g)>>)

(* addresses: it.chars = sheet name as characters, it.name the same as one string, it.rng range text *)
AddrGenOk(it) == it.name = Concat(it.chars)
(* known finding C17-KF1: split_address trims every leading/trailing ' and " from the sheet part *)
RECURSIVE TrimQuotesL(_)
TrimQuotesL(cs) == IF cs # <<>> /\ Head(cs) \in {"'", "\""} THEN TrimQuotesL(Tail(cs)) ELSE cs
RECURSIVE TrimQuotesR(_)
TrimQuotesR(cs) == IF cs # <<>> /\ cs[Len(cs)] \in {"'", "\""} THEN TrimQuotesR(SubSeq(cs, 1, Len(cs) - 1)) ELSE cs
TrimQuotes(cs) == TrimQuotesR(TrimQuotesL(cs))
QuoteEdge(cs)  == cs # <<>> /\ (Head(cs) = "\"" \/ cs[Len(cs)] = "\"")

(* Only losslessness is demanded: how join_address / Address::get_address quote a name is their
   business (it.join and it.text are logged but not constrained). *)
AddrIntended(it) ==
  /\ it.outcome = "ok"
  /\ it.split  = <<it.name, it.rng>>                      \* split_address(join_address(name, rng))
  /\ it.split2 = <<it.name, it.rng>>                      \* split_address(Address::get_address())
  /\ it.parsed = <<it.name, it.rng>>                      \* Address::set_address(text) then getters
AddrKF1(it) ==
  /\ QuoteEdge(it.chars)
  /\ it.outcome = "ok"
  /\ it.split  = <<Concat(TrimQuotes(it.chars)), it.rng>>
  /\ it.split2 = <<Concat(TrimQuotes(it.chars)), it.rng>>
  /\ it.parsed = <<Concat(TrimQuotes(it.chars)), it.rng>>
AddrItemOk(it) == AddrIntended(it) \/ (KFOn("C17-KF1") /\ AddrKF1(it))
AddrsOk(e) ==
  LET j  == FirstBad(e.items, AddrItemOk)
      kf == {i \in DOMAIN e.items : ~AddrIntended(e.items[i]) /\ KFOn("C17-KF1") /\ AddrKF1(e.items[i])}
  IN  /\ IF j = 0 THEN TRUE ELSE Mismatch(l, <<"impl", "address", e.items[j]>>)
      /\ \A i \in kf : KFHit("C17-KF1", l)

GenOk(e) ==
  CASE e.a = "cols"   -> ColsGenOk(e)
    [] e.a = "coords" -> \A j \in DOMAIN e.items : CoordGenOk(e.items[j])
    [] e.a = "ranges" -> \A j \in DOMAIN e.items : RangeGenOk(e.items[j])
    [] e.a = "addrs"  -> \A j \in DOMAIN e.items : AddrGenOk(e.items[j])
    [] OTHER -> FALSE

Judge(e) ==
  IF ~GenOk(e) THEN Mismatch(l, <<"gen", e.a>>)
  ELSE CASE e.a = "cols"   -> ColsOk(e)
         [] e.a = "coords" -> CoordsOk(e)
         [] e.a = "ranges" -> RangesOk(e)
         [] e.a = "addrs"  -> AddrsOk(e)

TraceInit == l = 1 /\ n = 1 /\ ds = <<1>>
TraceNext == l <= Len(Rec) /\ l' = l + 1 /\ Judge(Ev) /\ UNCHANGED <<n, ds>>
TraceSpec == TraceInit /\ [][TraceNext]_tvars
=============================================================================
