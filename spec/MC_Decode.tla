----------------------------- MODULE MC_Decode -----------------------------
(* Bounded instances of Decode.tla (C03): the palettes of the grammar-based xlsx generator (every t=
   variant with plain / number-like / boolean-like / error-like / padded / entity / escaped payloads,
   shared and inline and rich strings, formulas with every kind of cached result, one shared-formula
   block whose master is not in the top-left corner, optional attributes on/off, entity-carrying
   attribute channels), the GenFile next-state relation, and emission of every finished file model as
   one REPLAY line (pydec/build_xlsx.py turns it into the bytes that the real reader loads).        *)
EXTENDS Decode, Json

CONSTANTS Wide,        \* FALSE: enumerate the pools; TRUE: draw parameters at random (tlc -simulate)
          MaxOpts,     \* how many options may differ from the default
          MaxSst,      \* shared string items
          MaxCells,    \* cells outside the shared-formula block
          UseBlock,    \* BOOLEAN: may a shared-formula block be added
          MaxAttrs,    \* how many attribute channels get an entity-carrying value
          Variants,    \* "all" | "few" | "inl" | "pos" | "sst" (shared-string cells only): pool of value encodings ("pos": free layout, see AddCellFree)
          EmitReplay

NoIs == [rich |-> FALSE, runs |-> <<>>]
Plain(x) == [rich |-> FALSE, runs |-> <<x>>]
Rich(rs) == [rich |-> TRUE, runs |-> rs]
V(t, hv, v, vb, vi, his, isr, s) ==
  [r |-> 0, c |-> 0, t |-> t, hv |-> hv, v |-> v, vb |-> vb, vi |-> vi, his |-> his, isr |-> isr, s |-> s, f |-> F0,
   nr |-> FALSE, rf |-> FALSE, rra |-> 0, rpre |-> <<>>]        \* nr: written without r= (rf, rra, rpre: see Decode!RawPos)
Num(t, v, vb, s) == V(t, TRUE, v, vb, -1, FALSE, NoIs, s)
Txt(t, v)        == V(t, TRUE, v, "", -1, FALSE, NoIs, -1)
Inl(item)        == V("inlineStr", FALSE, "", "", -1, TRUE, item, -1)
Sst(i)           == V("s", TRUE, ToString(i), "", i, FALSE, NoIs, -1)
WithF(x, k, text) == [x EXCEPT !.f = [F0 EXCEPT !.k = k, !.ht = TRUE, !.text = text, !.ref = IF k = "array" THEN "A1" ELSE ""]]

B15 == "3ff8000000000000"   B42 == "4045000000000000"   B1E5 == "40f86a0000000000"   BN0 == "8000000000000000"
B3  == "4008000000000000"   B7  == "401c000000000000"

ValuesAll ==
  { Num("n", "1.5", B15, -1), Num("", "42", B42, -1), Num("n", "1E+5", B1E5, -1), Num("", "-0", BN0, -1),
    Num("n", "1.5", B15, 1), Num("", "42", B42, 2), Num("n", "1.5", B15, 3), Num("", "42", B42, 0),
    Num("n", "1.5", B15, 4), Num("", "42", B42, 5), Num("n", "1.5", B15, 6), Num("", "42", B42, 7), Num("n", "1.5", B15, 8),
    Num("", "42", B42, 9), Num("n", "1.5", B15, 10), V("", FALSE, "", "", -1, FALSE, NoIs, 4),
    V("", FALSE, "", "", -1, FALSE, NoIs, 1), V("", FALSE, "", "", -1, FALSE, NoIs, -1), V("s", FALSE, "", "", -1, FALSE, NoIs, -1),
    Txt("str", "text res"), Txt("str", "123"), Txt("str", "a&b<c>"), Txt("str", "TRUE"), Txt("str", ""),
    Txt("str", "  pad "), Txt("str", "a_x000D_b"),
    Inl(Plain("hello")), Inl(Plain("a&b<c>\"'")), Inl(Plain(" pad ")), Inl(Plain("")),
    Inl(Plain("123")), Inl(Plain("-1.5")), Inl(Plain("TRUE")), Inl(Plain("false")), Inl(Plain("#N/A")),
    Inl(Rich(<<"ab ", "cd">>)), Inl(Rich(<<"x", "12">>)), Inl(Rich(<<"only">>)), Inl(Plain("x_x0041_y")),
    Txt("b", "1"), Txt("b", "0"), Txt("e", "#DIV/0!"), Txt("e", "#N/A"), Txt("e", "#NAME?"),
    WithF(Num("", "3", B3, -1), "normal", "1+2"), WithF(Txt("str", "ab"), "normal", "\"a\"&\"b\""),
    WithF(Txt("b", "1"), "normal", "1=1"), WithF(Txt("e", "#N/A"), "normal", "NA()"),
    WithF(V("", FALSE, "", "", -1, FALSE, NoIs, -1), "normal", "A1"), WithF(Num("", "7", B7, -1), "array", "SUM(A1:B1*2)"),
    WithF(Txt("str", "x<y"), "normal", "IF(A1<B1,\"x<y\",\"&\")"),
    (* ST_Xstring: a surrogate pair as two escapes, a lone surrogate, lower-case digits, _x005F_ protecting an escape,
       escapes next to each other and next to "_", incomplete escapes - in <v> of t="str", inline and rich inline strings *)
    Txt("str", "_xD83D__xDE00_"), Txt("str", "a_xD83D_b"), Txt("str", "_x000a__x000D_"), Txt("str", "_x005F_x0041_"),
    Txt("str", "_x0041__x0042__"), Txt("str", "_x004"), Txt("str", "_x00G1__x0041"),
    Inl(Plain("_xD83D__xDE00_")), Inl(Plain("_x005f_x0041__x0042_")), Inl(Plain("__x0041__x004")), Inl(Plain("a_xDE00_")),
    Inl(Rich(<<"r_xD83D__xDE00_", "_x005F_x0041_">>)), Inl(Rich(<<"_xD83D_", "_xDE00_">>)),
    (* phonetic runs are not part of the text *)
    Inl([rich |-> FALSE, runs |-> <<"base">>, ph |-> "kana"]), Inl([rich |-> TRUE, runs |-> <<"ba", "se">>, ph |-> "kana"]) }
(* positions: value cells and self-closing (blank) cells, with or without a style *)
ValuesPos == { Num("n", "1.5", B15, -1), V("", FALSE, "", "", -1, FALSE, NoIs, 1), V("", FALSE, "", "", -1, FALSE, NoIs, -1) }
(* runs of consecutive inline strings: one whose <t> carries xml:space="preserve" (outer blanks) followed by others that
   do not, plain and rich, with a <v> cell and a shared string in between; positions are consecutive in document order,
   in the same row and across rows *)
ValuesInl == { Inl(Plain(" pad ")), Inl(Plain("hello")), Inl(Plain("b")), Inl(Rich(<<"ab ", "cd">>)), Inl(Rich(<<"x", "y">>)),
               Txt("str", "text res") }
ValuesFew == { Num("n", "1.5", B15, 1), Txt("str", "text res"), Inl(Plain("hello")), Inl(Plain("123")), Txt("b", "1") }
Values == IF Variants = "all" THEN ValuesAll ELSE IF Variants = "inl" THEN ValuesInl ELSE IF Variants = "pos" THEN ValuesPos ELSE IF Variants = "sst" THEN {} ELSE ValuesFew

SstPool == { Plain("plain"), Plain("a&b<c>"), Plain("  padded  "), Rich(<<"run1 ", " run2">>), Plain("123"), Plain(""),
             Plain("s_x000A_t"), Rich(<<"a&b", "<c>">>),
             Plain("_xD83D__xDE00_"), Rich(<<"a_x0041_", "_xd83d__xde00_">>), Plain("_x005F_x0041__"), Plain("a_xDE00_"),
             [rich |-> FALSE, runs |-> <<"base">>, ph |-> "kana"],
             [rich |-> FALSE, runs |-> <<>>] }          \* the empty item, written <si/>

Xfs == << [id |-> 0, custom |-> FALSE, code |-> ""], [id |-> 14, custom |-> FALSE, code |-> ""],
          [id |-> 164, custom |-> TRUE, code |-> "0.0\" <u>\""], [id |-> 2, custom |-> FALSE, code |-> ""],
          (* formats the file DECLARES under ids below 164 (localised Excel / WPS): the declared code is the cell's code *)
          [id |-> 42, custom |-> TRUE, code |-> "_ \"Y\"* #,##0_ ;_ \"Y\"* \\-#,##0_ ;_ \"Y\"* \"-\"_ ;_ @_ "],
          [id |-> 44, custom |-> TRUE, code |-> "\"Y\"#,##0.00"], [id |-> 15, custom |-> TRUE, code |-> "yyyy/mm/dd"],
          [id |-> 23, custom |-> TRUE, code |-> "0.0"],
          (* undeclared ids outside the ECMA list: nothing is demanded *)
          [id |-> 60, custom |-> FALSE, code |-> ""], [id |-> 43, custom |-> FALSE, code |-> ""],
          [id |-> 165, custom |-> TRUE, code |-> "0.000"] >>

OptDefault == [spans |-> FALSE, dim |-> FALSE, tn |-> TRUE, ent |-> "named", spall |-> FALSE, rowr |-> TRUE,
               applynf |-> "1", dense |-> FALSE, indent |-> FALSE, nosp |-> FALSE]
OptToggles == << <<"spans", TRUE>>, <<"dim", TRUE>>, <<"tn", FALSE>>, <<"ent", "numeric">>, <<"spall", TRUE>>,
                 <<"applynf", "absent">>, <<"dense", TRUE>>, <<"rowr", FALSE>>,
                 <<"indent", TRUE>>,     \* insignificant white space between the elements inside <row>, <c>, <is>, <r>, <si>
                 <<"nosp", TRUE>> >>     \* no xml:space="preserve" anywhere: outer white space of a text is unprotected
AttrDefault == [sheet |-> "Sheet1", ext |-> "", loc |-> "", both |-> "", tip |-> "", dname |-> "", tcol |-> ""]
(* hyperlink channels: ext = a link with r:id only (A1), loc = a link with location only (B1), both = a link with r:id
   AND location, an external URL with a fragment (A2; and a second one on C3), tip = tooltip and display text of every
   link of the file *)
Channels == <<"sheet", "ext", "loc", "both", "tip", "dname", "tcol">>
AttrPool == {"A&B", "<x> y", "it's", "q\"q", "a&amp;b"}
ChannelPool(ch) == CASE ch = "dname" -> {"N.1", "_x\\y"}
                     [] ch = "both"  -> {"section-2", "'A&B'!A1", "a<b>\"c\""}
                     [] ch = "tip"   -> {"tip & <tool> \"q\"", "plain tip"}
                     [] ch = "loc"   -> {"'A&B'!A1", "'it''s <1>'!$B$2", "Sheet1!A1"}
                     [] OTHER        -> AttrPool

(* positions of the cells outside the block: with gaps (column and row spans), or dense from A1 *)
Sparse == << <<1, 2>>, <<1, 5>>, <<2, 1>>, <<2, 3>> >>
Dense  == << <<1, 1>>, <<1, 2>>, <<2, 1>>, <<2, 2>> >>
Positions(f) == IF f.opts.dense THEN Dense ELSE Sparse

(* ---- the shared-formula block ------------------------------------------------- *)
Geo(k, c1, r1, lc1, lr1, c2, r2, lc2, lr2) ==
  [k |-> k, c1 |-> c1, r1 |-> r1, lc1 |-> lc1, lr1 |-> lr1, c2 |-> c2, r2 |-> r2, lc2 |-> lc2, lr2 |-> lr2]
CellG(c, r, lc, lr) == Geo("cell", c, r, lc, lr, 0, 0, FALSE, FALSE)
Ref(qc, qq, g) == [k |-> "ref", qc |-> qc, qq |-> qq, g |-> g]
R0(g) == Ref(<<>>, FALSE, g)
Tok(k, s) == [k |-> k, s |-> s]
Str(cs) == [k |-> "str", cs |-> cs]
Name(cs) == [k |-> "name", cs |-> cs]
Ws(n) == [k |-> "ws", n |-> n]
MySheet == <<"M", "y", " ", "S", "h", "e", "e", "t">>
Plus == Tok("op", "+")
(* masters sit at C4 or D5: B2 / A1 lie left of and above the master, E6 right of and below it *)
FormulaPool ==
  { <<R0(CellG(1, 1, FALSE, FALSE)), Plus, R0(CellG(5, 6, FALSE, FALSE))>>,                              \* A1+E6
    <<R0(CellG(3, 4, FALSE, FALSE)), Plus, R0(CellG(2, 4, FALSE, FALSE)), Plus, R0(CellG(4, 2, FALSE, FALSE))>>,  \* C4+B4+D2
    <<Tok("fn", "SUM"), R0(Geo("rect", 1, 1, TRUE, TRUE, 2, 2, FALSE, FALSE)), Tok("close", ")")>>,       \* SUM($A$1:B2)
    <<R0(CellG(2, 2, TRUE, FALSE)), Ws(1), Tok("op", "*"), Ws(1), R0(CellG(6, 7, FALSE, TRUE)), Tok("op", "&"), Str(<<"a", "\"", " ", "B", "2">>)>>, \* $B2 * F$7&"a"" B2"
    <<Ref(MySheet, TRUE, CellG(1, 3, FALSE, FALSE)), Plus, Ref(<<"S", "2">>, FALSE, CellG(4, 4, FALSE, FALSE))>>,    \* 'My Sheet'!A3+S2!D4
    <<Tok("fn", "SUM"), R0(Geo("cols", 1, 0, FALSE, FALSE, 2, 0, FALSE, FALSE)), Tok("sep", ","),
      R0(Geo("rows", 0, 2, FALSE, FALSE, 0, 3, FALSE, TRUE)), Tok("close", ")")>>,                        \* SUM(A:B,2:$3)
    <<Name(<<"r", "a", "t", "e">>), Tok("op", "*"), Tok("num", "2"), Plus, Tok("fn", "LOG10"), R0(CellG(3, 3, FALSE, FALSE)), Tok("close", ")")>>, \* rate*2+LOG10(C3)
    <<Tok("pre", "-"), R0(CellG(7, 8, FALSE, FALSE)), Tok("post", "%"), Tok("op", "<>"), Tok("bool", "TRUE")>> }   \* -G8%<>TRUE
Anchors == { <<4, 3>>, <<5, 4>> }
OffsetSets == { {<<0, 1>>, <<1, 0>>, <<2, 3>>}, {<<1, -1>>, <<1, 0>>}, {<<3, 0>>}, {<<0, 1>>, <<0, 2>>, <<1, -2>>} }
BlockValues == { Num("", "3", B3, -1), Txt("str", "res"), V("", FALSE, "", "", -1, FALSE, NoIs, -1) }
RefOf(a, offs) ==    \* the ref= attribute: bounding rectangle of the block
  LET rs == {a[1]} \cup {a[1] + o[1] : o \in offs}  cs == {a[2]} \cup {a[2] + o[2] : o \in offs}
      lo(S) == CHOOSE x \in S : \A y \in S : x <= y   hi(S) == CHOOSE x \in S : \A y \in S : x >= y
  IN Cd!CoordStr(lo(cs), lo(rs), FALSE, FALSE) \o ":" \o Cd!CoordStr(hi(cs), hi(rs), FALSE, FALSE)

(* ---- the state machine ------------------------------------------------------------ *)
Pick(S) == IF Wide THEN {RandomElement(S)} ELSE S
EmptyFile == [cells |-> {}, sst |-> <<>>, xfs |-> Xfs, opts |-> OptDefault, attrs |-> AttrDefault, rownr |-> {}]
FreeLayout == Variants = "pos" \/ Wide
NToggled(f) == Cardinality({i \in DOMAIN OptToggles : f.opts[OptToggles[i][1]] # OptDefault[OptToggles[i][1]]})
LastToggled(f) == LET S == {i \in DOMAIN OptToggles : f.opts[OptToggles[i][1]] # OptDefault[OptToggles[i][1]]}
                  IN IF S = {} THEN 0 ELSE CHOOSE i \in S : \A j \in S : j <= i
NAttrs(f) == Cardinality({i \in DOMAIN Channels : f.attrs[Channels[i]] # AttrDefault[Channels[i]]})
LastAttr(f) == LET S == {i \in DOMAIN Channels : f.attrs[Channels[i]] # AttrDefault[Channels[i]]}
               IN IF S = {} THEN 0 ELSE CHOOSE i \in S : \A j \in S : j <= i
PlainCells(f) == {x \in f.cells : x.f.k # "shared"}
HasBlock(f) == \E x \in f.cells : x.f.k = "shared"
Fresh(f) == f.cells = {} /\ f.attrs = AttrDefault

SetOpt == /\ phase = "gen" /\ Fresh(file) /\ file.sst = <<>> /\ NToggled(file) < MaxOpts
          /\ \E i \in Pick({j \in DOMAIN OptToggles : j > LastToggled(file) /\ OptToggles[j][1] # "spall"}) :
                file' = IF OptToggles[i][1] = "rowr"          \* positions are implied: only for dense files
                        THEN PostSetOpt(PostSetOpt(file, "dense", TRUE), "rowr", FALSE)
                        ELSE PostSetOpt(file, OptToggles[i][1], OptToggles[i][2])
          /\ UNCHANGED phase
SetXmlSpace == /\ phase = "gen" /\ Fresh(file) /\ file.sst = <<>> /\ NToggled(file) < MaxOpts /\ LastToggled(file) < 5
               /\ file' = PostSetOpt(file, "spall", TRUE) /\ UNCHANGED phase
AddSstItem == /\ phase = "gen" /\ Fresh(file) /\ Len(file.sst) < MaxSst
              /\ \E it \in Pick(SstPool) : file' = PostAddSst(file, it)
              /\ UNCHANGED phase
(* free layout: the next cell goes right of the last one, after a column gap, to the start of the next row, or after a
   row gap; where document order implies that position the cell may be written without r= and a new row without r= *)
NextPositions(f) == IF f.cells = {} THEN {<<1, 1>>, <<1, 2>>, <<2, 1>>, <<3, 2>>}
                    ELSE LET r == LastRowOf(f)  c == LastColOf(f, LastRowOf(f)) IN {<<r, c + 1>>, <<r, c + 2>>, <<r + 1, 1>>, <<r + 2, 2>>}
AddCellFree == /\ phase = "gen" /\ FreeLayout /\ file.attrs = AttrDefault /\ ~HasBlock(file) /\ Cardinality(PlainCells(file)) < MaxCells
               /\ \E p \in Pick(NextPositions(file)), nr \in Pick(BOOLEAN), rnr \in Pick(BOOLEAN) :
                  \E x \in Pick(Values \cup {Sst(i - 1) : i \in DOMAIN file.sst}) :
                     /\ nr => CanOmitCellR(file, p[1], p[2])
                     /\ rnr => CanOmitRowR(file, p[1])
                     /\ ~file.opts.rowr => (nr /\ (RowCells(file, p[1]) = {} <=> rnr))     \* no r= anywhere: all implied
                     /\ file' = PostAddCellOpt(file, x, p[1], p[2], nr, rnr)
               /\ UNCHANGED phase
AddCell == /\ phase = "gen" /\ ~FreeLayout /\ file.attrs = AttrDefault /\ ~HasBlock(file) /\ Cardinality(PlainCells(file)) < MaxCells
           /\ LET p == Positions(file)[Cardinality(PlainCells(file)) + 1] IN
              \E x \in Pick(Values \cup {Sst(i - 1) : i \in DOMAIN file.sst}
                                   \cup {WithF(Sst(i - 1), "normal", "\"s\"") : i \in DOMAIN file.sst}) :
                 file' = PostAddCell(file, x, p[1], p[2])
           /\ UNCHANGED phase
AddSharedBlock == /\ phase = "gen" /\ UseBlock /\ file.attrs = AttrDefault /\ ~HasBlock(file) /\ file.opts.rowr
                  /\ \E a \in Pick(Anchors), toks \in Pick(FormulaPool), offs \in Pick(OffsetSets), x \in Pick(BlockValues), si \in Pick({0, 3}) :
                        /\ CanAddBlock(file, a[1], a[2], toks, offs)
                        /\ file' = PostAddSharedBlock(file, x, a[1], a[2], toks, si, offs, RefOf(a, offs))
                  /\ UNCHANGED phase
AddEntityAttr == /\ phase = "gen" /\ NAttrs(file) < MaxAttrs
                 /\ \E i \in Pick({j \in DOMAIN Channels : j > LastAttr(file)}) : \E val \in Pick(ChannelPool(Channels[i])) :
                       file' = PostSetAttr(file, Channels[i], val)
                 /\ UNCHANGED phase
Finish == phase = "gen" /\ phase' = "done" /\ UNCHANGED file

MCInit == file = EmptyFile /\ phase = "gen"
MCNext == SetOpt \/ SetXmlSpace \/ AddSstItem \/ AddCell \/ AddCellFree \/ AddSharedBlock \/ AddEntityAttr \/ Finish
MCSpec == MCInit /\ [][MCNext]_gvars

(* ---- the file model for pydec/build_xlsx.py --------------------------------------- *)
Link(r, c, isExt, val, hasloc, loc, tip) ==
  [r |-> r, c |-> c, ext |-> isExt, val |-> val, hasloc |-> hasloc, loc |-> loc, tip |-> tip, disp |-> tip]
Links(f) == (IF f.attrs.ext = "" THEN << >> ELSE << Link(1, 1, TRUE, "http://h.example/?q=" \o f.attrs.ext, FALSE, "", f.attrs.tip) >>)
            \o (IF f.attrs.loc = "" THEN << >> ELSE << Link(1, 2, FALSE, "", TRUE, f.attrs.loc, f.attrs.tip) >>)
            \o (IF f.attrs.both = "" THEN << >>
                ELSE << Link(2, 1, TRUE, "https://example.com/docs/page.html?x=1&y=2", TRUE, f.attrs.both, f.attrs.tip),
                        Link(3, 3, TRUE, "https://example.com/other?" \o f.attrs.both, TRUE, "top", "") >>)
RECURSIVE SeqOfSet(_)
SeqOfSet(S) == IF S = {} THEN <<>> ELSE LET x == CHOOSE y \in S : \A z \in S : y <= z IN <<x>> \o SeqOfSet(S \ {x})
Model(f) ==
  [sheets |-> << [name |-> f.attrs.sheet, cells |-> DocOrder(f), rownr |-> SeqOfSet(f.rownr), links |-> Links(f),
                  tcols |-> IF f.attrs.tcol = "" THEN <<>> ELSE <<f.attrs.tcol, "plain">>] >>,
   sst |-> f.sst, xfs |-> f.xfs,
   names |-> IF f.attrs.dname = "" THEN <<>> ELSE <<[name |-> f.attrs.dname, text |-> "$A$1", local |-> -1]>>,
   opts |-> f.opts]
(* every generated hyperlink has a target by the rule of Decode.tla, and is a place in the workbook iff it has no r:id *)
LinksOk == \A i \in DOMAIN Links(file) : LET h == Links(file)[i] IN
              ValidLink(h) /\ LinkUrl(h) # "" /\ (LinkIsPlace(h) <=> (h.hasloc /\ ~h.ext)) /\ (LinkPlaceDecided(h) \/ h.ext)
(* number formats: a declared id wins whatever the id, an undeclared ECMA id is that built-in, anything else is open *)
FmtLemmas == /\ FmtDemand(Xfs[5]) = "code" /\ Xfs[5].id = 42 /\ FmtDemand(Xfs[6]) = "code" /\ FmtDemand(Xfs[7]) = "code" /\ Xfs[7].id = 15
             /\ FmtDemand(Xfs[2]) = "id" /\ FmtDemand(Xfs[1]) = "id" /\ FmtDemand(Xfs[9]) = "none" /\ FmtDemand(Xfs[10]) = "none"
             /\ \A i \in DOMAIN Xfs : FmtDemand(Xfs[i]) = "code" <=> Xfs[i].custom

(* ---- ST_Xstring: the decoding operator on the cases the palette exercises ------------- *)
Lower == <<"a", "b", "c", "d", "e", "f", "g", "h", "i", "j", "k", "l", "m", "n", "o", "p", "q", "r", "s", "t", "u", "v", "w", "x", "y", "z">>
Digs  == <<"0", "1", "2", "3", "4", "5", "6", "7", "8", "9">>
IndexIn(seq, ch) == CHOOSE i \in DOMAIN seq : seq[i] = ch
Code(ch) == IF ch = "_" THEN 95
            ELSE IF \E i \in DOMAIN Digs : Digs[i] = ch THEN 47 + IndexIn(Digs, ch)
            ELSE IF \E i \in DOMAIN Cd!Letters : Cd!Letters[i] = ch THEN 64 + IndexIn(Cd!Letters, ch)
            ELSE 96 + IndexIn(Lower, ch)
U(chars) == [i \in DOMAIN chars |-> Code(chars[i])]
XLemmas ==
  /\ XDecode(U(<<"_", "x", "D", "8", "3", "D", "_", "_", "x", "D", "E", "0", "0", "_">>)) = <<55357, 56832>>      \* _xD83D__xDE00_
  /\ XDecode(U(<<"_", "x", "0", "0", "0", "a", "_">>)) = <<10>>      \* _x000a_
  /\ XDecode(U(<<"_", "x", "0", "0", "0", "A", "_">>)) = <<10>>      \* _x000A_
  /\ XDecode(U(<<"_", "x", "0", "0", "5", "F", "_", "x", "0", "0", "4", "1", "_">>)) = <<95, 120, 48, 48, 52, 49, 95>>      \* _x005F_x0041_
  /\ XDecode(U(<<"_", "x", "0", "0", "4", "1", "_", "_", "x", "0", "0", "4", "2", "_">>)) = <<65, 66>>      \* _x0041__x0042_
  /\ XDecode(U(<<"_", "x", "0", "0", "4", "1", "_", "_">>)) = <<65, 95>>      \* _x0041__
  /\ XDecode(U(<<"_", "x", "0", "0", "4">>)) = <<95, 120, 48, 48, 52>>      \* _x004
  /\ XDecode(U(<<"_", "x", "0", "0", "G", "1", "_">>)) = <<95, 120, 48, 48, 71, 49, 95>>      \* _x00G1_
  /\ XDecode(U(<<"_", "x", "0", "0", "4", "1">>)) = <<95, 120, 48, 48, 52, 49>>      \* _x0041
  /\ XDecode(U(<<"_", "_", "x", "0", "0", "4", "1", "_">>)) = <<95, 65>>      \* __x0041_
  /\ XDecode(U(<<"_", "x", "_", "x", "0", "0", "4", "1", "_">>)) = <<95, 120, 65>>      \* _x_x0041_
  /\ XDecode(U(<<"a", "b", "_">>)) = <<97, 98, 95>>      \* ab_
  /\ XDecode(U(<<"_", "x", "0", "0", "5", "f", "_", "_", "x", "0", "0", "5", "F", "_">>)) = <<95, 95>>      \* _x005f__x005F_
  /\ WellFormed16(XDecode(U(<<"_", "x", "D", "8", "3", "D", "_", "_", "x", "D", "E", "0", "0", "_">>))) /\ WellFormed16(U(<<"p", "l", "a", "i", "n">>))
  /\ ~WellFormed16(XDecode(U(<<"a", "_", "x", "D", "8", "3", "D", "_", "b">>)))      \* a_xD83D_b: a lone surrogate
  /\ ~WellFormed16(XDecode(U(<<"_", "x", "D", "E", "0", "0", "_">>)))      \* _xDE00_: a lone surrogate
  /\ ~WellFormed16(XDecode(U(<<"_", "x", "D", "E", "0", "0", "_", "_", "x", "D", "8", "3", "D", "_">>)))      \* _xDE00__xD83D_: a lone surrogate
  /\ ~WellFormed16(XDecode(U(<<"_", "x", "D", "8", "3", "D", "_">>)))      \* _xD83D_: a lone surrogate
Emit == (EmitReplay /\ phase = "done") => PrintT(<<"REPLAY", ToJson(Model(file))>>)
=============================================================================
