CONSTANTS MaxGen = 1 DropStyledBlank = FALSE ColFold = "adjacent" RowSkip = "forgets-hidden" Family = "mid" EmitReplay = FALSE
SPECIFICATION MCSpec
VIEW View
INVARIANTS OrigSim
CHECK_DEADLOCK FALSE
