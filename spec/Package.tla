------------------------------ MODULE Package ------------------------------
(***************************************************************************)
(* C02 - written files are valid OPC / SpreadsheetML packages that an       *)
(* independent reader decodes to the model.                                 *)
(*                                                                          *)
(* Part 1  the abstract workbook (what C02 needs of it) and one Post_*      *)
(*         operator per public operation that builds it.                    *)
(* Part 2  the abstract package and the property: Offences(p) lists, clause *)
(*         by clause, everything in a package that breaks the statement;    *)
(*         PackageOK(p) == no offence.  The same operators judge the        *)
(*         packages TLC builds from the model (MC_Package) and the packages *)
(*         the real writer produced, as projected by pydec (Trace_Package). *)
(* Part 3  SavePkg(wb, light, ord): the design of make_buffer (fixed parts, *)
(*         one sheet part per position, per-sheet objects with first-free   *)
(*         numbering and first-writer-wins, shared strings, styles,         *)
(*         workbook, relationships, content types; sheet XML and sheet      *)
(*         relationships are two passes that number rIds in one object      *)
(*         order), and Decode(pkg), the independent reader on that package. *)
(***************************************************************************)
EXTENDS Integers, Sequences, FiniteSets, SequencesExt, TLC

CONSTANTS MaxRow, MaxCol

Rng(s)  == {s[i] : i \in DOMAIN s}
Distinct(s) == Cardinality(Rng(s)) = Len(s)
Ascending(s) == \A i \in 1..(Len(s) - 1) : s[i] < s[i + 1]
SortedSeq(S) == SetToSortSeq(S, <)
Max0(T) == IF T = {} THEN 0 ELSE CHOOSE m \in T : \A y \in T : y <= m
(* the same set, normalised inside TLC (Cardinality sorts it in place): membership tests in a set built by a
   comprehension are linear until then, which makes \subseteq and \ quadratic on sheets with 10^5 cells *)
Nz(S) == IF Cardinality(S) < 0 THEN {} ELSE S

(* ======================================================================= *)
(* Part 1: the workbook                                                    *)
(* ======================================================================= *)
(* wb = [sheets, gnames, active, macro]                                     *)
(* sheet = [name, cells {[r,c,k,v,f,sm,sty]}, links {[r,c,url,loc,tip]}, merges {[r1,c1,r2,c2]},            *)
(*          names <<[name,addr,lsid]>>, comments {[r,c]}, tables <<name>>, imgs <<[name,ext]>>, charts,     *)
(*          nole, vmlnoimg, dv, cfr << <<format of a rule>> >>, prot, rowdims {r}]                          *)
(* cfr: one sequence of rules per conditional format; the format of a rule is what its style formats with, *)
(* [has, font ("" none | "b" bold | "n" not bold), fg, bg (fill colours AARRGGBB), border (left edge style),   *)
(*  numfmt (code), prot]; has = FALSE: the rule has no style (colour scales, data bars ...).                    *)
(* cell kinds k: "text" "num" "bool" "err"; with a formula f the value is the cached result and k may be    *)
(* "blank" (none).  sm # "" marks a child of a shared formula (reference of the master cell).               *)
EmptySheet(name) ==
  [name |-> name, cells |-> {}, links |-> {}, merges |-> {}, names |-> <<>>, comments |-> {}, tables |-> <<>>,
   imgs |-> <<>>, charts |-> 0, nole |-> 0, vmlnoimg |-> 0, dv |-> 0, cfr |-> <<>>, prot |-> FALSE, rowdims |-> {}]
EmptyBook == [sheets |-> <<>>, gnames |-> <<>>, active |-> 0, macro |-> FALSE]

SheetNames(wb) == [i \in DOMAIN wb.sheets |-> wb.sheets[i].name]
HasSheetNamed(wb, n) == \E i \in DOMAIN wb.sheets : wb.sheets[i].name = n
DropAt(s, i) == [j \in 1..(Len(s) - 1) |-> IF j < i THEN s[j] ELSE s[j + 1]]
SamePos(x, y) == x.r = y.r /\ x.c = y.c

Post_AddSheet(wb, name)       == [wb EXCEPT !.sheets = Append(@, EmptySheet(name))]
Post_RemoveSheet(wb, s)       == [wb EXCEPT !.sheets = DropAt(@, s)]           \* the active index is not touched
Post_RenameSheet(wb, s, name) == [wb EXCEPT !.sheets[s].name = name]
Post_SetActive(wb, i)         == [wb EXCEPT !.active = i]
Post_SetCell(wb, s, cell) ==
  [wb EXCEPT !.sheets[s].cells = {x \in @ : ~SamePos(x, cell)} \cup {cell}, !.sheets[s].rowdims = @ \cup {cell.r}]
Post_RemoveCell(wb, s, r, c) == [wb EXCEPT !.sheets[s].cells = {x \in @ : ~(x.r = r /\ x.c = c)},       \* the hyperlink lives on the cell
                                          !.sheets[s].links = {x \in @ : ~(x.r = r /\ x.c = c)}]
Post_Link(wb, s, link) ==
  [wb EXCEPT !.sheets[s].links = {x \in @ : ~SamePos(x, link)} \cup {link}, !.sheets[s].rowdims = @ \cup {link.r}]
Post_Merge(wb, s, g)          == [wb EXCEPT !.sheets[s].merges = @ \cup {g}]
Post_Name(wb, s, nm)          == [wb EXCEPT !.sheets[s].names = Append(@, nm)]
Post_Comment(wb, s, r, c)     == [wb EXCEPT !.sheets[s].comments = @ \cup {[r |-> r, c |-> c]}]
Post_Table(wb, s, name)       == [wb EXCEPT !.sheets[s].tables = Append(@, name)]
Post_Image(wb, s, img)        == [wb EXCEPT !.sheets[s].imgs = Append(@, img)]
Post_Chart(wb, s)             == [wb EXCEPT !.sheets[s].charts = @ + 1]
Post_Validation(wb, s)        == [wb EXCEPT !.sheets[s].dv = @ + 1]
Post_CondFmt(wb, s, rules)    == [wb EXCEPT !.sheets[s].cfr = Append(@, rules)]          \* rules: a sequence of formats
NoFmt == [has |-> FALSE, font |-> "", fg |-> "", bg |-> "", border |-> "", numfmt |-> "", prot |-> FALSE]
(* the differential format (CT_Dxf) that carries a rule's formatting *)
DxfOf(f) == [font |-> f.font, fg |-> f.fg, bg |-> f.bg, border |-> f.border, numfmt |-> f.numfmt, prot |-> f.prot]
FlatRules(S) == FoldLeft(LAMBDA a, b : a \o b, <<>>, S.cfr)
Post_Protect(wb, s)           == [wb EXCEPT !.sheets[s].prot = TRUE]
Post_RowDim(wb, s, r)         == [wb EXCEPT !.sheets[s].rowdims = @ \cup {r}]
Post_Macro(wb, on)            == [wb EXCEPT !.macro = on]

(* what an independent reader has to see: cells (value or cached result, formula), hyperlinks, merged     *)
(* ranges, defined names, sheet list.  A formula whose cached result is the empty text has no cached     *)
(* result.                                                                                                *)
NormCell(x) == [r |-> x.r, c |-> x.c, f |-> x.f, sm |-> x.sm,
                k |-> IF (x.f # "" \/ x.sm # "") /\ x.k = "text" /\ x.v = "" THEN "blank" ELSE x.k,
                v |-> x.v]
ContentCells(S) == {NormCell(x) : x \in S.cells}
ContentLinks(S) == {[r1 |-> l.r, c1 |-> l.c, r2 |-> l.r, c2 |-> l.c, url |-> l.url, loc |-> l.loc, tip |-> l.tip] : l \in S.links}
RECURSIVE FlatNames(_, _)
FlatNames(sheets, i) == IF i > Len(sheets) THEN <<>> ELSE sheets[i].names \o FlatNames(sheets, i + 1)
AllNames(wb) == wb.gnames \o FlatNames(wb.sheets, 1)
Content(wb) == [sheets |-> [i \in DOMAIN wb.sheets |->
                              [name |-> wb.sheets[i].name, cells |-> ContentCells(wb.sheets[i]),
                               links |-> ContentLinks(wb.sheets[i]), merges |-> wb.sheets[i].merges]],
                names  |-> AllNames(wb)]

(* ======================================================================= *)
(* Part 2: the abstract package and the property                           *)
(* ======================================================================= *)
(* p = [zipok, ctok, entries <<name>>, parts <<[name, ct, wf]>>,                                          *)
(*      rels <<[src, items <<[id, kind, target, ext]>>]>>,  uses <<[part, elem, rid]>>,                   *)
(*      wbs <<[name, id, rid]>>, active,                                                                  *)
(*      sheets <<[part, children <<name>>, rows <<[r, cs <<col>>, rr <<row numbers in cell refs>>]>>,     *)
(*                sx <<s= used>>, ssx <<shared string indices used>>, dxf <<dxfId used>>,                 *)
(*                cfx <<[dxf]>> the cfRule elements in document order with their dxfId (-1 = none)]>>,    *)
(*      dxfs <<[font, fg, bg, border, numfmt, prot]>> the <dxf> entries of the style sheet,               *)
(*      nxf, ndxf, nsst, xfs <<[font, fill, border, xf, numfmt]>>, nfonts, nfills, nborders, ncsx,        *)
(*      numfmts <<custom ids>>, tableids <<id>>]                                                          *)

(* CT_Worksheet, ECMA-376 Part 1, 18.3.1.99: the sequence of the children of <worksheet> *)
WsOrder == << "sheetPr", "dimension", "sheetViews", "sheetFormatPr", "cols", "sheetData", "sheetCalcPr",
              "sheetProtection", "protectedRanges", "scenarios", "autoFilter", "sortState", "dataConsolidate",
              "customSheetViews", "mergeCells", "phoneticPr", "conditionalFormatting", "dataValidations",
              "hyperlinks", "printOptions", "pageMargins", "pageSetup", "headerFooter", "rowBreaks", "colBreaks",
              "customProperties", "cellWatches", "ignoredErrors", "smartTags", "drawing", "legacyDrawing",
              "legacyDrawingHF", "drawingHF", "picture", "oleObjects", "controls", "webPublishItems", "tableParts",
              "extLst" >>
WsKnown(n) == \E i \in DOMAIN WsOrder : WsOrder[i] = n
WsIndex(n) == CHOOSE i \in DOMAIN WsOrder : WsOrder[i] = n
(* markup-compatibility wrappers may stand for any child *)
Ordered(children) ==
  LET ch == SelectSeq(children, LAMBDA n : n # "AlternateContent") IN
  /\ \A i \in DOMAIN ch : WsKnown(ch[i])
  /\ \A i \in 1..(Len(ch) - 1) : WsIndex(ch[i]) <= WsIndex(ch[i + 1])

(* relationship type (last path segment) an element's r:id must designate *)
ElemKinds == [sheet |-> {"worksheet", "chartsheet", "dialogsheet", "macrosheet"}, hyperlink |-> {"hyperlink"},
              drawing |-> {"drawing"}, legacyDrawing |-> {"vmlDrawing"}, legacyDrawingHF |-> {"vmlDrawing"},
              tablePart |-> {"table"}, pageSetup |-> {"printerSettings"}, oleObject |-> {"oleObject", "package"},
              pivotCache |-> {"pivotCacheDefinition"}, externalReference |-> {"externalLink"},
              chart |-> {"chart"}, blip |-> {"image"}, picture |-> {"image"}]
KindFits(elem, kind) == IF elem \in DOMAIN ElemKinds THEN kind \in ElemKinds[elem] ELSE TRUE

PartNames(p) == {p.parts[i].name : i \in DOMAIN p.parts}
RelsOf(p, part) == IF \E i \in DOMAIN p.rels : p.rels[i].src = part
                   THEN p.rels[CHOOSE i \in DOMAIN p.rels : p.rels[i].src = part].items ELSE <<>>
Resolves(p, u) == \E j \in DOMAIN RelsOf(p, u.part) : RelsOf(p, u.part)[j].id = u.rid /\ KindFits(u.elem, RelsOf(p, u.part)[j].kind)

RowOK(row) == /\ row.r \in 1..MaxRow
              /\ Ascending(row.cs)
              /\ \A i \in DOMAIN row.cs : row.cs[i] \in 1..MaxCol
              /\ Rng(row.rr) \subseteq {row.r}
RowsOK(rows) == (\A i \in DOMAIN rows : RowOK(rows[i])) /\ Ascending([i \in DOMAIN rows |-> rows[i].r])
In0(x, n) == x >= 0 /\ x < n
XfOK(p, x) == /\ x.font = -1 \/ In0(x.font, p.nfonts)
              /\ x.fill = -1 \/ In0(x.fill, p.nfills)
              /\ x.border = -1 \/ In0(x.border, p.nborders)
              /\ x.xf = -1 \/ In0(x.xf, p.ncsx)
              /\ x.numfmt = -1 \/ In0(x.numfmt, 164) \/ x.numfmt \in Rng(p.numfmts)

(* clause by clause: the things in p that break the statement *)
Offences(p) ==
  [zip       |-> IF p.zipok /\ p.ctok THEN {} ELSE {"unreadable"},
   dupentry  |-> IF Distinct(p.entries) THEN {} ELSE {"duplicate zip entry"},
   notwf     |-> {p.parts[i].name : i \in {j \in DOMAIN p.parts : ~p.parts[j].wf}},
   untyped   |-> {p.parts[i].name : i \in {j \in DOMAIN p.parts : p.parts[j].ct = ""}},
   duprelid  |-> {p.rels[i].src : i \in {j \in DOMAIN p.rels : ~Distinct([k \in DOMAIN p.rels[j].items |-> p.rels[j].items[k].id])}},
   dangling  |-> UNION {{[src |-> p.rels[i].src, id |-> it.id, kind |-> it.kind, target |-> it.target] :
                            it \in {x \in Rng(p.rels[i].items) : ~x.ext /\ x.target \notin PartNames(p)}} : i \in DOMAIN p.rels},
   unresolved |-> {u \in Rng(p.uses) : ~Resolves(p, u)},
   sheetnames |-> IF Distinct([i \in DOMAIN p.wbs |-> p.wbs[i].name]) THEN {} ELSE {"duplicate sheet name"},
   sheetids  |-> IF Distinct([i \in DOMAIN p.wbs |-> p.wbs[i].id]) /\ Distinct([i \in DOMAIN p.wbs |-> p.wbs[i].rid])
                 THEN {} ELSE {"duplicate sheetId / r:id"},
   order     |-> {p.sheets[i].part : i \in {j \in DOMAIN p.sheets : ~Ordered(p.sheets[j].children)}},
   rows      |-> {p.sheets[i].part : i \in {j \in DOMAIN p.sheets : ~RowsOK(p.sheets[j].rows)}},
   styleidx  |-> {p.sheets[i].part : i \in {j \in DOMAIN p.sheets : \E x \in Rng(p.sheets[j].sx) : ~In0(x, p.nxf)}},
   sstidx    |-> {p.sheets[i].part : i \in {j \in DOMAIN p.sheets : \E x \in Rng(p.sheets[j].ssx) : ~In0(x, p.nsst)}},
   dxfidx    |-> {p.sheets[i].part : i \in {j \in DOMAIN p.sheets : \E x \in Rng(p.sheets[j].dxf) : ~In0(x, p.ndxf)}},
   xfs       |-> {i \in DOMAIN p.xfs : ~XfOK(p, p.xfs[i])},
   tableids  |-> IF Distinct(p.tableids) THEN {} ELSE {"duplicate table id"},
   active    |-> IF In0(p.active, Len(p.wbs)) \/ (p.active = 0 /\ p.wbs = <<>>) THEN {} ELSE {p.active}]
NoOffence == [zip |-> {}, dupentry |-> {}, notwf |-> {}, untyped |-> {}, duprelid |-> {}, dangling |-> {}, unresolved |-> {},
              sheetnames |-> {}, sheetids |-> {}, order |-> {}, rows |-> {}, styleidx |-> {}, sstidx |-> {}, dxfidx |-> {},
              xfs |-> {}, tableids |-> {}, active |-> {}]
Clauses == DOMAIN NoOffence
PackageOK(p) == Offences(p) = NoOffence

(* "every differential-format index points inside its table", rule by rule against the workbook: the k-th cfRule of
   sheet s has a dxfId iff the k-th rule of the model has a style, the index lies inside <dxfs>, and the entry it
   designates is a differential format that carries the rule's formatting (Carriers(format): the acceptable entries;
   the intended design has exactly one, DxfOf(format)) *)
RuleOK(p, x, f, Carriers(_)) == IF ~f.has THEN x.dxf = -1
                                ELSE In0(x.dxf, Len(p.dxfs)) /\ p.dxfs[x.dxf + 1] \in Carriers(f)
RuleOffences(p, wb, Carriers(_)) ==
  UNION {IF s \notin DOMAIN p.sheets \/ Len(p.sheets[s].cfx) # Len(FlatRules(wb.sheets[s]))
         THEN {<<"rules of sheet", s, "model", Len(FlatRules(wb.sheets[s])), "file", IF s \in DOMAIN p.sheets THEN Len(p.sheets[s].cfx) ELSE -1>>}
         ELSE {<<"rule", s, k, "dxfId", p.sheets[s].cfx[k].dxf, "of", Len(p.dxfs), "entry",
                 IF In0(p.sheets[s].cfx[k].dxf, Len(p.dxfs)) THEN <<p.dxfs[p.sheets[s].cfx[k].dxf + 1]>> ELSE <<>>,
                 "rule formats with", FlatRules(wb.sheets[s])[k]>>
               : k \in {j \in DOMAIN p.sheets[s].cfx : ~RuleOK(p, p.sheets[s].cfx[j], FlatRules(wb.sheets[s])[j], Carriers)}}
         : s \in DOMAIN wb.sheets}
Intended(f) == {DxfOf(f)}

(* ======================================================================= *)
(* Part 3: the design of the writer, and the independent reader on it      *)
(* ======================================================================= *)
N(prefix, n, suffix) == prefix \o ToString(n) \o suffix
Has(files, f) == \E i \in DOMAIN files : files[i] = f
FirstFree(files, prefix, suffix) ==
  CHOOSE n \in 1..(Len(files) + 1) : ~Has(files, N(prefix, n, suffix)) /\ \A m \in 1..(n - 1) : Has(files, N(prefix, m, suffix))

(* content types: Override by the kind of part, else Default by extension (every extension that occurs
   gets a Default entry in the intended design) *)
OverrideOf(kind, macro) ==
  CASE kind = "workbook" -> IF macro THEN "ct/workbook.macroEnabled" ELSE "ct/workbook"
    [] kind \in {"sheet", "table", "comments", "theme", "styles", "sst", "drawing", "chart", "vba", "core", "app"} -> "ct/" \o kind
    [] OTHER -> ""
DefaultOf(ext) == IF ext = "" THEN "" ELSE "ct/default." \o ext
TypeOf(kind, ext, macro) == IF OverrideOf(kind, macro) # "" THEN OverrideOf(kind, macro) ELSE DefaultOf(ext)

(* acc = [files, parts, rels, uses, macro]; first writer wins *)
EmitPart(acc, name, kind, ext) ==
  IF Has(acc.files, name) THEN acc
  ELSE [acc EXCEPT !.files = Append(@, name),
                   !.parts = Append(@, [name |-> name, ct |-> TypeOf(kind, ext, acc.macro), wf |-> TRUE, kind |-> kind])]
EmitRels(acc, relsname, src, items) ==
  IF Has(acc.files, relsname) THEN acc
  ELSE [EmitPart(acc, relsname, "rels", "rels") EXCEPT !.rels = Append(@, [src |-> src, items |-> items])]
Rel(n, kind, target, ext) == [id |-> "rId" \o ToString(n), kind |-> kind, target |-> target, ext |-> ext]

HasDrawing(S) == S.charts > 0 \/ S.imgs # <<>>
HasLegacy(S)  == S.comments # {} \/ S.nole > 0
ExtLinks(S)   == {l \in S.links : ~l.loc}
IntLinks(S)   == {l \in S.links : l.loc}
SheetPart(i)  == N("/xl/worksheets/sheet", i, ".xml")

(* the children of <worksheet> the writer emits for sheet S (worksheet.rs, top to bottom) *)
Children(S, macro) ==
  (IF macro THEN <<"sheetPr">> ELSE <<>>) \o <<"dimension", "sheetViews", "sheetFormatPr">> \o <<"sheetData">> \o
  (IF S.prot THEN <<"sheetProtection">> ELSE <<>>) \o (IF S.merges # {} THEN <<"mergeCells">> ELSE <<>>) \o
  <<"phoneticPr">> \o [k \in DOMAIN S.cfr |-> "conditionalFormatting"] \o
  (IF S.dv > 0 THEN <<"dataValidations">> ELSE <<>>) \o (IF S.links # {} THEN <<"hyperlinks">> ELSE <<>>) \o
  <<"pageMargins">> \o (IF HasDrawing(S) THEN <<"drawing">> ELSE <<>>) \o (IF HasLegacy(S) THEN <<"legacyDrawing">> ELSE <<>>) \o
  (IF S.tables # <<>> THEN <<"tableParts">> ELSE <<>>)

(* interning tables built while the sheets are written *)
TextCells(S) == {x \in S.cells : x.k = "text" /\ x.f = "" /\ x.sm = ""}
RECURSIVE InternAll(_, _)
InternAll(tab, vals) ==            \* vals: a sequence of values in writing order
  IF vals = <<>> THEN tab
  ELSE InternAll(IF vals[1] \in Rng(tab) THEN tab ELSE Append(tab, vals[1]), Tail(vals))
IndexIn(tab, v) == (CHOOSE i \in DOMAIN tab : tab[i] = v) - 1           \* 0-based
CellOrder(a, b) == a.r < b.r \/ (a.r = b.r /\ a.c < b.c)
CellSeq(S) == SetToSortSeq(S.cells, CellOrder)
RECURSIVE SstOf(_, _, _)
SstOf(sheets, i, tab) ==
  IF i > Len(sheets) THEN tab
  ELSE SstOf(sheets, i + 1, InternAll(tab, [k \in DOMAIN SelectSeq(CellSeq(sheets[i]), LAMBDA x : x \in TextCells(sheets[i]))
                                               |-> SelectSeq(CellSeq(sheets[i]), LAMBDA x : x \in TextCells(sheets[i]))[k].v]))
RECURSIVE XfsOf(_, _, _)
XfsOf(sheets, i, tab) ==
  IF i > Len(sheets) THEN tab
  ELSE XfsOf(sheets, i + 1, InternAll(tab, [k \in DOMAIN CellSeq(sheets[i]) |-> CellSeq(sheets[i])[k].sty]))
(* differential formats are interned by content while the sheets are written (DifferentialFormats::set_style) *)
RECURSIVE DxfTab(_, _, _)
DxfTab(sheets, i, tab) ==
  IF i > Len(sheets) THEN tab
  ELSE LET rs == SelectSeq(FlatRules(sheets[i]), LAMBDA f : f.has) IN
       DxfTab(sheets, i + 1, InternAll(tab, [k \in DOMAIN rs |-> DxfOf(rs[k])]))

(* sheet XML, pass 1 (worksheet.rs): rIds are numbered along ord (an enumeration of the external hyperlinks),
   then drawing, legacy drawing, tables.  The cells are written row by row from the row table. *)
LinkIdx(ord, l) == CHOOSE n \in DOMAIN ord : ord[n] = l
SheetXml(wb, i, ord, sst, xfs, dxfs) ==
  LET S    == wb.sheets[i]
      nx   == Len(ord)
      dr   == IF HasDrawing(S) THEN 1 ELSE 0
      lg   == IF HasLegacy(S) THEN 1 ELSE 0
      rowset == {x.r : x \in S.cells} \cup S.rowdims
      rowsq  == SortedSeq(rowset)
      rules == FlatRules(S)
  IN [part |-> SheetPart(i),
      children |-> Children(S, wb.macro),
      rows |-> [k \in DOMAIN rowsq |-> [r |-> rowsq[k], cs |-> SortedSeq({x.c : x \in {y \in S.cells : y.r = rowsq[k]}}),
                                        rr |-> IF \E y \in S.cells : y.r = rowsq[k] THEN <<rowsq[k]>> ELSE <<>>]],
      sx  |-> SortedSeq({IndexIn(xfs, x.sty) : x \in S.cells} \ {0}),
      ssx |-> SortedSeq({IndexIn(sst, x.v) : x \in TextCells(S)}),
      cfx |-> [k \in DOMAIN rules |-> [dxf |-> IF rules[k].has THEN IndexIn(dxfs, DxfOf(rules[k])) ELSE -1]],
      dxf |-> SortedSeq({IndexIn(dxfs, DxfOf(rules[k])) : k \in {j \in DOMAIN rules : rules[j].has}}),
      (* what the reader will find in the part *)
      cellsx |-> {IF x \in TextCells(S)
                  THEN [r |-> x.r, c |-> x.c, t |-> "s", v |-> ToString(IndexIn(sst, x.v)), f |-> x.f, sm |-> x.sm]
                  ELSE [r |-> x.r, c |-> x.c, t |-> IF x.k = "text" THEN "str" ELSE x.k, v |-> x.v, f |-> x.f, sm |-> x.sm]
                  : x \in S.cells},
      linksx |-> {[r |-> l.r, c |-> l.c, rid |-> "rId" \o ToString(LinkIdx(ord, l)), loc |-> "", tip |-> l.tip] : l \in ExtLinks(S)}
                 \cup {[r |-> l.r, c |-> l.c, rid |-> "", loc |-> l.url, tip |-> l.tip] : l \in IntLinks(S)},
      mergesx |-> S.merges,
      uses |-> [k \in 1..nx |-> [part |-> SheetPart(i), elem |-> "hyperlink", rid |-> "rId" \o ToString(k)]]
               \o (IF dr = 1 THEN <<[part |-> SheetPart(i), elem |-> "drawing", rid |-> "rId" \o ToString(nx + 1)]>> ELSE <<>>)
               \o (IF lg = 1 THEN <<[part |-> SheetPart(i), elem |-> "legacyDrawing", rid |-> "rId" \o ToString(nx + dr + 1)]>> ELSE <<>>)
               \o [k \in DOMAIN S.tables |-> [part |-> SheetPart(i), elem |-> "tablePart", rid |-> "rId" \o ToString(nx + dr + lg + k)]]]

(* numbering of k new files of one family, one after the other *)
RECURSIVE EmitN(_, _, _, _, _, _)
EmitN(accnos, k, prefix, suffix, kind, ext) ==      \* accnos = <<acc, <<numbers>> >>
  IF k = 0 THEN accnos
  ELSE LET n == FirstFree(accnos[1].files, prefix, suffix)
       IN EmitN(<<EmitPart(accnos[1], N(prefix, n, suffix), kind, ext), Append(accnos[2], n)>>, k - 1, prefix, suffix, kind, ext)
RECURSIVE EmitMedia(_, _)
EmitMedia(acc, imgs) == IF imgs = <<>> THEN acc
                        ELSE EmitMedia(EmitPart(acc, "/xl/media/" \o imgs[1].name, "media", imgs[1].ext), Tail(imgs))
RECURSIVE EmitTables(_, _, _)
EmitTables(acctno, k, nos) ==                        \* tables are numbered by a counter of their own
  IF k = 0 THEN <<acctno[1], acctno[2], nos>>
  ELSE EmitTables(<<EmitPart(acctno[1], N("/xl/tables/table", acctno[2] + 1, ".xml"), "table", "xml"), acctno[2] + 1>>, k - 1,
                  Append(nos, acctno[2] + 1))

(* the objects of sheet i and, pass 2 (worksheet_rels.rs), its relationships numbered along ord2 *)
SheetObjects(acc, tno, wb, i, ord2) ==
  LET S   == wb.sheets[i]
      c1  == EmitN(<<acc, <<>> >>, S.charts, "/xl/charts/chart", ".xml", "chart", "xml")
      d1  == IF HasDrawing(S) THEN EmitN(<<c1[1], <<>> >>, 1, "/xl/drawings/drawing", ".xml", "drawing", "xml") ELSE <<c1[1], <<>> >>
      dno == IF HasDrawing(S) THEN d1[2][1] ELSE 0
      dpart == N("/xl/drawings/drawing", dno, ".xml")
      ditems == [k \in DOMAIN c1[2] |-> Rel(k, "chart", N("/xl/charts/chart", c1[2][k], ".xml"), FALSE)]
                \o [k \in DOMAIN S.imgs |-> Rel(Len(c1[2]) + k, "image", "/xl/media/" \o S.imgs[k].name, FALSE)]
      d2  == IF HasDrawing(S) THEN EmitRels(d1[1], N("/xl/drawings/_rels/drawing", dno, ".xml.rels"), dpart, ditems) ELSE d1[1]
      d3  == IF HasDrawing(S)
             THEN [d2 EXCEPT !.uses = @ \o [k \in DOMAIN c1[2] |-> [part |-> dpart, elem |-> "chart", rid |-> "rId" \o ToString(k)]]
                                        \o [k \in DOMAIN S.imgs |-> [part |-> dpart, elem |-> "blip", rid |-> "rId" \o ToString(Len(c1[2]) + k)]]]
             ELSE d2
      v1  == IF HasLegacy(S) THEN EmitN(<<d3, <<>> >>, 1, "/xl/drawings/vmlDrawing", ".vml", "vml", "vml") ELSE <<d3, <<>> >>
      vno == IF HasLegacy(S) THEN v1[2][1] ELSE 0
      m1  == IF S.comments # {} THEN EmitN(<<v1[1], <<>> >>, 1, "/xl/comments", ".xml", "comments", "xml") ELSE <<v1[1], <<>> >>
      cno == IF S.comments # {} THEN m1[2][1] ELSE 0
      md  == EmitMedia(m1[1], S.imgs)
      t1  == EmitTables(<<md, tno>>, Len(S.tables), <<>>)
      nx  == Len(ord2)
      dr  == IF HasDrawing(S) THEN 1 ELSE 0
      lg  == IF HasLegacy(S) THEN 1 ELSE 0
      items == [k \in 1..nx |-> Rel(k, "hyperlink", ord2[k].url, TRUE)]
               \o (IF dr = 1 THEN <<Rel(nx + 1, "drawing", dpart, FALSE)>> ELSE <<>>)
               \o (IF lg = 1 THEN <<Rel(nx + dr + 1, "vmlDrawing", N("/xl/drawings/vmlDrawing", vno, ".vml"), FALSE)>> ELSE <<>>)
               \o [k \in DOMAIN t1[3] |-> Rel(nx + dr + lg + k, "table", N("/xl/tables/table", t1[3][k], ".xml"), FALSE)]
               \o (IF S.comments # {} THEN <<Rel(nx + dr + lg + Len(t1[3]) + 1, "comments", N("/xl/comments", cno, ".xml"), FALSE)>> ELSE <<>>)
      fin == IF items # <<>> THEN EmitRels(t1[1], N("/xl/worksheets/_rels/sheet", i, ".xml.rels"), SheetPart(i), items) ELSE t1[1]
  IN <<fin, t1[2]>>

RECURSIVE AllObjects(_, _, _, _, _)
AllObjects(acc, tno, wb, i, ords2) ==
  IF i > Len(wb.sheets) THEN <<acc, tno>>
  ELSE LET r == SheetObjects(acc, tno, wb, i, ords2[i]) IN AllObjects(r[1], r[2], wb, i + 1, ords2)
RECURSIVE AllSheetParts(_, _, _)
AllSheetParts(acc, wb, i) == IF i > Len(wb.sheets) THEN acc ELSE AllSheetParts(EmitPart(acc, SheetPart(i), "sheet", "xml"), wb, i + 1)

(* ords[i], ords2[i]: the order in which pass 1 / pass 2 enumerate the external hyperlinks of sheet i.
   The intended design uses one order for both (SavePkg(wb, ords, ords)). *)
SaveWith(wb, ords, ords2) ==
  LET n    == Len(wb.sheets)
      sst  == SstOf(wb.sheets, 1, <<>>)
      xfs  == XfsOf(wb.sheets, 1, <<"">>)
      dxfs == DxfTab(wb.sheets, 1, <<>>)
      a0   == [files |-> <<>>, parts |-> <<>>, rels |-> <<>>, uses |-> <<>>, macro |-> wb.macro]
      a1   == EmitPart(EmitPart(a0, "/docProps/app.xml", "app", "xml"), "/docProps/core.xml", "core", "xml")
      a2   == IF wb.macro THEN EmitPart(a1, "/xl/vbaProject.bin", "vba", "bin") ELSE a1
      a3   == EmitRels(a2, "/_rels/.rels", "/", <<Rel(3, "extended-properties", "/docProps/app.xml", FALSE),
                                                    Rel(2, "core-properties", "/docProps/core.xml", FALSE),
                                                    Rel(1, "officeDocument", "/xl/workbook.xml", FALSE)>>)
      a4   == EmitPart(a3, "/xl/theme/theme1.xml", "theme", "xml")
      a5   == AllSheetParts(a4, wb, 1)
      sx   == [i \in 1..n |-> SheetXml(wb, i, ords[i], sst, xfs, dxfs)]
      a6   == AllObjects(a5, 0, wb, 1, ords2)
      a7   == IF sst # <<>> THEN EmitPart(a6[1], "/xl/sharedStrings.xml", "sst", "xml") ELSE a6[1]
      a8   == EmitPart(EmitPart(a7, "/xl/styles.xml", "styles", "xml"), "/xl/workbook.xml", "workbook", "xml")
      wbitems == [i \in 1..n |-> Rel(i, "worksheet", SheetPart(i), FALSE)]
                 \o <<Rel(n + 1, "styles", "/xl/styles.xml", FALSE), Rel(n + 2, "theme", "/xl/theme/theme1.xml", FALSE)>>
                 \o (IF sst # <<>> THEN <<Rel(n + 3, "sharedStrings", "/xl/sharedStrings.xml", FALSE)>> ELSE <<>>)
                 \o (IF wb.macro THEN <<Rel(n + 3 + (IF sst # <<>> THEN 1 ELSE 0), "vbaProject", "/xl/vbaProject.bin", FALSE)>> ELSE <<>>)
      a9   == EmitRels(a8, "/xl/_rels/workbook.xml.rels", "/xl/workbook.xml", wbitems)
  IN [zipok |-> TRUE, ctok |-> TRUE, entries |-> Append(a9.files, "/[Content_Types].xml"), parts |-> a9.parts, rels |-> a9.rels,
      uses |-> a9.uses \o [i \in 1..n |-> [part |-> "/xl/workbook.xml", elem |-> "sheet", rid |-> "rId" \o ToString(i)]]
               \o FoldLeft(LAMBDA a, b : a \o b, <<>>, [i \in 1..n |-> sx[i].uses]),
      wbs |-> [i \in 1..n |-> [name |-> wb.sheets[i].name, id |-> i, rid |-> "rId" \o ToString(i)]],
      active |-> IF wb.active >= n THEN (IF n = 0 THEN 0 ELSE n - 1) ELSE wb.active,
      sheets |-> sx, nxf |-> Len(xfs), ndxf |-> Len(dxfs), dxfs |-> dxfs, nsst |-> Len(sst),
      xfs |-> [k \in DOMAIN xfs |-> [font |-> 0, fill |-> 0, border |-> 0, xf |-> 0, numfmt |-> IF k = 1 THEN 0 ELSE 163 + k]],
      nfonts |-> 1, nfills |-> 2, nborders |-> 1, ncsx |-> 1, numfmts |-> [k \in 1..(Len(xfs) - 1) |-> 164 + k],
      tableids |-> [k \in 1..a6[2] |-> k], sst |-> sst, names |-> AllNames(wb)]
SavePkg(wb, ords) == SaveWith(wb, ords, ords)
CanonOrd(S) == SetToSortSeq(ExtLinks(S), LAMBDA a, b : a.r < b.r \/ (a.r = b.r /\ a.c < b.c))
(* what does not depend on the enumeration order: the parts and, per source, the relationships by type and target *)
Skeleton(p) == [parts |-> PartNames(p),
                rels  |-> UNION {{[src |-> p.rels[i].src, kind |-> it.kind, target |-> it.target] : it \in Rng(p.rels[i].items)}
                                 : i \in DOMAIN p.rels}]

(* the independent reader on the abstract package: shared strings by index, hyperlink targets through the
   relationships of the sheet part *)
TargetOf(p, part, rid) ==
  LET its == RelsOf(p, part) IN
  IF \E j \in DOMAIN its : its[j].id = rid THEN its[CHOOSE j \in DOMAIN its : its[j].id = rid].target ELSE "?unresolved"
DecodeCell(p, x) ==
  NormCell([r |-> x.r, c |-> x.c, f |-> x.f, sm |-> x.sm,
            k |-> IF x.t \in {"s", "str"} THEN "text" ELSE x.t,
            v |-> IF x.t = "s" THEN p.sst[(CHOOSE n \in 0..(Len(p.sst) - 1) : ToString(n) = x.v) + 1] ELSE x.v])
Decode(p) ==
  [sheets |-> [i \in DOMAIN p.wbs |->
     LET sx == p.sheets[i] IN
     [name |-> p.wbs[i].name,
      cells |-> {DecodeCell(p, x) : x \in sx.cellsx},
      links |-> {[r1 |-> l.r, c1 |-> l.c, r2 |-> l.r, c2 |-> l.c, tip |-> l.tip,
                  url |-> IF l.rid # "" THEN TargetOf(p, sx.part, l.rid) ELSE l.loc, loc |-> l.rid = ""] : l \in sx.linksx},
      merges |-> sx.mergesx]],
   names |-> p.names]
=============================================================================
