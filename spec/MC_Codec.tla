---- MODULE MC_Codec ----
EXTENDS Codec
====
