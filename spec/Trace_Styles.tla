---------------------------- MODULE Trace_Styles ----------------------------
(***************************************************************************)
(* Trace validation for C05.  Events (harness/src/bin/styles.rs, Save      *)
(* events completed by pydec/styles_view.py):                              *)
(*   Init n                             n new workbook objects             *)
(*   Assign w cells rows cols           styles (assigned form) and         *)
(*                                      dimensions set through the setters *)
(*   Import w v items                   get_style(..).clone() of a cell of *)
(*                                      workbook v set on a cell / row /   *)
(*                                      column of workbook w               *)
(*   Save w sizes, wellformed           write_writer; table sizes of       *)
(*                                      styles.xml by the independent view *)
(*   Reload w names                     read_reader of the last file of w; *)
(*                                      names = every font name seen so    *)
(*                                      far, as characters                 *)
(* every event carries outcome and obs = what the public getters show      *)
(* (effective form) of every cell, row and column of workbook w afterwards.*)
(* An event is accepted iff obs = ProjBook of the specification's          *)
(* post-state; for Reload the post-state is Load(SaveBook(..)) of          *)
(* Styles.tla with the intended parameters, else with the parameters of    *)
(* the open known findings whose trigger holds in the saved workbook.      *)
(***************************************************************************)
EXTENDS Styles, TraceBase

CONSTANTS MaxRow, MaxCol

VARIABLES l,
          snap     \* per workbook <<>> or <<[book, ss]>>: the workbook as it was when its last file was written
tvars == <<wbs, l, snap>>
(* (of a workbook record only book, ss and sizes are used here; sizes holds the *observed* table sizes) *)

Ev == Rec[l]

(* ---- observations --------------------------------------------------------------------------- *)
ObsBook(o) == [cells |-> ToSet(o.cells), rows |-> ToSet(o.rows), cols |-> ToSet(o.cols)]
NoDup(o) == /\ Len(o.cells) = Cardinality({<<o.cells[i].r, o.cells[i].c>> : i \in DOMAIN o.cells})
            /\ Len(o.rows) = Cardinality({o.rows[i].r : i \in DOMAIN o.rows})
            /\ Len(o.cols) = Cardinality({o.cols[i].c : i \in DOMAIN o.cols})
(* after a mismatch the specification follows the observation: every component becomes explicit *)
UnEff(e) == [font |-> <<[name |-> e.font.name, size |-> e.font.size, bold |-> e.font.bold, italic |-> e.font.italic,
                         underline |-> e.font.underline, strike |-> e.font.strike, color |-> e.font.color, sch |-> "none"]>>,
             fill |-> <<e.fill>>, border |-> <<e.border>>, align |-> <<e.align>>, numFmt |-> <<NumOf(e.numFmt)>>, prot |-> <<e.prot>>]
Resync(o) == [cells |-> {[x EXCEPT !.sty = UnEff(@)] : x \in ToSet(o.cells)},
              rows  |-> {[x EXCEPT !.sty = UnEff(@)] : x \in ToSet(o.rows)},
              cols  |-> {[x EXCEPT !.sty = UnEff(@)] : x \in ToSet(o.cols)}]

(* a small description of the first difference between two projections *)
Comps == {"font", "fill", "border", "align", "numFmt", "prot"}
DiffCarrier(kind, x, others, SameKey(_, _), dimdiff(_, _)) ==
  LET m == {y \in others : SameKey(x, y)} IN
  IF m = {} THEN <<kind, "missing in the observation", x>>
  ELSE LET y == CHOOSE z \in m : TRUE
           cs == {f \in Comps : x.sty[f] # y.sty[f]}
       IN IF cs = {} THEN <<kind, "dimension", dimdiff(x, y)>>
          ELSE LET f == CHOOSE g \in cs : TRUE
               IN <<kind, dimdiff(x, x)[1], "components", cs, "expected", x.sty[f], "observed", y.sty[f]>>
Diff(want, got) ==
  IF want.cells # got.cells
  THEN IF want.cells \ got.cells # {}
       THEN DiffCarrier("cell", CHOOSE x \in want.cells \ got.cells : TRUE, got.cells,
                        LAMBDA x, y : x.r = y.r /\ x.c = y.c, LAMBDA x, y : <<<<x.r, x.c>>, <<y.r, y.c>>>>)
       ELSE <<"cell", "only in the observation", CHOOSE x \in got.cells \ want.cells : TRUE>>
  ELSE IF want.rows # got.rows
  THEN IF want.rows \ got.rows # {}
       THEN DiffCarrier("row", CHOOSE x \in want.rows \ got.rows : TRUE, got.rows,
                        LAMBDA x, y : x.r = y.r,
                        LAMBDA x, y : <<x.r, "expected ht/customHeight/hidden/thickBot/dyDescent", x.ht, x.ch, x.hid, x.tb, x.dd,
                                        "observed", y.ht, y.ch, y.hid, y.tb, y.dd>>)
       ELSE <<"row", "only in the observation", CHOOSE x \in got.rows \ want.rows : TRUE>>
  ELSE IF want.cols \ got.cols # {}
       THEN DiffCarrier("col", CHOOSE x \in want.cols \ got.cols : TRUE, got.cols,
                        LAMBDA x, y : x.c = y.c,
                        LAMBDA x, y : <<x.c, "expected width/hidden/bestFit", x.w, x.hid, x.bf, "observed", y.w, y.hid, y.bf>>)
       ELSE <<"col", "only in the observation", CHOOSE x \in got.cols \ want.cols : TRUE>>

(* ---- assignments ------------------------------------------------------------------------------ *)
RECURSIVE FoldCells(_, _)
FoldCells(B, cs) == IF cs = <<>> THEN B ELSE FoldCells(SetCellB(B, Head(cs).r, Head(cs).c, Head(cs).sty), Tail(cs))
RECURSIVE FoldRows(_, _)
FoldRows(B, rs) == IF rs = <<>> THEN B ELSE FoldRows(SetRowB(B, Head(rs).r, Head(rs), Head(rs).sty), Tail(rs))
RECURSIVE FoldCols(_, _)
FoldCols(B, ks) == IF ks = <<>> THEN B ELSE FoldCols(SetColB(B, Head(ks).c, Head(ks), Head(ks).sty), Tail(ks))
AssignB(B, e) == FoldCells(FoldCols(FoldRows(B, e.rows), e.cols), e.cells)

AssignInContract(e) ==
  /\ \A i \in DOMAIN e.cells : e.cells[i].r \in 1..MaxRow /\ e.cells[i].c \in 1..MaxCol
  /\ \A i \in DOMAIN e.rows : e.rows[i].r \in 1..MaxRow
  /\ \A i \in DOMAIN e.cols : e.cols[i].c \in 1..MaxCol

(* ---- known findings ----------------------------------------------------------------------------- *)
AllStyles(B) == {x.sty : x \in B.cells} \cup {x.sty : x \in B.rows} \cup {x.sty : x \in B.cols}
FontsOf(B)   == {s.font[1] : s \in {t \in AllStyles(B) : t.font # <<>>}}
FillsOf(B)   == {s.fill[1] : s \in {t \in AllStyles(B) : t.fill # <<>>}}
TableFonts(s) == {s.fonts[i] : i \in DOMAIN s.fonts}

(* C05-KF1  Font::get_hash_code writes the fields one after the other without separators: a font of *)
(* the saved workbook has the key of a different font (of the workbook or of its font table), e.g.  *)
(* "Arial1" size 1 and "Arial" size 11.  Outcome: exactly what interning by that key yields.        *)
TrigKF1(S) == \E f \in FontsOf(S.book) : \E g \in FontsOf(S.book) \cup TableFonts(S.ss) :
                 f # g /\ FontKey("concat", f) = FontKey("concat", g)

(* C05-KF2  PatternFill::set_attributes routes the foreground colour through set_foreground_color,  *)
(* which turns pattern "none" into "solid".                                                         *)
TrigKF2(S) == \E f \in FillsOf(S.book) : f.pattern = "none" /\ f.fg # NoColor

(* C05-KF3  attribute values are escaped when written and not unescaped when read: a font name with *)
(* one of & < > " ' comes back with the entity in place of the character.                           *)
Specials == {"&", "<", ">", "\"", "'"}
EscChar(c) == CASE c = "&" -> "&amp;" [] c = "<" -> "&lt;" [] c = ">" -> "&gt;" [] c = "\"" -> "&quot;"
                [] c = "'" -> "&apos;" [] OTHER -> c
RECURSIVE Concat(_)
Concat(cs) == IF cs = <<>> THEN "" ELSE Head(cs) \o Concat(Tail(cs))
NameEntry(names, n) == {i \in DOMAIN names : names[i].s = n}
CharsOf(names, n)   == names[CHOOSE i \in NameEntry(names, n) : TRUE].chars
Esc(names, n) == LET cs == CharsOf(names, n) IN Concat([i \in DOMAIN cs |-> EscChar(cs[i])])
HasSpecial(names, n) == \E i \in DOMAIN CharsOf(names, n) : CharsOf(names, n)[i] \in Specials
(* the driver's table is complete and exact (else the generator / driver is at fault) *)
NamesOK(names, S) ==
  /\ \A i \in DOMAIN names : names[i].s = Concat(names[i].chars)
  /\ \A f \in FontsOf(S.book) \cup TableFonts(S.ss) : NameEntry(names, f.name) # {}
TrigKF3(names, S) == \E f \in FontsOf(S.book) : HasSpecial(names, f.name)

(* the reloaded workbook under a set D of deviations *)
ReloadWith(S, D, names) ==
  LET km == IF "C05-KF1" \in D THEN "concat" ELSE "exact"
      F  == SaveBook(S.book, S.ss, km)
  IN IF "C05-KF3" \in D THEN LoadFile(F, "C05-KF2" \in D, LAMBDA n : Esc(names, n))
     ELSE LoadFile(F, "C05-KF2" \in D, Same)
Triggered(S, names) ==
  {id \in {"C05-KF1"} : KFOn(id) /\ TrigKF1(S)} \cup {id \in {"C05-KF2"} : KFOn(id) /\ TrigKF2(S)}
  \cup {id \in {"C05-KF3"} : KFOn(id) /\ TrigKF3(names, S)}

(* ---- steps -------------------------------------------------------------------------------------- *)
RECURSIVE FoldImport(_, _, _)
FoldImport(B, V, its) ==
  IF its = <<>> THEN B ELSE FoldImport(ImportB(B, Head(its), StyleAt(V, Head(its).r2, Head(its).c2)), V, Tail(its))
ImportInContract(e) ==
  /\ e.v \in DOMAIN wbs
  /\ \A i \in DOMAIN e.items : /\ e.items[i].k \in {"cell", "row", "col"}
                                 /\ e.items[i].r \in 1..MaxRow /\ e.items[i].c \in 1..MaxCol
                                 /\ e.items[i].r2 \in 1..MaxRow /\ e.items[i].c2 \in 1..MaxCol

(* workbook w of the next state *)
Put(w, B, s, sz) == wbs' = [wbs EXCEPT ![w] = [@ EXCEPT !.book = B, !.ss = s, !.sizes = sz]]
Follow(w, e, sz) == Put(w, Resync(e.obs), NewSS, sz)

Step(e) ==
  IF e.a = "Fatal"
  THEN UNCHANGED <<wbs, snap>> /\ Mismatch(l, <<"impl", "fatal", e.outcome>>)
  ELSE IF e.a = "Init"
  THEN /\ wbs' = [w \in 1..e.n |-> NewWb] /\ snap' = [w \in 1..e.n |-> <<>>]
       /\ IF e.outcome = "ok" /\ e.n >= 1 /\ ObsBook(e.obs) = ProjBook(EmptyBook) THEN TRUE ELSE Mismatch(l, <<"init", e.outcome>>)
  ELSE IF e.w \notin DOMAIN wbs
  THEN UNCHANGED <<wbs, snap>> /\ Mismatch(l, <<"gen", e.a, "no such workbook">>)
  ELSE LET w == e.w
           W == wbs[w]
  IN
  IF e.a \in {"Assign", "Import"}
  THEN IF (e.a = "Assign" /\ ~AssignInContract(e)) \/ (e.a = "Import" /\ ~ImportInContract(e))
       THEN Follow(w, e, <<>>) /\ UNCHANGED snap /\ Mismatch(l, <<"gen", e.a>>)
       ELSE LET want == IF e.a = "Assign" THEN AssignB(W.book, e) ELSE FoldImport(W.book, wbs[e.v].book, e.items) IN
            /\ UNCHANGED snap
            /\ IF e.outcome = "ok" /\ NoDup(e.obs) /\ ObsBook(e.obs) = ProjBook(want)
               THEN Put(w, want, W.ss, <<>>)
               ELSE Follow(w, e, <<>>)
                    /\ Mismatch(l, <<(IF e.a = "Assign" THEN "assign" ELSE "import"), e.outcome,
                                     IF e.outcome = "ok" /\ NoDup(e.obs) THEN Diff(ProjBook(want), ObsBook(e.obs)) ELSE <<"dup">> >>)
  ELSE IF e.a = "Save"
  THEN /\ snap' = [snap EXCEPT ![w] = <<[book |-> W.book, ss |-> W.ss]>>]
       /\ IF e.outcome = "ok" /\ NoDup(e.obs) /\ ObsBook(e.obs) = ProjBook(W.book)       \* a save does not change the workbook
          THEN /\ Put(w, W.book, W.ss, Append(W.sizes, e.sizes))
               /\ IF ~e.wellformed THEN Mismatch(l, <<"impl", "Save", "styles.xml cannot be parsed">>)
                  ELSE IF W.sizes # <<>> /\ ~SizesLeq(e.sizes, W.sizes[Len(W.sizes)])        \* NoGrowth
                  THEN Mismatch(l, <<"impl", "Save", "style tables grew", W.sizes[Len(W.sizes)], e.sizes>>)
                  ELSE TRUE
          ELSE Follow(w, e, Append(W.sizes, e.sizes)) /\ Mismatch(l, <<"impl", "Save", e.outcome, "workbook changed by the save">>)
  ELSE IF e.a = "Reload"
  THEN IF snap[w] = <<>> \/ ~NamesOK(e.names, snap[w][1])
       THEN Follow(w, e, W.sizes) /\ UNCHANGED snap /\ Mismatch(l, <<"gen", "Reload">>)
       ELSE LET S    == snap[w][1]
                obs  == ObsBook(e.obs)
                good == e.outcome = "ok" /\ NoDup(e.obs)
                want == ReloadWith(S, {}, e.names)
            IN /\ UNCHANGED snap
               /\ IF good /\ ProjBook(want.book) = obs
                  THEN Put(w, want.book, want.ss, W.sizes)
                  ELSE LET T  == Triggered(S, e.names)
                           wT == ReloadWith(S, T, e.names)          \* every deviation whose trigger holds: the usual case
                       IN IF T # {} /\ good /\ ProjBook(wT.book) = obs
                          THEN /\ Put(w, wT.book, wT.ss, W.sizes)
                               /\ \A id \in T : KFHit(id, l)
                          ELSE LET Ds == {D \in SUBSET T : D # {} /\ D # T /\ good
                                                            /\ ProjBook(ReloadWith(S, D, e.names).book) = obs}
                               IN IF Ds # {}
                                  THEN LET D == CHOOSE X \in Ds : \A Y \in Ds : Cardinality(X) <= Cardinality(Y)
                                           x == ReloadWith(S, D, e.names)
                                       IN /\ Put(w, x.book, x.ss, W.sizes)
                                          /\ \A id \in D : KFHit(id, l)
                                  ELSE /\ Follow(w, e, W.sizes)
                                       /\ Mismatch(l, <<"impl", "Reload", e.outcome,
                                                        IF good THEN Diff(ProjBook(want.book), obs) ELSE <<"dup/outcome">> >>)
  ELSE UNCHANGED <<wbs, snap>> /\ Mismatch(l, <<"gen", e.a>>)

TraceInit == l = 1 /\ wbs = <<>> /\ snap = <<>>
TraceNext == l <= Len(Rec) /\ l' = l + 1 /\ Step(Ev)
TraceSpec == TraceInit /\ [][TraceNext]_tvars
=============================================================================
