CONSTANTS MaxRow = 5 MaxCol = 4 EmitReplay = FALSE EmitWb = FALSE MaxToks = 3 Depth = 1 NCells = 1
  UsePercent = FALSE UseParens = TRUE
  Operands <- WbOperands FnNames <- FnsSmall InfixOps <- OpsOne PrefixOps <- PreMinus BlankRuns <- Blanks1
SPECIFICATION MCSpec
VIEW View
INVARIANTS RefsInGrid CellsInGrid
PROPERTY TargetsKept
CHECK_DEADLOCK FALSE
