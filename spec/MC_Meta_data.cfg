CONSTANTS Design = "own" Depth = 3 MaxSheets = 2 Family = "data" Shape = "free" Wide = FALSE EmitReplay = FALSE
SPECIFICATION MCSpec
VIEW View
INVARIANTS WellFormed RoundTrip Observers
PROPERTIES IndependenceMC ListOpsMC
CHECK_DEADLOCK FALSE
