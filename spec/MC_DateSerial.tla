---- MODULE MC_DateSerial ----
EXTENDS DateSerial
(* quick: the 1900 anomaly, one full 400-year Gregorian cycle and the end of the date system *)
QuickYears == (1900..2300) \cup (9900..9999)
AllYears   == 1900..9999
====
