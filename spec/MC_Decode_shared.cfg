CONSTANTS MaxRow = 1048576 MaxCol = 16384 Wide = FALSE MaxOpts = 0 MaxSst = 0 MaxCells = 1 UseBlock = TRUE MaxAttrs = 0
  Variants = "few" EmitReplay = FALSE
SPECIFICATION MCSpec
INVARIANTS DecodeTotal KindByType SstIndirection AnchorFirst SharedConsistent PositionsImplied XLemmas FmtLemmas
CHECK_DEADLOCK FALSE
