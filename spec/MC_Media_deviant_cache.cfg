CONSTANTS Wide = FALSE MaxRow = 6 MaxCol = 5 Depth = 2 Family = "rich" Gen = FALSE EmitReplay = FALSE
          MediaKey = "content" ChartCache = "strict"
SPECIFICATION MCSpec
VIEW View
INVARIANTS InGrid NamesUnique RoundTrip SaveAlwaysWorks
PROPERTIES OthersUntouchedMC RawKeptMC ReloadIdentityMC
CHECK_DEADLOCK FALSE
