CONSTANTS Design = "own" Depth = 9 MaxSheets = 3 Family = "all" Shape = "sls" Wide = TRUE EmitReplay = TRUE
SPECIFICATION MCSpec
INVARIANTS Emit WellFormed RoundTrip
CHECK_DEADLOCK FALSE
