---- MODULE MC_ConcSave ----
EXTENDS ConcSave, Json
CONSTANTS Scenario, EmitReplay
VARIABLE hist
mvars == <<todo, grp, base, pc, nxt, table, idx, part, dump, rel, hist>>
(* string sets: equal, disjoint, overlapping, one saver without strings, three savers *)
TodoOf(sc) == CASE sc = "equal"    -> <<<<"Qa7x", "Qb7x">>, <<"Qa7x", "Qb7x">>>>
                [] sc = "disjoint" -> <<<<"Qa7x", "Qa7x">>, <<"Qb7x", "Qc7x">>>>
                [] sc = "overlap"  -> <<<<"Qa7x", "Qb7x">>, <<"Qb7x", "Qc7x">>>>
                [] sc = "empty"    -> <<<<>>, <<"Qa7x">>>>
                [] sc = "three"    -> <<<<"Qa7x">>, <<"Qb7x">>, <<>>>>
                [] sc = "lazy"     -> <<<<"Qc7x">>, <<"Qc7x", "Qd7x">>>>     \* one sheet edited, the other still raw
                [] sc = "lazyraw"  -> <<<<>>, <<>>>>                         \* lazily loaded, no sheet loaded: nothing to register
BaseOf(sc) == IF sc \in {"lazy", "lazyraw"} THEN <<<<"Qa7x", "Qb7x">>, <<"Qa7x", "Qb7x">>>>
              ELSE [t \in DOMAIN TodoOf(sc) |-> <<>>]
MInit == CInitWith(TodoOf(Scenario), [t \in DOMAIN TodoOf(Scenario) |-> 1], BaseOf(Scenario)) /\ hist = <<>>
MNext == \E t \in Savers : Step(t) /\ hist' = Append(hist, t)
MSpec == MInit /\ [][MNext]_mvars /\ \A t \in 1..3 : WF_mvars(t \in Savers /\ Step(t) /\ hist' = Append(hist, t))
View == cvars
Emit == (EmitReplay /\ \A t \in Savers : Done(t)) => PrintT(<<"REPLAY", ToJson([scenario |-> Scenario, schedule |-> hist])>>)
====
