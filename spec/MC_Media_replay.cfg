CONSTANTS Wide = FALSE MaxRow = 6 MaxCol = 5 Depth = 1 Family = "rich" Gen = TRUE EmitReplay = TRUE
          MediaKey = "content" ChartCache = "tolerant"
SPECIFICATION MCSpec
INVARIANTS Emit
CHECK_DEADLOCK FALSE
