CONSTANTS KeyMode = "trustid" NBooks = 2 PalKind = "import" MaxImport = 1 MaxAssign = 2 MaxSaves = 1 Pairs = FALSE Wide = FALSE EmitReplay = FALSE
SPECIFICATION MCSpec
VIEW View
INVARIANTS NoMerge Faithful
CHECK_DEADLOCK FALSE
