CONSTANTS MaxRow = 1048576 MaxCol = 16384 EmitReplay = FALSE MaxToks = 4
  UsePercent = TRUE UseParens = TRUE
  Operands <- OperandsFull FnNames <- FnsFull InfixOps <- OpsFull PrefixOps <- PreBoth BlankRuns <- Blanks12
SPECIFICATION GenSpec
INVARIANTS StackMatches AcceptedAreWellFormed Identity OnlyRelative
CHECK_DEADLOCK FALSE
