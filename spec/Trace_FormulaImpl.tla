------------------------- MODULE Trace_FormulaImpl -------------------------
(***************************************************************************)
(* Known deviations of the implementation's formula machinery             *)
(* (helper::formula parse_to_tokens, render, adjustment_x), stated as     *)
(* the exact function the code computes on a token list.  Used only by the *)
(* trace specifications of C08 and C09 to explain an observation that the  *)
(* intended specification (Formula.tla) does not explain.                  *)
(*                                                                         *)
(* Every deviation is a named mechanism that can be switched on or off     *)
(* (E = set of enabled mechanisms; a mechanism is enabled iff its known     *)
(* finding is open).  With a mechanism off, the model computes the         *)
(* intended behaviour for that part.                                       *)
(*   brk      [ outside a string literal: the tokenizer never terminates   *)
(*   trail    a trailing blank: panic                                      *)
(*   apos     an apostrophe-quoted sheet name switches the tokenizer to    *)
(*            string mode: the apostrophe is lost and the rest of the      *)
(*            formula becomes one operand, which the shifters re-join as   *)
(*            <name>!<coordinates> (dropping what follows) when they        *)
(*            process it                                                   *)
(*   dq       a doubled quote in a string literal is rendered single       *)
(*   arr      an array constant is rendered ARRAY(ARRAYROW(..),..)         *)
(*   uplus    a unary plus is dropped                                      *)
(*   colonly  an operand that starts with column letters but has no row    *)
(*            (whole-column range, name starting with capitals) panics in  *)
(*            translate and remove                                         *)
(*   rowonly  whole-row and whole-column ranges are never shifted          *)
(*   hi       translate: parts pushed beyond XFD / 1048576 are printed,    *)
(*            not turned into #REF!                                        *)
(*   lock     insert/remove: $ parts are not shifted                       *)
(*   band     remove: a part at or beyond the band start is moved by -n    *)
(*            even inside the band (no #REF!, no clipping; u32 wrap-around *)
(*            below 1, column 0 panics)                                    *)
(* op is [k: "move", dc, dr] | [k: "ins"|"rem", own, edited, ax, p, n].    *)
(* Result: [outcome: "ok"|"panic"|"timeout", f: token list]; tokens of     *)
(* kind "raw" [k, s] carry text that is no longer a token of the grammar.  *)
(***************************************************************************)
EXTENDS Formula

Mechs == {"brk", "trail", "apos", "dq", "arr", "uplus", "colonly", "rowonly", "hi", "lock", "band"}

Raw(s) == [k |-> "raw", s |-> s]
PANIC == [k |-> "panic"]        \* markers (records, so that they compare with tokens)
DROP  == [k |-> "drop"]
HasRaw(f) == \E i \in DOMAIN f : f[i].k = "raw"

CapLetters == {Cd!Letters[i] : i \in DOMAIN Cd!Letters}
Digits == {"0", "1", "2", "3", "4", "5", "6", "7", "8", "9"}
(* index_from_coordinate on a name: up to three leading capitals are taken as a column *)
LeadCaps(cs) == IF cs = <<>> \/ cs[1] \notin CapLetters THEN 0
                ELSE IF Len(cs) < 2 \/ cs[2] \notin CapLetters THEN 1
                ELSE IF Len(cs) < 3 \/ cs[3] \notin CapLetters THEN 2 ELSE 3
NameIsColOnly(cs) == LeadCaps(cs) > 0 /\ (Len(cs) = LeadCaps(cs) \/ cs[LeadCaps(cs) + 1] \notin (Digits \cup {"$"}))
(* generator contract: a name must not read as column+row (it would be a cell reference) *)
NameOK(cs) == cs # <<>> /\ (LeadCaps(cs) = 0 \/ NameIsColOnly(cs)) /\ cs[1] \notin (Digits \cup {"$"})

(* u32 wrap-around texts: x is the (negative or zero) mathematical result *)
Pad5(v) == IF v >= 10000 THEN ToString(v) ELSE IF v >= 1000 THEN "0" \o ToString(v) ELSE IF v >= 100 THEN "00" \o ToString(v)
           ELSE IF v >= 10 THEN "000" \o ToString(v) ELSE "0000" \o ToString(v)
WrapRowStr(x) == IF x >= 0 THEN ToString(x)
                 ELSE LET lo0 == 67296 + x                                   \* 4294967296 + x = 42949 * 100000 + 67296 + x
                          k   == IF lo0 >= 0 THEN 0 ELSE ((0 - lo0) + 99999) \div 100000
                      IN ToString(42949 - k) \o Pad5(lo0 + k * 100000)
WrapColOK(x)  == x >= 1 \/ (x <= -1 /\ x >= -21)                              \* column 0 panics; below -21 not tabulated
WrapColStr(x) == IF x >= 1 THEN Cd!ColName(x) ELSE "MWLQKW" \o Cd!Letters[22 + x]   \* index_to_alpha(2^32 + x)

Lock(b) == IF b THEN "$" ELSE ""

(* ---- one coordinate part under an operation ---------------------------------- *)
(* value of a part after the operation as the implementation computes it; `isCol` says which axis the part is on *)
ImplPart(v, lock, isCol, op, E) ==
  CASE op.k = "move" -> IF lock THEN v ELSE v + (IF isCol THEN op.dc ELSE op.dr)
    [] op.k = "ins"  -> IF (isCol <=> op.ax = "col") /\ (~lock \/ "lock" \notin E) THEN InsIdx(v, op.p, op.n) ELSE v
    [] op.k = "rem"  -> IF (isCol <=> op.ax = "col") /\ (~lock \/ "lock" \notin E) /\ v >= op.p THEN v - op.n ELSE v

(* ---- a reference token ---------------------------------------------------------- *)
(* does the implementation process this reference for the edit (sheet matching on the written qualifier) *)
ImplApplies(t, op) == op.k = "move" \/ (IF t.qc = <<>> THEN op.own = op.edited ELSE Cd!Concat(t.qc) = op.edited)

(* the intended token for this operation *)
WantTok(t, op) ==
  CASE op.k = "move" -> Translate(t, op.dc, op.dr)
    [] op.k = "ins"  -> InsTok(t, op.own, op.edited, op.ax, op.p, op.n)
    [] op.k = "rem"  -> RemTok(t, op.own, op.edited, op.ax, op.p, op.n)

(* per-corner results for cell / rect references *)
CornerVals(g, op, E) ==
  [c1 |-> ImplPart(g.c1, g.lc1, TRUE, op, E), r1 |-> ImplPart(g.r1, g.lr1, FALSE, op, E),
   c2 |-> IF Two(g) THEN ImplPart(g.c2, g.lc2, TRUE, op, E) ELSE 0,
   r2 |-> IF Two(g) THEN ImplPart(g.r2, g.lr2, FALSE, op, E) ELSE 0]
(* a part of the reference is inside the removed band and is handled by the band deviation *)
BandPart(v, lock, isCol, op, E) == op.k = "rem" /\ (isCol <=> op.ax = "col") /\ (~lock \/ "lock" \notin E) /\ InBand(v, op.p, op.n)
TouchesBand(g, op, E) ==
  \/ BandPart(g.c1, g.lc1, TRUE, op, E) \/ BandPart(g.r1, g.lr1, FALSE, op, E)
  \/ (Two(g) /\ (BandPart(g.c2, g.lc2, TRUE, op, E) \/ BandPart(g.r2, g.lr2, FALSE, op, E)))

(* cell / rect reference: PANIC | a token *)
ImplCellRef(t, op, E) ==
  LET g == t.g
      v == CornerVals(g, op, E)
      low == v.c1 < 1 \/ v.r1 < 1 \/ (Two(g) /\ (v.c2 < 1 \/ v.r2 < 1))
      high == v.c1 > MaxCol \/ v.r1 > MaxRow \/ (Two(g) /\ (v.c2 > MaxCol \/ v.r2 > MaxRow))
      g2 == [g EXCEPT !.c1 = v.c1, !.r1 = v.r1, !.c2 = v.c2, !.r2 = v.r2]
      cols == {v.c1} \cup (IF Two(g) THEN {v.c2} ELSE {})
      txt == QualText(t) \o Lock(g.lc1) \o WrapColStr(v.c1) \o Lock(g.lr1) \o WrapRowStr(v.r1)
             \o (IF Two(g) THEN ":" \o Lock(g.lc2) \o WrapColStr(v.c2) \o Lock(g.lr2) \o WrapRowStr(v.r2) ELSE "")
  IN CASE op.k = "move" ->
            IF low THEN RefErr(t)                                  \* (the code checks only the lower bound)
            ELSE IF high /\ "hi" \notin E THEN RefErr(t) ELSE [t EXCEPT !.g = g2]
       [] op.k = "ins" -> [t EXCEPT !.g = g2]
       [] op.k = "rem" ->
            IF "band" \notin E /\ TouchesBand(g, op, E) THEN WantTok(t, op)      \* band handling repaired: intended
            ELSE IF \E c \in cols : c = 0 THEN PANIC                            \* string_from_column_index(0)
            ELSE IF low THEN Raw(txt) ELSE [t EXCEPT !.g = g2]
(* generator contract: wrapped column numbers must be in the tabulated range *)
CellRefModelled(t, op, E) ==
  LET v == CornerVals(t.g, op, E)
  IN op.k = "rem" => ((WrapColOK(v.c1) \/ v.c1 = 0) /\ (Two(t.g) => (WrapColOK(v.c2) \/ v.c2 = 0)))

ImplRefTok(t, op, E) ==
  IF ~ImplApplies(t, op) THEN t
  ELSE CASE t.g.k \in {"cell", "rect"} -> ImplCellRef(t, op, E)
         [] t.g.k = "rows" -> IF "rowonly" \in E THEN t ELSE WantTok(t, op)
         [] t.g.k = "cols" -> IF op.k \in {"move", "rem"} /\ "colonly" \in E THEN PANIC
                              ELSE IF "rowonly" \in E THEN t ELSE WantTok(t, op)

(* ---- any token: PANIC | DROP | a token   ---------------------------------------- *)
HasQuote(cs) == \E i \in DOMAIN cs : cs[i] = "\""
ArrImplText(rows) == "ARRAY(" \o Join([i \in DOMAIN rows |-> "ARRAYROW(" \o Join(rows[i], ",") \o ")"], ",") \o ")"
ImplTok(t, op, E) ==
  CASE t.k = "ref"  -> ImplRefTok(t, op, E)
    [] t.k = "name" -> IF NameIsColOnly(t.cs) /\ "colonly" \in E /\ (op.k = "move" \/ (op.k = "rem" /\ op.own = op.edited))
                       THEN PANIC ELSE t            \* (an unqualified operand is processed only on its own sheet)
    [] t.k = "str"  -> IF HasQuote(t.cs) /\ "dq" \in E THEN Raw("\"" \o Cd!Concat(t.cs) \o "\"") ELSE t
    [] t.k = "arr"  -> IF "arr" \in E THEN Raw(ArrImplText(t.rows)) ELSE t
    [] t.k = "pre"  -> IF t.s = "+" /\ "uplus" \in E THEN DROP ELSE t
    [] OTHER        -> t

RECURSIVE ImplSeq(_, _, _)      \* the surviving tokens, in order ("panic" entries kept as markers)
ImplSeq(f, op, E) ==
  IF f = <<>> THEN <<>>
  ELSE LET x == ImplTok(Head(f), op, E) IN (IF x.k = "drop" THEN <<>> ELSE <<x>>) \o ImplSeq(Tail(f), op, E)
AnyPanic(s) == \E i \in DOMAIN s : s[i].k = "panic"

(* ---- the non-local mechanisms --------------------------------------------------------- *)
IsApos(t) == t.k = "ref" /\ t.qq
FirstIdx(f, P(_)) == LET S == {i \in DOMAIN f : P(f[i])} IN IF S = {} THEN 0 ELSE CHOOSE i \in S : \A j \in S : i <= j
IsBrk(t) == t.k = "brk"

(* the swallowed operand as the shifters rebuild it: PANIC | Raw(text) *)
SwallowTok(a, rest, op, E) ==
  LET g == a.g
      written == Dbl(a.qc, "'")                          \* the name as written between the apostrophes
      literal == written \o "'!" \o Cd!RangeStr(g) \o Render(rest)
      bare == [a EXCEPT !.qc = <<>>, !.qq = FALSE]
  IN IF ~(op.k = "move" \/ written = op.edited) THEN Raw(literal)       \* not processed: only the apostrophe is lost
     ELSE CASE g.k \in {"cell", "rect"} ->
                 LET x == ImplCellRef(bare, op, E)
                 IN IF x.k = "panic" THEN PANIC
                    ELSE IF x.k = "referr" THEN Raw("#REF!")
                    ELSE Raw(written \o "!" \o (IF x.k = "raw" THEN x.s ELSE TokText(x)))
            \* parts without a column or without a row are copied with everything that follows them
            [] g.k = "rows" -> Raw(written \o "!" \o Cd!RangeStr(g) \o Render(rest))
            [] g.k = "cols" -> IF op.k \in {"move", "rem"} THEN PANIC ELSE Raw(written \o "!" \o Cd!RangeStr(g) \o Render(rest))

Impl(f, op, E) ==
  LET iB == IF "brk" \in E THEN FirstIdx(f, IsBrk) ELSE 0
      iA == IF "apos" \in E THEN FirstIdx(f, IsApos) ELSE 0
  IN IF iB > 0 /\ (iA = 0 \/ iB < iA) THEN [outcome |-> "timeout", f |-> <<>>]
     ELSE IF iA > 0
     THEN LET pre == ImplSeq(SubSeq(f, 1, iA - 1), op, E)
              sw  == SwallowTok(f[iA], SubSeq(f, iA + 1, Len(f)), op, E)
          IN IF AnyPanic(pre) \/ sw.k = "panic" THEN [outcome |-> "panic", f |-> <<>>]
             ELSE [outcome |-> "ok", f |-> Append(pre, sw)]
     ELSE IF "trail" \in E /\ f # <<>> /\ f[Len(f)].k = "ws" THEN [outcome |-> "panic", f |-> <<>>]
     ELSE LET s == ImplSeq(f, op, E)
          IN IF AnyPanic(s) THEN [outcome |-> "panic", f |-> <<>>] ELSE [outcome |-> "ok", f |-> s]

(* the text the implementation renders: optional blanks dropped, one blank per intersection *)
RECURSIVE ImplRender(_)
ImplRender(f) == IF f = <<>> THEN ""
                 ELSE (IF Head(f).k = "raw" THEN Head(f).s ELSE TokMin(Head(f))) \o ImplRender(Tail(f))

(* the intended token list for the operation *)
WantF(f, op) == [i \in DOMAIN f |-> WantTok(f[i], op)]

(* mechanisms that matter for this outcome: switching one off changes the modelled result;
   if the result is over-determined, those that deviate on their own *)
Hits(f, op, E) ==
  LET full == Impl(f, op, E)
      one  == {m \in E : Impl(f, op, E \ {m}) # full}
  IN IF one # {} THEN one ELSE {m \in E : Impl(f, op, {m}) # Impl(f, op, {})}

(* ---- the generation class (see FormulaGen.tla): what the model above is exact for ------- *)
NonLocalTok(t) == IsApos(t) \/ IsBrk(t)
PlainTail(t) == t.k \notin {"str", "arr", "brk", "err"} /\ (t.k = "ref" => (t.qc = <<>> /\ t.g.k = "cell"))
InClass(f) ==
  /\ Cardinality({i \in DOMAIN f : NonLocalTok(f[i])}) <= 1
  /\ \A i \in DOMAIN f : IsApos(f[i]) => \A j \in (i + 1)..Len(f) : PlainTail(f[j])
  /\ (f # <<>> /\ f[Len(f)].k = "ws") => \A i \in DOMAIN f : ~NonLocalTok(f[i])
  /\ \A i \in DOMAIN f : f[i].k = "name" => NameOK(f[i].cs)
(* the class only matters while one of the non-local mechanisms is an open finding *)
InClassFor(f, E) == IF E \cap {"apos", "brk", "trail"} = {} THEN \A i \in DOMAIN f : f[i].k = "name" => NameOK(f[i].cs)
                    ELSE InClass(f)
OpModelled(f, op, E) ==
  \A i \in DOMAIN f : (f[i].k = "ref" /\ f[i].g.k \in {"cell", "rect"} /\ ImplApplies(f[i], op)) => CellRefModelled(f[i], op, E)
=============================================================================
