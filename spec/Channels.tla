------------------------------ MODULE Channels ------------------------------
(***************************************************************************)
(* C04, text channels.  Every place where user text travels through a file *)
(* is a channel: a pair (writer operation, reader operation).  Texts are   *)
(* sequences of one-character strings, so that escaping is computed and    *)
(* not assumed:                                                            *)
(*   Esc    replaces & < > " ' by the five predefined XML entities         *)
(*          (quick_xml::escape::escape, what BytesStart::extend_attributes *)
(*          and BytesText::new do on write)                                *)
(*   Unesc  replaces the entities back; a text in which an & does not      *)
(*          start an entity is returned as it is (reader::driver::         *)
(*          get_attribute_value falls back to the raw value)               *)
(*   Id     does nothing                                                   *)
(* One generation = the in-memory text is written and read back.  The      *)
(* property is DriftFree: after any number of generations the text is the  *)
(* original one; WrittenSafe: what is written is legal attribute / element *)
(* content.  TLC checks both for the intended configuration (Esc, Unesc on *)
(* every channel) and refutes DriftFree for the configuration of the tree  *)
(* before commit 5eeb38a (attributes written with Esc and read with Id).   *)
(***************************************************************************)
EXTENDS Naturals, Sequences, FiniteSets, TLC

CONSTANTS ChannelNames,   \* the set of channels
          IdReaders,      \* the channels whose reader does not unescape (the design: {})
          IdWriters,      \* the channels whose writer does not escape   (the design: {})
          MaxLen,         \* texts: all sequences over Alphabet of length <= MaxLen, plus Extra
          MaxGen

Alphabet == {"x", "&", "<", ">", "\"", "'", ";"}
Amp  == <<"&", "a", "m", "p", ";">>
Lt   == <<"&", "l", "t", ";">>
Gt   == <<"&", "g", "t", ";">>
Quot == <<"&", "q", "u", "o", "t", ";">>
Apos == <<"&", "a", "p", "o", "s", ";">>
Entities == { [s |-> Amp, c |-> "&"], [s |-> Lt, c |-> "<"], [s |-> Gt, c |-> ">"],
              [s |-> Quot, c |-> "\""], [s |-> Apos, c |-> "'"] }

Ent(ch) == CASE ch = "&" -> Amp [] ch = "<" -> Lt [] ch = ">" -> Gt [] ch = "\"" -> Quot [] ch = "'" -> Apos
             [] OTHER -> <<ch>>
RECURSIVE Esc(_)
Esc(t) == IF t = <<>> THEN <<>> ELSE Ent(Head(t)) \o Esc(Tail(t))

StartsWith(t, p) == Len(t) >= Len(p) /\ SubSeq(t, 1, Len(p)) = p
EntityAt(t) == {e \in Entities : StartsWith(t, e.s)}
(* every & starts one of the five entities *)
RECURSIVE WellEscaped(_)
WellEscaped(t) ==
  IF t = <<>> THEN TRUE
  ELSE IF Head(t) = "&"
       THEN EntityAt(t) # {} /\ WellEscaped(SubSeq(t, Len((CHOOSE e \in EntityAt(t) : TRUE).s) + 1, Len(t)))
       ELSE WellEscaped(Tail(t))
RECURSIVE UnescOk(_)
UnescOk(t) ==
  IF t = <<>> THEN <<>>
  ELSE IF Head(t) = "&"
       THEN LET e == CHOOSE x \in EntityAt(t) : TRUE IN <<e.c>> \o UnescOk(SubSeq(t, Len(e.s) + 1, Len(t)))
       ELSE <<Head(t)>> \o UnescOk(Tail(t))
Unesc(t) == IF WellEscaped(t) THEN UnescOk(t) ELSE t

(* legal content of a double-quoted attribute value / of element text: no raw < or ", every & starts an entity *)
Safe(t) == WellEscaped(t) /\ \A i \in DOMAIN t : t[i] \notin {"<", "\""}

Write(ch, t) == IF ch \in IdWriters THEN t ELSE Esc(t)
Read(ch, w)  == IF ch \in IdReaders THEN w ELSE Unesc(w)

RECURSIVE SeqsUpTo(_)
SeqsUpTo(n) == IF n = 0 THEN {<<>>} ELSE SeqsUpTo(n - 1) \cup {Append(s, a) : s \in {q \in SeqsUpTo(n - 1) : Len(q) = n - 1}, a \in Alphabet}
(* user texts that look like escaped text themselves *)
Extra == {Amp, Amp \o Amp, <<"x">> \o Lt \o <<"x">>, <<"&">> \o Amp, Quot \o <<"&", ";">>, <<"&", "#", "3", "8", ";">>}
Texts == SeqsUpTo(MaxLen) \cup Extra

VARIABLES ch,     \* the channel under consideration (channels are independent)
          text0,  \* the text the user stored
          text,   \* the text in memory now
          gen
cvars == <<ch, text0, text, gen>>

CInit == ch \in ChannelNames /\ text0 \in Texts /\ text = text0 /\ gen = 0
SaveLoad == /\ gen < MaxGen
            /\ text' = Read(ch, Write(ch, text))
            /\ gen' = gen + 1
            /\ UNCHANGED <<ch, text0>>
CSpec == CInit /\ [][SaveLoad]_cvars

DriftFree   == text = text0
WrittenSafe == Safe(Write(ch, text))
(* the law the terms obey, on every text of the universe *)
Inverse     == Unesc(Esc(text0)) = text0
=============================================================================
