------------------------------ MODULE Channels ------------------------------
(***************************************************************************)
(* C04, text channels.  Every place where user text travels through a file *)
(* is a channel: a pair (writer operation, reader operation).  Texts are   *)
(* sequences of one-character strings, so that escaping is computed and    *)
(* not assumed:                                                            *)
(*   Esc    replaces & < > " ' by the five predefined XML entities         *)
(*          (quick_xml::escape::escape, what BytesStart::extend_attributes *)
(*          and BytesText::new do on write)                                *)
(*   Unesc  replaces the entities back; a text in which an & does not      *)
(*          start an entity is returned as it is (reader::driver::         *)
(*          get_attribute_value falls back to the raw value)               *)
(*   Id     does nothing                                                   *)
(* One generation = the in-memory text is written and read back.  The      *)
(* property is DriftFree: after any number of generations the text is the  *)
(* original one; WrittenSafe: what is written is legal attribute / element *)
(* content.  TLC checks both for the intended configuration (Esc, Unesc on *)
(* every channel) and refutes DriftFree for the configuration of the tree  *)
(* before commit 5eeb38a (attributes written with Esc and read with Id).   *)
(***************************************************************************)
EXTENDS Naturals, Sequences, FiniteSets, TLC

CONSTANTS ChannelNames,   \* the set of channels
          IdReaders,      \* the channels whose reader does not unescape (the design: {})
          IdWriters,      \* the channels whose writer does not escape   (the design: {})
          MaxLen,         \* texts: all sequences over Alphabet of length <= MaxLen, plus Extra
          MaxGen,
          XChannels,      \* the channels that carry ST_Xstring text (cell text, shared strings, rich-text runs, cached
                          \* strings of formulas): XEnc is applied before Esc on write, XDec after Unesc on read
          XEndBug         \* FALSE = the design; TRUE = the bounds check of XEnc misses a look-alike at the very end of a text

Alphabet == {"x", "&", "<", ">", "\"", "'", ";"}
Amp  == <<"&", "a", "m", "p", ";">>
Lt   == <<"&", "l", "t", ";">>
Gt   == <<"&", "g", "t", ";">>
Quot == <<"&", "q", "u", "o", "t", ";">>
Apos == <<"&", "a", "p", "o", "s", ";">>
Entities == { [s |-> Amp, c |-> "&"], [s |-> Lt, c |-> "<"], [s |-> Gt, c |-> ">"],
              [s |-> Quot, c |-> "\""], [s |-> Apos, c |-> "'"] }

Ent(ch) == CASE ch = "&" -> Amp [] ch = "<" -> Lt [] ch = ">" -> Gt [] ch = "\"" -> Quot [] ch = "'" -> Apos
             [] OTHER -> <<ch>>
RECURSIVE Esc(_)
Esc(t) == IF t = <<>> THEN <<>> ELSE Ent(Head(t)) \o Esc(Tail(t))

StartsWith(t, p) == Len(t) >= Len(p) /\ SubSeq(t, 1, Len(p)) = p
EntityAt(t) == {e \in Entities : StartsWith(t, e.s)}
(* every & starts one of the five entities *)
RECURSIVE WellEscaped(_)
WellEscaped(t) ==
  IF t = <<>> THEN TRUE
  ELSE IF Head(t) = "&"
       THEN EntityAt(t) # {} /\ WellEscaped(SubSeq(t, Len((CHOOSE e \in EntityAt(t) : TRUE).s) + 1, Len(t)))
       ELSE WellEscaped(Tail(t))
RECURSIVE UnescOk(_)
UnescOk(t) ==
  IF t = <<>> THEN <<>>
  ELSE IF Head(t) = "&"
       THEN LET e == CHOOSE x \in EntityAt(t) : TRUE IN <<e.c>> \o UnescOk(SubSeq(t, Len(e.s) + 1, Len(t)))
       ELSE <<Head(t)>> \o UnescOk(Tail(t))
Unesc(t) == IF WellEscaped(t) THEN UnescOk(t) ELSE t

(* legal content of a double-quoted attribute value / of element text: no raw < or ", every & starts an entity *)
Safe(t) == WellEscaped(t) /\ \A i \in DOMAIN t : t[i] \notin {"<", "\"", "^"}

(* ---- ST_Xstring (ECMA-376 Part 1, 22.9.2.19; helper::string_helper::encode_xstring / decode_xstring) ------------- *)
(* "^" stands for a character XML cannot carry; _xHHHH_ is an escape for the UTF-16 unit HHHH; a literal underscore   *)
(* that starts such a look-alike must be written as _x005F_.                                                          *)
HexDigits == {"0", "1", "4", "5", "F"}
LookAlikeAt(t, i) == /\ i + 6 <= Len(t) /\ t[i] = "_" /\ t[i + 1] = "x" /\ t[i + 6] = "_"
                     /\ \A j \in (i + 2)..(i + 5) : t[j] \in HexDigits
U5F  == <<"_", "x", "0", "0", "5", "F", "_">>
UCtl == <<"_", "x", "0", "0", "0", "1", "_">>
(* the writer's test: the design looks at every position; the deviant one needs a character BEHIND the look-alike *)
Protects(t, i) == LookAlikeAt(t, i) /\ (~XEndBug \/ i + 7 <= Len(t))
RECURSIVE XEncFrom(_, _)
XEncFrom(t, i) == IF i > Len(t) THEN <<>>
                  ELSE (IF t[i] = "^" THEN UCtl ELSE IF Protects(t, i) THEN U5F ELSE <<t[i]>>) \o XEncFrom(t, i + 1)
XEnc(t) == XEncFrom(t, 1)
UnitChar(t, i) == LET h == SubSeq(t, i + 2, i + 5) IN
                  IF h = <<"0", "0", "5", "F">> THEN "_" ELSE IF h = <<"0", "0", "0", "1">> THEN "^"
                  ELSE IF h = <<"0", "0", "4", "1">> THEN "A" ELSE "?"
RECURSIVE XDecFrom(_, _)
XDecFrom(t, i) == IF i > Len(t) THEN <<>>
                  ELSE IF LookAlikeAt(t, i) THEN <<UnitChar(t, i)>> \o XDecFrom(t, i + 7)
                  ELSE <<t[i]>> \o XDecFrom(t, i + 1)
XDec(t) == XDecFrom(t, 1)

Write(ch, t) == LET x == IF ch \in XChannels THEN XEnc(t) ELSE t IN IF ch \in IdWriters THEN x ELSE Esc(x)
Read(ch, w)  == LET u == IF ch \in IdReaders THEN w ELSE Unesc(w) IN IF ch \in XChannels THEN XDec(u) ELSE u

RECURSIVE SeqsUpTo(_)
SeqsUpTo(n) == IF n = 0 THEN {<<>>} ELSE SeqsUpTo(n - 1) \cup {Append(s, a) : s \in {q \in SeqsUpTo(n - 1) : Len(q) = n - 1}, a \in Alphabet}
(* user texts that look like escaped text themselves *)
Extra == {Amp, Amp \o Amp, <<"x">> \o Lt \o <<"x">>, <<"&">> \o Amp, Quot \o <<"&", ";">>, <<"&", "#", "3", "8", ";">>}
Texts == SeqsUpTo(MaxLen) \cup Extra
(* texts of the ST_Xstring channels: up to three of: a look-alike, the literal _x005F_, a near miss, an underscore,   *)
(* ordinary characters, a character XML cannot carry - i.e. look-alikes at the start, in the middle, at the end, two  *)
(* in a row, mixtures                                                                                                   *)
XTokens == { <<"_", "x", "0", "0", "4", "1", "_">>, U5F, <<"_", "x", "0", "0", "4">>, <<"_">>, <<"x">>, <<"&">>, <<"^">> }
XTexts  == {a \o b \o c : a \in XTokens \cup {<<>>}, b \in XTokens \cup {<<>>}, c \in XTokens \cup {<<>>}}

VARIABLES ch,     \* the channel under consideration (channels are independent)
          text0,  \* the text the user stored
          text,   \* the text in memory now
          gen
cvars == <<ch, text0, text, gen>>

CInit == /\ ch \in ChannelNames
         /\ text0 \in (IF ch \in XChannels THEN Texts \cup XTexts ELSE Texts)
         /\ text = text0 /\ gen = 0
SaveLoad == /\ gen < MaxGen
            /\ text' = Read(ch, Write(ch, text))
            /\ gen' = gen + 1
            /\ UNCHANGED <<ch, text0>>
CSpec == CInit /\ [][SaveLoad]_cvars

DriftFree   == text = text0
WrittenSafe == Safe(Write(ch, text))
(* the law the terms obey, on every text of the universe *)
Inverse     == Unesc(Esc(text0)) = text0 /\ (ch \in XChannels => (~XEndBug => XDec(XEnc(text0)) = text0))
=============================================================================
