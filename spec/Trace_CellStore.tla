-------------------------- MODULE Trace_CellStore --------------------------
(***************************************************************************)
(* Trace validation for C10.  After every operation the driver logs the    *)
(* result of every query API the property names and the cell references of *)
(* the sheet part of an in-memory save.  The specification keeps its own   *)
(* cell store (CellStore.tla): an event is accepted iff every logged query *)
(* equals the query's brute-force definition over the key set of           *)
(* Post(state, args), every cell found reports the coordinate it was found *)
(* under, nothing is listed twice, every expected cell's row is in the row *)
(* table and every expected cell that has content is among the saved      *)
(* references (content-free cells may be left out by the writer).          *)
(*                                                                         *)
(* Only what the property states is judged: which cells exist and what the *)
(* queries / the writer make of them.  Cell content (value, style token)   *)
(* and the row / column tables are taken over from the observation after   *)
(* each accepted step (they decide what clean-up removes and what a new    *)
(* cell inherits, but their correctness belongs to C05/C07).               *)
(* On a mismatch the specification follows the observed state.             *)
(***************************************************************************)
EXTENDS CellStore, TraceBase

VARIABLE l
tvars == <<st, last, l>>
Ev == Rec[l]

NoDupSeq(s) == Len(s) = Cardinality(ToSet(s))

(* ---- reading an observation ------------------------------------------------ *)
HmKeys(o)    == {<<o.hm[i].kr, o.hm[i].kc>> : i \in DOMAIN o.hm}
HmCell(o, k) == o.hm[CHOOSE j \in DOMAIN o.hm : o.hm[j].kr = k[1] /\ o.hm[j].kc = k[2]]
RowsOfObs(o) == [k \in {o.rowtab[i].k : i \in DOMAIN o.rowtab} |->
                   LET x == o.rowtab[CHOOSE j \in DOMAIN o.rowtab : o.rowtab[j].k = k] IN [r |-> x.r, s |-> x.s]]
ColsOfObs(o) == [c \in {o.cols[i].c : i \in DOMAIN o.cols} |-> o.cols[CHOOSE j \in DOMAIN o.cols : o.cols[j].c = c].s]
(* the store as observed (used after a mismatch and for the initial sheet) *)
StateOfObs(o) ==
  [map  |-> [k \in HmKeys(o) |-> LET x == HmCell(o, k) IN [r |-> x.r, c |-> x.c, v |-> x.v, s |-> x.s]],
   rc   |-> HmKeys(o), cr |-> SwapKeys(HmKeys(o)), rows |-> RowsOfObs(o), cols |-> ColsOfObs(o)]
(* the expected store with content and dimension tables taken over from the observation *)
Adopt(want, o) ==
  [map  |-> [k \in DOMAIN want.map |-> LET x == HmCell(o, k) IN [r |-> k[1], c |-> k[2], v |-> x.v, s |-> x.s]],
   rc   |-> want.rc, cr |-> want.cr, rows |-> RowsOfObs(o), cols |-> ColsOfObs(o)]

(* ---- the judgement: every query against its brute-force definition over K ------- *)
HashmapOk(o, K) == /\ HmKeys(o) = K
                   /\ \A i \in DOMAIN o.hm : o.hm[i].r = o.hm[i].kr /\ o.hm[i].c = o.hm[i].kc
CollOk(o, K)    == NoDupSeq(o.coll) /\ ToSet(o.coll) = K
SortedOk(o, K)  == o.sorted = SortRC(K)
LookupOk(o, K)  ==
  /\ \A i \in DOMAIN o.look : LET x == o.look[i] IN
        /\ x.f <=> (<<x.r, x.c>> \in K)
        /\ x.f => (x.cr = x.r /\ x.cc = x.c)
  /\ K \subseteq {<<o.look[i].r, o.look[i].c>> : i \in DOMAIN o.look}
ByRowOk(o, K)   ==
  /\ \A i \in DOMAIN o.byrow : NoDupSeq(o.byrow[i].cs) /\ ToSet(o.byrow[i].cs) = BFByRow(K, o.byrow[i].r)
  /\ {k[1] : k \in K} \subseteq {o.byrow[i].r : i \in DOMAIN o.byrow}
ByColOk(o, K)   ==
  /\ \A i \in DOMAIN o.bycol : NoDupSeq(o.bycol[i].cs) /\ ToSet(o.bycol[i].cs) = BFByCol(K, o.bycol[i].c)
  /\ {k[2] : k \in K} \subseteq {o.bycol[i].c : i \in DOMAIN o.bycol}
(* values by range: position by position the value of the cell found there by brute force, "" where none is *)
ByRangeOk(o, K) ==
  IF HmKeys(o) # K THEN TRUE            \* already reported by HashmapOk
  ELSE \A i \in DOMAIN o.ranges :
         LET cs == RectCoords(o.ranges[i].g)
             vals == o.ranges[i].vals
         IN  /\ Len(vals) = Len(cs)
             /\ \A j \in DOMAIN cs : j \in DOMAIN vals => vals[j] = IF cs[j] \in K THEN HmCell(o, cs[j]).v ELSE ""
HighestOk(o, K) == o.high = BFHighest(K)
DimOk(o, K)     == o.dim = BFDim(K)
RowsKnownOk(o, K) ==
  \A k \in K : (\E i \in DOMAIN o.rowtab : o.rowtab[i].r = k[1]) /\ (\E i \in DOMAIN o.rowlist : o.rowlist[i] = k[1])

(* Emitted on save.  A cell with a value or a non-empty style must be written exactly once under its own
   reference; a content-free cell (no value, no style component; formulas and hyperlinks are not used here) MAY be
   written or left out - dropping it is the writer's normal form, nothing is lost; nothing is written twice,
   nothing that does not exist is written; the <row> elements are strictly ascending.  (A cell whose row is
   unknown to the writer blocks all later cells: they are then missing here.) *)
BlankKeys(o, K) == IF HmKeys(o) # K THEN {} ELSE {k \in K : Blank(HmCell(o, k))}
Ascending(s) == \A i \in DOMAIN s : i > 1 => s[i - 1] < s[i]
SavedOk(o, K) ==
  \/ o.saveout = "skipped"
  \/ /\ o.saveout = "ok"
     /\ NoDupSeq(o.saved)
     /\ ToSet(o.saved) \subseteq K
     /\ (K \ BlankKeys(o, K)) \subseteq ToSet(o.saved)
     /\ Ascending(o.savedrows)

Checks(o, K) ==
  << <<"get_collection_to_hashmap", HashmapOk(o, K)>>,   <<"get_cell_collection", CollOk(o, K)>>,
     <<"get_cell_collection_sorted", SortedOk(o, K)>>,   <<"get_cell", LookupOk(o, K)>>,
     <<"get_collection_by_row", ByRowOk(o, K)>>,         <<"get_collection_by_column", ByColOk(o, K)>>,
     <<"get_cell_value_by_range", ByRangeOk(o, K)>>,     <<"get_highest_column_and_row", HighestOk(o, K)>>,
     <<"calculate_worksheet_dimension", DimOk(o, K)>>,   <<"row table", RowsKnownOk(o, K)>>,
     <<"saved sheet xml", SavedOk(o, K)>> >>
Failed(o, K) == LET b == SelectSeq(Checks(o, K), LAMBDA x : ~x[2]) IN [i \in DOMAIN b |-> b[i][1]]
Detail(o, K) ==
  <<"cells expected but not in the hash map", K \ HmKeys(o), "in the hash map but not expected", HmKeys(o) \ K,
    "must be saved but is not", IF o.saveout = "ok" THEN (K \ BlankKeys(o, K)) \ ToSet(o.saved) ELSE {},
    "saved but does not exist", IF o.saveout = "ok" THEN ToSet(o.saved) \ K ELSE {},
    "highest", o.high, "dimension", o.dim>>

(* ---- contract and expectation ---------------------------------------------------- *)
InContract(e) ==
  CASE e.a \in {"GetCellMut", "RemoveCell"} -> InGrid(e.r, e.c)
    [] e.a = "SetCell"  -> InGrid(e.r, e.c) /\ e.s \in {"", "N", "F"}
    [] e.a = "SetStyle" -> InGrid(e.r, e.c) /\ e.s \in {"", "N", "F"}
    [] e.a = "SetStyleByRange" -> CanStyleRange(e.g) /\ e.s \in {"", "N", "F"}
    [] e.a = "Insert" -> e.ax \in {"row", "col"} /\ CanInsert(st, e.ax, e.p, e.n)
    [] e.a = "Remove" -> e.ax \in {"row", "col"} /\ CanRemove(e.ax, e.p, e.n)
    [] e.a \in {"Move", "Copy"} -> CanMove(e.g, e.dr, e.dc)
    [] e.a = "Cleanup" -> TRUE
    [] e.a = "CopyRowStyling" -> CanCopyRowStyling(e.src, e.dst, e.hs, e.c1, e.he, e.c2)
    [] e.a = "CopyColStyling" -> CanCopyColStyling(e.src, e.dst, e.hs, e.r1, e.he, e.r2)
    [] OTHER -> FALSE

Expected(e) ==
  CASE e.a = "GetCellMut" -> PostGetCellMut(st, e.r, e.c)
    [] e.a = "SetCell"    -> PostSetCell(st, e.r, e.c, e.v, e.s)
    [] e.a = "RemoveCell" -> PostRemoveCell(st, e.r, e.c)
    [] e.a = "SetStyle"   -> PostSetStyle(st, e.r, e.c, e.s)
    [] e.a = "SetStyleByRange" -> PostSetStyleByRange(st, e.g, e.s)
    [] e.a = "Insert"     -> PostInsert(st, e.ax, e.p, e.n)
    [] e.a = "Remove"     -> PostRemove(st, e.ax, e.p, e.n)
    [] e.a = "Move"       -> PostMove(st, e.g, e.dr, e.dc)
    [] e.a = "Copy"       -> PostCopy(st, e.g, e.dr, e.dc)
    [] e.a = "Cleanup"    -> PostCleanup(st)
    [] e.a = "CopyRowStyling" -> PostCopyRowStyling(st, e.src, e.dst, e.hs, e.c1, e.he, e.c2)
    [] e.a = "CopyColStyling" -> PostCopyColStyling(st, e.src, e.dst, e.hs, e.r1, e.he, e.r2)

DeclaredKeys(e) == {<<e.cells[i].r, e.cells[i].c>> : i \in DOMAIN e.cells}
InitInContract(e) ==
  /\ \A i \in DOMAIN e.cells : InGrid(e.cells[i].r, e.cells[i].c)
  /\ Cardinality(DeclaredKeys(e)) = Len(e.cells)
  /\ e.reload => \A i \in DOMAIN e.cells : ~Blank(e.cells[i])      \* content-free cells need not survive a save

Judge(e, K, kind, follow) ==
  LET bad == Failed(e.obs, K) IN
  IF e.outcome = "ok" /\ e.obs.qp = "" /\ bad = <<>>
  THEN st' = follow
  ELSE /\ st' = StateOfObs(e.obs)
       /\ Mismatch(l, <<kind, e.a, e.outcome, e.obs.qp,
                        IF e.outcome = "ok" /\ e.obs.qp = "" THEN <<bad, Detail(e.obs, K)>> ELSE <<"panic">> >>)

Step(e) ==
  IF e.a = "Fatal" THEN st' = st /\ Mismatch(l, <<"impl", "fatal", e.outcome>>)
  ELSE IF e.a = "Init"
  THEN IF ~InitInContract(e) THEN st' = StateOfObs(e.obs) /\ Mismatch(l, <<"gen", e.a>>)
       ELSE Judge(e, DeclaredKeys(e), "init", StateOfObs(e.obs))
  ELSE IF ~InContract(e) THEN st' = StateOfObs(e.obs) /\ Mismatch(l, <<"gen", e.a>>)
  ELSE LET want == Expected(e) IN Judge(e, DOMAIN want.map, "impl", Adopt(want, e.obs))

TraceInit == l = 1 /\ st = EmptyStore /\ last = [op |-> "init"]
TraceNext == l <= Len(Rec) /\ l' = l + 1 /\ Step(Ev) /\ UNCHANGED last
TraceSpec == TraceInit /\ [][TraceNext]_tvars
=============================================================================
