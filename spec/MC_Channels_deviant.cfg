CONSTANTS
  ChannelNames = {"sheet_name", "defined_name", "hyperlink_target", "hyperlink_location", "hyperlink_tooltip", "table_name", "table_column", "numfmt_code", "font_name", "dv_prompt", "custom_property_name", "cell_text", "formula_text", "comment_author", "comment_text", "header_footer", "doc_property", "defined_name_address", "cached_string"}
  IdReaders = {"defined_name", "hyperlink_target", "hyperlink_location", "hyperlink_tooltip", "table_name", "table_column", "numfmt_code", "font_name", "dv_prompt", "custom_property_name"}
  IdWriters = {}
  MaxLen = 2
  MaxGen = 2
  XChannels = {"cell_text", "cached_string"}
  XEndBug = FALSE
SPECIFICATION CSpec
INVARIANTS DriftFree
CHECK_DEADLOCK FALSE
