--------------------------- MODULE MC_FormulaGen ---------------------------
(* Bounded instances of FormulaGen.tla (C09): lexeme palettes covering every branch of the
   implementation's tokenizer, the generator's properties, and emission of every accepted formula
   as one REPLAY line (token list + the specification's own rendering of it).                  *)
EXTENDS FormulaGen, Json

CONSTANTS EmitReplay

Geo(k, c1, r1, lc1, lr1, c2, r2, lc2, lr2) ==
  [k |-> k, c1 |-> c1, r1 |-> r1, lc1 |-> lc1, lr1 |-> lr1, c2 |-> c2, r2 |-> r2, lc2 |-> lc2, lr2 |-> lr2]
CellG(c, r, lc, lr) == Geo("cell", c, r, lc, lr, 0, 0, FALSE, FALSE)
RowsG(r1, lr1, r2, lr2) == Geo("rows", 0, r1, FALSE, lr1, 0, r2, FALSE, lr2)
ColsG(c1, lc1, c2, lc2) == Geo("cols", c1, 0, lc1, FALSE, c2, 0, lc2, FALSE)
Ref(qc, qq, g) == [k |-> "ref", qc |-> qc, qq |-> qq, g |-> g]
Str(cs)  == [k |-> "str", cs |-> cs]
Name(cs) == [k |-> "name", cs |-> cs]

S1      == <<"S", "1">>
Data    == <<"D", "a", "t", "a">>
MySheet == <<"M", "y", " ", "S", "h", "e", "e", "t">>
OBrien  == <<"O", "'", "B", "r", "i", "e", "n">>

RefsCore == { Ref(<<>>, FALSE, CellG(1, 1, FALSE, FALSE)),                         \* A1
              Ref(<<>>, FALSE, CellG(2, 2, TRUE, TRUE)),                           \* $B$2
              Ref(<<>>, FALSE, CellG(3, 4, TRUE, FALSE)),                          \* $C4
              Ref(<<>>, FALSE, Geo("rect", 1, 1, FALSE, FALSE, 2, 3, FALSE, TRUE)), \* A1:B$3
              Ref(S1, FALSE, CellG(1, 5, FALSE, FALSE)) }                          \* S1!A5
RefsMore == { Ref(<<>>, FALSE, CellG(16384, 1048576, FALSE, FALSE)),               \* XFD1048576
              Ref(<<>>, FALSE, CellG(4, 3, FALSE, TRUE)),                          \* D$3
              Ref(<<>>, FALSE, RowsG(2, FALSE, 4, TRUE)),                          \* 2:$4
              Ref(<<>>, FALSE, ColsG(1, FALSE, 2, FALSE)),                         \* A:B
              Ref(<<>>, FALSE, ColsG(3, TRUE, 3, TRUE)),                           \* $C:$C
              Ref(Data, FALSE, Geo("rect", 2, 2, TRUE, TRUE, 3, 9, TRUE, TRUE)),   \* Data!$B$2:$C$9
              Ref(MySheet, TRUE, CellG(1, 1, FALSE, FALSE)),                       \* 'My Sheet'!A1
              Ref(OBrien, TRUE, Geo("rect", 1, 1, TRUE, TRUE, 2, 2, FALSE, FALSE)),\* 'O''Brien'!$A$1:B2
              Ref(S1, TRUE, CellG(2, 7, FALSE, FALSE)) }                           \* 'S1'!B7
Lits == { Tok("num", "1"), Tok("num", "1.5"), Tok("num", "1E+5"), Tok("num", ".5"),
          Str(<<>>), Str(<<"a", "\"", "b">>), Str(<<"i", "t", "'", "s">>), Str(<<"x", " ", "(", ",", "[", "{", "#">>),
          Name(<<"r", "a", "t", "e">>), Name(<<"T", "o", "t", "a", "l">>), Name(<<"A", "B", "C">>), Name(<<"_", "x", "1">>),
          Tok("bool", "TRUE"), Tok("err", "#REF!"), Tok("err", "#N/A"), Tok("err", "#DIV/0!"),
          [k |-> "arr", rows |-> << <<"1", "2">>, <<"3", "4">> >>], [k |-> "arr", rows |-> << <<"\"a\"", "TRUE">> >>],
          Tok("brk", "Table1[Col]"), Tok("brk", "[1]Sheet1!$A$1") }

OperandsFull  == RefsCore \cup RefsMore \cup Lits
OperandsSmall == { Ref(<<>>, FALSE, CellG(1, 1, FALSE, FALSE)), Ref(<<>>, FALSE, Geo("rect", 2, 2, TRUE, FALSE, 3, 3, FALSE, FALSE)),
                   Ref(MySheet, TRUE, CellG(1, 1, FALSE, FALSE)), Tok("num", "2"), Str(<<"a", "\"">>) }
FnsFull   == {"SUM", "LOG10", "NOW"}
FnsSmall  == {"SUM"}
OpsFull   == {"+", "-", "*", "/", "^", "&", "=", "<", ">", "<=", ">=", "<>"}
OpsSmall  == {"+", "<>"}
OpsOne    == {"+"}
PreBoth   == {"-", "+"}
PreMinus  == {"-"}
Blanks12  == {1, 2}
Blanks1   == {1}

Offsets == {<<0, 0>>, <<1, 2>>, <<-1, 0>>, <<0, -3>>, <<16383, 0>>}
OnlyRelative == \A i \in DOMAIN toks : \A o \in Offsets : OnlyRelativeAt(toks[i], o[1], o[2])

Emit == (EmitReplay /\ Accepting) => PrintT(<<"REPLAY", ToJson([toks |-> toks, f |-> Render(toks)])>>)
=============================================================================
