CONSTANTS Strs = {"Qa7x", "Qb7x"} MaxBooks = 3 Sharing = "private" Depth = 6 EmitReplay = FALSE
SPECIFICATION MCSpec
VIEW View
INVARIANTS OnlyReachable Decodes
PROPERTY SaveIsPureMC
CHECK_DEADLOCK FALSE
