CONSTANTS MaxRow = 1048576 MaxCol = 16384
  NSheets = {1} Pool = "full" NPos = 2 MaxCells = 2 Depth = 4 MaxSaves = 2 Wide = FALSE Emit = "none" Dev = {}
SPECIFICATION MCSpec
VIEW View
INVARIANTS WellFormed FileWellFormed RoundTripNow Stable
PROPERTIES RoundTripMC OthersUntouchedMC
CHECK_DEADLOCK FALSE
