--------------------------- MODULE MC_CellStore ---------------------------
(* Bounded instance of CellStore.tla.  Exhaustive configs: every operation addresses a Win x Win window  *)
(* of a MaxRow x MaxCol grid, all operation sequences up to Depth.  Simulation config (Wide): long random *)
(* in-contract histories on a larger grid.  Replay configs print one REPLAY line per behaviour.           *)
EXTENDS CellStore, Json, Randomization

CONSTANTS Wide,         \* FALSE: small pools, exhaustive; TRUE: wide pools, one random draw per parameter
          Win,          \* side of the window addressed by the operations (exhaustive configs)
          Depth,        \* (maximal) length of the histories
          Pools,        \* "full" | "lean": size of the parameter pools of the exhaustive configs
          EmitReplay    \* TRUE: print one REPLAY line per behaviour

VARIABLES steps, len, hist
mcvars == <<st, last, steps, len, hist>>

Rect(r1, c1, r2, c2) == [r1 |-> r1, c1 |-> c1, r2 |-> r2, c2 |-> c2]

(* initial sheets, built through the operations themselves *)
Rich ==
  LET a == PostSetCell(EmptyStore, 1, 1, "a", "")
      b == PostSetStyle(a, 2, 2, "F")
      c == PostGetCellMut(b, 3, 2)
      d == WithRowStyle(c, 3, "N")
      e == WithColStyle(d, 1, "F")
  IN  PostSetCell(e, 2, 3, "b", "N")
Sparse == PostSetCell(PostGetCellMut(WithRowStyle(EmptyStore, 2, "F"), 2, 1), 3, 3, "z", "")

Pick(S) == IF Wide THEN {RandomElement(S)} ELSE S
W == 1..Win
RowsHere == IF Wide THEN 1..(MaxRow - 4) ELSE W      \* (Wide: room is left for inserts)
ColsHere == IF Wide THEN 1..(MaxCol - 2) ELSE W

(* (a definition without parameters would be evaluated once and cached: the parameter forces one draw per use) *)
RandomStore(i) ==
  LET keys == RandomSubset(RandomElement(0..10) + 0 * i, RowsHere \X ColsHere)
      f1 == FoldSet(LAMBDA k, a : IF RandomElement(1..4) = 1 THEN PostGetCellMut(a, k[1], k[2])
                                  ELSE PostSetCell(a, k[1], k[2], "i" \o ToString(k[1]) \o "_" \o ToString(k[2]),
                                                   RandomElement({"", "", "N", "F"})),
                    EmptyStore, keys)
      f2 == FoldSet(LAMBDA r, a : WithRowStyle(a, r, RandomElement({"", "N", "F"})),
                    f1, RandomSubset(RandomElement(0..2), RowsHere))
  IN  FoldSet(LAMBDA c, a : WithColStyle(a, c, RandomElement({"N", "F"})),
              f2, RandomSubset(RandomElement(0..2), ColsHere))

InitRec(s) == [a |-> "Init", cells |-> Abs(s),
               rows |-> {[r |-> k, s |-> s.rows[k].s] : k \in DOMAIN s.rows},
               cols |-> {[c |-> k, s |-> s.cols[k]] : k \in DOMAIN s.cols}]

MCInit ==
  /\ st \in (IF Wide THEN {RandomStore(i) : i \in 1..40} ELSE {EmptyStore, Rich, Sparse})
  /\ last = [op |-> "init"]
  /\ steps = 0
  /\ len \in (IF Wide THEN 1..Depth ELSE {Depth})
  /\ hist = <<InitRec(st)>>

Lean == Pools = "lean"
Ns == IF Wide THEN {1, 2, 3} ELSE IF Lean THEN {1} ELSE {1, 2}
Styles == {"", "N", "F"}
RectPool == IF Lean THEN {Rect(1, 1, 2, 2), Rect(2, 2, 3, 2)} ELSE {Rect(1, 1, 2, 2), Rect(2, 2, 3, 2), Rect(1, 2, 3, 3)}
Offsets  == IF Lean THEN {<<0, 1>>, <<1, 0>>, <<-1, 0>>} ELSE {<<0, 1>>, <<1, 0>>, <<-1, 0>>, <<1, 1>>, <<0, -1>>}
StyleRangePool == {Rect(1, 1, 2, 2), Rect(2, 2, 3, 3), Rect(3, 1, 3, 3)}
SpanPool == IF Lean THEN {<<FALSE, 1, FALSE, 1>>} ELSE {<<FALSE, 1, FALSE, 1>>, <<TRUE, 2, TRUE, 3>>}

AllRects == {Rect(r1, c1, r1 + h, c1 + w) : r1 \in 1..(MaxRow - 6), c1 \in 1..(MaxCol - 4), h \in {0, 1, 2}, w \in {0, 1, 2}}
AllOffsets == {<<dr, dc>> : dr \in -3..3, dc \in -2..2} \ {<<0, 0>>}
WideSpan(n) == <<RandomElement({TRUE, FALSE}), RandomElement(1..n), RandomElement({TRUE, FALSE}), RandomElement(1..n)>>

Log(rec) == hist' = Append(hist, rec) /\ steps' = steps + 1 /\ len' = len
NewValue == IF Wide THEN "v" \o ToString(steps + 1) ELSE "x"

G == steps < len
DoGetCellMut == G /\ \E r \in Pick(RowsHere), c \in Pick(ColsHere) :
                  GetCellMut(r, c) /\ Log([a |-> "GetCellMut", r |-> r, c |-> c])
DoSetCell == G /\ \E r \in Pick(RowsHere), c \in Pick(ColsHere), s \in Pick(IF Wide THEN Styles ELSE {""}) :
                  SetCell(r, c, NewValue, s) /\ Log([a |-> "SetCell", r |-> r, c |-> c, v |-> NewValue, s |-> s])
DoRemoveCell == G /\ \/ \E r \in Pick(RowsHere), c \in Pick(ColsHere) :
                          RemoveCell(r, c) /\ Log([a |-> "RemoveCell", r |-> r, c |-> c])
                     \/ \E k \in (IF Wide /\ Existing(st) # {} THEN Pick(Existing(st)) ELSE {}) :
                          RemoveCell(k[1], k[2]) /\ Log([a |-> "RemoveCell", r |-> k[1], c |-> k[2]])
DoSetStyle == G /\ \E r \in Pick(RowsHere), c \in Pick(ColsHere), s \in Pick(IF Wide THEN Styles ELSE IF Lean THEN {"F"} ELSE {"", "F"}) :
                  SetStyle(r, c, s) /\ Log([a |-> "SetStyle", r |-> r, c |-> c, s |-> s])
DoSetStyleByRange == G /\ \E g \in (IF Wide THEN Pick(AllRects) ELSE StyleRangePool), s \in Pick(IF Wide THEN Styles ELSE {"F"}) :
                  SetStyleByRange(g, s) /\ Log([a |-> "SetStyleByRange", g |-> g, s |-> s])
DoInsert == G /\ \E ax \in Pick({"row", "col"}), n \in Pick(Ns) : \E p \in Pick(IF Wide THEN 1..Lines(ax) ELSE W) :
                  InsertLines(ax, p, n) /\ Log([a |-> "Insert", ax |-> ax, p |-> p, n |-> n])
DoRemove == G /\ (Wide => RandomElement(1..2) = 1) /\ \E ax \in Pick({"row", "col"}), n \in Pick(Ns) : \E p \in Pick(IF Wide THEN 1..Lines(ax) ELSE W) :
                  RemoveLines(ax, p, n) /\ Log([a |-> "Remove", ax |-> ax, p |-> p, n |-> n])
DoMove == G /\ \E g \in (IF Wide THEN Pick(AllRects) ELSE RectPool), o \in (IF Wide THEN Pick(AllOffsets) ELSE Offsets) :
                  MoveRange(g, o[1], o[2]) /\ Log([a |-> "Move", g |-> g, dr |-> o[1], dc |-> o[2]])
DoCopy == G /\ \E g \in (IF Wide THEN Pick(AllRects) ELSE RectPool), o \in (IF Wide THEN Pick(AllOffsets) ELSE Offsets) :
                  CopyRange(g, o[1], o[2]) /\ Log([a |-> "Copy", g |-> g, dr |-> o[1], dc |-> o[2]])
DoCleanup == G /\ (Wide => RandomElement(1..4) = 1) /\ Cleanup /\ Log([a |-> "Cleanup"])
DoCopyRowStyling == G /\ \E src \in Pick(RowsHere), dst \in Pick(RowsHere), sp \in (IF Wide THEN {WideSpan(MaxCol)} ELSE SpanPool) :
          /\ CopyRowStyling(src, dst, sp[1], sp[2], sp[3], sp[4])
          /\ Log([a |-> "CopyRowStyling", src |-> src, dst |-> dst, hs |-> sp[1], c1 |-> sp[2], he |-> sp[3], c2 |-> sp[4]])
DoCopyColStyling == G /\ \E src \in Pick(ColsHere), dst \in Pick(ColsHere), sp \in (IF Wide THEN {WideSpan(MaxRow)} ELSE SpanPool) :
          /\ CopyColStyling(src, dst, sp[1], sp[2], sp[3], sp[4])
          /\ Log([a |-> "CopyColStyling", src |-> src, dst |-> dst, hs |-> sp[1], r1 |-> sp[2], he |-> sp[3], r2 |-> sp[4]])

MCNext == \/ DoGetCellMut \/ DoSetCell \/ DoRemoveCell \/ DoSetStyle \/ DoSetStyleByRange \/ DoInsert \/ DoRemove
          \/ DoMove \/ DoCopy \/ DoCleanup \/ DoCopyRowStyling \/ DoCopyColStyling

MCSpec == MCInit /\ [][MCNext]_mcvars

View == <<st, steps>>

(* the properties of C10, in every reachable state *)
GridCoords == (1..MaxRow) \X (1..MaxCol)
InGridInv    == StoreInGrid(st)
CoherentInv  == Coherent(st)
QueriesAgree == QueriesAgreeOn(st, GridCoords, RectPool \cup {Rect(1, 1, MaxRow, MaxCol)})
AllEmittedInv == AllEmitted(st)
Refines == [][RefinesStep]_mcvars

Emit == (EmitReplay /\ steps = len) => PrintT(<<"REPLAY", ToJson(hist)>>)
=============================================================================
