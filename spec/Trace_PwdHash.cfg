CONSTANTS
  Kinds = {"sheet1", "sheet2", "workbook", "revisions"}
  Passwords = {}
  Salts = {}
  LegacyVals = {}
  SpecAlg = "SHA-512"
  SpecSpin = 100000
  MaxSets = 0
  MaxHist = 0
  NoHash <- TraceNoHash
SPECIFICATION TraceSpec
POSTCONDITION Consumed
CHECK_DEADLOCK FALSE
