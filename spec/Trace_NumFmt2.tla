---------------------------- MODULE Trace_NumFmt2 ----------------------------
(***************************************************************************)
(* Conformance of helper::number_format::to_formatted_string,              *)
(* Cell::get_formatted_value and Worksheet::get_formatted_value with       *)
(* NumFmt2.tla.  One event = one batch of items; an item is a value        *)
(* (number as digit record x / text as characters sc) and a format given   *)
(* as its section structure `secs`.  The specification                      *)
(*   - re-derives the format code from the structure and the value string  *)
(*     from the digits and compares them with what was fed to the library  *)
(*     (a difference is a "gen" mismatch: tool error, never a verdict);    *)
(*   - checks the std-only facts the driver logged where the pinned code's *)
(*     deviant outcome depends on binary arithmetic being exact (h24, fr1, *)
(*     dv: also "gen");                                                    *)
(*   - renders the value with Render(.., {}) and accepts the item iff all  *)
(*     three observed texts are equal and match one alternative, modulo    *)
(*     leading/trailing blanks (fraction sections: modulo runs of blanks); *)
(*   - otherwise renders it with the deviations of the open findings whose *)
(*     structural trigger holds (Loose) and accepts it iff the observed    *)
(*     text is exactly that; the findings hit are those whose switch       *)
(*     changes that rendering (the trigger is: structure and it matters).  *)
(* Findings (ext_findings.json), all in src/helper/number_format*:         *)
(*  KF1  literals of numeric sections are not rendered                     *)
(*  KF2  a "$" and what follows it up to the first digit placeholder is    *)
(*       put in front of the sign (deviation defined while KF1 is open)    *)
(*  KF3  integer placeholders are ignored (no padding, "#" shows 0)        *)
(*  KF4  "#" after the point is treated as "0"                             *)
(*  KF5  "?" after the point ends the decimals                             *)
(*  KF6  "%" that is not the last character of the section is ignored     *)
(*  KF7  a section that begins and ends with a quoted literal panics       *)
(*  KF8  scientific formats are rendered as fixed decimals                 *)
(*  KF9  ?/? fractions show the decimal fraction, reduced                  *)
(*  KF10 fixed-denominator fractions round to an integer                   *)
(*  KF11 text is never rendered through the text section                   *)
(*  KF12 text that parses as a number is formatted as a number             *)
(*  KF13 a trailing text section is used as negative / zero section        *)
(*  KF14 a section without digit placeholder prints the number itself      *)
(*  KF15 mm is minutes only next to a colon, m never                       *)
(*  KF16 [h] prints value*24 with its fraction                             *)
(*  KF17 [m] [mm] [s] [ss] are not elapsed time                            *)
(*  KF18 mmmmm shows the abbreviated month                                 *)
(*  KF19 A/P is not a 12-hour marker                                       *)
(*  KF20 upper-case date codes are not recognised                          *)
(*  KF21 a single s is printed literally                                   *)
(*  KF22 a section with a condition and the colour Red, White or Cyan is   *)
(*       rendered as a date (the colour bracket survives)                  *)
(***************************************************************************)
EXTENDS NumFmt2, TraceBase

VARIABLE l
tvars == <<l, n, ds, fi, sg>>

Ev == Rec[l]

KColCond == "X04-KF22"
KFIds == {KColCond, KLit, KCur, KIntPh, KFracHash, KFracQ, KPct, KQuoted, KSci, KFracNear, KFracFix, KText, KNumText, KTxtSec,
          KNoPh, KMin, KElH, KElMS, KM5, KAP, KUp, KS1}

----------------------------------------------------------------------------
(* generator / driver facts *)
BareOK    == {" ", "(", ")", "-", "+", ":", "!", "$", ",", "/"}
Forbidden == {"\"", ".", ",", "#", "?", "%", "*", "_", "\\", "[", "]", "@", "/", ";"}
DateLetters == {"h", "m", "s", "d", "y"}
LitCharsOK(s, it) ==
  CASE it.t = "b"   -> it.c[1] \in (IF s.k \in {"date", "text"} THEN BareOK ELSE BareOK \ {",", "/"})
    [] it.t = "q"   -> s.k \in {"date", "text"} \/ \A i \in DOMAIN it.c : it.c[i] \notin Forbidden
    [] it.t = "e"   -> IF s.k = "date" THEN it.c[1] \in BareOK ELSE it.c[1] \notin Forbidden
    [] it.t \in {"pad", "fill"} -> it.c[1] \notin Forbidden /\ it.c[1] # "$"
    [] it.t = "cur" -> /\ \A i \in DOMAIN it.c : it.c[i] \notin Forbidden /\ it.c[i] \notin DateLetters /\ it.c[i] # "-"
                       /\ \A i \in DOMAIN it.l : IsDigitCh(it.l[i]) \/ it.l[i] \in {"A", "B", "C", "D", "F"}
    [] OTHER        -> TRUE
SecContract(s) ==
  /\ \A i \in DOMAIN Items(s) : LitCharsOK(s, Items(s)[i])
  /\ s.k \in {"num", "sci", "frac", "lit"} =>
        \A i \in DOMAIN Items(s) : Items(s)[i].t \in {"e", "pad", "fill", "b"} => Items(s)[i].c[1] \notin DateLetters
  /\ s.k \in {"sci", "frac", "lit"} => \A i \in DOMAIN Items(s) : Items(s)[i].t # "cur" /\ (\A j \in DOMAIN Items(s)[i].c : Items(s)[i].c[j] # "$")
  /\ (s.k = "num" /\ HasPct(s)) => /\ \A i \in DOMAIN s.fp : s.fp[i] # "?"
                                   /\ ~HasDollar(s)
                                   /\ Len(s.post) >= 1 /\ s.post[1].t = "pct"          \* % directly after the digits
  /\ (s.k = "num" /\ s.sc > 0) => (IF s.fp # <<>> THEN s.fp[Len(s.fp)] ELSE s.ip[Len(s.ip)]) \in {"0", "#"}
  /\ (s.k = "date" /\ s.up) => \A i \in DOMAIN s.pre : s.pre[i].t \in {"d", "el", "b"}
  /\ s.k = "date" => \A i \in DOMAIN s.pre : s.pre[i].t = "q" =>
                        \A j \in DOMAIN s.pre[i].c : s.pre[i].c[j] \notin {"%", "\\"}
  /\ (s.k = "date" /\ HasElapsed(s)) => \A i \in DOMAIN s.pre : s.pre[i].t # "q"
  /\ s.color \in {<<>>, <<"R","e","d">>, <<"B","l","u","e">>, <<"G","r","e","e","n">>, <<"B","l","a","c","k">>,
                  <<"W","h","i","t","e">>, <<"Y","e","l","l","o","w">>, <<"M","a","g","e","n","t","a">>, <<"C","y","a","n">>}
ValueOK(x) == IsNumber(x) /\ SigDigits(x) <= 15 /\ ~(x.neg /\ IsZero(x)) /\ Len(x.int) <= 15 /\ Len(x.frac) <= 15

(* the sections a number may reach, under the intended choice and under the pinned code's *)
Reach(FF, v) == {FF[SectionOf(FF, v)]} \cup (IF HasCond(FF) THEN {} ELSE {FF[ImplSectionOf(FF, v)]})
NumContract(it) ==
  LET FF == it.secs  v == it.x  m == Abs(it.x)
  IN  /\ ValueOK(v) /\ it.rt /\ it.s = NumText(v)
      /\ NSec(FF) >= 1
      /\ HasCond(FF) => ~IsTextSec(FF[Len(FF)])
      /\ \A s \in Reach(FF, v) :
           /\ s.k = "frac" => FracInContract(s, m) /\ it.fr1 = NumText([neg |-> FALSE, int |-> <<0>>, frac |-> m.frac])
           /\ s.k = "date" => /\ DateInContract(s, m) /\ ~v.neg
                              /\ (\E i \in DOMAIN s.pre : s.pre[i].t = "el" /\ TokName(s.pre[i]) = "h") =>
                                     it.h24 = NumText(MulRec(m, 24))
           /\ (s.k = "num" /\ s.sc > 0) => it.dv[s.sc] = NumText(ShiftR(m, 3 * s.sc))
ItemGenOk(it) ==
  /\ it.kind \in {"num", "text"}
  /\ FormatOK(it.secs)
  /\ \A i \in DOMAIN it.secs : SecContract(it.secs[i])
  /\ it.fmt = FormatText(it.secs)
  /\ it.outcome = "ok" => Concat(it.outc) = it.out
  /\ IF it.kind = "num" THEN NumContract(it)
     ELSE /\ Concat(it.sc) = it.s /\ it.s # ""
          /\ it.isnum => it.tnum /\ NumContract(it)             \* numeric text: canonical number strings only
          /\ it.tnum => it.isnum

(* which fact failed (diagnostics of a "gen" mismatch) *)
GenWhy(it) ==
  IF ~FormatOK(it.secs) THEN "FormatOK"
  ELSE IF \E i \in DOMAIN it.secs : ~SecContract(it.secs[i]) THEN "SecContract"
  ELSE IF it.fmt # FormatText(it.secs) THEN "fmt: " \o FormatText(it.secs)
  ELSE IF it.outcome = "ok" /\ Concat(it.outc) # it.out THEN "outc"
  ELSE IF ~ValueOK(it.x) THEN "ValueOK"
  ELSE IF (it.kind = "num" \/ it.isnum) /\ it.s # NumText(it.x) THEN "s"
  ELSE IF (it.kind = "num" \/ it.isnum) /\ ~NumContract(it) THEN "NumContract"
  ELSE "other"

----------------------------------------------------------------------------
(* rendering of an item under a set of deviations *)
Rendering(it, D) ==
  IF it.kind = "num" \/ (KNumText \in D /\ it.isnum)
  THEN LET r == RenderNumber(it.secs, it.x, D) IN [panic |-> r.panic, cells |-> r.cells, dev |-> D]
  ELSE [panic |-> FALSE, cells |-> IF KText \in D THEN Cs(it.sc) ELSE RenderTextValue(it.secs, it.sc), dev |-> D]

IsFracItem(it) == (it.kind = "num" \/ it.isnum) /\ \E s \in Reach(it.secs, it.x) : s.k = "frac"
Norm(it, cs) == IF IsFracItem(it) THEN Squeeze(Trim(cs)) ELSE Trim(cs)
AllSame(it) == it.out = it.outws /\ it.out = it.outcell
DateColours == {<<"R","e","d">>, <<"W","h","i","t","e">>, <<"C","y","a","n">>}
ColCond(s) == s.cop # <<>> /\ s.color # <<>>
(* KF22: the outcome is not a simple function of the arguments (chrono renders the mangled code, or rejects it with a
   panic, or the number is outside the calendar and is shown as it is): any outcome *)
ColCondItem(it) == (it.kind = "num" \/ it.isnum) /\ LET s == it.secs[SectionOf(it.secs, it.x)] IN ColCond(s) /\ s.color \in DateColours
Explains(it, r) ==
  IF KColCond \in r.dev /\ ColCondItem(it) THEN it.outcome = "panic" \/ (it.outcome = "ok" /\ AllSame(it))
  ELSE IF r.panic THEN it.outcome = "panic"
  ELSE /\ it.outcome = "ok" /\ AllSame(it)
       /\ Norm(it, it.outc) \in {Norm(it, a) : a \in Expand(r.cells)}

(* structural triggers *)
HasTok(s, t, nms) == s.k = "date" /\ \E i \in DOMAIN s.pre : s.pre[i].t = t /\ TokName(s.pre[i]) \in nms
Loose(id, it) ==
  IF it.kind = "text" /\ ~it.isnum
  THEN id = KText /\ IsTextSec(it.secs[Len(it.secs)])
  ELSE LET FF == it.secs  v == it.x
           txt == KFOn(KTxtSec) /\ ~HasCond(FF) /\ ImplSectionOf(FF, v) # SectionOf(FF, v)
           s  == IF txt THEN FF[ImplSectionOf(FF, v)] ELSE FF[SectionOf(FF, v)]
       IN  CASE id = KNumText  -> it.kind = "text"
             [] id = KText     -> FALSE
             [] id = KTxtSec   -> txt
             [] id = KLit      -> s.k \in {"num", "sci", "frac"} /\ Items(s) # <<>>
             [] id = KCur      -> s.k = "num" /\ HasDollar(s) /\ ~PctLast(s) /\ KFOn(KLit)
             [] id = KIntPh    -> s.k \in {"num", "sci", "frac"}
             [] id = KFracHash -> s.k = "num" /\ \E i \in DOMAIN s.fp : s.fp[i] = "#"
             [] id = KFracQ    -> s.k = "num" /\ \E i \in DOMAIN s.fp : s.fp[i] = "?"
             [] id = KPct      -> s.k = "num" /\ HasPct(s) /\ ~PctLast(s)
             [] id = KQuoted   -> QuotedBothEnds(s)
             [] id = KColCond  -> ColCond(s) /\ s.color \in DateColours
             [] id = KSci      -> s.k = "sci"
             [] id = KFracNear -> s.k = "frac" /\ s.dfix = <<>>
             [] id = KFracFix  -> s.k = "frac" /\ s.dfix # <<>>
             [] id = KNoPh     -> s.k = "lit"
             [] id = KMin      -> HasTok(s, "d", {"m", "mm"})
             [] id = KElH      -> HasTok(s, "el", {"h"})
             [] id = KElMS     -> HasTok(s, "el", {"m", "mm", "s", "ss"})
             [] id = KM5       -> HasTok(s, "d", {"mmmmm"})
             [] id = KAP       -> HasTok(s, "d", {"A/P"})
             [] id = KUp       -> s.k = "date" /\ s.up
             [] id = KS1       -> HasTok(s, "d", {"s"})
Eff(it) == {id \in KFIds : KFOn(id) /\ Loose(id, it)}
(* the findings whose deviation is needed to explain the item *)
Differs(q, r) == q.panic # r.panic \/ q.cells # r.cells
Hits(it) == LET D == Eff(it)  r == Rendering(it, D)
                needed  == {id \in D : Differs(Rendering(it, D \ {id}), r)}
                singles == {id \in D : Explains(it, Rendering(it, {id}))}        \* over-determined: each suffices alone
            IN  IF KColCond \in D THEN {KColCond}
                ELSE IF needed # {} THEN needed ELSE IF singles # {} THEN singles ELSE D

(* verdict per item: {} = intended, a non-empty set of finding ids, or {"bad"} *)
Verdict(it) ==
  IF Explains(it, Rendering(it, {})) THEN {}
  ELSE IF Eff(it) # {} /\ Explains(it, Rendering(it, Eff(it))) /\ Hits(it) # {} THEN Hits(it)
  ELSE {"bad"}

Want(it) == LET r == Rendering(it, {})  t == Canon(r.cells)
            IN  IF Len(t) <= 40 THEN Concat(t) ELSE Concat(SubSeq(t, 1, 40)) \o ".."

Judge(e) ==
  IF e.a # "render" THEN Mismatch(l, <<"impl", e.a, e.outcome>>)               \* Fatal: hang or crash of the driver
  ELSE LET badgen == {j \in DOMAIN e.items : ~ItemGenOk(e.items[j])}
       IN  IF badgen # {} THEN Mismatch(l, <<"gen", MinOf(badgen), GenWhy(e.items[MinOf(badgen)])>>)
           ELSE LET vs   == [j \in DOMAIN e.items |-> Verdict(e.items[j])]       \* each item is judged once
                    bad  == {j \in DOMAIN e.items : vs[j] = {"bad"}}
                    hits == UNION {vs[j] : j \in DOMAIN e.items \ bad}
                IN  /\ IF bad = {} THEN TRUE
                       ELSE Mismatch(l, <<"impl", MinOf(bad), Want(e.items[MinOf(bad)])>>)
                    /\ \A id \in KFIds : IF id \in hits THEN KFHit(id, l) ELSE TRUE

EmptyCat == <<>>
TraceInit == l = 1 /\ n = 0 /\ ds = FixedDigits(0) /\ fi = 1 /\ sg = FALSE
TraceNext == l <= Len(Rec) /\ l' = l + 1 /\ Judge(Ev) /\ UNCHANGED <<n, ds, fi, sg>>
TraceSpec == TraceInit /\ [][TraceNext]_tvars
=============================================================================
