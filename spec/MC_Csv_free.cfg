\* the reader on every text of length <= 6 over {a , " ' CR LF} with each quote configuration
CONSTANTS NSheets = 1 MaxR = 1 MaxC = 1 MaxCells = 0 FreeLen = 6 Escape = TRUE Overwrite = FALSE Record = FALSE
CONSTANTS Values <- SmallValues FreeAlphabet <- FreeChars
SPECIFICATION Spec
INVARIANTS TypeOK FoldAgrees NoQuoteClean ReaderBounded
CHECK_DEADLOCK FALSE
