CONSTANTS
  Passwords = {"p1", "p2"}
  Sizes = {0, 4096, 8193}
  MaxSaves = 2
  DoTamper = FALSE
  DoEmit = TRUE
SPECIFICATION Spec
INVARIANTS TypeOK Correct Fresh
CHECK_DEADLOCK FALSE
