CONSTANTS Wide = FALSE MaxRow = 6 MaxCol = 5 Depth = 3 Family = "all" Gen = FALSE EmitReplay = FALSE
          MediaKey = "content" ChartCache = "tolerant"
SPECIFICATION MCSpec
VIEW View
INVARIANTS InGrid NamesUnique RoundTrip SaveAlwaysWorks
PROPERTIES OthersUntouchedMC RawKeptMC ReloadIdentityMC
CHECK_DEADLOCK FALSE
