CONSTANTS Depth = 4 MaxSheets = 1 Pairing = "one" Family = "authors" Wide = FALSE EmitReplay = FALSE
SPECIFICATION MCSpec
VIEW View
INVARIANTS WellFormed HomedAfterLoad
PROPERTY AnnotationsKeptMC
CHECK_DEADLOCK FALSE
