\* one sheet, 3x3 window, at most 2 cells (gaps included), 8 value classes, all trim x wrap, all encodings
CONSTANTS NSheets = 1 MaxR = 3 MaxC = 3 MaxCells = 2 FreeLen = 0 Escape = TRUE Overwrite = TRUE Record = FALSE
CONSTANTS Values <- QuickValues FreeAlphabet <- NoFree
SPECIFICATION Spec
INVARIANTS TypeOK InStep ParsedEqualsGrid Rectangular WellFormed FoldAgrees
CHECK_DEADLOCK FALSE
