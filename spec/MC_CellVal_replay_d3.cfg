CONSTANTS Pos = {1} PoolName = "small" Wide = FALSE Bounded = TRUE Depth = 3 EmitReplay = TRUE Deviant = "none"
CONSTANTS
  Texts <- MCTexts
  Forms <- MCForms
  Nums <- MCNums
  RichPool <- MCRich
  OrcOf <- MCOrc
SPECIFICATION MCSpec
INVARIANTS Emit
CHECK_DEADLOCK FALSE
