---------------------------- MODULE Trace_Agile ----------------------------
(***************************************************************************)
(* Conformance of writer::xlsx::write_with_password(_light) / set_password *)
(* (helper::crypt::encrypt) with Agile.tla.                                *)
(*                                                                         *)
(* One event per save.  The driver wrote the encrypted file and the        *)
(* unencrypted package next to it; /verif/pydec opened the compound file   *)
(* and evaluated the specification's decryptor program Prog on it (with    *)
(* the right password: all outputs; with other passwords: the verifier).   *)
(* The event carries the raw values (both sides of the verifier and MAC    *)
(* equations, declared length, digests of the decrypted bytes and of the   *)
(* package, the five random values as hex).                                *)
(*                                                                         *)
(* Judgement: the abstract save Post_Save(.., pw, n, r) is taken with the  *)
(* observed random values r as atom names and the real size n; the event   *)
(* must show exactly DecryptResult(EncryptFile(pw, n, r), pw') for the     *)
(* right and for every other password pw', and r must be fresh with        *)
(* respect to every value seen earlier in the whole trace.                 *)
(***************************************************************************)
EXTENDS Agile, TraceBase

VARIABLE l
tvars == <<l, used, files>>

E == Rec[l]

VerStatus(pair) == IF pair[1] # pair[2] THEN "badpw" ELSE "ok"
ObsStatus(e) == IF e.ver[1] # e.ver[2] THEN "badpw" ELSE IF e.mac[1] # e.mac[2] THEN "hmac" ELSE "ok"

(* The unencrypted package.  set_password: the input file.  write_with_password: write_writer of the  *)
(* same workbook before (ref) and after (ref2) the encrypted save.  When the two agree (always for    *)
(* workbooks without shared strings) the package is known byte for byte.  If they differ (a save     *)
(* that is not pure: on the tree this was built on the shared-string count drifted from save to      *)
(* save, property C12) the exact bytes of the encrypted save's package cannot be observed from        *)
(* outside: then every part that is identical in ref and ref2 must be identical in the decrypted     *)
(* archive, which must be exactly one zip archive of the declared length (parts_ok, from pydec).     *)
Stable(e)   == e.ref_sha = e.ref2_sha
PkgLen(e)   == IF Stable(e) THEN e.ref_len ELSE e.declared
PlainIsPkg(e) == IF Stable(e) THEN e.plain_sha = e.ref_sha /\ e.plain_len = e.ref_len ELSE e.parts_ok
ObsResult(e) ==
  IF ObsStatus(e) # "ok" THEN [status |-> ObsStatus(e), declared |-> 0, plain |-> Empty]
  ELSE [status |-> "ok", declared |-> e.declared,
        plain |-> IF PlainIsPkg(e) THEN Whole(PkgLen(e)) ELSE <<"other", e.plain_sha>>]

PwOf(e)   == Pw(e.pw, e.units)
FileOf(e) == EncryptFile(PwOf(e), PkgLen(e), e.nonces)

(* first reason why the event is not what the specification yields; <<>> if it is.  The reasons are  *)
(* short codes (checks/c14.py expands them with the values of the event):                           *)
(*   outcome   the save did not return Ok                                                           *)
(*   malformed not a compound file / EncryptionInfo a decryptor of the standard can open            *)
(*   verifier  the password verifier does not match with the right password                         *)
(*   hmac      the data-integrity HMAC over the EncryptedPackage stream does not verify             *)
(*   declared  the declared length differs from the package length (observed, expected)             *)
(*   plain     the decrypted bytes are not the package                                              *)
(*   wrongpw   another password (index in e.wrong) passes the verifier                              *)
(*   fresh     a random value equals another one of this save or of an earlier save of the trace    *)
Reason(e) ==
  IF e.outcome # "ok" THEN <<"impl", "outcome">>
  ELSE IF e.malformed # "" THEN <<"impl", "malformed">>
  ELSE IF \E j \in DOMAIN e.wrong : e.wrong[j].pw = e.pw THEN <<"gen", "wrongpw">>
  ELSE
  LET file == FileOf(e)
      want == DecryptResult(file, PwOf(e))
      got  == ObsResult(e)
      badw == {j \in DOMAIN e.wrong :
                 VerStatus(e.wrong[j].ver) # DecryptResult(file, Pw(e.wrong[j].pw, e.wrong[j].units)).status}
  IN IF got.status # want.status
       THEN <<"impl", IF got.status = "badpw" THEN "verifier" ELSE "hmac">>
     ELSE IF got.declared # want.declared THEN <<"impl", "declared", got.declared, want.declared>>
     ELSE IF got.plain # want.plain THEN <<"impl", "plain">>
     ELSE IF badw # {} THEN <<"impl", "wrongpw", MinOf(badw)>>
     ELSE IF ~FreshRnd(e.nonces, used) THEN <<"impl", "fresh">>
     ELSE <<>>

Judge(e) == LET why == Reason(e) IN IF why = <<>> THEN TRUE ELSE Mismatch(l, why)

(* the abstract save; a new case starts a new history, the set of used random values is kept for *)
(* the whole trace.  An event that cannot be interpreted leaves the state alone.                 *)
After(e) ==
  IF e.outcome = "ok" /\ e.malformed = ""
  THEN Post_Save(used, IF e.i = 0 THEN <<>> ELSE files, PwOf(e), PkgLen(e), e.nonces)
  ELSE [used |-> used, files |-> files]

TraceInit == l = 1 /\ used = {} /\ files = <<>>
TraceNext == /\ l <= Len(Rec)
             /\ l' = l + 1
             /\ Judge(E)
             /\ used' = After(E).used
             /\ files' = After(E).files
TraceSpec == TraceInit /\ [][TraceNext]_tvars
=============================================================================
