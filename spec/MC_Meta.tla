------------------------------ MODULE MC_Meta ------------------------------
(* Bounded instance of Meta.tla: at most MaxSheets sheets, small value pools for every aspect, histories of Depth   *)
(* operations.  Log records are the steps of harness/src/bin/meta.rs (a REPLAY line is a case script).              *)
EXTENDS Meta, Json

CONSTANTS Depth,        \* length of the histories explored
          MaxSheets,
          Family,       \* "view" | "page" | "data" | "all" | "min": which setters are explored (storage and sheet-list operations always)
          Shape,        \* "free": any history; "sl" / "sls": see Slot (replays)
          Wide,         \* TRUE: draw parameters at random (simulation)
          EmitReplay    \* TRUE: print one REPLAY line per behaviour of length Depth

VARIABLES steps, hist
mcvars == <<wb, file, last, steps, hist>>

SheetNames == {"S1", "My & Sheet", "O'Brien"}
PanePool == {[xs |-> "1", ys |-> "2", tl |-> "B3", ap |-> "bottomRight", st |-> "frozen"]}
SelPool  == {[pane |-> "bottomRight", cell |-> "C5", sqref |-> "C5:D6"]}
ProtPool == {[sheet |-> TRUE, objects |-> TRUE], [sheet |-> TRUE, formatCells |-> FALSE, sort |-> TRUE]}
TokPool  == {[alg |-> "SHA-512", hash |-> "h1", salt |-> "s1", spin |-> 100000, legacy |-> ""]}
PsNumPool == {<<"paper", 9>>, <<"scale", 80>>, <<"fitw", 0>>, <<"fitw", 2>>, <<"fith", 1>>}
PoPool   == {<<"hc", TRUE>>, <<"vc", TRUE>>, <<"hc", FALSE>>}
PmPool   == {<<"l", "0.7">>, <<"t", "0.75">>, <<"h", "0.3">>}
HfPool   == {<<"h", "&CPage &P <x>">>, <<"f", " a & b ">>}
Dv(sq, ty, op, f1, f2, pt, pr) == [sqref |-> sq, type |-> ty, op |-> op, blank |-> TRUE, showin |-> TRUE, showerr |-> FALSE,
                                   ptitle |-> pt, prompt |-> pr, etitle |-> "", emsg |-> "", f1 |-> f1, f2 |-> f2]
DvPool   == { Dv("A1:A5", "list", "between", "\"a,b,c\"", "", "T<1>", "pick & choose"),
              Dv("B1 C3:C4", "whole", "notBetween", "1", "10", "", "") }
Rule(ty, op, pr, st, hf, f, sty) == [type |-> ty, op |-> op, prio |-> pr, stop |-> st, hasf |-> hf, f |-> f, sty |-> sty,
                                     text |-> IF ty = "containsText" THEN "a & <b>" ELSE "", rank |-> IF ty = "top10" THEN 3 ELSE 0,
                                     percent |-> ty = "top10", bottom |-> FALSE]
CfPool   == { [sqref |-> "A1:A10", rules |-> <<Rule("cellIs", "greaterThan", 1, FALSE, TRUE, "5", <<[bold |-> TRUE, fill |-> "FFFF0000"]>>),
                                                Rule("expression", "equal", 2, TRUE, TRUE, "A1<>\"x\"", <<>>)>>],
              [sqref |-> "B1:B3 D1", rules |-> <<Rule("duplicateValues", "equal", 3, FALSE, FALSE, "", <<[bold |-> FALSE, fill |-> "FF00B050"]>>),
                                                  Rule("top10", "equal", 4, FALSE, FALSE, "", <<>>)>>] }
PropPool == {<<"title", "Report & <x>">>, <<"creator", "Ann">>, <<"company", "ACME & Co">>, <<"manager", "M">>}
Cu(nm, kd, v, n, b) == [name |-> nm, kind |-> kd, v |-> v, n |-> n, b |-> b]
CustomPool == {Cu("cs", "str", "text & <x>", 0, FALSE), Cu("cn", "num", "", -5, FALSE), Cu("cb", "bool", "", 0, TRUE),
               Cu("cd", "date", "2020-01-02T10:00:00Z", 0, FALSE)}

Pick(S) == IF Wide THEN {RandomElement(S)} ELSE S
FV == Family \in {"view", "all"}
FP == Family \in {"page", "all"}
FD == Family \in {"data", "all"}
FM == Family = "min"

MCInit == /\ \E n \in Pick({<<"S1">>, <<"S1", "My & Sheet">>}), b \in Pick({"empty", "new_file"}) :
               /\ (b = "new_file" => n[1] = "S1")
               /\ wb = InitWb(IF b = "new_file" THEN [n EXCEPT ![1] = "Sheet1"] ELSE n, b)
               /\ hist = <<[a |-> "Init", base |-> b, sheets |-> IF b = "new_file" THEN [n EXCEPT ![1] = "Sheet1"] ELSE n]>>
          /\ file = <<>> /\ last = [op |-> "init"] /\ steps = 0

Log(rec) == steps < Depth /\ hist' = Append(hist, rec) /\ steps' = steps + 1
(* shapes of the histories that are replayed on the library:
   "sl"  operations, Save, Load;  "sls"  operations, Save, Load(lazy), two operations, Save, Load *)
Slot == CASE Shape = "sl"  -> (IF steps = Depth - 2 THEN "save" ELSE IF steps = Depth - 1 THEN "load" ELSE "op")
          [] Shape = "sls" -> (IF steps \in {Depth - 6, Depth - 2} THEN "save" ELSE IF steps = Depth - 5 THEN "lazy"
                               ELSE IF steps = Depth - 1 THEN "load" ELSE "op")
          [] OTHER -> "any"
LogB(rec) == Slot \in {"any", "op"} /\ Log(rec)
Via == IF steps % 2 = 0 THEN "path" ELSE "mem"
I2B(x) == x = 1

(* one named action per operation (TLC reports coverage per definition) *)
MCSetState      == FV /\ \E i \in Pick(Sh), v \in Pick({"hidden", "veryHidden"}) : SetState(i, v) /\ LogB([a |-> "SetState", s |-> i, v |-> v])
MCSetStateStr   == FV /\ \E i \in Pick(Sh) : SetStateStr(i, "hidden") /\ LogB([a |-> "SetStateStr", s |-> i, v |-> "hidden"])
MCSetActiveCell == FV /\ \E i \in Pick(Sh) : SetActiveCell(i, "B5") /\ LogB([a |-> "SetActiveCell", s |-> i, v |-> "B5"])
MCSetTab        == (FV \/ FM) /\ \E i \in Pick(Sh), v \in Pick({"FFFF0000", "FF00B050"}) : SetTab(i, v) /\ LogB([a |-> "SetTab", s |-> i, v |-> v])
MCClearTab      == FV /\ \E i \in Pick(Sh) : ClearTab(i) /\ LogB([a |-> "ClearTab", s |-> i])
MCSetZoom       == (FV \/ FM) /\ \E i \in Pick(Sh) : SetView(i, "zoom", 150) /\ LogB([a |-> "SetZoom", s |-> i, v |-> 150])
MCSetZoomNormal == FV /\ \E i \in Pick(Sh) : SetView(i, "zoomn", 80) /\ LogB([a |-> "SetZoomNormal", s |-> i, v |-> 80])
MCSetGrid       == FV /\ \E i \in Pick(Sh), v \in Pick({0, 1}) : SetView(i, "grid", v) /\ LogB([a |-> "SetGrid", s |-> i, v |-> I2B(v)])
MCSetMode       == FV /\ \E i \in Pick(Sh), v \in Pick({"pageBreakPreview", "normal"}) : SetView(i, "mode", v) /\ LogB([a |-> "SetMode", s |-> i, v |-> v])
MCSetTabSel     == FV /\ \E i \in Pick(Sh) : SetView(i, "tabsel", TRUE) /\ LogB([a |-> "SetTabSel", s |-> i, v |-> TRUE])
MCSetTopLeft    == FV /\ \E i \in Pick(Sh) : SetView(i, "tl", "C7") /\ LogB([a |-> "SetTopLeft", s |-> i, v |-> "C7"])
MCSetPane       == FV /\ \E i \in Pick(Sh), p \in Pick(PanePool) : SetPane(i, p) /\ LogB([a |-> "SetPane", s |-> i] @@ p)
MCAddSel        == FV /\ \E i \in Pick(Sh), x \in Pick(SelPool) : Len(V1(wb.sheets[i]).sel) < 2 /\ AddSel(i, x) /\ LogB([a |-> "AddSel", s |-> i] @@ x)
MCSetProt       == FV /\ \E i \in Pick(Sh), fl \in Pick(ProtPool) : SetProt(i, fl) /\ LogB([a |-> "SetProt", s |-> i, flags |-> fl])
MCSetProtPw     == FV /\ \E i \in Pick(Sh), tk \in Pick(TokPool) : SetProtPw(i, tk) /\ LogB([a |-> "SetProtPw", s |-> i, pw |-> "secret"])
MCClearProt     == FV /\ \E i \in Pick(Sh) : ClearProt(i) /\ LogB([a |-> "ClearProt", s |-> i])
MCSetOrient     == FP /\ \E i \in Pick(Sh), v \in Pick({"landscape", "portrait"}) : SetOrient(i, v) /\ LogB([a |-> "SetOrient", s |-> i, v |-> v])
MCSetPsNum      == FP /\ \E i \in Pick(Sh), kv \in Pick(PsNumPool) : SetPsNum(i, kv[1], kv[2]) /\ LogB([a |-> "SetPsNum", s |-> i, k |-> kv[1], v |-> kv[2]])
MCSetPo         == FP /\ \E i \in Pick(Sh), kv \in Pick(PoPool) : SetPo(i, kv[1], kv[2]) /\ LogB([a |-> "SetPo", s |-> i, k |-> kv[1], v |-> kv[2]])
MCSetPm         == FP /\ \E i \in Pick(Sh), kv \in Pick(PmPool) : SetPm(i, kv[1], kv[2]) /\ LogB([a |-> "SetPm", s |-> i, k |-> kv[1], v |-> kv[2]])
MCSetHf         == FP /\ \E i \in Pick(Sh), kv \in Pick(HfPool) : SetHf(i, kv[1], kv[2]) /\ LogB([a |-> "SetHf", s |-> i, k |-> kv[1], v |-> kv[2]])
MCSetRowHidden  == FP /\ \E i \in Pick(Sh), v \in Pick({TRUE, FALSE}) : SetRowHidden(i, 3, v) /\ LogB([a |-> "SetRowHidden", s |-> i, r |-> 3, v |-> v])
MCSetColHidden  == FP /\ \E i \in Pick(Sh), v \in Pick({TRUE, FALSE}) : SetColHidden(i, 2, v) /\ LogB([a |-> "SetColHidden", s |-> i, c |-> 2, v |-> v])
MCSetAf         == FD /\ \E i \in Pick(Sh) : SetAf(i, "A1:C10") /\ LogB([a |-> "SetAf", s |-> i, v |-> "A1:C10"])
MCClearAf       == FD /\ \E i \in Pick(Sh) : ClearAf(i) /\ LogB([a |-> "ClearAf", s |-> i])
MCAddDv         == FD /\ \E i \in Pick(Sh), d \in Pick(DvPool) : AddDv(i, d) /\ LogB([a |-> "AddDv", s |-> i] @@ d)
MCClearDvs      == FD /\ \E i \in Pick(Sh) : ClearDvs(i) /\ LogB([a |-> "ClearDvs", s |-> i])
MCAddCf         == FD /\ \E i \in Pick(Sh), x \in Pick(CfPool) : AddCf(i, x) /\ LogB([a |-> "AddCf", s |-> i] @@ x)
MCSetProp       == FD /\ \E kv \in Pick(PropPool) : SetProp(kv[1], kv[2]) /\ LogB([a |-> "SetProp", k |-> kv[1], v |-> kv[2]])
MCAddCustom     == FD /\ \E c \in Pick(CustomPool) : Len(wb.custom) < 2 /\ AddCustom(c) /\ LogB([a |-> "AddCustom"] @@ c)
MCAddSheet      == \E nm \in Pick(SheetNames) : Len(wb.sheets) < MaxSheets /\ AddSheet(nm) /\ LogB([a |-> "AddSheet", name |-> nm])
MCRename        == \E i \in Pick(Sh), nm \in Pick(SheetNames) : Rename(i, nm) /\ LogB([a |-> "Rename", s |-> i, name |-> nm])
MCRemoveSheet   == \E i \in Pick(Sh) : RemoveSheet(i) /\ LogB([a |-> "RemoveSheet", s |-> i])
MCSetActive     == \E k \in Pick(0..(MaxSheets - 1)) : SetActive(k) /\ LogB([a |-> "SetActive", i |-> k])
MCSave          == Slot \in {"any", "save"} /\ Save /\ Log([a |-> "Save", via |-> Via, light |-> (steps % 3 = 2)])
MCLoad          == /\ Slot \in {"any", "load", "lazy"}
                   /\ \E m \in Pick(IF Slot = "lazy" THEN {"lazy"} ELSE {"eager", "lazy"}) : Load(m) /\ Log([a |-> "Load", mode |-> m, via |-> Via])
MCMaterialise   == \E i \in Pick(Sh) : (Wide \/ ~wb.sheets[i].mat) /\ Materialise(i) /\ LogB([a |-> "Materialise", s |-> i])

MCNext == \/ MCSetState \/ MCSetStateStr \/ MCSetActiveCell \/ MCSetTab \/ MCClearTab \/ MCSetZoom \/ MCSetZoomNormal \/ MCSetGrid
          \/ MCSetMode \/ MCSetTabSel \/ MCSetTopLeft \/ MCSetPane \/ MCAddSel \/ MCSetProt \/ MCSetProtPw \/ MCClearProt
          \/ MCSetOrient \/ MCSetPsNum \/ MCSetPo \/ MCSetPm \/ MCSetHf \/ MCSetRowHidden \/ MCSetColHidden
          \/ MCSetAf \/ MCClearAf \/ MCAddDv \/ MCClearDvs \/ MCAddCf \/ MCSetProp \/ MCAddCustom
          \/ MCAddSheet \/ MCRename \/ MCRemoveSheet \/ MCSetActive \/ MCSave \/ MCLoad \/ MCMaterialise
MCSpec == MCInit /\ [][MCNext]_mcvars
View == <<wb, file, last, steps>>

IndependenceMC == [][IndepStep]_mcvars
ListOpsMC == [][ListStep]_mcvars
(* the observers agree with each other: what the getters show after a load is what they showed when the file was saved,
   and an independent reader of the file is told the same (P3 / P4 at the level of the projections) *)
Observers == (last.op = "load" /\ \A i \in DOMAIN wb.sheets : wb.sheets[i].mat) =>
                 (GetWb(wb) = GetWb(LoadP(file[1], "eager")) /\ EffWb(Content(wb)) = EffWb(file[1]))

Emit == (EmitReplay /\ steps = Depth) => PrintT(<<"REPLAY", ToJson(hist)>>)
=============================================================================
