CONSTANTS KeyMode = "exact" NBooks = 1 MaxRow = 1048576 MaxCol = 16384
SPECIFICATION TraceSpec
POSTCONDITION Consumed
CHECK_DEADLOCK FALSE
