---------------------------- MODULE Trace_Annot ----------------------------
(***************************************************************************)
(* Trace validation for C06.  The driver (harness/src/bin/annot.rs) builds *)
(* a workbook through the public API, step by step (one event per step,    *)
(* arguments + outcome), and at every SaveLoad step logs the projection of *)
(* the workbook before the save ("pre"), of the workbook read back from    *)
(* the written bytes ("post") and pydec/annot_view.py's independent view   *)
(* of the written file ("file").                                           *)
(*                                                                         *)
(* Building steps move the specification state by the operation's post     *)
(* operator of Annot.tla.  At a SaveLoad event                             *)
(*   1. "pre" must be the specification state (else the generator / the    *)
(*      model of a building step is wrong: <<"gen", ..>>, a tool error);   *)
(*   2. "post" must be SaveLoadP(state) and the file view must show the    *)
(*      state's sheets, hyperlinks, merges and defined names (intended);   *)
(*   3. else the enabled known-finding deviations whose trigger holds in   *)
(*      the pre-state are applied to the expectation (exact outcomes);     *)
(*   4. else <<"MISMATCH", ..>>.  After 3/4 the state follows "post".      *)
(***************************************************************************)
EXTENDS Annot, TraceBase, SequencesExt

VARIABLE l
tvars == <<wb, last, l>>

(* ------------------------------------------------ observations <-> state *)
NView(n)      == [name |-> n.name, local |-> n.local, addr |-> n.addr, hidden |-> n.hidden]
ProjSheet(sh) == [sh EXCEPT !.names = {NView(n) : n \in sh.names}]
ProjWb(w)     == [sheets |-> [i \in DOMAIN w.sheets |-> ProjSheet(w.sheets[i])], active |-> w.active,
                  names |-> {NView(n) : n \in w.names}, prot |-> w.prot]
ObsSheet(o)   == [name |-> o.name, state |-> o.state, code |-> o.code, merges |-> ToSet(o.merges), links |-> ToSet(o.links),
                  comments |-> ToSet(o.comments), dvs |-> ToSet(o.dvs), cfs |-> ToSet(o.cfs), af |-> o.af, tab |-> o.tab,
                  views |-> o.views, ps |-> o.ps, hf |-> o.hf, prot |-> o.prot, names |-> ToSet(o.names)]
ObsWb(o)      == [sheets |-> [i \in DOMAIN o.sheets |-> ObsSheet(o.sheets[i])], active |-> o.active,
                  names |-> ToSet(o.names), prot |-> o.prot]
(* the code name of a sheet is carried (it shares the sheetPr element with the tab colour) but is not part of the   *)
(* property: it is left out of the comparison of the reloaded workbook and then follows the observation           *)
NoCode(pw)      == [pw EXCEPT !.sheets = [i \in DOMAIN @ |-> [@[i] EXCEPT !.code = <<>>]]]
WithCode(w, pw) == [w EXCEPT !.sheets = [i \in DOMAIN @ |-> [@[i] EXCEPT !.code = pw.sheets[i].code]]]
(* nothing listed twice *)
NoDupSheet(o) == /\ Len(o.merges) = Cardinality(ToSet(o.merges)) /\ Len(o.links) = Cardinality(ToSet(o.links))
                 /\ Len(o.comments) = Cardinality(ToSet(o.comments)) /\ Len(o.dvs) = Cardinality(ToSet(o.dvs))
                 /\ Len(o.cfs) = Cardinality(ToSet(o.cfs)) /\ Len(o.names) = Cardinality(ToSet(o.names))
                 /\ Cardinality({x.cell : x \in ToSet(o.links)}) = Len(o.links)
                 /\ Cardinality({<<x.r, x.c>> : x \in ToSet(o.comments)}) = Len(o.comments)
NoDup(o)      == /\ \A i \in DOMAIN o.sheets : NoDupSheet(o.sheets[i])
                 /\ Len(o.names) = Cardinality(ToSet(o.names))
(* follow an observation; the sheet a name designates is taken from the name it came from *)
RefOf(v, w) == LET same == {n \in AllNames(w) : NView(n) = v}
                   addr == {n \in AllNames(w) : n.addr = v.addr}
               IN IF same # {} THEN (CHOOSE n \in same : TRUE).ref
                  ELSE IF addr # {} THEN (CHOOSE n \in addr : TRUE).ref ELSE ""
WithRef(v, w) == [name |-> v.name, local |-> v.local, ref |-> RefOf(v, w), addr |-> v.addr, hidden |-> v.hidden]
Resync(o, w) ==
  LET ow == ObsWb(o) IN
  [sheets |-> [i \in DOMAIN ow.sheets |-> [ow.sheets[i] EXCEPT !.names = {WithRef(v, w) : v \in ow.sheets[i].names}]],
   active |-> ow.active, names |-> {WithRef(v, w) : v \in ow.names}, prot |-> ow.prot]

(* ------------------------------------------------- texts, looked into *)
(* e.chars: [{s: text, c: <<one-character strings>>}]; an entry is used only if c spells s *)
RECURSIVE Join(_, _)
Join(q, k) == IF k > Len(q) THEN "" ELSE q[k] \o Join(q, k + 1)
Spelling(e, s) == LET hit == {k \in DOMAIN e.chars : e.chars[k].s = s} IN
                  IF hit = {} THEN <<>> ELSE LET c == e.chars[CHOOSE k \in hit : TRUE].c IN IF Join(c, 1) = s THEN c ELSE <<>>
EscChar(ch) == CASE ch = "&" -> "&amp;" [] ch = "<" -> "&lt;" [] ch = ">" -> "&gt;" [] ch = "\"" -> "&quot;"
                 [] ch = "'" -> "&apos;" [] OTHER -> ch
(* the XML-escaped form of s (s itself when its spelling is not known) *)
Esc(e, s) == LET c == Spelling(e, s) IN IF c = <<>> THEN s ELSE Join([k \in DOMAIN c |-> EscChar(c[k])], 1)
Blank == {" ", "\t", "\r", "\n"}
(* s without leading and trailing blanks *)
Trim(e, s) == LET c == Spelling(e, s) IN
              IF c = <<>> THEN s
              ELSE LET ink == {k \in DOMAIN c : c[k] \notin Blank} IN
                   IF ink = {} THEN ""
                   ELSE Join(SubSeq(c, CHOOSE k \in ink : \A j \in ink : k <= j, CHOOSE k \in ink : \A j \in ink : k >= j), 1)

(* --------------------------------------------------- known findings *)
Ext(links) == {x \in links : ~x.loc}
(* C06-KF1: r:ids of the sheet part and Ids of the rels part come from two separately seeded hash maps *)
KF1Trig(sh) == Cardinality({x.url : x \in Ext(sh.links)}) >= 2
(* F is L with the targets of the external links permuted *)
PermOK(F, L) == /\ {[cell |-> x.cell, loc |-> x.loc] : x \in F} = {[cell |-> x.cell, loc |-> x.loc] : x \in L}
                /\ Cardinality(F) = Cardinality(L)
                /\ {x \in F : x.loc} = {x \in L : x.loc}
                /\ \A u \in {x.url : x \in Ext(F) \cup Ext(L)} :
                      Cardinality({x \in Ext(F) : x.url = u}) = Cardinality({x \in Ext(L) : x.url = u})
(* C06-KF2: attribute values are escaped by the writer and not unescaped by the reader *)
AttrTexts(w) ==
  UNION { {x.url : x \in w.sheets[i].links}
          \cup UNION {{d.ptitle, d.prompt, d.etitle, d.emsg} : d \in w.sheets[i].dvs}
          \cup UNION {{p.alg, p.hash, p.salt, p.legacy} : p \in ToSet(w.sheets[i].prot)}
          : i \in DOMAIN w.sheets }
  \cup {n.name : n \in AllNames(w)}
  \cup UNION {{p.alg, p.hash, p.salt, p.legacy, p.ralg, p.rhash, p.rsalt} : p \in ToSet(w.prot)}
(* C06-KF3: an empty comment author is read back as the text seen last *)
KF3Trig(sh) == \E c \in sh.comments : c.author = ""
StaleOf(sh, osh) == LET hits == {o \in osh.comments : \E c \in sh.comments : c.author = "" /\ o.r = c.r /\ o.c = c.c}
                    IN IF hits = {} THEN "" ELSE (CHOOSE o \in hits : TRUE).author
StaleAllowed(sh, x) == x = "\r\n" \/ x \in ({c.author : c \in sh.comments} \ {""})
(* C06-KF4: header / footer text is read with surrounding blanks trimmed *)
KF4Trig(e, sh) == Trim(e, sh.hf.h) # sh.hf.h \/ Trim(e, sh.hf.f) # sh.hf.f

Trig(e, k) ==
  CASE k = "KF1" -> \E i \in DOMAIN wb.sheets : KF1Trig(wb.sheets[i])
    [] k = "KF2" -> \E s \in AttrTexts(wb) : Esc(e, s) # s
    [] k = "KF3" -> \E i \in DOMAIN wb.sheets : KF3Trig(wb.sheets[i])
    [] k = "KF4" -> \E i \in DOMAIN wb.sheets : KF4Trig(e, wb.sheets[i])
Kon(e) == {k \in {"KF1", "KF2", "KF3", "KF4"} : KFOn("C06-" \o k) /\ Trig(e, k)}

FileLinks(e, i) == IF i \in DOMAIN e.file.sheets THEN ToSet(e.file.sheets[i].links) ELSE {}
EscProt(e, p) == [p EXCEPT !.alg = Esc(e, @), !.hash = Esc(e, @), !.salt = Esc(e, @), !.legacy = Esc(e, @)]
(* the sheet `sh` (of the intended result) as the deviations K leave it; osh: the observed sheet (KF3 only) *)
DevSheet(sh, e, K, i, osh) ==
  LET links0 == IF "KF1" \in K /\ KF1Trig(sh) THEN FileLinks(e, i) ELSE sh.links
      stale  == StaleOf(sh, osh)
  IN [sh EXCEPT
        !.links    = IF "KF2" \in K THEN {[x EXCEPT !.url = Esc(e, @)] : x \in links0} ELSE links0,
        !.comments = IF "KF3" \in K /\ KF3Trig(sh) /\ StaleAllowed(sh, stale)
                     THEN {[c EXCEPT !.author = IF @ = "" THEN stale ELSE @] : c \in @} ELSE @,
        !.dvs      = IF "KF2" \in K
                     THEN {[d EXCEPT !.ptitle = Esc(e, @), !.prompt = Esc(e, @), !.etitle = Esc(e, @), !.emsg = Esc(e, @)] : d \in @}
                     ELSE @,
        !.prot     = IF "KF2" \in K THEN [k \in DOMAIN @ |-> EscProt(e, @[k])] ELSE @,
        !.hf       = IF "KF4" \in K THEN [h |-> Trim(e, @.h), f |-> Trim(e, @.f)] ELSE @,
        !.names    = IF "KF2" \in K THEN {[n EXCEPT !.name = Esc(e, @)] : n \in @} ELSE @ ]
Dev(w, e, K, ow) ==
  [ sheets |-> [i \in DOMAIN w.sheets |->
                  DevSheet(w.sheets[i], e, K, i, IF i \in DOMAIN ow.sheets THEN ow.sheets[i] ELSE ProjSheet(w.sheets[i]))],
    active |-> w.active,
    names  |-> IF "KF2" \in K THEN {[n EXCEPT !.name = Esc(e, @)] : n \in w.names} ELSE w.names,
    prot   |-> IF "KF2" \in K
               THEN [k \in DOMAIN w.prot |-> [EscProt(e, w.prot[k]) EXCEPT !.ralg = Esc(e, @), !.rhash = Esc(e, @), !.rsalt = Esc(e, @)]]
               ELSE w.prot ]

(* the independent view of the written file against the pre-state w *)
FileSheetOK(f, sh, K) ==
  /\ f.name = sh.name /\ f.state = sh.state /\ f.badrid = 0
  /\ ToSet(f.merges) = sh.merges /\ Len(f.merges) = Cardinality(sh.merges)
  /\ Len(f.links) = Cardinality(sh.links)
  /\ IF "KF1" \in K /\ KF1Trig(sh) THEN PermOK(ToSet(f.links), sh.links) ELSE ToSet(f.links) = sh.links
FileOK(e, w, K) ==
  /\ e.file.wellformed
  /\ Len(e.file.sheets) = Len(w.sheets)
  /\ \A i \in DOMAIN w.sheets : FileSheetOK(e.file.sheets[i], w.sheets[i], K)
  /\ e.file.active = w.active
  /\ ToSet(e.file.names) = {NView(n) : n \in AllNames(w)} /\ Len(e.file.names) = Cardinality(AllNames(w))
FileDiff(e, w, K) ==
  IF ~e.file.wellformed THEN <<"not well-formed / unreadable">>
  ELSE IF Len(e.file.sheets) # Len(w.sheets) THEN <<"sheet count", Len(w.sheets), Len(e.file.sheets)>>
  ELSE IF e.file.active # w.active THEN <<"activeTab", w.active, e.file.active>>
  ELSE IF ToSet(e.file.names) # {NView(n) : n \in AllNames(w)} \/ Len(e.file.names) # Cardinality(AllNames(w))
       THEN <<"definedNames", "expected", {NView(n) : n \in AllNames(w)}, "in file", e.file.names>>
  ELSE LET bad == {i \in DOMAIN w.sheets : ~FileSheetOK(e.file.sheets[i], w.sheets[i], K)} IN
       IF bad = {} THEN <<"ok">>
       ELSE LET i == MinOf(bad) IN
            <<"sheet", i, "name/state", e.file.sheets[i].name, e.file.sheets[i].state, "merges", e.file.sheets[i].merges,
              "links missing", w.sheets[i].links \ ToSet(e.file.sheets[i].links),
              "links unexpected", ToSet(e.file.sheets[i].links) \ w.sheets[i].links>>

(* ------------------------------------------------------------- reporting *)
SheetFields == {"name", "state", "merges", "links", "comments", "dvs", "cfs", "af", "tab", "views", "ps", "hf", "prot", "names"}
SetFields   == {"merges", "links", "comments", "dvs", "cfs", "names"}
Diff(want, got) ==
  IF Len(want.sheets) # Len(got.sheets) THEN <<"sheet count", Len(want.sheets), Len(got.sheets)>>
  ELSE IF want.active # got.active THEN <<"active tab", want.active, got.active>>
  ELSE IF want.names # got.names
       THEN <<"workbook-level names", "missing", want.names \ got.names, "unexpected", got.names \ want.names>>
  ELSE IF want.prot # got.prot THEN <<"workbook protection", "expected", want.prot, "observed", got.prot>>
  ELSE LET bad == {i \in DOMAIN want.sheets : want.sheets[i] # got.sheets[i]} IN
       IF bad = {} THEN <<"equal">>
       ELSE LET i  == MinOf(bad)
                fs == {f \in SheetFields : want.sheets[i][f] # got.sheets[i][f]}
                f  == CHOOSE x \in fs : TRUE
            IN IF f \in SetFields
               THEN <<"sheet", i, fs, f, "missing", want.sheets[i][f] \ got.sheets[i][f],
                      "unexpected", got.sheets[i][f] \ want.sheets[i][f]>>
               ELSE <<"sheet", i, fs, f, "expected", want.sheets[i][f], "observed", got.sheets[i][f]>>

(* ---------------------------------------------------------- building steps *)
DvKeys   == {"sqref", "type", "op", "blank", "showin", "showerr", "ptitle", "prompt", "etitle", "emsg", "f1", "f2"}
PsKeys   == {"paper", "orient", "scale", "fith", "fitw", "hdpi", "vdpi"}
FlagKeys == {"sheet", "objects", "scenarios", "formatCells", "formatColumns", "formatRows", "insertColumns", "insertRows",
             "insertHyperlinks", "deleteColumns", "deleteRows", "selectLocked", "selectUnlocked", "sort", "autoFilter", "pivotTables"}
WbProtKeys == {"lockStructure", "lockWindows", "lockRevision", "alg", "hash", "salt", "spin", "legacy", "ralg", "rhash", "rsalt", "rspin"}
NameOf(e) == [name |-> e.name, local |-> e.local, ref |-> e.ref, addr |-> e.canon, hidden |-> e.hidden]
ProtOf(e) == [k \in FlagKeys |-> IF k \in DOMAIN e.flags THEN e.flags[k] ELSE FALSE]
             @@ [alg |-> e.alg, hash |-> e.hash, salt |-> e.salt, spin |-> e.spin, legacy |-> e.legacy]
ViewOf(e) == [pane |-> e.pane, sel |-> e.sel, tl |-> e.tl, tabsel |-> e.tabsel]
CfOf(e)   == [sqref |-> e.sqref, rules |-> e.rules]

SheetOps == {"Rename", "RemoveSheet", "SetState", "AddMerge", "AddLink", "AddComment", "AddDv", "AddCf", "SetAf", "SetTab", "SetCodeName",
             "SetView", "SetPageSetup", "SetHf", "SetProt"}
InContract(e) ==
  /\ e.a \in SheetOps \cup {"AddSheet", "SetActive", "AddName", "SetWbProt", "SetMacros"}
  /\ (e.a \in SheetOps => e.s \in DOMAIN wb.sheets)
  /\ CASE e.a = "RemoveSheet" -> CanRemoveSheet(wb, e.s)
       [] e.a = "Rename"      -> CanRename(wb, e.s)
       [] e.a = "AddMerge"    -> CanAddMerge(wb, e.s, e.range)
       [] e.a = "AddComment"  -> CanAddComment(wb, e.s, e.r, e.c)
       [] e.a = "AddName"     -> CanAddName(wb, e.home, NameOf(e))
       [] e.a = "AddDv"       -> CanAddDv(wb, e.s, [k \in DvKeys |-> e[k]])
       [] e.a = "AddCf"       -> CanAddCf(wb, e.s, CfOf(e))
       [] e.a = "SetProt"     -> wb.sheets[e.s].prot = <<>>
       [] e.a = "SetWbProt"   -> wb.prot = <<>>
       [] OTHER               -> TRUE
ExpOutcome(e) == IF e.a \in {"AddSheet", "Rename"} /\ NameUsed(wb, e.name) THEN "err" ELSE "ok"
Post(e) ==
  CASE e.a = "AddSheet"     -> AddSheetP(wb, e.name)
    [] e.a = "Rename"       -> RenameP(wb, e.s, e.name)
    [] e.a = "RemoveSheet"  -> RemoveSheetP(wb, e.s)
    [] e.a = "SetState"     -> SetStateP(wb, e.s, e.state)
    [] e.a = "SetActive"    -> SetActiveP(wb, e.i)
    [] e.a = "AddMerge"     -> AddMergeP(wb, e.s, e.range)
    [] e.a = "AddLink"      -> AddLinkP(wb, e.s, e.cell, e.url, e.loc, e.tip)
    [] e.a = "AddComment"   -> AddCommentP(wb, e.s, e.r, e.c, e.author, CatRuns(e.runs, 1))
    [] e.a = "SetCodeName"  -> SetCodeP(wb, e.s, e.code)
    [] e.a = "SetMacros"    -> wb          \* (a workbook with macros: every sheet is written with a code name; not modelled further)
    [] e.a = "AddName"      -> AddNameP(wb, e.home, NameOf(e))
    [] e.a = "AddDv"        -> AddDvP(wb, e.s, [k \in DvKeys |-> e[k]])
    [] e.a = "AddCf"        -> AddCfP(wb, e.s, CfOf(e))
    [] e.a = "SetAf"        -> SetAfP(wb, e.s, e.range)
    [] e.a = "SetTab"       -> SetTabP(wb, e.s, e.argb)
    [] e.a = "SetView"      -> AddViewP(wb, e.s, ViewOf(e))
    [] e.a = "SetPageSetup" -> SetPsP(wb, e.s, [k \in PsKeys |-> e[k]])
    [] e.a = "SetHf"        -> SetHfP(wb, e.s, e.h, e.f)
    [] e.a = "SetProt"      -> SetProtP(wb, e.s, ProtOf(e))
    [] e.a = "SetWbProt"    -> SetWbProtP(wb, [k \in WbProtKeys |-> e[k]])

(* ------------------------------------------------------------ save + load *)
CanonQ(w)  == [i \in DOMAIN w.sheets |-> SetToSeq(LinkCells(w.sheets[i]))]
CanonAU(w) == [i \in DOMAIN w.sheets |-> SetToSeq(AuthorsOf(w.sheets[i]))]
Want == SaveLoadP(wb, CanonQ(wb), CanonQ(wb), CanonAU(wb))        \* ONE enumeration order: the intended design

SaveLoadStep(e) ==
  IF ~(NoDup(e.pre) /\ ObsWb(e.pre) = ProjWb(wb))
  THEN /\ wb' = Resync(IF e.outcome = "ok" THEN e.post ELSE e.pre, wb)
       /\ Mismatch(l, <<"gen", "pre-state", Diff(ProjWb(wb), ObsWb(e.pre))>>)
  ELSE IF e.outcome # "ok"
  THEN wb' = wb /\ Mismatch(l, <<"impl", "SaveLoad", e.outcome>>)
  ELSE
  LET want  == Want
      post  == ObsWb(e.post)
      sound == NoDup(e.post) /\ e.post.activeOk = e.pre.activeOk /\ e.post.activeName = e.pre.activeName
  IN IF sound /\ FileOK(e, wb, {}) /\ NoCode(post) = NoCode(ProjWb(want))
     THEN wb' = WithCode(want, post)
     ELSE LET K    == Kon(e)
              exp  == NoCode(ProjWb(Dev(want, e, K, post)))
              used == {k \in K : NoCode(ProjWb(Dev(want, e, K \ {k}, post))) # exp \/ ~FileOK(e, wb, K \ {k})}
          IN /\ wb' = Resync(e.post, want)
             /\ IF K # {} /\ sound /\ FileOK(e, wb, K) /\ NoCode(post) = exp
                THEN \A k \in used : KFHit("C06-" \o k, l)
                ELSE Mismatch(l, <<"impl", "SaveLoad", IF ~sound THEN <<"duplicate item or active sheet", e.pre.activeName, e.post.activeName>>
                                                      ELSE IF ~FileOK(e, wb, K) THEN <<"file", FileDiff(e, wb, K)>>
                                                      ELSE Diff(exp, NoCode(post)), "deviations tried", K>>)

Ev == Rec[l]
Step(e) ==
  IF e.a = "Fatal" THEN wb' = wb /\ Mismatch(l, <<"impl", "fatal", e.outcome>>)
  ELSE IF e.a = "Init"
  THEN /\ wb' = InitWb(e.sheets)
       /\ IF e.outcome = "ok" THEN TRUE ELSE Mismatch(l, <<"gen", "Init", e.outcome>>)
  ELSE IF e.a = "SaveLoad" THEN SaveLoadStep(e)
  ELSE IF ~InContract(e) THEN wb' = wb /\ Mismatch(l, <<"gen", e.a, "out of contract">>)
  ELSE /\ wb' = Post(e)
       /\ IF e.outcome = ExpOutcome(e) THEN TRUE ELSE Mismatch(l, <<"gen", e.a, "outcome", e.outcome>>)

TraceInit == l = 1 /\ wb = EmptyWb /\ last = [op |-> "init"]
TraceNext == l <= Len(Rec) /\ l' = l + 1 /\ Step(Ev) /\ UNCHANGED last
TraceSpec == TraceInit /\ [][TraceNext]_tvars
=============================================================================
