CONSTANTS Home = "pos" TabNo = "fresh" Chart = "cached" Perm = FALSE Depth = 3 MaxEdits = 2 Shapes = "all" Wide = FALSE EmitReplay = FALSE
SPECIFICATION MCSpec
VIEW StateView
INVARIANTS LazyEqEager SaveProps SaveWorks
PROPERTY AccessMonotone
CHECK_DEADLOCK FALSE
