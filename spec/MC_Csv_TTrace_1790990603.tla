---- MODULE MC_Csv_TTrace_1790990603 ----
EXTENDS Sequences, TLCExt, Toolbox, Naturals, TLC, MC_Csv

_expression ==
    LET MC_Csv_TEExpression == INSTANCE MC_Csv_TEExpression
    IN MC_Csv_TEExpression!expression
----

_trace ==
    LET MC_Csv_TETrace == INSTANCE MC_Csv_TETrace
    IN MC_Csv_TETrace!trace
----

_inv ==
    ~(
        TLCGet("level") = Len(_TETrace)
        /\
        hist = (<<>>)
        /\
        opt = ([trim |-> FALSE, wrap |-> 0])
        /\
        pc = ("eot")
        /\
        ps = ([mode |-> "sof", cr |-> FALSE, field |-> <<>>, rec |-> <<>>, recs |-> <<<<<<>>>>, <<<<98>>>>>>, wf |-> TRUE])
        /\
        bytes = ([text |-> <<>>, enc |-> ""])
        /\
        w = ([r |-> 0, c |-> 0, k |-> 0, ph |-> "eof"])
        /\
        book = (<<(<<1, 1>> :> <<10, 98>>)>>)
        /\
        active = (1)
        /\
        enc = ("")
        /\
        out = (<<10, 98, 13, 10>>)
    )
----

_init ==
    /\ active = _TETrace[1].active
    /\ out = _TETrace[1].out
    /\ w = _TETrace[1].w
    /\ pc = _TETrace[1].pc
    /\ ps = _TETrace[1].ps
    /\ hist = _TETrace[1].hist
    /\ book = _TETrace[1].book
    /\ enc = _TETrace[1].enc
    /\ opt = _TETrace[1].opt
    /\ bytes = _TETrace[1].bytes
----

_next ==
    /\ \E i,j \in DOMAIN _TETrace:
        /\ \/ /\ j = i + 1
              /\ i = TLCGet("level")
        /\ active  = _TETrace[i].active
        /\ active' = _TETrace[j].active
        /\ out  = _TETrace[i].out
        /\ out' = _TETrace[j].out
        /\ w  = _TETrace[i].w
        /\ w' = _TETrace[j].w
        /\ pc  = _TETrace[i].pc
        /\ pc' = _TETrace[j].pc
        /\ ps  = _TETrace[i].ps
        /\ ps' = _TETrace[j].ps
        /\ hist  = _TETrace[i].hist
        /\ hist' = _TETrace[j].hist
        /\ book  = _TETrace[i].book
        /\ book' = _TETrace[j].book
        /\ enc  = _TETrace[i].enc
        /\ enc' = _TETrace[j].enc
        /\ opt  = _TETrace[i].opt
        /\ opt' = _TETrace[j].opt
        /\ bytes  = _TETrace[i].bytes
        /\ bytes' = _TETrace[j].bytes

\* Uncomment the ASSUME below to write the states of the error trace
\* to the given file in Json format. Note that you can pass any tuple
\* to `JsonSerialize`. For example, a sub-sequence of _TETrace.
    \* ASSUME
    \*     LET J == INSTANCE Json
    \*         IN J!JsonSerialize("MC_Csv_TTrace_1790990603.json", _TETrace)

=============================================================================

 Note that you can extract this module `MC_Csv_TEExpression`
  to a dedicated file to reuse `expression` (the module in the 
  dedicated `MC_Csv_TEExpression.tla` file takes precedence 
  over the module `MC_Csv_TEExpression` below).

---- MODULE MC_Csv_TEExpression ----
EXTENDS Sequences, TLCExt, Toolbox, Naturals, TLC, MC_Csv

expression == 
    [
        \* To hide variables of the `MC_Csv` spec from the error trace,
        \* remove the variables below.  The trace will be written in the order
        \* of the fields of this record.
        active |-> active
        ,out |-> out
        ,w |-> w
        ,pc |-> pc
        ,ps |-> ps
        ,hist |-> hist
        ,book |-> book
        ,enc |-> enc
        ,opt |-> opt
        ,bytes |-> bytes
        
        \* Put additional constant-, state-, and action-level expressions here:
        \* ,_stateNumber |-> _TEPosition
        \* ,_activeUnchanged |-> active = active'
        
        \* Format the `active` variable as Json value.
        \* ,_activeJson |->
        \*     LET J == INSTANCE Json
        \*     IN J!ToJson(active)
        
        \* Lastly, you may build expressions over arbitrary sets of states by
        \* leveraging the _TETrace operator.  For example, this is how to
        \* count the number of times a spec variable changed up to the current
        \* state in the trace.
        \* ,_activeModCount |->
        \*     LET F[s \in DOMAIN _TETrace] ==
        \*         IF s = 1 THEN 0
        \*         ELSE IF _TETrace[s].active # _TETrace[s-1].active
        \*             THEN 1 + F[s-1] ELSE F[s-1]
        \*     IN F[_TEPosition - 1]
    ]

=============================================================================



Parsing and semantic processing can take forever if the trace below is long.
 In this case, it is advised to uncomment the module below to deserialize the
 trace from a generated binary file.

\*
\*---- MODULE MC_Csv_TETrace ----
\*EXTENDS IOUtils, TLC, MC_Csv
\*
\*trace == IODeserialize("MC_Csv_TTrace_1790990603.bin", TRUE)
\*
\*=============================================================================
\*

---- MODULE MC_Csv_TETrace ----
EXTENDS TLC, MC_Csv

trace == 
    <<
    ([hist |-> <<>>,opt |-> [trim |-> FALSE, wrap |-> 0],pc |-> "build",ps |-> [mode |-> "sof", cr |-> FALSE, field |-> <<>>, rec |-> <<>>, recs |-> <<>>, wf |-> TRUE],bytes |-> [text |-> <<>>, enc |-> ""],w |-> [r |-> 0, c |-> 0, k |-> 0, ph |-> "eof"],book |-> <<<<>>>>,active |-> 1,enc |-> "",out |-> <<>>]),
    ([hist |-> <<>>,opt |-> [trim |-> FALSE, wrap |-> 0],pc |-> "build",ps |-> [mode |-> "sof", cr |-> FALSE, field |-> <<>>, rec |-> <<>>, recs |-> <<>>, wf |-> TRUE],bytes |-> [text |-> <<>>, enc |-> ""],w |-> [r |-> 0, c |-> 0, k |-> 0, ph |-> "eof"],book |-> <<(<<1, 1>> :> <<10, 98>>)>>,active |-> 1,enc |-> "",out |-> <<>>]),
    ([hist |-> <<>>,opt |-> [trim |-> FALSE, wrap |-> 0],pc |-> "write",ps |-> [mode |-> "sof", cr |-> FALSE, field |-> <<>>, rec |-> <<>>, recs |-> <<>>, wf |-> TRUE],bytes |-> [text |-> <<>>, enc |-> ""],w |-> [r |-> 1, c |-> 1, k |-> 1, ph |-> "body"],book |-> <<(<<1, 1>> :> <<10, 98>>)>>,active |-> 1,enc |-> "",out |-> <<>>]),
    ([hist |-> <<>>,opt |-> [trim |-> FALSE, wrap |-> 0],pc |-> "write",ps |-> [mode |-> "sof", cr |-> FALSE, field |-> <<>>, rec |-> <<>>, recs |-> <<<<<<>>>>>>, wf |-> TRUE],bytes |-> [text |-> <<>>, enc |-> ""],w |-> [r |-> 1, c |-> 1, k |-> 2, ph |-> "body"],book |-> <<(<<1, 1>> :> <<10, 98>>)>>,active |-> 1,enc |-> "",out |-> <<10>>]),
    ([hist |-> <<>>,opt |-> [trim |-> FALSE, wrap |-> 0],pc |-> "write",ps |-> [mode |-> "unq", cr |-> FALSE, field |-> <<98>>, rec |-> <<>>, recs |-> <<<<<<>>>>>>, wf |-> TRUE],bytes |-> [text |-> <<>>, enc |-> ""],w |-> [r |-> 1, c |-> 1, k |-> 3, ph |-> "body"],book |-> <<(<<1, 1>> :> <<10, 98>>)>>,active |-> 1,enc |-> "",out |-> <<10, 98>>]),
    ([hist |-> <<>>,opt |-> [trim |-> FALSE, wrap |-> 0],pc |-> "write",ps |-> [mode |-> "sof", cr |-> FALSE, field |-> <<>>, rec |-> <<>>, recs |-> <<<<<<>>>>, <<<<98>>>>>>, wf |-> TRUE],bytes |-> [text |-> <<>>, enc |-> ""],w |-> [r |-> 0, c |-> 0, k |-> 0, ph |-> "eof"],book |-> <<(<<1, 1>> :> <<10, 98>>)>>,active |-> 1,enc |-> "",out |-> <<10, 98, 13, 10>>]),
    ([hist |-> <<>>,opt |-> [trim |-> FALSE, wrap |-> 0],pc |-> "eot",ps |-> [mode |-> "sof", cr |-> FALSE, field |-> <<>>, rec |-> <<>>, recs |-> <<<<<<>>>>, <<<<98>>>>>>, wf |-> TRUE],bytes |-> [text |-> <<>>, enc |-> ""],w |-> [r |-> 0, c |-> 0, k |-> 0, ph |-> "eof"],book |-> <<(<<1, 1>> :> <<10, 98>>)>>,active |-> 1,enc |-> "",out |-> <<10, 98, 13, 10>>])
    >>
----


=============================================================================

---- CONFIG MC_Csv_TTrace_1790990603 ----
CONSTANTS
    NSheets = 1
    MaxR = 2
    MaxC = 2
    MaxCells = 1
    FreeLen = 0
    Escape = FALSE
    Overwrite = FALSE
    Record = FALSE
    Values <- PaletteValues
    FreeAlphabet <- NoFree

INVARIANT
    _inv

CHECK_DEADLOCK
    \* CHECK_DEADLOCK off because of PROPERTY or INVARIANT above.
    FALSE

INIT
    _init

NEXT
    _next

CONSTANT
    _TETrace <- _trace

ALIAS
    _expression
=============================================================================
\* Generated on Sat Oct 03 01:23:26 UTC 2026