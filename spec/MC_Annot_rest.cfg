CONSTANTS Depth = 3 MaxSheets = 2 Pairing = "one" Family = "rest" Wide = FALSE EmitReplay = FALSE
SPECIFICATION MCSpec
VIEW View
INVARIANTS WellFormed HomedAfterLoad
PROPERTY AnnotationsKeptMC
CHECK_DEADLOCK FALSE
