\* quick: numbers with <= 4 integer and 2 fraction digits in blocks of 40 around the rounding, padding, grouping and
\* scaling boundaries, both signs, under every catalogue format
CONSTANTS I = 4 F = 2 KMax = 4 Block = 20
CONSTANTS Catalogue <- MCCatalogue Starts <- QuickStarts MCDev = {}
SPECIFICATION Spec2
INVARIANTS TypeOK2 CatalogueOK OneSection NumValue Placeholders Grouping LiteralsKept NegByPosition AutoMinus SciValue SciZero FracValue Calendar ClockOK DateOut
CHECK_DEADLOCK FALSE
