---- MODULE MC_NumFmt ----
EXTENDS NumFmt
====
