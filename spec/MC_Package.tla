----------------------------- MODULE MC_Package -----------------------------
(* Bounded instance of Package.tla.  Workbooks of at most MaxSheets sheets are built by histories of Depth    *)
(* public operations drawn from small pools that contain every object kind the writer numbers or links        *)
(* (external / internal hyperlinks, comments, tables, images, charts, conditional formats, macro payload,     *)
(* removed / renamed sheets, shared and repeated strings, styled cells).  In every reachable state TLC saves  *)
(* the workbook the way the design says, for every enumeration order of the hyperlinks, and checks PackageOK  *)
(* and DecodedEqualsModel on the result.  With EmitReplay every history (ending in a Save) is printed as a    *)
(* REPLAY line; those behaviours are executed on the real library.                                            *)
EXTENDS Package, Json

CONSTANTS MaxSheets, Depth, Rich, EmitReplay, Wide

VARIABLES wb, steps, saved, hist
mcvars == <<wb, steps, saved, hist>>

Cell(r, c, k, v, f, sty) == [r |-> r, c |-> c, k |-> k, v |-> v, f |-> f, sm |-> "", sty |-> sty]
Link(r, c, url, loc, tip) == [r |-> r, c |-> c, url |-> url, loc |-> loc, tip |-> tip]
Rect(r1, c1, r2, c2) == [r1 |-> r1, c1 |-> c1, r2 |-> r2, c2 |-> c2]

NamePool == IF Rich THEN {"S1", "My <&> 'Sh'", "Q"} ELSE {"S1", "Q"}
CellPool == IF Rich
            THEN {Cell(1, 1, "text", "a", "", ""), Cell(1, 2, "text", "b & <c>", "", "0.00"), Cell(2, 2, "text", "a", "", ""),
                  Cell(2, 1, "num", "3ff8000000000000", "", "0.00"), Cell(3, 1, "text", "x", "\"x\"", ""),
                  Cell(MaxRow, MaxCol, "bool", "TRUE", "", "yyyy")}
            ELSE {Cell(1, 1, "text", "a", "", ""), Cell(2, 2, "text", "a", "", "0.00"), Cell(2, 1, "num", "3ff8000000000000", "", "")}
LinkPool == IF Rich
            THEN {Link(4, 1, "http://a.example/?x=1&y=2", FALSE, ""), Link(4, 2, "http://b.example/", FALSE, ""),
                  Link(5, 1, "http://c.example/", FALSE, ""), Link(4, 3, "S1!A1", TRUE, "")}
            ELSE {Link(4, 1, "http://a.example/", FALSE, ""), Link(4, 2, "http://b.example/", FALSE, ""), Link(4, 3, "S1!A1", TRUE, "")}
ImgPool  == {[name |-> "sample1.png", ext |-> "png", extl |-> "png"], [name |-> "sample2.png", ext |-> "png", extl |-> "png"]}
TablePool == {"T1", "T2"}
(* what the style of a conditional-format rule formats with, by the kind the driver builds (package.rs "CondFmt") *)
Fmt(font, fg, border, numfmt, prot) == [has |-> TRUE, font |-> font, fg |-> fg, bg |-> "", border |-> border, numfmt |-> numfmt, prot |-> prot]
KindFmt == [none |-> NoFmt, empty |-> Fmt("", "", "", "", FALSE), numfmt |-> Fmt("", "", "", "0.00", FALSE),
            prot |-> Fmt("", "", "", "", TRUE), font |-> Fmt("b", "", "", "", FALSE), fontn |-> Fmt("n", "", "", "", FALSE),
            fillr |-> Fmt("", "FFFF0000", "", "", FALSE), fillg |-> Fmt("", "FF00FF00", "", "", FALSE),
            border |-> Fmt("", "", "thin", "", FALSE), all |-> Fmt("b", "FF0000FF", "thin", "0.00", FALSE)]
(* conditional formats: every kind alone first in its save (an empty / number-format-only / protection-only style as
   the first differential format), two rules with an equal style, mixed kinds *)
RulePool == IF Rich THEN << <<"empty">>, <<"numfmt">>, <<"prot">>, <<"font">>, <<"fillr">>, <<"border">>, <<"none", "fillg">>,
                            <<"fillr", "empty", "fillr">>, <<"all", "numfmt", "fontn">> >>
            ELSE << <<"empty">>, <<"fillr", "numfmt">>, <<"font", "fillr">> >>

Pick(S) == IF Wide THEN {RandomElement(S)} ELSE S

Log(rec) == hist' = Append(hist, rec) /\ steps' = steps + 1 /\ saved' = saved
Sh == DOMAIN wb.sheets

AddSheet == \E n \in Pick(NamePool) : /\ Len(wb.sheets) < MaxSheets /\ ~HasSheetNamed(wb, n)
                                     /\ wb' = Post_AddSheet(wb, n) /\ Log([a |-> "AddSheet", name |-> n])
RemoveSheet == \E s \in Pick(Sh) : /\ Len(wb.sheets) >= 2
                                  /\ wb' = Post_RemoveSheet(wb, s) /\ Log([a |-> "RemoveSheet", s |-> s])
RenameSheet == \E s \in Pick(Sh), n \in Pick(NamePool) : /\ ~HasSheetNamed(wb, n) /\ wb.sheets[s].charts = 0 /\ wb.sheets[s].names = <<>>
                                  /\ wb' = Post_RenameSheet(wb, s, n) /\ Log([a |-> "RenameSheet", s |-> s, name |-> n])
SetActive == \E i \in Pick(0..(Len(wb.sheets) - 1)) : /\ i # wb.active
                                  /\ wb' = Post_SetActive(wb, i) /\ Log([a |-> "SetActive", i |-> i])
SetCell == \E s \in Pick(Sh), x \in Pick(CellPool) : /\ x \notin wb.sheets[s].cells
              /\ wb' = Post_SetCell(wb, s, x)
              /\ Log([a |-> "SetCell", s |-> s, r |-> x.r, c |-> x.c, k |-> x.k, v |-> x.v, f |-> x.f, sty |-> x.sty])
AddLink == \E s \in Pick(Sh), l \in Pick(LinkPool) : /\ l \notin wb.sheets[s].links
              /\ wb' = Post_Link(wb, s, l)
              /\ Log([a |-> "Link", s |-> s, r |-> l.r, c |-> l.c, url |-> l.url, loc |-> l.loc, tip |-> l.tip])
AddComment == \E s \in Pick(Sh), c \in Pick({1, 2}) : /\ [r |-> 1, c |-> c] \notin wb.sheets[s].comments
              /\ wb' = Post_Comment(wb, s, 1, c)
              /\ Log([a |-> "Comment", s |-> s, r |-> 1, c |-> c, author |-> "me <&>", text |-> "note & <x>"])
AddTable == \E s \in Pick(Sh), t \in Pick(TablePool) :
              /\ \A u \in Sh : t \notin Rng(wb.sheets[u].tables)
              /\ wb' = Post_Table(wb, s, t)
              /\ Log([a |-> "Table", s |-> s, name |-> t, g |-> IF t = "T1" THEN Rect(10, 1, 12, 2) ELSE Rect(10, 4, 12, 5),
                      cols |-> <<"a", "b">>])
AddImage == \E s \in Pick(Sh), im \in Pick(ImgPool) : /\ Len(wb.sheets[s].imgs) < 2
              /\ wb' = Post_Image(wb, s, im)
              /\ Log([a |-> "Image", s |-> s, r |-> 14, c |-> 1 + Len(wb.sheets[s].imgs), img |-> im.name])
AddChart == \E s \in Pick(Sh) : /\ wb.sheets[s].charts < 1 /\ wb.sheets[s].name # "My <&> 'Sh'"
              /\ wb' = Post_Chart(wb, s) /\ Log([a |-> "Chart", s |-> s, r |-> 20, c |-> 1])
AddCondFmt == \E s \in Pick(Sh), n \in Pick(DOMAIN RulePool) : /\ Len(wb.sheets[s].cfr) < 2
              /\ wb' = Post_CondFmt(wb, s, [k \in DOMAIN RulePool[n] |-> KindFmt[RulePool[n][k]]])
              /\ Log([a |-> "CondFmt", s |-> s, sqref |-> "E1:E5", fmts |-> RulePool[n],
                      fm |-> [k \in DOMAIN RulePool[n] |-> KindFmt[RulePool[n][k]]]])
AddMerge == \E s \in Pick(Sh) : /\ wb.sheets[s].merges = {}
              /\ wb' = Post_Merge(wb, s, Rect(8, 1, 9, 2)) /\ Log([a |-> "Merge", s |-> s, g |-> Rect(8, 1, 9, 2)])
AddName == \E s \in Pick(Sh) : /\ wb.sheets[s].names = <<>>
              /\ LET nm == [name |-> "N" \o ToString(s), addr |-> "'S1'!$A$1:$B$2", lsid |-> -1] IN
                 wb' = Post_Name(wb, s, nm) /\ Log([a |-> "Name", s |-> s, name |-> nm.name, addr |-> nm.addr])
AddValidation == \E s \in Pick(Sh) : /\ wb.sheets[s].dv = 0
              /\ wb' = Post_Validation(wb, s) /\ Log([a |-> "Validation", s |-> s, sqref |-> "D1:D5", list |-> "\"x,y\""])
Protect == \E s \in Pick(Sh) : /\ ~wb.sheets[s].prot
              /\ wb' = Post_Protect(wb, s) /\ Log([a |-> "Protect", s |-> s])
SetMacro == /\ wb' = Post_Macro(wb, ~wb.macro) /\ Log([a |-> "Macro", on |-> ~wb.macro])
Save == \E light \in Pick(BOOLEAN) : /\ wb.sheets # <<>> /\ saved = "no"
              /\ saved' = (IF light THEN "light" ELSE "std") /\ UNCHANGED <<wb, steps>>
              /\ hist' = Append(hist, [a |-> "Save", light |-> light])

Build == \/ AddSheet \/ RemoveSheet \/ RenameSheet \/ SetActive \/ SetCell \/ AddLink \/ AddComment \/ AddTable
         \/ AddImage \/ AddChart \/ AddCondFmt \/ SetMacro
         \/ (Rich /\ (AddMerge \/ AddName \/ AddValidation \/ Protect))

MCInit == /\ wb = Post_AddSheet(EmptyBook, "S1") /\ steps = 0 /\ saved = "no"
          /\ hist = <<[a |-> "New"], [a |-> "AddSheet", name |-> "S1"]>>
MCNext == \/ (steps < Depth /\ saved = "no" /\ Build)
          \/ (steps = Depth /\ Save)
MCSpec == MCInit /\ [][MCNext]_mcvars
View == <<wb, steps, saved>>

(* ---- the property on the design ---------------------------------------------------------------------- *)
Perms(T) == {f \in [1..Cardinality(T) -> T] : \A i, j \in 1..Cardinality(T) : i # j => f[i] # f[j]}
Ords(i, o) == [j \in DOMAIN wb.sheets |-> IF j = i THEN o ELSE CanonOrd(wb.sheets[j])]
GoodOrds == UNION {{Ords(i, o) : o \in Perms(ExtLinks(wb.sheets[i]))} : i \in DOMAIN wb.sheets}

SavedOK == \A os \in GoodOrds : PackageOK(SavePkg(wb, os))
DecodedEqualsModel == \A os \in GoodOrds : Decode(SavePkg(wb, os)) = Content(wb)
RulesCarried == \A os \in GoodOrds : RuleOffences(SavePkg(wb, os), wb, Intended) = {}
(* the real enumeration: two independently ordered passes.  Expected to FAIL (MC_Package_deviant.cfg) *)
TwoOrdersDecode == \A os \in GoodOrds, os2 \in GoodOrds : Decode(SaveWith(wb, os, os2)) = Content(wb)
(* the file keeps the active index it is given.  Expected to FAIL after RemoveSheet (MC_Package_deviant.cfg) *)
ActiveAsIs == wb.active < Len(wb.sheets)

Emit == (EmitReplay /\ saved # "no") => PrintT(<<"REPLAY", ToJson(hist)>>)
=============================================================================
