CONSTANTS MaxRow = 5 MaxCol = 4 EmitReplay = FALSE EmitWb = FALSE MaxToks = 1 Depth = 2 NCells = 2
  UsePercent = FALSE UseParens = FALSE
  Operands <- WbOperandsSmall FnNames <- NoFns InfixOps <- NoOps PrefixOps <- NoPre BlankRuns <- NoBlanks
SPECIFICATION MCSpec
VIEW View
INVARIANTS RefsInGrid CellsInGrid
PROPERTY TargetsKept
CHECK_DEADLOCK FALSE
