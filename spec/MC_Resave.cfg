CONSTANTS MaxGen = 3 DropStyledBlank = FALSE ColFold = "adjacent" RowSkip = "never" Family = "quick" EmitReplay = FALSE
SPECIFICATION MCSpec
VIEW View
INVARIANTS FixedPoint FileFixedPoint OrigSim OrigSimExists EditLocal SaveTwiceSame NormIdempotent
CHECK_DEADLOCK FALSE
