CONSTANTS Design = "own"
SPECIFICATION TraceSpec
POSTCONDITION Consumed
CHECK_DEADLOCK FALSE
