CONSTANTS MaxRow = 1048576 MaxCol = 16384 MaxSheets = 2 Depth = 2 Rich = TRUE EmitReplay = FALSE Wide = FALSE
SPECIFICATION MCSpec
VIEW View
INVARIANTS SavedOK
CHECK_DEADLOCK FALSE
