CONSTANTS I = 2 F = 2 KMax = 4 Block = 100
CONSTANTS Catalogue <- EmptyCat Starts = {} MCDev = {}
SPECIFICATION TraceSpec
POSTCONDITION Consumed
CHECK_DEADLOCK FALSE
