CONSTANTS Strs = {"Qa7x", "Qb7x"} MaxBooks = 3 Sharing = "private" Depth = 4 EmitReplay = TRUE
SPECIFICATION MCSpec
INVARIANTS Emit
CHECK_DEADLOCK FALSE
