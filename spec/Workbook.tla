------------------------------ MODULE Workbook ------------------------------
(***************************************************************************)
(* C01 - cell content survives save and reload.                            *)
(*                                                                         *)
(* A workbook is a sequence of sheets, a sheet is a finite set of cells    *)
(*     [r, c, k, v, b, f]                                                  *)
(*   r, c  row and column (1..MaxRow, 1..MaxCol), unique per sheet         *)
(*   k     value kind: blank | text | rich | num | bool | err              *)
(*   v     value text (what Cell::get_value shows)                         *)
(*   b     for numbers the IEEE-754 bit pattern (16 hex digits), else ""   *)
(*   f     formula text, "" = no formula                                   *)
(* Texts are opaque: the specification only compares them, except for the  *)
(* deviation that trims, which receives the trimming as a function.        *)
(*                                                                         *)
(* Public operations are the actions SetValue, SetFormula, RemoveCell and  *)
(* the save/reload pair Serialize(w) ; Deserialize, each written as        *)
(* state' = Post(state, args) with Post a plain operator.  Serialize       *)
(* mirrors the writer: per cell it chooses the t= attribute and the        *)
(* payload, interns text and rich text into the (append-only, persistent)  *)
(* string table by content and emits rows in ascending order;              *)
(* Deserialize maps t / payload / index / formula back to a typed value.   *)
(*                                                                         *)
(* The operators take a design parameter P = [dev, trim]:                  *)
(*   dev   the set of known-finding ids whose deviant branch is switched   *)
(*         on (the empty set is the *intended* design, the one the         *)
(*         properties are checked for),                                    *)
(*   trim  a function text -> text without leading/trailing XML blanks,    *)
(*         consulted only by the trimming deviations.                      *)
(* Each deviant branch is guarded by its trigger predicate Trig<id>, so    *)
(* File/Load under P compute exactly what the implementation is known to   *)
(* do and nothing else.                                                    *)
(***************************************************************************)
EXTENDS Integers, Sequences, FiniteSets, TLC, SequencesExt

CONSTANTS MaxRow, MaxCol

Kinds    == {"blank", "text", "rich", "num", "bool", "err"}
ErrCodes == {"#DIV/0!", "#N/A", "#NAME?", "#NULL!", "#NUM!", "#REF!", "#VALUE!", "#DATA!"}
Writers  == {"std", "light"}       \* write_writer, write_writer_light (stored, not deflated)

(* what Cell::get_data_type shows for a kind *)
DataType(k) == CASE k \in {"text", "rich"} -> "s" [] k = "num" -> "n" [] k = "bool" -> "b"
                 [] k = "err" -> "e" [] OTHER -> ""

CellOK(x) == /\ x.r \in 1..MaxRow /\ x.c \in 1..MaxCol /\ x.k \in Kinds
             /\ (x.k = "blank" => x.v = "")
             /\ (x.k = "bool" => x.v \in {"TRUE", "FALSE"})
             /\ (x.k = "err" => x.v \in ErrCodes)
             /\ ((x.k = "num") <=> (x.b # ""))
KeysUnique(S) == \A x, y \in S : (x.r = y.r /\ x.c = y.c) => x = y

(* ---- the normal form of a save: blank cells without a formula are not written ---- *)
IsBlank(x) == x.k = "blank" /\ x.f = ""
Norm(S)    == {x \in S : ~IsBlank(x)}
NormWb(wb) == [i \in DOMAIN wb |-> Norm(wb[i])]

(* ---- editing a sheet ---------------------------------------------------------------- *)
At(S, r, c) == {x \in S : x.r = r /\ x.c = c}
SetValueSheet(S, r, c, k, v, b) ==          \* Cell::set_value_*: typed value, formula dropped
  (S \ At(S, r, c)) \cup {[r |-> r, c |-> c, k |-> k, v |-> v, b |-> b, f |-> ""]}
SetFormulaSheet(S, r, c, f) ==              \* Cell::set_formula: value (cached result) kept
  IF At(S, r, c) = {} THEN S \cup {[r |-> r, c |-> c, k |-> "blank", v |-> "", b |-> "", f |-> f]}
  ELSE {IF x.r = r /\ x.c = c THEN [x EXCEPT !.f = f] ELSE x : x \in S}
RemoveCellSheet(S, r, c) == S \ At(S, r, c)

---------------------------------------------------------------------------
(* ---- design parameter and the known deviations --------------------------------------- *)
Intended == [dev |-> {}, trim |-> <<>>]
On(P, id) == id \in P.dev

(* t= attribute of a written cell (CellValue::get_data_type_crate)                          *)
(* C01-KF2: a formula cell whose cached result is a rich text is written t="str" (flat text).  *)
(* Numeric, boolean and error cached results keep their own t= (repaired in /repo 90e3095):    *)
(* they are held to the intended behaviour and are no part of this deviation.                  *)
TrigKF2(x) == x.f # "" /\ x.k = "rich"
TypeOf(x, P) ==
  IF On(P, "C01-KF2") /\ TrigKF2(x) THEN "str"
  ELSE CASE x.k = "text"  -> IF x.f = "" THEN "s" ELSE "str"
         [] x.k = "rich"  -> "s"
         [] x.k = "num"   -> "n"
         [] x.k = "bool"  -> "b"
         [] x.k = "err"   -> "e"
         [] OTHER         -> ""
(* C01-KF1 (repaired in /repo f647b99, status fixed: never enabled any more; kept so that the   *)
(* record of what the deviation was stays executable): the payload of a t="e" cell was always  *)
(* the literal #VALUE!                                                                         *)
TrigKF1(x, P) == x.k = "err" /\ TypeOf(x, P) = "e" /\ x.v # "#VALUE!"
(* C01-KF3: the payload of a t="str" cell is read with leading/trailing blanks removed      *)
TrigKF3(x, P) == x.k # "blank" /\ TypeOf(x, P) = "str" /\ P.trim[x.v] # x.v
(* C01-KF4: the formula text is read with leading/trailing blanks removed                   *)
TrigKF4(x, P) == x.f # "" /\ P.trim[x.f] # x.f

(* ---- Serialize ------------------------------------------------------------------------ *)
(* string table items: plain or rich, identified by content *)
NeedsItem(x, P) == x.k # "blank" /\ TypeOf(x, P) = "s"
ItemOf(x)       == [rich |-> x.k = "rich", t |-> x.v]
Intern(tab, it) == IF \E i \in DOMAIN tab : tab[i] = it THEN tab ELSE Append(tab, it)
IndexIn(tab, it) == CHOOSE i \in DOMAIN tab : tab[i] = it

CellLess(x, y) == x.r < y.r \/ (x.r = y.r /\ x.c < y.c)
IntLess(a, b)  == a < b
RowNums(S)     == SetToSortSeq({x.r : x \in S}, IntLess)
RowCells(S, r) == SetToSortSeq({x \in S : x.r = r}, CellLess)
(* the order in which the writer meets the cells of the workbook *)
WriteOrder(wb) == FlattenSeq([i \in DOMAIN wb |-> SetToSortSeq(Norm(wb[i]), CellLess)])
Table(wb, tab0, P) ==
  FoldLeft(LAMBDA tab, x : IF NeedsItem(x, P) THEN Intern(tab, ItemOf(x)) ELSE tab, tab0, WriteOrder(wb))

Written(x, tab, P) ==
  LET t == TypeOf(x, P) IN
  [r |-> x.r, c |-> x.c, t |-> t, f |-> x.f,
   hv |-> x.k # "blank",                                      \* a <v> payload is present
   si |-> IF NeedsItem(x, P) THEN IndexIn(tab, ItemOf(x)) ELSE 0,
   v  |-> CASE x.k = "blank" -> ""
            [] t = "s"   -> ""
            [] t = "b"   -> (IF x.v = "TRUE" THEN "1" ELSE "0")
            [] t = "e"   -> (IF On(P, "C01-KF1") THEN "#VALUE!" ELSE x.v)
            [] OTHER     -> x.v,                               \* "str": the text; "n": the decimal text
   nb |-> IF t = "n" THEN x.b ELSE ""]                         \* the number the decimal text denotes
Part(S, tab, P) ==
  LET rows == RowNums(S) IN
  [i \in DOMAIN rows |-> [r |-> rows[i],
                          cells |-> LET q == RowCells(S, rows[i]) IN [j \in DOMAIN q |-> Written(q[j], tab, P)]]]
File(wb, tab0, P) ==
  LET tab == Table(wb, tab0, P) IN
  [sst |-> tab, parts |-> [i \in DOMAIN wb |-> Part(Norm(wb[i]), tab, P)]]

(* ---- Deserialize (Cell::set_attributes) ------------------------------------------------ *)
ReadCell(w, tab, P) ==
  LET f  == IF w.f # "" /\ On(P, "C01-KF4") THEN P.trim[w.f] ELSE w.f
      kv == IF ~w.hv THEN <<"blank", "", "">>
            ELSE CASE w.t = "s"   -> <<IF tab[w.si].rich THEN "rich" ELSE "text", tab[w.si].t, "">>
                   [] w.t = "str" -> <<"text", IF On(P, "C01-KF3") THEN P.trim[w.v] ELSE w.v, "">>
                   [] w.t = "n"   -> <<"num", w.v, w.nb>>
                   [] w.t = "b"   -> <<"bool", IF w.v = "1" THEN "TRUE" ELSE "FALSE", "">>
                   [] w.t = "e"   -> <<"err", w.v, "">>
                   [] OTHER       -> <<"blank", "", "">>
  IN [r |-> w.r, c |-> w.c, k |-> kv[1], v |-> kv[2], b |-> kv[3], f |-> f]
ReadPart(p, tab, P) == UNION {{ReadCell(p[i].cells[j], tab, P) : j \in DOMAIN p[i].cells} : i \in DOMAIN p}
Load(file, P) == [i \in DOMAIN file.parts |-> ReadPart(file.parts[i], file.sst, P)]

(* what a save followed by a reload yields under design P *)
Reloaded(wb, tab0, P) == Load(File(wb, tab0, P), P)
(* the same for one cell: the image of x, a set with one cell *)
CellImage(x, P) == Reloaded(<<{x}>>, <<>>, P)[1]

---------------------------------------------------------------------------
(* ---- well-formedness of a written file ------------------------------------------------- *)
InternInjective(file) == \A i, j \in DOMAIN file.sst : i # j => file.sst[i] # file.sst[j]
IndexInRange(file) ==
  \A s \in DOMAIN file.parts : \A i \in DOMAIN file.parts[s] : \A j \in DOMAIN file.parts[s][i].cells :
     LET w == file.parts[s][i].cells[j] IN (w.hv /\ w.t = "s") => w.si \in DOMAIN file.sst
RowsAscending(file) ==
  \A s \in DOMAIN file.parts :
     LET p == file.parts[s] IN
     /\ \A i \in DOMAIN p : p[i].r \in 1..MaxRow /\ (i > 1 => p[i - 1].r < p[i].r) /\ p[i].cells # <<>>
     /\ \A i \in DOMAIN p : \A j \in DOMAIN p[i].cells :
           /\ p[i].cells[j].r = p[i].r /\ p[i].cells[j].c \in 1..MaxCol
           /\ (j > 1 => p[i].cells[j - 1].c < p[i].cells[j].c)
FileOK(file) == InternInjective(file) /\ IndexInRange(file) /\ RowsAscending(file)

---------------------------------------------------------------------------
VARIABLES sheets,   \* the workbook: sequence of sets of cells
          sst,      \* the workbook's string table (append-only, survives a reload)
          file,     \* the last written file
          pc,       \* "edit" | "saved" (a file was written and is about to be reloaded)
          last      \* the last operation
vars == <<sheets, sst, file, pc, last>>

NoFile == [sst |-> <<>>, parts |-> <<>>]

SetValue(s, r, c, k, v, b) ==
  /\ pc = "edit"
  /\ sheets' = [sheets EXCEPT ![s] = SetValueSheet(@, r, c, k, v, b)]
  /\ last' = [op |-> "SetValue", s |-> s]
  /\ UNCHANGED <<sst, file, pc>>
SetFormula(s, r, c, f) ==
  /\ pc = "edit" /\ f # ""
  /\ sheets' = [sheets EXCEPT ![s] = SetFormulaSheet(@, r, c, f)]
  /\ last' = [op |-> "SetFormula", s |-> s]
  /\ UNCHANGED <<sst, file, pc>>
RemoveCell(s, r, c) ==
  /\ pc = "edit"
  /\ sheets' = [sheets EXCEPT ![s] = RemoveCellSheet(@, r, c)]
  /\ last' = [op |-> "RemoveCell", s |-> s]
  /\ UNCHANGED <<sst, file, pc>>
(* save with writer w: the intended design; the writer only selects the compression *)
Serialize(w) ==
  /\ pc = "edit" /\ w \in Writers
  /\ file' = File(sheets, sst, Intended)
  /\ pc' = "saved"
  /\ last' = [op |-> "Serialize", s |-> 0]
  /\ UNCHANGED <<sheets, sst>>
Deserialize ==
  /\ pc = "saved"
  /\ sheets' = Load(file, Intended)
  /\ sst' = file.sst
  /\ pc' = "edit"
  /\ last' = [op |-> "Deserialize", s |-> 0]
  /\ UNCHANGED file

(* ---- the properties of C01 ---------------------------------------------------------------- *)
WellFormed  == \A s \in DOMAIN sheets : KeysUnique(sheets[s]) /\ \A x \in sheets[s] : CellOK(x)
FileWellFormed == FileOK(file) /\ InternInjective([sst |-> sst, parts |-> <<>>])
(* reloading the written file yields exactly the non-blank cells, unchanged *)
RoundTrip   == [][pc = "saved" => sheets' = NormWb(sheets)]_vars
(* the same as a state predicate: in every reachable state a save + reload would be exact, and the
   file it would write is well formed *)
RoundTripNow == /\ Reloaded(sheets, sst, Intended) = NormWb(sheets)
                /\ FileOK(File(sheets, sst, Intended))
(* a second save + reload changes nothing (the normal form is a fixed point) *)
Stable == Reloaded(NormWb(sheets), Table(sheets, sst, Intended), Intended) = NormWb(sheets)
(* an edit of one sheet leaves the others alone *)
OthersUntouched == [][\A t \in DOMAIN sheets : (last'.s # 0 /\ t # last'.s) => sheets'[t] = sheets[t]]_vars
=============================================================================
