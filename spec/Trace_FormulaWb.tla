-------------------------- MODULE Trace_FormulaWb --------------------------
(***************************************************************************)
(* Trace validation for C08: every workbook-level insert/remove of rows or *)
(* columns executed on the real library must be a step of Formula.tla.     *)
(*                                                                         *)
(*   a = "Init"    sheets, cells [{s,r,c,toks,f}], names [{on,name,tok,    *)
(*                 addr}], charts [{on,toks,addrs}] as given to the        *)
(*                 library, obs = what the public getters return           *)
(*   a = "Insert" | "Remove"   s, ax, p, n, outcome, obs                   *)
(*   a = "Fatal"   the whole case (with its steps): it hung or crashed     *)
(*   obs = [cells: {s,r,c,f}, names: {on,i,name,addr}, charts: {on,i,      *)
(*          addrs}]  (Cell::get_formula, DefinedName::get_address, chart   *)
(*          series Formula::get_address_str)                               *)
(*                                                                         *)
(* With load = TRUE the driver saves the workbook to memory and reads it   *)
(* back before the history; a cell {.., si, members} is then the master of *)
(* a shared-formula group whose members are listed by position.            *)
(*                                                                         *)
(* Judgement of a step: the host cell of every formula is where Sheet/Grid *)
(* arithmetic puts it and its text is an acceptable rendering of the       *)
(* shifted token list (intended), or it is exactly what an open known      *)
(* finding's model computes (Trace_FormulaImpl).  After a deviation the    *)
(* specification follows the implementation's tokens; when those are no    *)
(* longer tokens of the grammar (or the edit panicked half-way) the rest   *)
(* of the case is not judged (alive = FALSE).                              *)
(***************************************************************************)
EXTENDS Trace_FormulaImpl, TraceBase, SequencesExt

VARIABLES l, wb, alive
tvars == <<l, wb, alive>>

KFId == [brk |-> "C08-KF1", trail |-> "C08-KF2", apos |-> "C08-KF3", dq |-> "C08-KF4", arr |-> "C08-KF5",
         uplus |-> "C08-KF6", colonly |-> "C08-KF7", rowonly |-> "C08-KF8", lock |-> "C08-KF9", band |-> "C08-KF10",
         names |-> "C08-KF11", chart |-> "C08-KF12"]
Enabled == {m \in DOMAIN KFId : KFOn(KFId[m])}

NoWb == [sheets |-> <<>>, cells |-> {}, names |-> {}, charts |-> {}]

(* ---- Init ------------------------------------------------------------------------ *)
(* chart number i of the event list is the k-th chart of its sheet *)
ChartNo(e, i) == Cardinality({j \in 1..i : e.charts[j].on = e.charts[i].on})

(* A cell may be the master of a shared-formula group (only in a workbook read from a file, e.load): each member  *)
(* {r, c} of x.members then carries the master's formula translated to the member's position (Formula!TranslateF). *)
MemberCells(x) == {[s |-> x.s, r |-> m.r, c |-> m.c, f |-> TranslateF(x.toks, m.c - x.c, m.r - x.r)] : m \in ToSet(x.members)}
WbOf(e) == [sheets |-> e.sheets,
            cells  |-> {[s |-> x.s, r |-> x.r, c |-> x.c, f |-> x.toks] : x \in ToSet(e.cells)}
                       \cup UNION {MemberCells(x) : x \in ToSet(e.cells)},
            names  |-> {[on |-> x.on, name |-> x.name, t |-> x.tok] : x \in ToSet(e.names)},
            charts |-> {[on |-> e.charts[i].on, i |-> ChartNo(e, i), ts |-> e.charts[i].toks] : i \in DOMAIN e.charts}]
QualifiedRef(t) == t.k = "ref" /\ t.qc # <<>> /\ t.g.k \in {"cell", "rect"}
InitGenOk(e) ==
  /\ \A i \in DOMAIN e.cells : LET x == e.cells[i] IN
        /\ x.s \in DOMAIN e.sheets /\ x.r >= 1 /\ x.r <= MaxRow /\ x.c >= 1 /\ x.c <= MaxCol
        /\ InClassFor(x.toks, Enabled) /\ x.f = Render(x.toks)
        /\ \A j \in DOMAIN e.cells : (j # i) => ~(e.cells[j].s = x.s /\ e.cells[j].r = x.r /\ e.cells[j].c = x.c)
        /\ (x.members # <<>>) => e.load
        /\ \A k \in DOMAIN x.members : LET m == x.members[k] IN
              /\ m.r >= 1 /\ m.r <= MaxRow /\ m.c >= 1 /\ m.c <= MaxCol
              /\ (m.r > x.r \/ (m.r = x.r /\ m.c > x.c))                 \* the master is read first
              /\ \A t \in ToSet(TranslateF(x.toks, m.c - x.c, m.r - x.r)) : t.k # "referr"   \* stays in the grid
  (* no two formula cells (masters, members, ordinary) in one place *)
  /\ LET all == {[s |-> x.s, r |-> x.r, c |-> x.c] : x \in ToSet(e.cells)}
                 \cup UNION {{[s |-> x.s, r |-> m.r, c |-> m.c] : m \in ToSet(x.members)} : x \in ToSet(e.cells)}
     IN Cardinality(all) = Len(e.cells) + FoldSeq(LAMBDA x, acc : acc + Len(x.members), 0, e.cells)
  /\ \A i \in DOMAIN e.names : LET x == e.names[i] IN
        /\ x.on \in (0..Len(e.sheets)) /\ QualifiedRef(x.tok) /\ x.addr = TokText(x.tok)
        /\ \A j \in DOMAIN e.names : (j # i) => ~(e.names[j].on = x.on /\ e.names[j].name = x.name)
  /\ \A i \in DOMAIN e.charts : LET x == e.charts[i] IN
        /\ x.on \in DOMAIN e.sheets /\ Len(x.toks) = Len(x.addrs)
        /\ \A j \in DOMAIN x.toks : QualifiedRef(x.toks[j]) /\ x.addrs[j] = TokText(x.toks[j])
  (* at most one chart per sheet (so that a chart that disappears does not renumber the others) *)
  /\ \A i, j \in DOMAIN e.charts : (i < j) => e.charts[i].on < e.charts[j].on

(* ---- comparing an observation with a workbook state --------------------------------- *)
ObsCellAt(o, s, r, c) == {x \in ToSet(o.cells) : x.s = s /\ x.r = r /\ x.c = c}
ObsNameAt(o, on, name) == {x \in ToSet(o.names) : x.on = on /\ x.name = name}
ObsChartAt(o, on, i) == {x \in ToSet(o.charts) : x.on = on /\ x.i = i}
NoDupObs(o) == Len(o.cells) = Cardinality({<<x.s, x.r, x.c>> : x \in ToSet(o.cells)})

(* a defined name whose target was deleted may be dropped, left without address, or read #REF! *)
NameTextOk(t, present, addr) ==
  IF t.k = "referr" THEN (~present \/ addr = "" \/ addr \in TokAlts(t))
  ELSE present /\ addr \in TokAlts(t)
NameOk(o, x, t) == LET S == ObsNameAt(o, x.on, x.name)
                   IN Cardinality(S) <= 1 /\ NameTextOk(t, S # {}, IF S = {} THEN "" ELSE (CHOOSE y \in S : TRUE).addr)
(* a chart disappears together with the rows / columns it is anchored in: then it has no series any more *)
ChartOk(o, x, ts) == LET S == ObsChartAt(o, x.on, x.i)
                     IN /\ Cardinality(S) <= 1
                        /\ S # {} => LET a == (CHOOSE y \in S : TRUE).addrs
                                     IN Len(a) = Len(ts) /\ \A j \in DOMAIN ts : a[j] \in TokAlts(ts[j])

InitObsOk(W, e, o) ==
  /\ NoDupObs(o) /\ Len(o.cells) = Cardinality(W.cells)
  (* set_formula / get_formula keep the text; after a load the text may be any acceptable rendering *)
  /\ \A x \in W.cells : \E y \in ObsCellAt(o, x.s, x.r, x.c) : IF e.load THEN Accepts(x.f, y.f) ELSE y.f = Render(x.f)
  /\ Len(o.names) = Cardinality(W.names) /\ \A x \in W.names : NameOk(o, x, x.t)
  /\ Len(o.charts) = Cardinality(W.charts)
  /\ \A x \in W.charts : ChartOk(o, x, x.ts)

(* ---- a step -------------------------------------------------------------------------- *)
OpFor(W, e, own) == [k |-> IF e.a = "Insert" THEN "ins" ELSE "rem", own |-> own, edited |-> W.sheets[e.s],
                     ax |-> e.ax, p |-> e.p, n |-> e.n]
Survives(x, e) == e.a = "Insert" \/ ~CellInBand(x, e.s, e.ax, e.p, e.n)
Moved(x, e) == IF e.a = "Insert" THEN CellIns(x, e.s, e.ax, e.p, e.n) ELSE CellRem(x, e.s, e.ax, e.p, e.n)
Survivors(W, e) == {x \in W.cells : Survives(x, e)}

InContract(W, e) ==
  /\ e.s \in DOMAIN W.sheets /\ e.ax \in Axes
  /\ IF e.a = "Insert" THEN CanInsertWb(W, e.s, e.ax, e.p, e.n) ELSE CanRemoveWb(W, e.s, e.ax, e.p, e.n)
  /\ \A x \in Survivors(W, e) : OpModelled(x.f, OpFor(W, e, W.sheets[x.s]), Enabled)

CellModel(W, e, x) == Impl(x.f, OpFor(W, e, W.sheets[x.s]), Enabled)
CellWant(W, e, x)  == WantF(x.f, OpFor(W, e, W.sheets[x.s]))
(* outcomes other than "ok" that the open findings predict for this edit (any of them may strike first) *)
BadOutcomes(W, e) == {CellModel(W, e, x).outcome : x \in Survivors(W, e)} \ {"ok"}
CellHits(W, e, x) == Hits(x.f, OpFor(W, e, W.sheets[x.s]), Enabled)

(* defined names: the library adjusts only the names kept on the edited sheet (deviation "names") *)
NameWant(W, e, x) == WantTok(x.t, OpFor(W, e, ""))
NameImpl(W, e, x) == IF "names" \in Enabled /\ x.on # e.s THEN x.t ELSE NameWant(W, e, x)
(* chart series: a removal shifts them like an insertion (deviation "chart") *)
ChartWantTok(W, e, t) == WantTok(t, OpFor(W, e, ""))
ChartImplTok(W, e, t) == IF "chart" \in Enabled /\ e.a = "Remove"
                         THEN InsTok(t, "", W.sheets[e.s], e.ax, e.p, e.n) ELSE ChartWantTok(W, e, t)
MapSeq(ts, Op(_)) == [j \in DOMAIN ts |-> Op(ts[j])]

(* text observed for the cell that x became *)
ObsText(o, y) == LET S == ObsCellAt(o, y.s, y.r, y.c) IN IF S = {} THEN "<no formula cell here>" ELSE (CHOOSE z \in S : TRUE).f
CellIntended(W, e, o, x) == Accepts(CellWant(W, e, x), ObsText(o, Moved(x, e)))
CellKnown(W, e, o, x) == LET R == CellModel(W, e, x)
                         IN R.outcome = "ok" /\ ObsText(o, Moved(x, e)) = ImplRender(R.f) /\ CellHits(W, e, x) # {}
NameIntended(W, e, o, x) == NameOk(o, x, NameWant(W, e, x))
NameKnown(W, e, o, x) == "names" \in Enabled /\ NameOk(o, x, NameImpl(W, e, x))
ChartIntended(W, e, o, x) == ChartOk(o, x, MapSeq(x.ts, LAMBDA t : ChartWantTok(W, e, t)))
ChartKnown(W, e, o, x) == "chart" \in Enabled /\ ChartOk(o, x, MapSeq(x.ts, LAMBDA t : ChartImplTok(W, e, t)))

(* the state after an accepted step: intended tokens where the intended text was observed, else the model's *)
NextCells(W, e, o) ==
  {[Moved(x, e) EXCEPT !.f = IF CellIntended(W, e, o, x) THEN CellWant(W, e, x) ELSE CellModel(W, e, x).f] : x \in Survivors(W, e)}
NextNames(W, e, o) ==
  {[x EXCEPT !.t = IF NameIntended(W, e, o, x) THEN NameWant(W, e, x) ELSE NameImpl(W, e, x)] : x \in W.names}
NextCharts(W, e, o) ==
  {[x EXCEPT !.ts = IF ChartIntended(W, e, o, x) THEN MapSeq(x.ts, LAMBDA t : ChartWantTok(W, e, t))
                    ELSE MapSeq(x.ts, LAMBDA t : ChartImplTok(W, e, t))] : x \in {y \in W.charts : ObsChartAt(o, y.on, y.i) # {}}}
(* tokens the specification can keep following *)
NormalRef(t) == t.k = "ref" => GInGrid(t.g)
Followable(W2) == /\ \A x \in W2.cells : ~HasRaw(x.f) /\ \A j \in DOMAIN x.f : NormalRef(x.f[j])
                  /\ \A x \in W2.names : x.t.k = "ref" /\ NormalRef(x.t)       \* a deleted name is not followed further
                  /\ \A x \in W2.charts : \A j \in DOMAIN x.ts : x.ts[j].k = "ref" /\ NormalRef(x.ts[j])

StepOk(e) ==
  LET o == e.obs
      cellsBad  == {x \in Survivors(wb, e) : ~CellIntended(wb, e, o, x) /\ ~CellKnown(wb, e, o, x)}
      cellsKF   == {x \in Survivors(wb, e) : ~CellIntended(wb, e, o, x) /\ CellKnown(wb, e, o, x)}
      namesBad  == {x \in wb.names : ~NameIntended(wb, e, o, x) /\ ~NameKnown(wb, e, o, x)}
      namesKF   == {x \in wb.names : ~NameIntended(wb, e, o, x) /\ NameKnown(wb, e, o, x)}
      chartsBad == {x \in wb.charts : ~ChartIntended(wb, e, o, x) /\ ~ChartKnown(wb, e, o, x)}
      chartsKF  == {x \in wb.charts : ~ChartIntended(wb, e, o, x) /\ ChartKnown(wb, e, o, x)}
      countOk   == NoDupObs(o) /\ Len(o.cells) = Cardinality(Survivors(wb, e)) /\ Len(o.charts) <= Cardinality(wb.charts)
                   /\ Len(o.names) <= Cardinality(wb.names)
      W2 == [wb EXCEPT !.cells = NextCells(wb, e, o), !.names = NextNames(wb, e, o), !.charts = NextCharts(wb, e, o)]
  IN IF BadOutcomes(wb, e) # {}
     THEN (* an open finding predicts that this edit does not complete *)
          /\ wb' = wb /\ alive' = FALSE
          /\ IF e.outcome \in BadOutcomes(wb, e)
             THEN \A x \in {y \in Survivors(wb, e) : CellModel(wb, e, y).outcome = e.outcome} :
                     \A m \in CellHits(wb, e, x) : KFHit(KFId[m], l)
             ELSE Mismatch(l, <<"impl", e.a, "outcome", e.outcome, "predicted", BadOutcomes(wb, e)>>)
     ELSE IF e.outcome # "ok"
     THEN wb' = wb /\ alive' = FALSE /\ Mismatch(l, <<"impl", e.a, "outcome", e.outcome>>)
     ELSE IF cellsBad # {} \/ namesBad # {} \/ chartsBad # {} \/ ~countOk
     THEN /\ wb' = wb /\ alive' = FALSE
          /\ IF cellsBad # {}
             THEN LET x == CHOOSE y \in cellsBad : TRUE
                  IN Mismatch(l, <<"impl", e.a, "cell", x.s, x.r, x.c, Render(x.f), "observed", ObsText(o, Moved(x, e)),
                                   "expected", RenderMin(CellWant(wb, e, x)), "known-deviation model",
                                   ImplRender(CellModel(wb, e, x).f)>>)
             ELSE IF namesBad # {}
             THEN LET x == CHOOSE y \in namesBad : TRUE
                  IN Mismatch(l, <<"impl", e.a, "defined name", x.on, x.name, TokText(x.t), "observed", ObsNameAt(o, x.on, x.name),
                                   "expected", TokAlts(NameWant(wb, e, x))>>)
             ELSE IF chartsBad # {}
             THEN LET x == CHOOSE y \in chartsBad : TRUE
                  IN Mismatch(l, <<"impl", e.a, "chart series", x.on, x.i, "observed", ObsChartAt(o, x.on, x.i),
                                   "expected", MapSeq(x.ts, LAMBDA t : TokText(ChartWantTok(wb, e, t)))>>)
             ELSE Mismatch(l, <<"impl", e.a, "number of formula cells / names / charts", Len(o.cells), Len(o.names), Len(o.charts)>>)
     ELSE /\ \A x \in cellsKF : \A m \in CellHits(wb, e, x) : KFHit(KFId[m], l)
          /\ \A x \in namesKF : KFHit(KFId["names"], l)
          /\ \A x \in chartsKF : KFHit(KFId["chart"], l)
          /\ IF Followable(W2) THEN wb' = W2 /\ alive' = TRUE ELSE wb' = wb /\ alive' = FALSE

(* a case that hung or crashed as a whole: only a hang predicted for its first edit is a known finding *)
FatalOk(e) ==
  LET W == WbOf(e) IN
  /\ wb' = NoWb /\ alive' = FALSE
  /\ IF ~InitGenOk(e) \/ e.steps = <<>> THEN Mismatch(l, <<"gen", "fatal">>)
     ELSE IF e.outcome = "timeout" /\ "timeout" \in BadOutcomes(W, e.steps[1])
     THEN \A x \in {y \in Survivors(W, e.steps[1]) : CellModel(W, e.steps[1], y).outcome = "timeout"} : KFHit(KFId["brk"], l)
     ELSE Mismatch(l, <<"impl", "fatal", e.outcome>>)

Step(e) ==
  IF e.a = "Fatal" THEN FatalOk(e)
  ELSE IF e.a = "Init"
  THEN IF ~InitGenOk(e) THEN wb' = NoWb /\ alive' = FALSE /\ Mismatch(l, <<"gen", "init">>)
       ELSE /\ wb' = WbOf(e)
            /\ IF e.outcome = "ok" /\ InitObsOk(WbOf(e), e, e.obs) THEN alive' = TRUE
               ELSE alive' = FALSE /\ Mismatch(l, <<"impl", "init", e.outcome, e.obs>>)
  ELSE IF ~alive THEN UNCHANGED <<wb, alive>>                              \* not judged (see above)
  ELSE IF ~InContract(wb, e) THEN wb' = wb /\ alive' = FALSE /\ Mismatch(l, <<"gen", e.a, e.s, e.ax, e.p, e.n>>)
  ELSE StepOk(e)

Ev == Rec[l]
TraceInit == l = 1 /\ wb = NoWb /\ alive = FALSE
TraceNext == l <= Len(Rec) /\ l' = l + 1 /\ Step(Ev)
TraceSpec == TraceInit /\ [][TraceNext]_tvars
=============================================================================
