-------------------------- MODULE Trace_SaveAtomic --------------------------
(***************************************************************************)
(* Trace validation for C13.  A case is one save of the real library:      *)
(*   Begin   instance, payload volume of a fault-free save, was there a    *)
(*           destination, was there a left-over temporary file (tmp0 =     *)
(*           "stale" with tmp0len junk bytes), the fault that was set up   *)
(*   Sys     one system call of the save on a file of the destination      *)
(*           directory, projected one-to-one from the strace log by        *)
(*           pydec/strace_events.py (runs of complete writes to one file   *)
(*           are one event)                                                *)
(*   SinkWrite  one call the library made on a caller-supplied writer      *)
(*   Return  how the call ended: ok | err | panic                          *)
(*   Crash   the process was killed (before the system call that follows   *)
(*           in the log could run)                                         *)
(*   Final   what is on disk afterwards (bytes compared by the driver /    *)
(*           pydec.pwfile_check with the old file and the reference)       *)
(* A case without a system call log (traced = FALSE: SIGKILL at a random   *)
(* instant of an untraced child) is judged on the real directory alone:    *)
(* killed => destination complete old or complete new; returned ok =>      *)
(* complete new.                                                           *)
(* The disk is replayed with SaveAtomic's own file-system operators and    *)
(* the property is evaluated with SaveAtomic's own predicates:             *)
(*   NeverTornD after every system call (hence for every observer and at   *)
(*   every crash point), AllOrNothingD and ReturnsD at Return; at Final    *)
(*   the replayed disk must be the real one.                               *)
(* Nothing else is demanded: which calls the library makes, in which       *)
(* order and with which sizes is its own business.                         *)
(***************************************************************************)
EXTENDS SaveAtomic, TraceBase

VARIABLES l, werr, mark
tvars == <<cfg, env, disk, sink, pc, nxt, buf, pend, phase, failed, ret, l, werr, mark>>

Ev == Rec[l]

SeqInst(c) == c.inst \in {"xlsx", "light", "csv"}            \* one sequential stream through a BufCap-byte BufWriter
PwInst(c)  == c.inst \in {"pw", "pwlight", "setpw"}          \* compound file written by helper::crypt::encrypt
Incomplete(f, c) == f.k = "new" /\ f.n < c.size

(* what the driver's byte comparison must say about a file the specification believes to be f *)
ClassOf(f, c) ==
  CASE f.k = "absent" -> "absent"
    [] f.k = "old"    -> "old"
    [] f.k = "dir"    -> "other"
    [] f.k = "new" /\ f.n = c.size /\ f.junk = 0 -> "new"
    [] f.k = "new" /\ f.n < c.size /\ f.junk = 0 /\ SeqInst(c) -> "prefix"
    [] OTHER -> "other"
TmpClassOf(f) == IF f.k = "absent" THEN "absent" ELSE IF f.k = "dir" THEN "dir" ELSE "present"

Files == {"dest", "tmp", "x"}

(* the disk after a logged system call *)
PostSys(d, e) ==
  IF e.f \notin Files \/ e.res = "err" THEN d
  ELSE CASE e.call = "open"   -> IF e.wr /\ e.trunc THEN PostCreate(d, e.f)
                                 ELSE IF e.wr THEN PostOpenKeep(d, e.f)      \* no O_TRUNC: existing bytes stay
                                 ELSE d
         [] e.call = "write"  -> PostWrite(d, e.f, e.m)
         [] e.call = "rename" -> IF e.g \in Files THEN PostRenameG(d, e.f, e.g) ELSE PostUnlink(d, e.f)
         [] e.call = "unlink" -> PostUnlink(d, e.f)
         [] e.call = "trunc"  -> [d EXCEPT ![e.f] = Torn]
         [] OTHER -> d

(* ---- known findings: trigger over the pre-state, exact deviant outcome ---- *)
(* C13-KF1: payload smaller than the BufWriter: write_all only fills the buffer, the write happens when
   the BufWriter is dropped and its error is discarded; the incomplete temporary file is renamed over
   the destination and Ok is returned *)
TrigKF1 == SeqInst(cfg) /\ cfg.size < BufCap /\ werr > 0 /\ Incomplete(disk.tmp, cfg)
(* C13-KF4: compound-file writer: the cfb crate flushes a stream's last buffer in Drop and discards the
   error; encrypt() never learns about it, the incomplete file is renamed and Ok is returned *)
TrigKF4 == PwInst(cfg) /\ werr > 0
RenameOfIncomplete(e) == e.call = "rename" /\ e.res = "ok" /\ e.f = "tmp" /\ e.g = "dest" /\ Incomplete(disk.tmp, cfg)
(* C13-KF5: set_password creates the compound file at the destination path itself *)
InPlaceOpen(e) == cfg.inst = "setpw" /\ e.call = "open" /\ e.res = "ok" /\ e.f = "dest" /\ e.wr /\ e.trunc
(* C13-KF2: csv::write_writer unwraps the result of write_all: panic, nothing cleaned up, destination untouched *)
TrigKF2path == cfg.inst = "csv" /\ cfg.size >= BufCap /\ werr > 0 /\ disk.dest = Dest0(cfg) /\ disk.tmp.k = "new"
TrigKF2sink == cfg.inst = "csv" /\ sink.bad
(* C13-KF3: helper::crypt::encrypt unwraps every I/O result (cfb::create, create_stream, write_all):
   panic, no rename, nothing cleaned up *)
TrigKF3 == PwInst(cfg) /\ werr > 0 /\ (disk.dest = Dest0(cfg) \/ mark = "C13-KF5")

SysStep(e) ==
  LET d2    == PostSys(disk, e)
      bad   == e.res = "err" /\ e.call \in {"open", "write"} /\ e.f \in Files
      tears == NeverTornD(disk, cfg) /\ ~NeverTornD(d2, cfg)
  IN  /\ disk' = d2
      /\ werr' = IF bad THEN werr + 1 ELSE werr
      /\ UNCHANGED <<cfg, sink, pc, ret>>
      /\ IF ~tears THEN UNCHANGED mark
         ELSE IF KFOn("C13-KF1") /\ TrigKF1 /\ RenameOfIncomplete(e) THEN mark' = "C13-KF1" /\ KFHit("C13-KF1", l)
         ELSE IF KFOn("C13-KF4") /\ TrigKF4 /\ cfg.inst # "setpw" /\ RenameOfIncomplete(e) THEN mark' = "C13-KF4" /\ KFHit("C13-KF4", l)
         ELSE IF KFOn("C13-KF5") /\ InPlaceOpen(e) THEN mark' = "C13-KF5" /\ KFHit("C13-KF5", l)
         ELSE /\ mark' = "violation"
              /\ Mismatch(l, <<"impl", "NeverTorn", cfg.inst, e.call, e.f, "destination was", ClassOf(disk.dest, cfg),
                               "becomes", ClassOf(d2.dest, cfg), d2.dest.n, "of", cfg.size>>)

ReturnStep(e) ==
  LET r == e.outcome IN
  /\ ret' = r /\ pc' = "done"
  /\ UNCHANGED <<cfg, disk, sink, werr>>
  /\ IF cfg.mode = "path" /\ ~cfg.traced        \* no system call log (kill at a random instant that came too late):
     THEN IF ReturnsD(r) THEN UNCHANGED mark     \* the disk is judged at Final, on the real directory
          ELSE mark' = "violation" /\ Mismatch(l, <<"impl", "ErrorNotPanic", cfg.inst, "returned", r>>)
     ELSE IF cfg.mode = "path"
     THEN IF ReturnsD(r) /\ AllOrNothingD(r, disk, cfg) THEN UNCHANGED mark
          ELSE IF r = "ok" /\ mark \in {"C13-KF1", "C13-KF4"} /\ Incomplete(disk.dest, cfg) THEN UNCHANGED mark
          ELSE IF r = "ok" /\ mark = "C13-KF5" /\ KFOn("C13-KF4") /\ TrigKF4 /\ Incomplete(disk.dest, cfg)
          THEN UNCHANGED mark /\ KFHit("C13-KF4", l)
          ELSE IF r = "panic" /\ KFOn("C13-KF2") /\ TrigKF2path THEN UNCHANGED mark /\ KFHit("C13-KF2", l)
          ELSE IF r = "panic" /\ KFOn("C13-KF3") /\ TrigKF3 THEN UNCHANGED mark /\ KFHit("C13-KF3", l)
          ELSE /\ mark' = "violation"
               /\ Mismatch(l, <<"impl", IF ReturnsD(r) THEN "AllOrNothing" ELSE "ErrorNotPanic", cfg.inst, "returned", r,
                                "destination", ClassOf(disk.dest, cfg), disk.dest.n, "of", cfg.size, "failed calls", werr>>)
     ELSE IF ReturnsD(r) /\ (sink.bad => r = "err") THEN UNCHANGED mark
          ELSE IF r = "panic" /\ KFOn("C13-KF2") /\ TrigKF2sink THEN UNCHANGED mark /\ KFHit("C13-KF2", l)
          ELSE /\ mark' = "violation"
               /\ Mismatch(l, <<"impl", IF ReturnsD(r) THEN "SinkErrorReturned" ELSE "ErrorNotPanic", cfg.inst,
                                "writer failed", sink.bad, "returned", r>>)

FinalStep(e) ==
  /\ UNCHANGED <<cfg, disk, sink, pc, ret, werr, mark>>
  /\ IF cfg.traced
     THEN LET wd == ClassOf(disk.dest, cfg)
              wt == TmpClassOf(disk.tmp)
              ok == /\ e.dest = wd /\ e.tmp = wt
                    /\ (wd = "prefix" => e.destlen = disk.dest.n)
                    /\ (disk.tmp.k \in {"new", "stale"} /\ SeqInst(cfg)) => e.tmplen = disk.tmp.n + disk.tmp.junk
          IN IF ok THEN TRUE
             ELSE Mismatch(l, <<"impl", "final state", cfg.inst, "destination expected", wd, disk.dest.n, "observed", e.dest,
                                e.destlen, "temporary expected", wt, disk.tmp.n, "observed", e.tmp, e.tmplen>>)
     ELSE IF ret = "ok"
          THEN IF e.dest = "new" THEN TRUE
               ELSE Mismatch(l, <<"impl", "AllOrNothing", cfg.inst, "returned ok, the destination is", e.dest, e.destlen>>)
          ELSE IF e.dest \in {ClassOf(Dest0(cfg), cfg), "new"} THEN TRUE
               ELSE Mismatch(l, <<"impl", "NeverTorn", cfg.inst, "after a kill the destination is", e.dest, e.destlen>>)

GenOk(e) ==
  CASE e.a = "Begin" -> e.size > 0 /\ e.tmp0 \in {"absent", "dir", "stale"} /\ (e.tmp0 = "stale" => e.tmp0len > 0)
                        /\ e.kind \in {"path", "sink"} /\ e.inst \in {"xlsx", "light", "csv", "pw", "pwlight", "setpw"}
    [] e.a = "Sys" -> pc = "run" /\ e.call \in {"open", "write", "rename", "unlink", "trunc", "close", "sync"}
                      /\ e.res \in {"ok", "short", "err"}
    [] e.a = "SinkWrite" -> pc = "run" /\ cfg.mode = "sink" /\ e.res \in {"ok", "err", "zero", "intr"}
    [] e.a = "Return" -> pc = "run" /\ e.outcome \in {"ok", "err", "panic"}
    [] e.a = "Crash" -> pc = "run"
    [] e.a = "Final" -> pc \in {"done", "crashed"}
    [] OTHER -> FALSE

Step(e) ==
  IF ~GenOk(e) THEN UNCHANGED <<cfg, disk, sink, pc, ret, werr, mark>> /\ Mismatch(l, <<"gen", e.a>>)
  ELSE CASE e.a = "Begin" ->
              /\ cfg' = [mode |-> e.kind, chunks |-> <<e.size>>, size |-> e.size, existed |-> e.existed,
                         buffered |-> e.inst \in {"xlsx", "light", "csv"}, buildFirst |-> e.inst \in {"pw", "pwlight", "setpw"},
                         inst |-> e.inst, traced |-> e.traced, stale |-> IF e.tmp0 = "stale" THEN e.tmp0len ELSE 0]
              /\ disk' = [dest |-> IF e.existed THEN Old ELSE Absent,
                          tmp |-> IF e.tmp0 = "dir" THEN Dir ELSE IF e.tmp0 = "stale" THEN Stale(e.tmp0len) ELSE Absent, x |-> Absent]
              /\ sink' = [got |-> 0, bad |-> FALSE]
              /\ pc' = "run" /\ ret' = "none" /\ werr' = 0 /\ mark' = ""
         [] e.a = "Sys" -> SysStep(e)
         [] e.a = "SinkWrite" ->
              /\ sink' = [got |-> sink.got + e.m, bad |-> sink.bad \/ e.res \in {"err", "zero"}]
              /\ UNCHANGED <<cfg, disk, pc, ret, werr, mark>>
         [] e.a = "Return" -> ReturnStep(e)
         [] e.a = "Crash" -> pc' = "crashed" /\ UNCHANGED <<cfg, disk, sink, ret, werr, mark>>
         [] e.a = "Final" -> FinalStep(e)

NoCfg == [mode |-> "path", chunks |-> <<1>>, size |-> 1, existed |-> FALSE, buffered |-> TRUE, buildFirst |-> FALSE,
          inst |-> "xlsx", traced |-> TRUE, stale |-> 0]
TraceInit == /\ l = 1 /\ werr = 0 /\ mark = ""
             /\ cfg = NoCfg /\ env = [plan |-> [t |-> "any"], calls |-> 0, writes |-> 0]
             /\ disk = [dest |-> Absent, tmp |-> Absent, x |-> Absent] /\ sink = [got |-> 0, bad |-> FALSE]
             /\ pc = "idle" /\ nxt = 1 /\ buf = 0 /\ pend = 0 /\ phase = "direct" /\ failed = FALSE /\ ret = "none"
TraceNext == l <= Len(Rec) /\ l' = l + 1 /\ Step(Ev) /\ UNCHANGED <<env, nxt, buf, pend, phase, failed>>
TraceSpec == TraceInit /\ [][TraceNext]_tvars
=============================================================================
