CONSTANTS Wide = TRUE MaxRow = 14 MaxCol = 9 Depth = 12 Family = "all" Gen = TRUE EmitReplay = TRUE
          MediaKey = "content" ChartCache = "tolerant"
SPECIFICATION MCSpec
INVARIANTS Emit InGrid NamesUnique RoundTrip
CHECK_DEADLOCK FALSE
