CONSTANTS Sharing = "private" Scenario = "lazyraw" EmitReplay = FALSE
SPECIFICATION MSpec
VIEW View
INVARIANTS OwnStrings PartIffRel NoForeign
PROPERTY Terminates
CHECK_DEADLOCK FALSE
