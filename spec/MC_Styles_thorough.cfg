CONSTANTS KeyMode = "exact" NBooks = 1 PalKind = "full" MaxImport = 0 MaxAssign = 2 MaxSaves = 2 Pairs = FALSE Wide = FALSE EmitReplay = FALSE
SPECIFICATION MCSpec
VIEW View
INVARIANTS Faithful DimsKept FaithfulFile NoMerge NoGrowth StableSizes WellFormed
CHECK_DEADLOCK FALSE
