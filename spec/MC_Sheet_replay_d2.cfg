CONSTANTS Wide = FALSE MaxRow = 5 MaxCol = 4 Depth = 2 Family = "rich" EmitReplay = TRUE
SPECIFICATION MCSpec
INVARIANTS Emit
CHECK_DEADLOCK FALSE
