CONSTANTS BufCap = 2 Deviant = "none" MaxChunk = 3 MaxChunks = 3 PlanMode = "any" EmitReplay = FALSE
SPECIFICATION MCSpec
VIEW View
INVARIANTS TypeOK NeverTorn AllOrNothing ErrorNotPanic SinkErrorReturned NothingBuffered FailureReported
PROPERTIES OnlyRenameTouchesDest SameNext
CHECK_DEADLOCK TRUE
