---------------------------- MODULE Trace_Media ----------------------------
(***************************************************************************)
(* Trace validation for X03: every recorded operation of the real library  *)
(* must be a step of Media.tla.  The driver (harness/src/bin/media.rs)     *)
(* logs, after every operation, the projection of all sheets through       *)
(* public getters; a Reload event also carries pydec/media_view.py's view  *)
(* of the written package.  Picture names are observed, never demanded.    *)
(* On a mismatch the specification state follows the observation.          *)
(*                                                                         *)
(* Deviations (open findings, /verif/ext_findings.json):                   *)
(*  X03-KF1  media parts are chosen by the picture's file name only: a     *)
(*           picture whose name is already taken by different bytes comes  *)
(*           back (file and reload) with the bytes of the first writer     *)
(*  X03-KF2  saving panics when a chart of a materialised sheet mentions a *)
(*           sheet that does not exist (after remove_sheet/set_sheet_name) *)
(*  X03-KF3  reading a chart trims every run of its title                  *)
(*  X03-KF4  a series formula is written with its sheet name in quotes     *)
(*           only when the name holds a blank                              *)
(*  X03-KF5  a picture's file name goes unescaped into the relationship    *)
(*           target: with a '#' in it the target designates another part   *)
(*  X03-KF6  a picture whose extension the writer knows no content type    *)
(*           for is stored in a part without content type                  *)
(***************************************************************************)
EXTENDS Media, TraceBase

VARIABLES l,      \* index of the next event
          disk    \* per sheet: closure digest of its drawing in the file it was lazily loaded from ("" otherwise)
tvars == <<sh, last, l, disk>>

ImgOf(o) == [r1 |-> o.r1, c1 |-> o.c1, r2 |-> o.r2, c2 |-> o.c2, two |-> o.two, off |-> o.off, ext |-> o.ext, nm |-> o.nm, nk |-> o.nk, dg |-> o.dg]
ChartOf(o) == [r1 |-> o.r1, c1 |-> o.c1, r2 |-> o.r2, c2 |-> o.c2, off |-> o.off, ct |-> o.ct, ser |-> o.ser,
               refs |-> o.refs, qn |-> o.qn, ti |-> o.ti, tt |-> o.tt]
SheetOf(o) == [name |-> o.name, imgs |-> [i \in DOMAIN o.imgs |-> ImgOf(o.imgs[i])],
               charts |-> [i \in DOMAIN o.charts |-> ChartOf(o.charts[i])], oth |-> o.oth, raw |-> FALSE]
SheetsOf(list) == [i \in DOMAIN list |-> SheetOf(list[i])]

(* what is compared: everything but picture names and raw flags *)
Vis(S) == [S EXCEPT !.imgs = [i \in DOMAIN S.imgs |-> [S.imgs[i] EXCEPT !.nm = "", !.nk = ""]], !.raw = FALSE]
VisW(W) == [s \in DOMAIN W |-> Vis(W[s])]
(* the observed workbook with the raw flags of W (FALSE where W has no such sheet) *)
Flagged(obs, W) == [s \in DOMAIN obs |-> [obs[s] EXCEPT !.raw = IF s \in DOMAIN W THEN W[s].raw ELSE FALSE]]
AllFlag(obs, b) == [s \in DOMAIN obs |-> [obs[s] EXCEPT !.raw = b]]
NoDisk(W) == [s \in DOMAIN W |-> ""]
DiskFor(W) == IF DOMAIN W = DOMAIN disk THEN disk ELSE NoDisk(W)

NewImg(e) == [r1 |-> e.r, c1 |-> e.c, r2 |-> 0, c2 |-> 0, two |-> FALSE, off |-> <<0, 0, 0, 0>>, ext |-> e.ext, nm |-> e.nm, nk |-> e.nk, dg |-> e.dg]
NewChart(c) == [r1 |-> c.r1, c1 |-> c.c1, r2 |-> c.r2, c2 |-> c.c2, off |-> <<0, 0, 0, 0>>, ct |-> c.ct, ser |-> c.ser,
                refs |-> c.refs, qn |-> c.qn, ti |-> c.ti, tt |-> c.tt]
RectOfEv(e) == [r1 |-> e.r1, c1 |-> e.c1, r2 |-> e.r2, c2 |-> e.c2]

OnS(e) == e.s \in DOMAIN sh
InContract(e) ==
  CASE e.a = "AddImage"    -> OnS(e) /\ CellOK(e.r, e.c)
    [] e.a = "AddChart"    -> OnS(e) /\ RectIn(e.ch)
    [] e.a = "RemoveImage" -> OnS(e) /\ e.i \in DOMAIN sh[e.s].imgs
    [] e.a = "RemoveChart" -> OnS(e) /\ e.i \in DOMAIN sh[e.s].charts
    [] e.a = "ChangeImage" -> OnS(e) /\ e.i \in DOMAIN sh[e.s].imgs
    [] e.a = "MoveImage"   -> OnS(e) /\ e.i \in DOMAIN sh[e.s].imgs /\ CellOK(e.r, e.c)
    [] e.a = "MoveChart"   -> OnS(e) /\ e.i \in DOMAIN sh[e.s].charts /\ RectIn(RectOfEv(e))
    [] e.a = "Insert"      -> OnS(e) /\ CanInsert(sh[e.s], e.ax, e.p, e.n) /\ sh[e.s].name \notin AllRefs(sh)
    [] e.a = "Remove"      -> OnS(e) /\ CanRemove(sh[e.s], e.ax, e.p, e.n) /\ sh[e.s].name \notin AllRefs(sh)
    [] e.a = "AddSheet"    -> e.name \notin Names(sh)
    [] e.a = "RemoveSheet" -> OnS(e) /\ Len(sh) > 1
    [] e.a = "RenameSheet" -> OnS(e) /\ e.name \notin Names(sh)
    [] e.a = "ReadSheet"   -> OnS(e)
    [] e.a = "Reload"      -> ~RawRefs(sh)
    [] OTHER -> FALSE

Base(e) == IF e.a \in {"Insert", "Remove"} /\ e.lvl = "wb" THEN MaterialiseAll(sh) ELSE sh
Expected(e) ==
  CASE e.a = "AddImage"    -> [sh EXCEPT ![e.s] = AddImageS(@, NewImg(e))]
    [] e.a = "AddChart"    -> [sh EXCEPT ![e.s] = AddChartS(@, NewChart(e.ch))]
    [] e.a = "RemoveImage" -> [sh EXCEPT ![e.s] = RemoveImageS(@, e.i)]
    [] e.a = "RemoveChart" -> [sh EXCEPT ![e.s] = RemoveChartS(@, e.i)]
    [] e.a = "ChangeImage" -> [sh EXCEPT ![e.s] = ChangeImageS(@, e.i, e.nm, e.nk, e.dg, e.ext)]
    [] e.a = "MoveImage"   -> [sh EXCEPT ![e.s] = MoveImageS(@, e.i, e.r, e.c)]
    [] e.a = "MoveChart"   -> [sh EXCEPT ![e.s] = MoveChartS(@, e.i, RectOfEv(e))]
    [] e.a = "Insert"      -> [Base(e) EXCEPT ![e.s] = InsS(@, e.ax, e.p, e.n)]
    [] e.a = "AddSheet"    -> Append(sh, NewSheet(e.name))
    [] e.a = "RemoveSheet" -> RemoveAt(sh, e.s)
    [] e.a = "RenameSheet" -> [sh EXCEPT ![e.s].name = e.name]
    [] e.a = "ReadSheet"   -> [sh EXCEPT ![e.s] = Touch(@)]

NextDisk(e) ==
  CASE e.a = "AddSheet"    -> Append(disk, "")
    [] e.a = "RemoveSheet" -> RemoveAt(disk, e.s)
    [] OTHER -> disk

Fields == {"name", "imgs", "charts", "oth"}
Diff(want, got) ==
  IF DOMAIN want # DOMAIN got THEN <<"sheet count", Len(want), Len(got)>>
  ELSE LET bad == {i \in DOMAIN want : want[i] # got[i]} IN
       IF bad = {} THEN <<"same">>
       ELSE LET i == MinOf(bad)
                fs == {f \in Fields : want[i][f] # got[i][f]}
                f == CHOOSE x \in fs : TRUE
            IN <<"sheet", i, fs, "expected", want[i][f], "observed", got[i][f]>>

(* ---- ordinary operations ----------------------------------------------------------------------------- *)
RemoveOK(e, obs) ==
  LET B == Base(e) IN
  /\ DOMAIN obs = DOMAIN sh
  /\ \A t \in DOMAIN sh : t # e.s => Vis(obs[t]) = Vis(B[t])
  /\ RemSOK(Vis(sh[e.s]), Vis(obs[e.s]), e.ax, e.p, e.n)

OpStep(e, obs) ==
  IF e.a = "Remove"
  THEN LET flags == [Base(e) EXCEPT ![e.s] = Touch(@)] IN
       /\ disk' = disk
       /\ sh' = Flagged(obs, flags)
       /\ IF e.outcome = "ok" /\ RemoveOK(e, obs) THEN TRUE
          ELSE Mismatch(l, <<"impl", e.a, e.outcome, IF DOMAIN obs = DOMAIN sh THEN <<"expected from", Vis(sh[e.s]), "observed", Vis(obs[e.s])>> ELSE <<"sheets">> >>)
  ELSE LET want == Expected(e) IN
       IF e.outcome = "ok" /\ VisW(obs) = VisW(want)
       THEN sh' = Flagged(obs, want) /\ disk' = NextDisk(e)
       ELSE /\ sh' = Flagged(obs, want)
            /\ disk' = NoDisk(obs)
            /\ Mismatch(l, <<"impl", e.a, e.outcome, Diff(VisW(want), VisW(obs))>>)

(* ---- Reload: write, look at the package, read back --------------------------------------------------- *)
PkgMatches(e, W) ==          \* the independent reader's view of the written file against workbook W
  /\ DOMAIN e.pkg.sheets = DOMAIN sh
  /\ \A s \in DOMAIN sh :
       IF sh[s].raw THEN e.pkg.sheets[s].name = sh[s].name /\ e.pkg.sheets[s].closure = disk[s]
       ELSE Vis(SheetOf(e.pkg.sheets[s])) = Vis(W[s])
PkgDiff(e, W) ==
  IF DOMAIN e.pkg.sheets # DOMAIN sh THEN <<"sheet count">>
  ELSE LET bad == {s \in DOMAIN sh : IF sh[s].raw THEN ~(e.pkg.sheets[s].name = sh[s].name /\ e.pkg.sheets[s].closure = disk[s])
                                     ELSE Vis(SheetOf(e.pkg.sheets[s])) # Vis(W[s])} IN
       IF bad = {} THEN <<"same">>
       ELSE LET s == MinOf(bad) IN
            IF sh[s].raw THEN <<"raw sheet not byte-identical", s, disk[s], e.pkg.sheets[s].closure>>
            ELSE <<"sheet", s, "model", Vis(W[s]), "file", Vis(SheetOf(e.pkg.sheets[s]))>>

ReloadStep(e, obs) ==
  IF e.sv # "ok"
  THEN /\ sh' = Flagged(obs, sh) /\ disk' = DiskFor(obs)
       /\ IF KFOn("X03-KF2") /\ Dangling(sh) /\ e.sv = "panic" /\ VisW(obs) = VisW(sh)
          THEN KFHit("X03-KF2", l)
          ELSE Mismatch(l, <<"impl", "save", e.sv>>)
  ELSE
  LET byName == Written(sh, "name")
      c1 == IF KFOn("X03-KF1") THEN byName ELSE sh
      c2 == IF KFOn("X03-KF3") THEN Trimmed(c1) ELSE c1
      kf5 == KFOn("X03-KF5") /\ HasNameKind(sh, "hash")
      kf6 == KFOn("X03-KF6") /\ HasNameKind(sh, "ext")
      kinds == {e.pkg.badk[i] : i \in DOMAIN e.pkg.badk}
      k5 == {"orphan", "rid", "target"}
      k6 == {"notype", "type"}
      valid == e.pkg.ok /\ e.pkg.bad = <<>>
      excused == e.pkg.ok /\ kinds \subseteq ((IF kf5 THEN k5 ELSE {}) \cup (IF kf6 THEN k6 ELSE {}))
      F(W) == IF kf5 THEN Unresolved(W) ELSE W      \* what a URI-resolving reader finds in the file
  IN
  /\ IF \E s \in DOMAIN sh : sh[s].raw /\ disk[s] # "" THEN PrintT(<<"NOTE", "raw drawing compared", l>>) ELSE TRUE
  /\ IF valid THEN TRUE
     ELSE IF excused
     THEN /\ (IF kinds \cap k5 # {} THEN KFHit("X03-KF5", l) ELSE TRUE)
          /\ (IF kinds \cap k6 # {} THEN KFHit("X03-KF6", l) ELSE TRUE)
     ELSE Mismatch(l, <<"impl", "package", e.pkg.ok, e.pkg.bad>>)
  /\ IF e.pkg.badf = <<>> THEN TRUE
     ELSE IF KFOn("X03-KF4") /\ QuoteNeeded(sh) THEN KFHit("X03-KF4", l)
     ELSE Mismatch(l, <<"impl", "formula", e.pkg.badf>>)
  /\ IF ~(valid \/ excused) \/ PkgMatches(e, F(sh)) THEN TRUE
     ELSE IF KFOn("X03-KF1") /\ PkgMatches(e, F(byName)) THEN KFHit("X03-KF1", l)
     ELSE Mismatch(l, <<"impl", "file", PkgDiff(e, F(sh))>>)
  /\ IF e.ld # "ok"
     THEN sh' = Flagged(obs, sh) /\ disk' = DiskFor(obs) /\ Mismatch(l, <<"impl", "load", e.ld>>)
     ELSE /\ sh' = AllFlag(obs, e.lazy)
          /\ disk' = IF e.lazy /\ (valid \/ excused) /\ DOMAIN e.pkg.sheets = DOMAIN obs
                     THEN [s \in DOMAIN obs |-> e.pkg.sheets[s].closure] ELSE NoDisk(obs)
          /\ IF VisW(obs) = VisW(sh) THEN TRUE
             ELSE IF VisW(obs) = VisW(c2)
             THEN /\ (IF VisW(c1) # VisW(sh) THEN KFHit("X03-KF1", l) ELSE TRUE)
                  /\ (IF VisW(c2) # VisW(c1) THEN KFHit("X03-KF3", l) ELSE TRUE)
             ELSE Mismatch(l, <<"impl", "reload", Diff(VisW(sh), VisW(obs))>>)

(* ---- Init ----------------------------------------------------------------------------------------------- *)
InitStep(e, obs) ==
  LET want == SheetsOf(e.exp) IN
  /\ sh' = AllFlag(obs, e.lazy)
  /\ disk' = IF e.lazy /\ DOMAIN e.exp = DOMAIN obs THEN [s \in DOMAIN obs |-> e.exp[s].closure] ELSE NoDisk(obs)
  /\ IF e.outcome = "ok" /\ VisW(obs) = VisW(want) THEN TRUE
     ELSE IF e.outcome = "ok" /\ KFOn("X03-KF3") /\ VisW(obs) = VisW(Trimmed(want)) THEN KFHit("X03-KF3", l)
     ELSE Mismatch(l, <<"init", e.outcome, IF e.outcome = "ok" THEN Diff(VisW(want), VisW(obs)) ELSE <<"failed">> >>)

Ev == Rec[l]

Step(e) ==
  IF e.a = "Fatal" THEN sh' = sh /\ disk' = disk /\ Mismatch(l, <<"impl", "fatal", e.outcome>>)
  ELSE
  LET obs == SheetsOf(e.obs) IN
  IF e.a = "Init" THEN InitStep(e, obs)
  ELSE IF ~InContract(e)
  THEN sh' = Flagged(obs, sh) /\ disk' = DiskFor(obs) /\ Mismatch(l, <<"gen", e.a>>)
  ELSE IF e.a = "Reload" THEN ReloadStep(e, obs)
  ELSE OpStep(e, obs)

TraceInit == l = 1 /\ sh = <<>> /\ disk = <<>> /\ last = [op |-> "init", s |-> 0]
TraceNext == l <= Len(Rec) /\ l' = l + 1 /\ Step(Ev) /\ UNCHANGED last
TraceSpec == TraceInit /\ [][TraceNext]_tvars
=============================================================================
