CONSTANTS MaxRow = 1048576 MaxCol = 16384 Wide = FALSE MaxOpts = 0 MaxSst = 0 MaxCells = 3 UseBlock = FALSE MaxAttrs = 0
  Variants = "pos" EmitReplay = FALSE
SPECIFICATION MCSpec
INVARIANTS DecodeTotal KindByType PositionsImplied XLemmas FmtLemmas
CHECK_DEADLOCK FALSE
