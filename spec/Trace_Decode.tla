---------------------------- MODULE Trace_Decode ----------------------------
(***************************************************************************)
(* Trace validation for C03.  A trace is a sequence of files; per file     *)
(*   File   the independent extraction of the workbook level (shared       *)
(*          strings, cellXfs -> numFmt, sheet names, defined names) and    *)
(*          what the library shows for it after reader::xlsx::read_reader  *)
(*   Sheet  per sheet: hyperlinks and table columns (extracted / shown)    *)
(*   Cells  a batch of cells of that sheet in document order; every item   *)
(*          pairs the raw encoding found in the file (rp) with the cell    *)
(*          the library holds at that position (op)                        *)
(* The specification decodes every raw encoding with Decode!DecodeCell     *)
(* (threading the shared-formula table through the sheet) and accepts an   *)
(* item iff the library shows exactly that value, kind, formula and number *)
(* format.  Known findings are narrow deviations: a trigger on the raw     *)
(* encoding and the exact value the implementation computes instead.       *)
(* The extraction (pydec) never interprets: it delivers text as the XML    *)
(* parser delivers it, plus the same text with ST_Xstring escapes undone   *)
(* (runs / runsx), trimmed (vt), as a double (vb, gb) and as an index (vi).*)
(***************************************************************************)
EXTENDS Decode, TraceBase

VARIABLES l, cur, masters, pos
tvars == <<file, phase, l, cur, masters, pos>>

Ev == Rec[l]
FileEv == Rec[cur]

(* ---- values ---------------------------------------------------------------------- *)
ObsVal(o)  == NormVal(Val(o.k, o.runs, o.b))
ObsValN(o) == NormVal(Val(o.k, o.runsn, o.b))          \* line ends normalised (CR LF | CR -> LF) by the driver

(* where the text of a string-typed cell comes from: [rich, runs, runsx, cr, amb, hx, xu, du] *)
Src(c, sst) ==
  CASE c.t = "s"         -> sst[c.vi + 1]
    [] c.t = "inlineStr" -> c.isr
    [] OTHER             -> [rich |-> FALSE, runs |-> <<c.v>>, runsx |-> <<c.vx>>, cr |-> c.cr, amb |-> FALSE, hx |-> c.hx,
                             xu |-> IF c.hx THEN c.xu ELSE <<>>, du |-> IF c.hx THEN c.du ELSE <<>>]
(* ST_Xstring: the extraction delivers the text before (xu) and after (du) its decoding as UTF-16 code units wherever "_x"
   occurs; the specification decodes xu itself.  XAgrees: the extraction decoded as Decode!XDecode does (else the tool
   is wrong, not the library); XDecided: the decoded text has no lone surrogate (else it is not judged) *)
XAgrees(src)  == ~src.hx \/ \A i \in DOMAIN src.xu : XDecode(src.xu[i]) = src.du[i]
XDecided(src) == ~src.hx \/ \A i \in DOMAIN src.du : WellFormed16(src.du[i])
IsTextCell(c) == (c.t \in {"s", "str"} /\ c.hv) \/ (c.t = "inlineStr" /\ c.his)

(* CellValue::guess_typed_data as far as the generator exercises it (gb = the text as a double, "" if none) *)
GuessVal(text, gb) ==
  IF text = "" THEN Blank
  ELSE IF text \in {"TRUE", "true", "True"} THEN Val("bool", <<"TRUE">>, "")
  ELSE IF text \in {"FALSE", "false", "False"} THEN Val("bool", <<"FALSE">>, "")
  ELSE IF text \in ErrCodes THEN Val("err", <<text>>, "")
  ELSE IF gb # "" THEN Val("num", <<>>, gb)
  ELSE TextVal(text)
LastOf(s) == s[Len(s)]

(* C03-KF2: literal CR / CR LF inside text is not normalised to LF *)
KF2Trig(c, sst) == IsTextCell(c) /\ Src(c, sst).cr
KF2Out(c, sst, want, o) == ObsVal(o) # want /\ ObsValN(o) = want
(* C03-KF3: a plain inline string goes through type guessing *)
KF3Trig(c) == c.t = "inlineStr" /\ c.his /\ ~c.isr.rich /\ GuessVal(c.isr.runs[1], c.isr.gb) # TextVal(c.isr.runs[1])
KF3Out(c, o) == ObsVal(o) = NormVal(GuessVal(c.isr.runs[1], c.isr.gb))
(* C03-KF4: a rich inline string keeps only its last run, as a plain value (type-guessed while C03-KF3 is open) *)
KF4Trig(c) == c.t = "inlineStr" /\ c.his /\ c.isr.rich
KF4Out(c, o) == ObsVal(o) = NormVal(IF KFOn("C03-KF3") THEN GuessVal(LastOf(c.isr.runs), c.isr.gb)   \* guessed like a plain one
                                      ELSE TextVal(LastOf(c.isr.runs)))
(* C03-KF5: <v> text of t="str" loses its outer white space *)
KF5Trig(c) == c.t = "str" /\ c.hv /\ c.vt # c.vx
KF5Out(c, o) == ObsVal(o) = NormVal(TextVal(c.vt))
(* C03-KF6: ST_Xstring escapes (_xHHHH_) are not undone *)
KF6Trig(c, sst) == IsTextCell(c) /\ Src(c, sst).runsx # Src(c, sst).runs
KF6Out(c, sst, o) == ObsVal(o) = NormVal(RstVal([rich |-> Src(c, sst).rich, runs |-> Src(c, sst).runsx]))

(* C03-KF10: an empty shared string item written as the empty-element tag <si/> is not counted, so every later index
   designates the item after the intended one (and an index beyond the shortened table makes the load panic) *)
NonSe(sst) == SelectSeq(sst, LAMBDA x : ~x.se)
HasSe(sst) == \E i \in DOMAIN sst : sst[i].se
KF10Trig(c, sst) == c.t = "s" /\ c.hv /\ HasSe(sst) /\ c.vi < Len(NonSe(sst))
KF10Out(c, sst, o) == ObsVal(o) = NormVal(RstVal(NonSe(sst)[c.vi + 1]))
(* C03-KF11: a phonetic run <rPh> of a plain inline string replaces the string's text *)
KF11Trig(c) == c.t = "inlineStr" /\ c.his /\ ~c.isr.rich /\ c.isr.ph
KF11Out(c, o) == ObsVal(o) = NormVal(TextVal(c.isr.pht))

(* a <t> with outer white space that no xml:space="preserve" protects: XML delivers the white space, Excel drops it, so
   the outer white space of every run is not judged - everything else is: the extraction delivers such runs trimmed, and
   the library's runs are compared trimmed (runst); a value replaced by the white space between elements is rejected *)
TrimObs(o) == [o EXCEPT !.runs = o.runst, !.runsn = o.runstn]
ValueVerdict(c, sst, o0) ==
  LET want == NormVal(DecodeValue(c, sst))
      o    == IF IsTextCell(c) /\ Src(c, sst).amb THEN TrimObs(o0) ELSE o0
  IN
  IF IsTextCell(c) /\ ~XAgrees(Src(c, sst)) THEN "gen"
  ELSE IF IsTextCell(c) /\ ~XDecided(Src(c, sst)) THEN "skip"
  ELSE IF ObsVal(o) = want THEN "ok"
  ELSE IF KFOn("C03-KF2") /\ KF2Trig(c, sst) /\ KF2Out(c, sst, want, o) THEN "C03-KF2"
  ELSE IF KFOn("C03-KF3") /\ KF3Trig(c) /\ KF3Out(c, o) THEN "C03-KF3"
  ELSE IF KFOn("C03-KF4") /\ KF4Trig(c) /\ KF4Out(c, o) THEN "C03-KF4"
  ELSE IF KFOn("C03-KF5") /\ KF5Trig(c) /\ KF5Out(c, o) THEN "C03-KF5"
  ELSE IF KFOn("C03-KF6") /\ KF6Trig(c, sst) /\ KF6Out(c, sst, o) THEN "C03-KF6"
  ELSE IF KFOn("C03-KF10") /\ KF10Trig(c, sst) /\ KF10Out(c, sst, o) THEN "C03-KF10"
  ELSE IF KFOn("C03-KF11") /\ KF11Trig(c) /\ KF11Out(c, o) THEN "C03-KF11"
  ELSE "bad"

(* ---- formulas ---------------------------------------------------------------------- *)
(* the shared-formula table of the trace: like Decode!NextMasters, plus ok = the extraction's token list
   renders to the master's text (children of a master that could not be tokenised are not judged) *)
TNext(m, c) == IF IsMaster(c, m)
               THEN m @@ (c.f.si :> [r |-> c.r, c |-> c.c, toks |-> c.f.toks, ok |-> Render(c.f.toks) = c.f.text])
               ELSE m

(* how the implementation derives a child: helper::formula::adjustment_insert_formula_coordinate with root = the
   master cell and offset = child - master.  Mechanisms (each an open finding):
     shift    a non-$ part moves only if it is at or beyond the master's column / row  (intended: every non-$ part)
     rowonly  whole-row and whole-column ranges are copied unchanged                   (intended: translated)     *)
ShiftPart(v, lock, root, d) == IF ~lock /\ v >= root THEN v + d ELSE v
ShiftG(g, ac, ar, dc, dr) ==
  [g EXCEPT !.c1 = ShiftPart(@, g.lc1, ac, dc), !.r1 = ShiftPart(@, g.lr1, ar, dr),
            !.c2 = IF Two(g) THEN ShiftPart(@, g.lc2, ac, dc) ELSE @,
            !.r2 = IF Two(g) THEN ShiftPart(@, g.lr2, ar, dr) ELSE @]
ImplChildTok(t, ac, ar, dc, dr, E) ==
  IF ~IsRef(t) THEN t
  ELSE IF t.g.k \in {"cell", "rect"}
       THEN IF "shift" \in E THEN [t EXCEPT !.g = ShiftG(@, ac, ar, dc, dr)] ELSE Translate(t, dc, dr)
       ELSE IF "rowonly" \in E THEN t ELSE Translate(t, dc, dr)
ImplChild(c, m, E) ==
  LET a == m[c.f.si] IN [i \in DOMAIN a.toks |-> ImplChildTok(a.toks[i], a.c, a.r, c.c - a.c, c.r - a.r, E)]
Mech == [shift |-> "C03-KF1", rowonly |-> "C03-KF9"]
MechOn == {x \in {"shift", "rowonly"} : KFOn(Mech[x])}
ChildHits(c, m) == LET full == ImplChild(c, m, MechOn) IN {x \in MechOn : ImplChild(c, m, MechOn \ {x}) # full}

(* set of finding ids, {"ok"}, {"bad"} or {"skip"} *)
FormulaVerdict(c, m, o) ==
  LET want == DecodeFormula(c, m) IN
  IF c.f.k \notin FKinds THEN {"skip"}
  ELSE IF c.f.k = "shared" /\ ~IsChild(c, m) /\ ~c.f.ht THEN {"skip"}      \* a group without master text: invalid
  ELSE IF IsChild(c, m) /\ ~m[c.f.si].ok THEN {"skip"}
  ELSE IF IsChild(c, m) /\ HasRefErr(want.toks) /\ ~HasRefErr(m[c.f.si].toks) THEN {"skip"}   \* leaves the grid
  ELSE IF o.hf = want.hf /\ (IF want.exact THEN o.f = want.text ELSE AcceptsF(want.toks, o.f)) THEN {"ok"}
  ELSE IF KFOn("C03-KF7") /\ c.t = "s" /\ c.hv /\ ~o.hf /\ o.f = "" THEN {"C03-KF7"}
  ELSE IF IsChild(c, m) /\ MechOn # {} /\ o.hf /\ AcceptsF(ImplChild(c, m, MechOn), o.f) /\ ChildHits(c, m) # {}
       THEN {Mech[x] : x \in ChildHits(c, m)}
  ELSE {"bad"}

(* ---- number formats ---------------------------------------------------------------- *)
FmtVerdict(c, xfs, o) ==
  IF ~ValidStyle(c, xfs) THEN "skip"
  ELSE LET xf == DecodeFmt(c, xfs) IN
       IF xf.custom THEN (IF o.fmt = xf.code THEN "ok" ELSE "bad")
       ELSE IF xf.id \in EcmaFmtIds THEN (IF o.fid = xf.id THEN "ok" ELSE "bad")
       ELSE "skip"
(* the same demand on the number format the loaded workbook writes down: the driver sends the loaded workbook through
   write_writer + read_reader in memory and reports the cell's format again (fid2 / fmt2; h2 = the cell is there).  This
   looks at what the loaded workbook holds beyond its getters (a declared format that the load marked as not to be
   written shows the right code through the getter and another one after the save), not at the writer in general. *)
FmtVerdict2(c, xfs, o) ==
  IF ~ValidStyle(c, xfs) \/ ~o.h2 THEN "skip"
  ELSE LET xf == DecodeFmt(c, xfs) IN
       CASE FmtDemand(xf) = "code" -> (IF o.fmt2 = xf.code THEN "ok" ELSE "bad")
         [] FmtDemand(xf) = "id"   -> (IF o.fid2 = xf.id THEN "ok" ELSE "bad")
         [] OTHER                  -> "skip"
IsGeneral(c, xfs) == ValidStyle(c, xfs) /\ ~DecodeFmt(c, xfs).custom /\ DecodeFmt(c, xfs).id = 0

(* ---- one item: the set of verdicts of its parts ------------------------------------ *)
ValueValid(c, nsst) == c.t \in CellTypes /\ ValidValue(c, nsst)
ItemVerdicts(it, sst, xfs, m) ==
  LET c == it.raw  o == it.obs IN
  IF it.rp /\ it.op
  THEN {IF ValueValid(c, Len(sst)) THEN ValueVerdict(c, sst, o) ELSE "skip"} \cup FormulaVerdict(c, m, o) \cup {FmtVerdict(c, xfs, o), FmtVerdict2(c, xfs, o)}
  ELSE IF it.rp                    \* the library has no cell here: fine iff the file's cell is empty and unformatted
  THEN IF ~ValueValid(c, Len(sst)) THEN {"skip"}
       ELSE IF NormVal(DecodeValue(c, sst)) = Blank /\ c.f.k = "none" /\ IsGeneral(c, xfs) THEN {"ok"} ELSE {"bad"}
  ELSE IF it.op                    \* a cell the file does not have (made for a hyperlink): must be empty
  THEN IF o.k = "blank" /\ ~o.hf THEN {"ok"} ELSE {"bad"}
  ELSE {"ok"}

(* the position of a cell of the file is derived by the specification (Decode!CellPosition) from the r= attributes as
   written; the extraction's own derivation (it.r, it.c - used to pair the cell with the library's) must agree *)
PosVerdict(it, p) == IF ~it.rp THEN {}
                     ELSE LET d == CellPosition(p, it.raw) IN IF d.row = it.r /\ d.col = it.c THEN {} ELSE {"gen"}
(* fold over a batch: [m: shared-formula table afterwards, p: position state afterwards, v: sequence of verdict sets] *)
RECURSIVE Fold(_, _, _, _, _, _, _)
Fold(items, i, sst, xfs, m, p, acc) ==
  IF i > Len(items) THEN [m |-> m, p |-> p, v |-> acc]
  ELSE Fold(items, i + 1, sst, xfs, IF items[i].rp THEN TNext(m, items[i].raw) ELSE m,
            IF items[i].rp THEN PosAfter(p, items[i].raw) ELSE p,
            Append(acc, ItemVerdicts(items[i], sst, xfs, m) \cup PosVerdict(items[i], p)))

Brief(it) == [r |-> it.r, c |-> it.c, t |-> it.raw.t, v |-> it.raw.v, f |-> it.raw.f.text, si |-> it.raw.f.si,
              ok |-> it.obs.k, ov |-> it.obs.runs, ob |-> it.obs.b, of |-> it.obs.f, ofid |-> it.obs.fid, ofmt |-> it.obs.fmt,
              ofid2 |-> it.obs.fid2, ofmt2 |-> it.obs.fmt2]
Report(e, v) ==
  LET bad == {i \in DOMAIN v : "bad" \in v[i]}
      gen == {i \in DOMAIN v : "gen" \in v[i]}
      kfs == UNION {v[i] \ {"ok", "bad", "skip", "gen"} : i \in DOMAIN v \ bad}
  IN /\ IF gen # {} THEN Mismatch(l, <<"gen", "cell", e.sheet, Brief(e.items[MinOf(gen)])>>)     \* the tool, not the library
        ELSE IF bad = {} THEN TRUE
        ELSE Mismatch(l, <<"impl", "cell", e.sheet, Cardinality(bad), Brief(e.items[MinOf(bad)])>>)
     /\ \A id \in kfs : \A i \in {j \in DOMAIN v \ bad : id \in v[j]} : KFHit(id, l)

(* C03-KF8: cells without r= are all stored at A1 (the last one in document order wins).  Only modelled for a
   sheet that arrives in one batch and whose cells all lack r= : the cell at A1 shows the decode of the last cell,
   every other position holds no value and no formula. *)
LastRaw(items) == LET S == {i \in DOMAIN items : items[i].rp} IN items[CHOOSE i \in S : \A j \in S : j <= i]
KF8Items(items) ==
  [i \in DOMAIN items |->
     IF items[i].r = 1 /\ items[i].c = 1 THEN [items[i] EXCEPT !.rp = TRUE, !.raw = LastRaw(items).raw]
     ELSE [items[i] EXCEPT !.rp = FALSE]]
KF8Trig(e) == /\ e.noref /\ e.first /\ e.last
              /\ \E i \in DOMAIN e.items : e.items[i].rp /\ e.items[i].r = 1 /\ e.items[i].c = 1
              /\ \E i \in DOMAIN e.items : e.items[i].rp /\ (e.items[i].r # 1 \/ e.items[i].c # 1)
KF8Out(e, sst, xfs) ==
  /\ \A i \in DOMAIN e.items : (e.items[i].r # 1 \/ e.items[i].c # 1) =>       \* (a hyperlink still makes an empty cell)
        (~e.items[i].op \/ (e.items[i].obs.k = "blank" /\ ~e.items[i].obs.hf))
  /\ \A i \in DOMAIN e.items : e.items[i].rp => e.items[i].raw.f.k # "shared"
  /\ LET v == Fold(KF8Items(e.items), 1, sst, xfs, NoMasters, Pos0, <<>>).v IN \A i \in DOMAIN v : "bad" \notin v[i]

(* ---- events -------------------------------------------------------------------------- *)
(* C03-KF10 at file level: a cell's shared string index lies beyond the table shortened by the <si/> items *)
KF10Panic(e) == HasSe(e.sst) /\ e.maxsi >= Len(NonSe(e.sst)) /\ e.maxsi < Len(e.sst) /\ e.outcome = "panic"
FileOk(e) == /\ e.outcome = "ok"
             /\ e.sheets = e.osheets                        \* sheet names, in workbook order
             /\ e.names = e.onames                          \* defined names (name, scope), sorted
(* a hyperlink: the cell shows a link whose url is the decoded target, whose tooltip is the tooltip attribute and - where
   that is decided - whose location flag says whether the target is a place in the workbook *)
LinkOk(h) == h.skip \/ ~ValidLink(h)
             \/ (h.op /\ h.ourl = LinkUrl(h) /\ h.otip = h.tip /\ (LinkPlaceDecided(h) => (h.oloc = LinkIsPlace(h))))
SheetOk(e) == /\ \A i \in DOMAIN e.links : LinkOk(e.links[i])
              /\ e.tcols = e.otcols

Step(e) ==
  CASE e.a = "File" ->
         /\ cur' = l /\ masters' = NoMasters /\ pos' = Pos0
         /\ IF FileOk(e) THEN TRUE
            ELSE IF KFOn("C03-KF10") /\ KF10Panic(e) THEN KFHit("C03-KF10", l)
            ELSE Mismatch(l, <<"impl", "file", e.file, e.outcome, e.msg,
                               IF e.sheets # e.osheets THEN <<"sheets", e.sheets, e.osheets>> ELSE <<"names", e.names, e.onames>> >>)
    [] e.a = "Sheet" ->
         /\ cur' = cur /\ masters' = NoMasters /\ pos' = Pos0
         /\ IF SheetOk(e) THEN TRUE ELSE Mismatch(l, <<"impl", "sheet", e.sheet, e.links, e.tcols, e.otcols>>)
    [] e.a = "Cells" ->
         (* (bound variables of a singleton set are evaluated once; a LET definition would be re-evaluated per use) *)
         \E ctx \in {[sst |-> FileEv.sst, xfs |-> FileEv.xfs, items |-> e.items]} :
         \E res \in {Fold(ctx.items, 1, ctx.sst, ctx.xfs, masters, IF e.pos0.set THEN [row |-> e.pos0.row, col |-> e.pos0.col] ELSE pos, <<>>)} :
            /\ cur' = cur /\ masters' = res.m /\ pos' = res.p
            /\ IF (\E i \in DOMAIN res.v : "bad" \in res.v[i]) /\ KFOn("C03-KF8") /\ KF8Trig(e) /\ KF8Out(e, ctx.sst, ctx.xfs)
               THEN KFHit("C03-KF8", l)
               ELSE Report(e, res.v)
    [] OTHER -> /\ cur' = cur /\ masters' = masters /\ pos' = pos
                /\ Mismatch(l, <<"impl", "fatal", e.a, e.outcome>>)

TraceInit == l = 1 /\ cur = 1 /\ masters = NoMasters /\ pos = Pos0 /\ file = 0 /\ phase = "trace"
TraceNext == l <= Len(Rec) /\ l' = l + 1 /\ Step(Ev) /\ UNCHANGED <<file, phase>>
TraceSpec == TraceInit /\ [][TraceNext]_tvars
=============================================================================
