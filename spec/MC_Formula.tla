----------------------------- MODULE MC_Formula -----------------------------
(* Bounded workbook model of C08: formulas produced by the FormulaGen generator are placed in cells of a
   three-sheet workbook ("S1", "My Sheet", "O'Brien") that also has defined names and one chart, then rows /
   columns are inserted / removed on any sheet (Formula.tla PostInsert / PostRemove).  TLC checks that every
   reference keeps its target cells (stated on sets of grid cells, independently of the index arithmetic),
   that everything else is unchanged, and prints every behaviour as a REPLAY line for the conformance run. *)
EXTENDS MC_FormulaGen

CONSTANTS Depth,        \* number of edits
          NCells,       \* number of formula cells placed
          EmitWb        \* TRUE: print one REPLAY line per behaviour

VARIABLES wb, phase, steps, hist, last
mcvars == <<toks, stack, expect, wb, phase, steps, hist, last>>

Sheets == <<"S1", "My Sheet", "O'Brien">>
Rect(qc, qq, c1, r1, l1, c2, r2, l2) == Ref(qc, qq, Geo("rect", c1, r1, l1, l1, c2, r2, l2, l2))

(* operand palette on the 5 x 4 window *)
WbRefs == { Ref(<<>>, FALSE, CellG(1, 1, FALSE, FALSE)),                 \* A1
            Ref(<<>>, FALSE, CellG(2, 3, TRUE, TRUE)),                   \* $B$3
            Ref(<<>>, FALSE, CellG(3, 2, FALSE, TRUE)),                  \* C$2
            Rect(<<>>, FALSE, 1, 2, FALSE, 2, 4, FALSE),                 \* A2:B4
            Rect(<<>>, FALSE, 2, 2, TRUE, 3, 3, TRUE),                   \* $B$2:$C$3
            Ref(<<>>, FALSE, RowsG(2, FALSE, 3, FALSE)),                 \* 2:3
            Ref(<<>>, FALSE, ColsG(2, FALSE, 3, TRUE)),                  \* B:$C
            Ref(S1, FALSE, CellG(2, 2, FALSE, FALSE)),                   \* S1!B2
            Rect(S1, FALSE, 1, 2, FALSE, 1, 4, TRUE),                    \* S1!A2:$A$4
            Ref(MySheet, TRUE, CellG(2, 2, FALSE, FALSE)),               \* 'My Sheet'!B2
            Rect(OBrien, TRUE, 1, 1, FALSE, 2, 3, FALSE) }               \* 'O''Brien'!A1:B3
WbLits == { Tok("num", "1"), Str(<<"a", "\"">>), Name(<<"T", "o", "t", "a", "l">>), [k |-> "arr", rows |-> << <<"1", "2">> >>],
            Tok("brk", "Table1[Col]"), Tok("err", "#REF!") }
WbOperands      == WbRefs \cup WbLits
WbOperandsSmall == { Ref(<<>>, FALSE, CellG(1, 2, FALSE, FALSE)), Ref(<<>>, FALSE, CellG(2, 3, TRUE, TRUE)),
                     Rect(<<>>, FALSE, 1, 2, FALSE, 2, 4, FALSE), Ref(<<>>, FALSE, RowsG(2, FALSE, 3, FALSE)),
                     Rect(S1, FALSE, 2, 1, FALSE, 3, 3, TRUE), Ref(MySheet, TRUE, CellG(2, 2, FALSE, FALSE)) }
WbOperandsTiny  == { Rect(<<>>, FALSE, 1, 2, FALSE, 2, 4, FALSE), Ref(S1, FALSE, CellG(2, 3, TRUE, TRUE)) }
(* intersections whose operands are function calls, parenthesised ranges and names *)
WbOperandsIsect == { Rect(<<>>, FALSE, 1, 2, FALSE, 2, 4, FALSE), Rect(S1, FALSE, 2, 1, FALSE, 3, 3, TRUE), Name(<<"r", "a", "t", "e">>) }
NsOne == {1}
NoFns == {}
NoOps == {}
NoPre == {}
NoBlanks == {}

FixedNames  == { [on |-> 1, name |-> "N1", t |-> Rect(S1, TRUE, 1, 2, TRUE, 2, 3, TRUE)],          \* kept on S1, refers to S1
                 [on |-> 2, name |-> "N2", t |-> Ref(S1, TRUE, CellG(2, 4, TRUE, TRUE))],         \* kept on My Sheet, refers to S1
                 [on |-> 0, name |-> "",   t |-> Rect(MySheet, TRUE, 1, 1, TRUE, 1, 3, TRUE)] }   \* workbook level
(* charts: a two-kind and a three-kind combination chart (every kind with a series into S1 and one into My Sheet)
   next to a single-kind chart; `kinds` names the chart kind of every series (for the driver only) *)
SerS1(c, r1, r2) == Rect(S1, FALSE, c, r1, TRUE, c, r2, TRUE)
SerMy(c, r1, r2) == Rect(MySheet, TRUE, c, r1, TRUE, c, r2, TRUE)
FixedCharts == { [on |-> 1, i |-> 1, kinds |-> <<"line", "line", "bar", "bar">>,
                  ts |-> << SerS1(1, 1, 4), SerMy(2, 1, 4), SerS1(2, 2, 3), SerMy(1, 2, 4) >>],
                 [on |-> 2, i |-> 1, kinds |-> <<"line", "line", "bar", "bar", "area", "area">>,
                  ts |-> << SerS1(1, 1, 4), SerMy(2, 1, 4), SerS1(2, 1, 3), SerMy(3, 2, 4), SerS1(3, 2, 4), SerMy(1, 1, 2) >>],
                 [on |-> 3, i |-> 1, kinds |-> <<"bar", "bar">>, ts |-> << SerS1(2, 1, 4), SerMy(2, 2, 3) >>] }
Places == << [s |-> 1, r |-> 3, c |-> 3], [s |-> 2, r |-> 4, c |-> 1], [s |-> 3, r |-> 2, c |-> 2] >>

InitRec(W) == [a |-> "Init", sheets |-> W.sheets,
               cells  |-> {[s |-> x.s, r |-> x.r, c |-> x.c, toks |-> x.f, f |-> Render(x.f)] : x \in W.cells},
               names  |-> {[on |-> x.on, name |-> x.name, tok |-> x.t, addr |-> TokText(x.t)] : x \in W.names},
               charts |-> {[on |-> x.on, toks |-> x.ts, addrs |-> [j \in DOMAIN x.ts |-> TokText(x.ts[j])], kinds |-> x.kinds] : x \in W.charts}]

MCInit == /\ GenInit
          /\ wb = [sheets |-> Sheets, cells |-> {}, names |-> FixedNames, charts |-> FixedCharts]
          /\ phase = "gen" /\ steps = 0 /\ hist = <<>> /\ last = [op |-> "none"]

GenStep == phase = "gen" /\ GenNext /\ UNCHANGED <<wb, phase, steps, hist, last>>
Place ==
  /\ phase = "gen" /\ Accepting
  /\ LET k == Cardinality(wb.cells) + 1
         W2 == [wb EXCEPT !.cells = @ \cup {[s |-> Places[k].s, r |-> Places[k].r, c |-> Places[k].c, f |-> toks]}]
     IN /\ wb' = W2
        /\ IF k < NCells THEN phase' = "gen" /\ hist' = hist ELSE phase' = "edit" /\ hist' = <<InitRec(W2)>>
  /\ toks' = <<>> /\ stack' = <<>> /\ expect' = "operand"
  /\ UNCHANGED <<steps, last>>
Ns == {1, 2}
Insert == /\ phase = "edit" /\ steps < Depth
          /\ \E s \in DOMAIN wb.sheets, ax \in Axes, n \in Ns : \E p \in 1..Lines(ax) :
                /\ CanInsertWb(wb, s, ax, p, n)
                /\ wb' = PostInsert(wb, s, ax, p, n)
                /\ last' = [op |-> "ins", s |-> s, ax |-> ax, p |-> p, n |-> n]
                /\ hist' = Append(hist, [a |-> "Insert", s |-> s, ax |-> ax, p |-> p, n |-> n])
          /\ steps' = steps + 1 /\ UNCHANGED <<toks, stack, expect, phase>>
Remove == /\ phase = "edit" /\ steps < Depth
          /\ \E s \in DOMAIN wb.sheets, ax \in Axes, n \in Ns : \E p \in 1..Lines(ax) :
                /\ CanRemoveWb(wb, s, ax, p, n)
                /\ wb' = PostRemove(wb, s, ax, p, n)
                /\ last' = [op |-> "rem", s |-> s, ax |-> ax, p |-> p, n |-> n]
                /\ hist' = Append(hist, [a |-> "Remove", s |-> s, ax |-> ax, p |-> p, n |-> n])
          /\ steps' = steps + 1 /\ UNCHANGED <<toks, stack, expect, phase>>
MCNext == GenStep \/ Place \/ Insert \/ Remove
MCSpec == MCInit /\ [][MCNext]_mcvars
View == <<toks, stack, expect, wb, phase, steps, last>>

(* ---- the properties of C08 --------------------------------------------------------------- *)
AllToks(W) == UNION {{x.f[i] : i \in DOMAIN x.f} : x \in W.cells} \cup {x.t : x \in W.names}
              \cup UNION {{x.ts[i] : i \in DOMAIN x.ts} : x \in W.charts}
Normal(g) == (HasCols(g) /\ Two(g) => g.c1 <= g.c2) /\ (HasRows(g) /\ Two(g) => g.r1 <= g.r2)
RefsInGrid == \A t \in AllToks(wb) : IsRef(t) => (GInGrid(t.g) /\ Normal(t.g))
CellsInGrid == \A x \in wb.cells : x.r \in 1..MaxRow /\ x.c \in 1..MaxCol

SameTarget(t, u, own, e, W) ==
  IF e.op = "ins" THEN SameTargetIns(t, u, own, W.sheets[e.s], e.ax, e.p, e.n)
                  ELSE SameTargetRem(t, u, own, W.sheets[e.s], e.ax, e.p, e.n)
SeqKept(f, f2, own, e, W) == Len(f2) = Len(f) /\ \A i \in DOMAIN f : SameTarget(f[i], f2[i], own, e, W)
NewCell(x, e) == IF e.op = "ins" THEN CellIns(x, e.s, e.ax, e.p, e.n) ELSE CellRem(x, e.s, e.ax, e.p, e.n)
Gone(x, e) == e.op = "rem" /\ CellInBand(x, e.s, e.ax, e.p, e.n)
KeptBy(W, W2, e) ==
  /\ W2.sheets = W.sheets
  /\ \A x \in W.cells : Gone(x, e) \/
        \E y \in W2.cells : /\ y.s = x.s /\ y.r = NewCell(x, e).r /\ y.c = NewCell(x, e).c
                            /\ SeqKept(x.f, y.f, W.sheets[x.s], e, W)
  /\ Cardinality(W2.cells) = Cardinality({x \in W.cells : ~Gone(x, e)})
  /\ \A x \in W.names : \E y \in W2.names : y.on = x.on /\ y.name = x.name /\ SameTarget(x.t, y.t, "", e, W)
  /\ Cardinality(W2.names) = Cardinality(W.names)
  /\ \A x \in W.charts : \E y \in W2.charts : y.on = x.on /\ y.i = x.i /\ SeqKept(x.ts, y.ts, "", e, W)
  /\ Cardinality(W2.charts) = Cardinality(W.charts)
TargetsKept == [][(steps' = steps + 1) => KeptBy(wb, wb', last')]_mcvars

EmitWbInv == (EmitWb /\ phase = "edit" /\ steps = Depth) => PrintT(<<"REPLAY", ToJson(hist)>>)
=============================================================================
