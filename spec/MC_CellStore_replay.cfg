CONSTANTS Wide = FALSE MaxRow = 4 MaxCol = 4 Win = 3 Depth = 1 Pools = "full" EmitReplay = TRUE
SPECIFICATION MCSpec
INVARIANTS Emit
CHECK_DEADLOCK FALSE
