---------------------------- MODULE Trace_PwdHash ----------------------------
(***************************************************************************)
(* Conformance of SheetProtection / WorkbookProtection (set_password,      *)
(* set_workbook_password, set_revisions_password, the xlsx writer and      *)
(* reader) with PwdHash.tla.                                               *)
(*                                                                         *)
(* One event per public call.  obs = the public getters of the four        *)
(* protection objects after the call; for Save, file = the attributes of   *)
(* the sheetProtection / workbookProtection elements of the written        *)
(* package as decoded by an independent reader (zipfile + expat).          *)
(* evals is a table binding -> value: the specification's verifier term    *)
(* (Init/Anchor events carry the evaluated term, checked below to be       *)
(* Template) computed with real hash functions for the bindings this       *)
(* event needs.  The digest evaluation D of PwdHash's predicates is a      *)
(* look-up in that table; everything else (which binding, equality, order  *)
(* of events, freshness, survival) is decided here.                        *)
(***************************************************************************)
EXTENDS PwdHash, TraceBase

VARIABLE l
tvars == <<l, prot, isSet, pwOf, file, used, pc, job, nsets, hist>>

TraceNoHash == ""
Ev == Rec[l]

KindSeq == <<"sheet1", "sheet2", "workbook", "revisions">>
(* algorithm names of ECMA-376 that the term evaluator can compute *)
KnownAlgs == {"SHA-512", "SHA-384", "SHA-256", "SHA-1", "MD5"}

Range(s) == {s[i] : i \in DOMAIN s}

(* the evaluation table *)
Hits(evs, a, s, n, p) == {j \in DOMAIN evs : evs[j].alg = a /\ evs[j].salt = s /\ evs[j].spin = n /\ evs[j].pw = p}
Have(evs, a, s, n, p) == Hits(evs, a, s, n, p) # {}
Lookup(evs, a, s, n, p) == evs[MinOf(Hits(evs, a, s, n, p))].val
D(a, s, n, p) == Lookup(Ev.evals, a, s, n, p)

(* every evaluation the judgement of projection p needs is in the table (else: generator error) *)
HaveAll(e, p, set, pws, others) ==
  \A k \in set : /\ Have(e.evals, p[k].alg, p[k].salt, p[k].spin, pws[k])
                 /\ \A j \in DOMAIN others : Have(e.evals, p[k].alg, p[k].salt, p[k].spin, others[j])

(* kinds (in KindSeq order) of `set` that fail predicate Bad *)
FirstBadKind(set, Ok(_)) ==
  LET bad == {i \in DOMAIN KindSeq : KindSeq[i] \in set /\ ~Ok(KindSeq[i])}
  IN  IF bad = {} THEN "" ELSE KindSeq[MinOf(bad)]

SaltsOf(p) == SelectSeq(<<p["sheet1"].salt, p["sheet2"].salt, p["workbook"].salt, p["revisions"].salt>>,
                        LAMBDA x : x # "")

InitSet(e) == {e.init_pw[j].kind : j \in DOMAIN e.init_pw}
InitPws(e) == [k \in Kinds |-> IF k \in InitSet(e)
                               THEN e.init_pw[MinOf({j \in DOMAIN e.init_pw : e.init_pw[j].kind = k})].pw
                               ELSE ""]

(* Messages are short codes <<class, code, kind>> (checks/c15.py adds the context); class "impl" =
   the library, "gen" = the generator/projection side is inconsistent (tool error), "anchor" = the
   oracle does not reproduce an Excel-written verifier (tool error). *)
Bad(class, code, kind) == Mismatch(l, <<class, code, kind>>)

(* a projection p verifies for the kinds `set` with passwords pws; returns TRUE or prints *)
JudgeVerifies(e, p, set, pws, where) ==
  LET v == FirstBadKind(set, LAMBDA k : VerifiesAt(p, k, pws[k], D))
      g == FirstBadKind(set, LAMBDA k : p[k].legacy = "")
  IN  IF v # "" THEN Bad("impl", where \o ":verify", v)        \* stored verifier does not verify the password
      ELSE IF g # "" THEN Bad("impl", where \o ":legacy", g)   \* legacy password attribute present
      ELSE TRUE

----------------------------------------------------------------------------
JInit(e) ==
  IF e.outcome # "ok" THEN Bad("gen", "Init:open", e.outcome)
  ELSE IF e.term # Template THEN Bad("gen", "Init:term", "")     \* evaluated term is not the specification's
  ELSE IF ~HaveAll(e, e.obs, InitSet(e), InitPws(e), <<>>) THEN Bad("gen", "Init:evals", "")
  ELSE JudgeVerifies(e, e.obs, InitSet(e), InitPws(e), "Init")

JLegacy(e) ==
  IF e.outcome # "ok" THEN Bad("gen", "Legacy:outcome", e.outcome)
  ELSE IF e.kind \in isSet THEN Bad("gen", "Legacy:after-set", e.kind)
  ELSE IF ~HaveAll(e, e.obs, isSet, pwOf, <<>>) THEN Bad("gen", "Legacy:evals", "")
  ELSE JudgeVerifies(e, e.obs, isSet, pwOf, "Legacy")

JSet(e) ==
  LET k    == e.kind
      set1 == isSet \cup {k}
      pws1 == [pwOf EXCEPT ![k] = e.pw]
      o    == e.obs
  IN  IF e.outcome # "ok" THEN Bad("impl", "Set:outcome", k)           \* the call did not return
      ELSE IF o[k].alg \notin KnownAlgs THEN Bad("impl", "Set:algname", k)
      ELSE IF ~HaveAll(e, o, set1, pws1, <<>>) \/ ~HaveAll(e, o, {k}, pws1, e.others)
        THEN Bad("gen", "Set:evals", k)
      \* the stored record is the specification's: hash of this password under the stored
      \* algorithm/salt/spin count, legacy attribute removed
      ELSE IF o[k] # PostSet(prot, k, o[k].alg, o[k].salt, o[k].spin, D(o[k].alg, o[k].salt, o[k].spin, e.pw))[k]
        THEN Bad("impl", "Set:verifier", k)
      ELSE IF o[k].salt \in Range(used) THEN Bad("impl", "Set:salt-reused", k)
      ELSE IF ~OthersFailP(o, {k}, pws1, Range(e.others), D) THEN Bad("impl", "Set:other-pw-ok", k)
      ELSE IF e.mclear > e.mclear_base THEN Bad("impl", "Set:model-clear", k)
      ELSE JudgeVerifies(e, o, set1, pws1, "Set")

JSave(e) ==
  LET f  == e.file
      sv == FirstBadKind(isSet, LAMBDA k : f[k] = prot[k])
      lg == FirstBadKind(isSet, LAMBDA k : ~e.legacy_attr[k])
  IN  IF e.outcome # "ok" THEN Bad("impl", "Save:outcome", e.outcome)
      ELSE IF ~e.decoded THEN Bad("impl", "Save:undecodable", "")
      ELSE IF ~HaveAll(e, f, isSet, pwOf, <<>>) THEN Bad("gen", "Save:evals", "")
      ELSE IF sv # "" THEN Bad("impl", "Save:differs", sv)          \* verifier in the file differs from the model
      ELSE IF lg # "" THEN Bad("impl", "Save:legacy-attr", lg)
      ELSE IF e.clear > e.clear_base THEN Bad("impl", "Save:file-clear", "")
      ELSE JudgeVerifies(e, f, isSet, pwOf, "Save")

JLoad(e) ==
  LET want == ReadBack(file.parts)
      sv   == FirstBadKind(file.setAt, LAMBDA k : e.obs[k] = want[k])
  IN  IF e.outcome # "ok" THEN Bad("impl", "Load:outcome", e.outcome)
      ELSE IF ~file.present THEN Bad("gen", "Load:no-save", "")
      ELSE IF ~HaveAll(e, e.obs, file.setAt, file.pws, <<>>) THEN Bad("gen", "Load:evals", "")
      ELSE IF sv # "" THEN Bad("impl", "Load:differs", sv)          \* verifier did not survive save and reload
      ELSE IF e.mclear > e.mclear_base THEN Bad("impl", "Load:model-clear", "")
      ELSE JudgeVerifies(e, e.obs, file.setAt, file.pws, "Load")

(* Excel-produced verifiers with a known password: the specification's term must reproduce them *)
JAnchor(e) ==
  IF ~Have(e.evals, e.alg, e.salt, e.spin, e.pw) THEN Bad("gen", "Anchor:evals", "")
  ELSE IF e.term # Template THEN Bad("gen", "Anchor:term", "")
  ELSE IF D(e.alg, e.salt, e.spin, e.pw) # e.hash THEN Bad("anchor", "Anchor:excel", e.salt)
  ELSE TRUE

(* events of a case are numbered (i); none may be missing: nsets holds the number of the last one *)
SeqOK(e) == e.a \in {"Init", "Anchor", "Fatal"} \/ e.i = nsets + 1
NextSeq(e) == IF e.a \in {"Anchor", "Fatal"} THEN nsets ELSE e.i

Judge(e) ==
  IF ~SeqOK(e) THEN Bad("gen", "seq", e.a) ELSE
  CASE e.a = "Init"   -> JInit(e)
    [] e.a = "Legacy" -> JLegacy(e)
    [] e.a = "Set"    -> JSet(e)
    [] e.a = "Save"   -> JSave(e)
    [] e.a = "Load"   -> JLoad(e)
    [] e.a = "Anchor" -> JAnchor(e)
    [] OTHER -> Bad("impl", "died", e.outcome)       \* the driver process died or hung (a = "Fatal")

(* the specification state follows the observation, so that the rest of the trace is still checked *)
Update(e) ==
  IF e.a \in {"Init", "Legacy", "Set", "Save", "Load"} /\ e.outcome = "ok" THEN
    CASE e.a = "Init" ->
           /\ prot' = e.obs /\ isSet' = InitSet(e) /\ pwOf' = InitPws(e)
           /\ used' = (IF e.first THEN <<>> ELSE used) \o SaltsOf(e.obs)
           /\ file' = NoFile
      [] e.a = "Legacy" ->
           /\ prot' = e.obs /\ UNCHANGED <<isSet, pwOf, used, file>>
      [] e.a = "Set" ->
           /\ prot' = e.obs /\ isSet' = isSet \cup {e.kind} /\ pwOf' = [pwOf EXCEPT ![e.kind] = e.pw]
           /\ used' = Append(used, e.obs[e.kind].salt) /\ UNCHANGED file
      [] e.a = "Save" ->
           /\ file' = [present |-> e.decoded, parts |-> Written(e.file), setAt |-> isSet, pws |-> pwOf]
           /\ UNCHANGED <<prot, isSet, pwOf, used>>
      [] e.a = "Load" ->
           /\ prot' = e.obs /\ isSet' = file.setAt /\ pwOf' = file.pws /\ UNCHANGED <<used, file>>
  ELSE UNCHANGED <<prot, isSet, pwOf, used, file>>

TraceInit == /\ l = 1 /\ prot = [k \in Kinds |-> Unset] /\ isSet = {} /\ pwOf = [k \in Kinds |-> ""]
             /\ file = NoFile /\ used = <<>> /\ pc = "idle" /\ job = NoJob /\ nsets = 0 /\ hist = <<>>
TraceNext == /\ l <= Len(Rec) /\ l' = l + 1
             /\ Judge(Ev) /\ Update(Ev)
             /\ nsets' = NextSeq(Ev)
             /\ UNCHANGED <<pc, job, hist>>
TraceSpec == TraceInit /\ [][TraceNext]_tvars
=============================================================================
