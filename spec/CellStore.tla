------------------------------ MODULE CellStore ------------------------------
(***************************************************************************)
(* C10 - the cell store of a worksheet, in the representation the library  *)
(* really uses (src/structs/cells.rs, rows.rs, worksheet.rs):              *)
(*   map   (row, col) |-> cell; a cell carries its OWN copy of the         *)
(*         coordinate (r, c), a value text v and a style token s           *)
(*   rc    ordered index of the keys (row, col)    [row_column_index]      *)
(*   cr    ordered index of the keys (col, row)    [column_row_index]      *)
(*   rows  row table  key |-> [r = stored row number, s = style token];    *)
(*         the writer walks it and consumes the sorted cell list           *)
(*   cols  column table  col |-> style token                               *)
(* Style tokens: "" = no style component at all, "N" = a style that is not *)
(* visible (number format), "F" = a visible style (solid fill).            *)
(*                                                                         *)
(* Every public operation is Post_<op>(st, args): a plain operator written *)
(* as the sequence of sub-updates the code performs (row entry, column     *)
(* entry, map entry, the two indexes; bulk rewrite of the stored           *)
(* coordinates followed by rebuild_map_and_indices).  No operator          *)
(* quantifies over the grid, only over the objects present, so the same    *)
(* module is used with the real grid limits for trace validation.          *)
(*                                                                         *)
(* The property (C10): Coherent, QueriesAgree, AllEmitted in every         *)
(* reachable state; the abstraction of every step is the step of the       *)
(* reference grid (Sheet.tla's cell set semantics, restated here over      *)
(* Grid.tla).                                                              *)
(***************************************************************************)
EXTENDS Grid, Sequences, FiniteSets, TLC, SequencesExt, FiniteSetsExt

CONSTANTS MaxRow, MaxCol

Lines(ax) == IF ax = "row" THEN MaxRow ELSE MaxCol
Max0(T)   == IF T = {} THEN 0 ELSE CHOOSE m \in T : \A y \in T : y <= m
SwapKeys(S)  == {<<k[2], k[1]>> : k \in S}
Without(f, K) == [k \in DOMAIN f \ K |-> f[k]]
Image(f)  == {f[k] : k \in DOMAIN f}
Upto(lo, hi) == [i \in 1..(hi - lo + 1) |-> lo + i - 1]           \* the sequence lo, lo+1, .., hi (empty if hi < lo)

Visible(s)  == s = "F"
Blank(x)    == x.v = "" /\ x.s = ""           \* Cell: value empty and Style::is_empty
VisEmpty(x) == x.v = "" /\ ~Visible(x.s)      \* Cell::is_visually_empty (no formulas / hyperlinks are used)

EmptyStore == [map |-> <<>>, rc |-> {}, cr |-> {}, rows |-> <<>>, cols |-> <<>>]

(* ---- sub-updates --------------------------------------------------------- *)
(* Rows::get_row_dimension_mut / Columns::get_column_mut *)
RowsGetMut(st, r) == IF r \in DOMAIN st.rows THEN st ELSE [st EXCEPT !.rows = @ @@ (r :> [r |-> r, s |-> ""])]
ColsGetMut(st, c) == IF c \in DOMAIN st.cols THEN st ELSE [st EXCEPT !.cols = @ @@ (c :> "")]

(* Cells::get_mut: entry(..).or_insert_with: a new cell takes the column style, then the row style; both
   indexes are updated only when the map entry is created *)
Inherit(st, r, c) == IF st.rows[r].s # "" THEN st.rows[r].s ELSE st.cols[c]
CellsGetMut(st, r, c) ==
  IF <<r, c>> \in DOMAIN st.map THEN st
  ELSE [st EXCEPT !.map = @ @@ (<<r, c>> :> [r |-> r, c |-> c, v |-> "", s |-> Inherit(st, r, c)]),
                  !.rc  = @ \cup {<<r, c>>},
                  !.cr  = @ \cup {<<c, r>>}]
(* Cells::remove *)
CellsRemove(st, r, c) ==
  IF <<r, c>> \in DOMAIN st.map
  THEN [st EXCEPT !.map = Without(@, {<<r, c>>}), !.rc = @ \ {<<r, c>>}, !.cr = @ \ {<<c, r>>}]
  ELSE st
(* Cells::rebuild_map_and_indices: the map is re-keyed by the stored coordinates, both indexes are
   rebuilt from the keys (two cells with one stored coordinate collapse into one entry) *)
RebuildCells(st, vals) ==
  LET keys == {<<x.r, x.c>> : x \in vals}
  IN  [st EXCEPT !.map = [k \in keys |-> CHOOSE x \in vals : x.r = k[1] /\ x.c = k[2]],
                 !.rc  = keys,
                 !.cr  = SwapKeys(keys)]
(* Rows::rebuild_map *)
RebuildRows(vals) == [k \in {x.r : x \in vals} |-> CHOOSE x \in vals : x.r = k]
ShiftCols(f, keep, F(_)) == LET d == {c \in DOMAIN f : keep[c]} IN [k \in {F(c) : c \in d} |-> f[CHOOSE c \in d : F(c) = k]]

(* ---- the public operations ------------------------------------------------- *)
(* Worksheet::get_cell_mut: row entry, column entry, then the cell *)
PostGetCellMut(st, r, c) == CellsGetMut(ColsGetMut(RowsGetMut(st, r), c), r, c)
(* Worksheet::set_cell: row entry, column entry, Cells::set = get_mut + set_obj (value, style) *)
PostSetCell(st, r, c, v, s) ==
  LET t == PostGetCellMut(st, r, c) IN [t EXCEPT !.map[<<r, c>>] = [@ EXCEPT !.v = v, !.s = s]]
(* Worksheet::remove_cell *)
PostRemoveCell(st, r, c) == CellsRemove(st, r, c)
(* Worksheet::set_style = get_cell_mut(..).set_style *)
PostSetStyle(st, r, c, s) ==
  LET t == PostGetCellMut(st, r, c) IN [t EXCEPT !.map[<<r, c>>] = [@ EXCEPT !.s = s]]

(* the coordinates of a rectangle, row by row (helper::range::get_coordinate_list) *)
RectCoords(g) ==
  LET w == g.c2 - g.c1 + 1
      h == g.r2 - g.r1 + 1
  IN  [i \in 1..(h * w) |-> <<g.r1 + ((i - 1) \div w), g.c1 + ((i - 1) % w)>>]

(* Worksheet::set_style_by_range on a cell range A1:B2: set_style on every coordinate, row by row.  (Whole-row
   and whole-column forms "1:3" / "A:B" are rejected by helper::range::get_start_and_end_point with the assertion
   "Non-standard range." before anything is touched, so they are outside the contract.) *)
PostSetStyleByRange(st, g, s) == FoldLeft(LAMBDA a, k : PostSetStyle(a, k[1], k[2], s), st, RectCoords(g))
(* styling a row / column entry (get_row_dimension_mut(r).set_style, get_column_dimension_by_number_mut(c)
   .set_style): not operations of the property, used to build initial sheets *)
WithRowStyle(st, r, s) == LET u == RowsGetMut(st, r) IN [u EXCEPT !.rows[r].s = s]
WithColStyle(st, c, s) == LET u == ColsGetMut(st, c) IN [u EXCEPT !.cols[c] = s]

(* Worksheet::insert_new_row / insert_new_column_by_index (and the workbook-level entry points):
   column table or row table first, then every cell's stored coordinate, then the rebuild *)
PostInsert(st, ax, p, n) ==
  LET t1 == IF ax = "col" THEN [st EXCEPT !.cols = ShiftCols(@, [c \in DOMAIN @ |-> TRUE], LAMBDA c : InsIdx(c, p, n))]
            ELSE [st EXCEPT !.rows = RebuildRows({[x EXCEPT !.r = InsIdx(@, p, n)] : x \in Image(@)})]
  IN  RebuildCells(t1, {PtIns(x, ax, p, n) : x \in Image(t1.map)})

(* Worksheet::remove_row / remove_column_by_index: entries inside the band are dropped (decided on the
   STORED number / coordinate), the others shifted, then the rebuild *)
PostRemove(st, ax, p, n) ==
  LET t1 == IF ax = "col" THEN [st EXCEPT !.cols = ShiftCols(@, [c \in DOMAIN @ |-> ~InBand(c, p, n)], LAMBDA c : RemIdx(c, p, n))]
            ELSE [st EXCEPT !.rows = RebuildRows({[x EXCEPT !.r = RemIdx(@, p, n)] : x \in {y \in Image(@) : ~InBand(y.r, p, n)}})]
  IN  RebuildCells(t1, {PtRem(x, ax, p, n) : x \in {y \in Image(t1.map) : ~PtInBand(y, ax, p, n)}})

(* Worksheet::move_range / copy_range: the cells of the rectangle are found through the row-major index
   and cloned; move removes every coordinate of the source and of the destination rectangle; the clones,
   with their stored coordinates offset, are put back with set_cell *)
RangeKeys(st, g) == {k \in st.rc : InRect(k[1], k[2], g)}
PostMoveCopy(st, g, dr, dc, isMove) ==
  LET clones == {st.map[k] : k \in RangeKeys(st, g)}
      t1 == IF isMove
            THEN FoldLeft(LAMBDA a, k : CellsRemove(CellsRemove(a, k[1], k[2]), k[1] + dr, k[2] + dc), st, RectCoords(g))
            ELSE st
  IN  FoldSet(LAMBDA x, a : PostSetCell(a, x.r + dr, x.c + dc, x.v, x.s), t1, clones)
PostMove(st, g, dr, dc) == PostMoveCopy(st, g, dr, dc, TRUE)
PostCopy(st, g, dr, dc) == PostMoveCopy(st, g, dr, dc, FALSE)

HighestRow(st) == Max0({k[1] : k \in st.rc})
HighestCol(st) == Max0({k[1] : k \in st.cr})

(* Worksheet::cleanup: from the highest row with a cell downwards; a row without a row entry is skipped; the
   first cell that is not visually empty ends the whole clean-up; else the row entry and the row's cells go *)
RECURSIVE CleanFrom(_, _)
CleanFrom(st, todo) ==
  IF todo = {} THEN st
  ELSE LET r  == Max0(todo)
           ks == {k \in st.rc : k[1] = r}
       IN  IF r \notin DOMAIN st.rows THEN CleanFrom(st, todo \ {r})
           ELSE IF \E k \in ks : ~VisEmpty(st.map[k]) THEN st
           ELSE CleanFrom(FoldSet(LAMBDA q, a : CellsRemove(a, q[1], q[2]),
                                  [st EXCEPT !.rows = Without(@, {r})],
                                  {<<st.map[k].r, st.map[k].c>> : k \in ks}),
                          todo \ {r})
PostCleanup(st) == CleanFrom(st, {r \in DOMAIN st.rows : r <= HighestRow(st)})

(* Worksheet::copy_row_styling(source, target, start_col, end_col); hs/he: start/end given, else 1 / the
   highest column.  The target row entry takes the source row's style if the source row has an entry; then
   every target cell of the column span is created (get_cell_mut) and takes the source cell's style *)
StyleAt(st, r, c) == IF <<r, c>> \in DOMAIN st.map THEN st.map[<<r, c>>].s ELSE ""
PostCopyRowStyling(st, src, dst, hs, c1, he, c2) ==
  LET lo == IF hs THEN c1 ELSE 1
      hi == IF he THEN c2 ELSE HighestCol(st)
      t1 == IF src \in DOMAIN st.rows THEN LET u == RowsGetMut(st, dst) IN [u EXCEPT !.rows[dst].s = st.rows[src].s]
            ELSE st
  IN  FoldLeft(LAMBDA a, c : PostSetStyle(a, dst, c, StyleAt(a, src, c)), t1, Upto(lo, hi))
PostCopyColStyling(st, src, dst, hs, r1, he, r2) ==
  LET lo == IF hs THEN r1 ELSE 1
      hi == IF he THEN r2 ELSE HighestRow(st)
      t1 == IF src \in DOMAIN st.cols THEN LET u == ColsGetMut(st, dst) IN [u EXCEPT !.cols[dst] = st.cols[src]]
            ELSE st
  IN  FoldLeft(LAMBDA a, r : PostSetStyle(a, r, dst, StyleAt(a, r, src)), t1, Upto(lo, hi))

(* ---- in-range arguments (Appendix A of DESIGN.md) ---------------------------- *)
InGrid(r, c) == r \in 1..MaxRow /\ c \in 1..MaxCol
Extent(st, ax) ==
  IF ax = "row" THEN Max0({k[1] : k \in DOMAIN st.map} \cup {x.r : x \in Image(st.rows)})
  ELSE Max0({k[2] : k \in DOMAIN st.map} \cup DOMAIN st.cols)
CanInsert(st, ax, p, n) == p >= 1 /\ n >= 1 /\ p <= Lines(ax) /\ Extent(st, ax) + n <= Lines(ax)
CanRemove(ax, p, n)     == p >= 1 /\ n >= 1 /\ p + n - 1 <= Lines(ax)
RectInGrid(g) == RectOK(g) /\ g.r1 >= 1 /\ g.c1 >= 1 /\ g.r2 <= MaxRow /\ g.c2 <= MaxCol
CanMove(g, dr, dc) == RectInGrid(g) /\ g.r1 + dr >= 1 /\ g.c1 + dc >= 1 /\ g.r2 + dr <= MaxRow /\ g.c2 + dc <= MaxCol
CanStyleRange(g) == RectInGrid(g)
CanCopyRowStyling(src, dst, hs, c1, he, c2) ==
  src \in 1..MaxRow /\ dst \in 1..MaxRow /\ (hs => c1 \in 1..MaxCol) /\ (he => c2 \in 1..MaxCol)
CanCopyColStyling(src, dst, hs, r1, he, r2) ==
  src \in 1..MaxCol /\ dst \in 1..MaxCol /\ (hs => r1 \in 1..MaxRow) /\ (he => r2 \in 1..MaxRow)

---------------------------------------------------------------------------
(* ---- the query API, as the code computes it from the representation -------- *)
Existing(st) == DOMAIN st.map
RowMajor(a, b) == a[1] < b[1] \/ (a[1] = b[1] /\ a[2] < b[2])
SortRC(K) == SetToSortSeq(K, RowMajor)
Stored(x) == <<x.r, x.c>>
QLookup(st, r, c) ==                       \* get_cell: (found, reported row, reported column)
  IF <<r, c>> \in DOMAIN st.map THEN <<TRUE, st.map[<<r, c>>].r, st.map[<<r, c>>].c>> ELSE <<FALSE, 0, 0>>
QAll(st)       == {Stored(x) : x \in Image(st.map)}                     \* get_cell_collection / hashmap values
QSorted(st)    == LET s == SortRC(st.rc) IN [i \in DOMAIN s |-> Stored(st.map[s[i]])]   \* get_cell_collection_sorted
QByRow(st, r)  == {Stored(st.map[k]) : k \in {x \in st.rc : x[1] = r}}                  \* get_collection_by_row
QByCol(st, c)  == {Stored(st.map[<<k[2], k[1]>>]) : k \in {x \in st.cr : x[1] = c}}     \* get_collection_by_column
QHighest(st)   == <<HighestCol(st), HighestRow(st)>>                    \* get_highest_column_and_row (col, row)
(* which positions of the rectangle hold a cell, row by row (get_cell_value_by_range walks the rc index) *)
QRange(st, g)  == LET cs == RectCoords(g) IN [i \in DOMAIN cs |-> cs[i] \in RangeKeys(st, g)]

Letters == <<"A", "B", "C", "D", "E", "F", "G", "H", "I", "J", "K", "L", "M",
             "N", "O", "P", "Q", "R", "S", "T", "U", "V", "W", "X", "Y", "Z">>
RECURSIVE ColName(_)
ColName(n) == IF n = 0 THEN "" ELSE ColName((n - 1) \div 26) \o Letters[((n - 1) % 26) + 1]
DimOf(hc, hr) == IF hr = 0 THEN "A1" ELSE "A1:" \o ColName(hc) \o ToString(hr)
QDim(st) == DimOf(HighestCol(st), HighestRow(st))                      \* calculate_worksheet_dimension

(* ---- the same queries by brute force over a set K of keys <<row, col>> ------- *)
BFByRow(K, r)  == {k \in K : k[1] = r}
BFByCol(K, c)  == {k \in K : k[2] = c}
BFHighest(K)   == <<Max0({k[2] : k \in K}), Max0({k[1] : k \in K})>>
BFDim(K)       == DimOf(BFHighest(K)[1], BFHighest(K)[2])
BFRange(K, g)  == LET cs == RectCoords(g) IN [i \in DOMAIN cs |-> cs[i] \in K]

(* ---- the writer (src/writer/xlsx/worksheet.rs row loop): rows sorted by stored number, cells sorted; each
   row consumes the leading cells that carry its number; a cell whose row is unknown blocks all later ones *)
LeadRun(cs, r) == LET bad == {i \in DOMAIN cs : cs[i][1] # r} IN IF bad = {} THEN Len(cs) ELSE Min(bad) - 1
RECURSIVE Walk(_, _)
Walk(rs, cs) ==
  IF rs = <<>> THEN <<>>
  ELSE LET n == LeadRun(cs, Head(rs)) IN SubSeq(cs, 1, n) \o Walk(Tail(rs), SubSeq(cs, n + 1, Len(cs)))
Emitted(st) == Walk(SetToSortSeq({x.r : x \in Image(st.rows)}, <), QSorted(st))

---------------------------------------------------------------------------
(* ---- the property ------------------------------------------------------------ *)
Coherent(st) ==
  /\ DOMAIN st.map = st.rc
  /\ SwapKeys(st.cr) = st.rc
  /\ \A k \in DOMAIN st.map : st.map[k].r = k[1] /\ st.map[k].c = k[2]
  /\ \A k \in DOMAIN st.rows : st.rows[k].r = k
StoreInGrid(st) == /\ \A k \in DOMAIN st.map : InGrid(k[1], k[2])
                   /\ \A r \in DOMAIN st.rows : r \in 1..MaxRow
                   /\ \A c \in DOMAIN st.cols : c \in 1..MaxCol
(* every query equals its brute-force definition over the set of existing cells; W = probed coordinates,
   Gs = probed rectangles *)
QueriesAgreeOn(st, W, Gs) ==
  LET K == Existing(st) IN
  /\ \A q \in W : QLookup(st, q[1], q[2]) = IF q \in K THEN <<TRUE, q[1], q[2]>> ELSE <<FALSE, 0, 0>>
  /\ QAll(st) = K /\ Cardinality(Image(st.map)) = Cardinality(K)
  /\ QSorted(st) = SortRC(K)
  /\ \A q \in W : QByRow(st, q[1]) = BFByRow(K, q[1]) /\ QByCol(st, q[2]) = BFByCol(K, q[2])
  /\ QHighest(st) = BFHighest(K)
  /\ QDim(st) = BFDim(K)
  /\ \A g \in Gs : QRange(st, g) = BFRange(K, g)
(* every existing cell's row is known to the writer; every cell with content (value or style) is emitted on
   save exactly once under its own reference, a content-free cell may be emitted or left out (the real writer
   leaves it out; the writer model here emits it), nothing else is emitted, nothing twice *)
AllEmitted(st) ==
  LET out == Emitted(st) IN
  /\ \A k \in Existing(st) : \E x \in Image(st.rows) : x.r = k[1]
  /\ ToSet(out) \subseteq Existing(st)
  /\ {k \in Existing(st) : ~Blank(st.map[k])} \subseteq ToSet(out)
  /\ Len(out) = Cardinality(ToSet(out))

(* ---- abstraction: the cell set of the reference grid (Sheet.tla) --------------- *)
Abs(st) == {[r |-> k[1], c |-> k[2], v |-> st.map[k].v, s |-> st.map[k].s] : k \in DOMAIN st.map}
AbsKeys(C) == {<<x.r, x.c>> : x \in C}
AbsInsert(C, ax, p, n) == {PtIns(x, ax, p, n) : x \in C}
AbsRemove(C, ax, p, n) == {PtRem(x, ax, p, n) : x \in {y \in C : ~PtInBand(y, ax, p, n)}}
AbsShift(x, dr, dc) == [x EXCEPT !.r = @ + dr, !.c = @ + dc]
AbsDest(g, dr, dc) == [r1 |-> g.r1 + dr, c1 |-> g.c1 + dc, r2 |-> g.r2 + dr, c2 |-> g.c2 + dc]
AbsMove(C, g, dr, dc) ==
  LET src == {x \in C : InRect(x.r, x.c, g)}
      d == AbsDest(g, dr, dc)
  IN  {x \in C : ~InRect(x.r, x.c, g) /\ ~InRect(x.r, x.c, d)} \cup {AbsShift(x, dr, dc) : x \in src}
AbsCopy(C, g, dr, dc) ==
  LET new == {AbsShift(x, dr, dc) : x \in {y \in C : InRect(y.r, y.c, g)}}
  IN  {x \in C : ~\E y \in new : y.r = x.r /\ y.c = x.c} \cup new

---------------------------------------------------------------------------
VARIABLES st,      \* the cell store of one sheet
          last     \* the last operation (for the action property)
vars == <<st, last>>

GetCellMut(r, c) == InGrid(r, c) /\ st' = PostGetCellMut(st, r, c) /\ last' = [op |-> "get", r |-> r, c |-> c]
SetCell(r, c, v, s) == InGrid(r, c) /\ st' = PostSetCell(st, r, c, v, s) /\ last' = [op |-> "set", r |-> r, c |-> c]
RemoveCell(r, c) == InGrid(r, c) /\ st' = PostRemoveCell(st, r, c) /\ last' = [op |-> "del", r |-> r, c |-> c]
SetStyle(r, c, s) == InGrid(r, c) /\ st' = PostSetStyle(st, r, c, s) /\ last' = [op |-> "style", r |-> r, c |-> c]
SetStyleByRange(g, s) == CanStyleRange(g) /\ st' = PostSetStyleByRange(st, g, s) /\ last' = [op |-> "styler", g |-> g]
InsertLines(ax, p, n) == CanInsert(st, ax, p, n) /\ st' = PostInsert(st, ax, p, n)
                         /\ last' = [op |-> "ins", ax |-> ax, p |-> p, n |-> n]
RemoveLines(ax, p, n) == CanRemove(ax, p, n) /\ st' = PostRemove(st, ax, p, n)
                         /\ last' = [op |-> "rem", ax |-> ax, p |-> p, n |-> n]
MoveRange(g, dr, dc) == CanMove(g, dr, dc) /\ st' = PostMove(st, g, dr, dc)
                        /\ last' = [op |-> "move", g |-> g, dr |-> dr, dc |-> dc]
CopyRange(g, dr, dc) == CanMove(g, dr, dc) /\ st' = PostCopy(st, g, dr, dc)
                        /\ last' = [op |-> "copy", g |-> g, dr |-> dr, dc |-> dc]
Cleanup == st' = PostCleanup(st) /\ last' = [op |-> "cleanup"]
CopyRowStyling(src, dst, hs, c1, he, c2) ==
  /\ CanCopyRowStyling(src, dst, hs, c1, he, c2)
  /\ st' = PostCopyRowStyling(st, src, dst, hs, c1, he, c2)
  /\ last' = [op |-> "rowsty"]
CopyColStyling(src, dst, hs, r1, he, r2) ==
  /\ CanCopyColStyling(src, dst, hs, r1, he, r2)
  /\ st' = PostCopyColStyling(st, src, dst, hs, r1, he, r2)
  /\ last' = [op |-> "colsty"]

(* the abstraction of a structural step is the step of the reference grid; single-cell and styling steps
   only add / remove the addressed keys *)
RefinesStep ==
  LET C == Abs(st)
      D == Abs(st')
  IN CASE last'.op = "ins"  -> D = AbsInsert(C, last'.ax, last'.p, last'.n)
       [] last'.op = "rem"  -> D = AbsRemove(C, last'.ax, last'.p, last'.n)
       [] last'.op = "move" -> D = AbsMove(C, last'.g, last'.dr, last'.dc)
       [] last'.op = "copy" -> D = AbsCopy(C, last'.g, last'.dr, last'.dc)
       [] last'.op \in {"get", "set", "style"} -> AbsKeys(D) = AbsKeys(C) \cup {<<last'.r, last'.c>>}
       [] last'.op = "del"  -> D = {x \in C : ~(x.r = last'.r /\ x.c = last'.c)}
       [] last'.op = "cleanup" -> D \subseteq C /\ \A x \in C \ D : VisEmpty(x)
       [] OTHER -> AbsKeys(C) \subseteq AbsKeys(D)
=============================================================================
