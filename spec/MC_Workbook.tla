---------------------------- MODULE MC_Workbook ----------------------------
(* Bounded instances of Workbook.tla.  Positions are taken from a pool (the model never        *)
(* quantifies over the grid), so the real grid limits are used.                                 *)
EXTENDS Workbook, Json

CONSTANTS NSheets,      \* set of sheet counts of the initial (empty) workbooks
          Pool,         \* "full": every value class; "intern": few values chosen for string interning
          NPos,         \* how many of the positions A1, XFD1048576, B1, A2 are used
          MaxCells,     \* bound on the number of cells of the workbook
          Depth,        \* length of the histories (edits and saves)
          MaxSaves,     \* bound on the number of saves in a history
          Wide,         \* TRUE: draw parameters at random (simulation mode)
          Emit,         \* "none" | "paths": one REPLAY line per history of length Depth + a final save
                        \* | "deviant": one REPLAY line per state whose save+reload differs under Dev
          Dev           \* deviations switched on for Emit = "deviant"

VARIABLES steps, saves, hist
mcvars == <<sheets, sst, file, pc, last, steps, saves, hist>>

Val(k, v, b) == [k |-> k, v |-> v, b |-> b]
Texts == {"a", "a&<", " p ", "", "123", "TRUE", "#N/A"}
FullValues ==
  {Val("blank", "", "")} \cup {Val("text", t, "") : t \in Texts}
  \cup {Val("rich", "a", ""), Val("rich", " r s ", "")}
  \cup {Val("num", "123", "405ec00000000000"), Val("num", "0.5", "3fe0000000000000")}
  \cup {Val("bool", "TRUE", ""), Val("bool", "FALSE", "")}
  \cup {Val("err", "#N/A", ""), Val("err", "#VALUE!", ""), Val("err", "#DIV/0!", "")}
InternValues ==
  {Val("text", "a", ""), Val("rich", "a", ""), Val("text", "123", ""), Val("num", "123", "405ec00000000000"),
   Val("text", "b", ""), Val("err", "#N/A", "")}
Values   == IF Pool = "full" THEN FullValues ELSE InternValues
Formulas == IF Pool = "full" THEN {"A1+1", " B2 "} ELSE {"A1+1"}
AllPos   == << <<1, 1>>, <<MaxRow, MaxCol>>, <<1, 2>>, <<2, 1>> >>
Positions == {AllPos[i] : i \in 1..NPos}

(* the trimming function over the texts of the pools (blanks: space, tab, CR, LF) *)
MCTrim == [t \in Texts \cup {"b", " r s ", "0.5", "#VALUE!", "#DIV/0!", "FALSE", "r s", "p", "B2", "A1+1", " B2 "} |->
             CASE t = " p " -> "p" [] t = " r s " -> "r s" [] t = " B2 " -> "B2" [] OTHER -> t]
Actual == [dev |-> Dev, trim |-> MCTrim]

MCInit ==
  /\ \E n \in NSheets : sheets = [i \in 1..n |-> {}]
  /\ sst = <<>> /\ file = NoFile /\ pc = "edit"
  /\ last = [op |-> "Init", s |-> 0]
  /\ steps = 0 /\ saves = 0
  /\ hist = <<[a |-> "Init", n |-> Len(sheets)]>>

Pick(S) == IF Wide THEN {RandomElement(S)} ELSE S
WidePos == {<<r, c>> : r \in {1, 2, 3, MaxRow - 1, MaxRow}, c \in {1, 2, 3, 27, MaxCol - 1, MaxCol}}
PosSet  == IF Wide THEN WidePos ELSE Positions
NCells  == LET Sum[i \in 0..Len(sheets)] == IF i = 0 THEN 0 ELSE Sum[i - 1] + Cardinality(sheets[i]) IN Sum[Len(sheets)]
Room(s, p) == NCells < MaxCells \/ At(sheets[s], p[1], p[2]) # {}

Log(rec) == hist' = Append(hist, rec) /\ steps' = steps + 1

DoSetValue ==
  /\ steps < Depth
  /\ \E s \in Pick(DOMAIN sheets), p \in Pick(PosSet), x \in Pick(Values) :
        /\ Room(s, p)
        /\ SetValue(s, p[1], p[2], x.k, x.v, x.b)
        /\ Log([a |-> "SetValue", s |-> s, r |-> p[1], c |-> p[2], k |-> x.k, v |-> x.v, b |-> x.b])
        /\ UNCHANGED saves
DoSetFormula ==
  /\ steps < Depth
  /\ \E s \in Pick(DOMAIN sheets), p \in Pick(PosSet), f \in Pick(Formulas) :
        /\ Room(s, p)
        /\ SetFormula(s, p[1], p[2], f)
        /\ Log([a |-> "SetFormula", s |-> s, r |-> p[1], c |-> p[2], f |-> f])
        /\ UNCHANGED saves
DoRemoveCell ==
  /\ steps < Depth
  /\ \E s \in Pick(DOMAIN sheets) : \E x \in (IF Wide /\ sheets[s] # {} THEN Pick(sheets[s]) ELSE sheets[s]) :
        /\ RemoveCell(s, x.r, x.c)
        /\ Log([a |-> "RemoveCell", s |-> s, r |-> x.r, c |-> x.c])
        /\ UNCHANGED saves
DoSave ==
  /\ steps < Depth /\ saves < MaxSaves
  /\ \E w \in Pick(Writers) :
        /\ Serialize(w)
        /\ Log([a |-> "SaveLoad", w |-> w])
        /\ saves' = saves + 1
DoReload == Deserialize /\ UNCHANGED <<steps, saves, hist>>

MCNext == DoSetValue \/ DoSetFormula \/ DoRemoveCell \/ DoSave \/ DoReload
MCSpec == MCInit /\ [][MCNext]_mcvars

View == <<sheets, sst, file, pc, last, steps, saves>>

RoundTripMC        == [][pc = "saved" => sheets' = NormWb(sheets)]_mcvars
OthersUntouchedMC  == [][\A t \in DOMAIN sheets : (last'.s # 0 /\ t # last'.s) => sheets'[t] = sheets[t]]_mcvars

(* replay emission *)
Final(w) == Append(hist, [a |-> "SaveLoad", w |-> w])
EmitInv ==
  CASE Emit = "paths" ->
         (steps = Depth /\ pc = "edit") =>
            (IF Wide THEN PrintT(<<"REPLAY", ToJson(Final(RandomElement(Writers)))>>)
             ELSE \A w \in Writers : PrintT(<<"REPLAY", ToJson(Final(w))>>))
    [] Emit = "deviant" ->
         (pc = "edit" /\ Reloaded(sheets, sst, Actual) # NormWb(sheets)) => PrintT(<<"REPLAY", ToJson(Final("std"))>>)
    [] OTHER -> TRUE
(* design-level statement of the findings: with a deviation on, some reachable workbook does not survive *)
DeviantBreaks == Reloaded(sheets, sst, Actual) = NormWb(sheets)
=============================================================================
