--------------------------- MODULE Trace_Package ---------------------------
(***************************************************************************)
(* Trace validation for C02.  The driver (harness/src/bin/package.rs)      *)
(* builds a workbook through the public API or loads a corpus file, saves  *)
(* it into memory; pydec/xlsx.py (independent reader) projects the written *)
(* bytes into the abstract package `pkg` and the decoded content `dec`.    *)
(* The specification follows the operations with the Post_* operators of   *)
(* Package.tla and, at every Save,                                         *)
(*   1. requires the content the public getters show (`model`) to be the   *)
(*      content of its own state (else the case is out of contract: "gen"),*)
(*   2. evaluates Offences(pkg) - TLC is the judge of validity,            *)
(*   3. compares `dec` with Content(wb).                                   *)
(* Known findings are narrow deviations: a trigger over the state and the  *)
(* exact deviant outcome; each clause / cell / link must be either as      *)
(* intended or exactly as its enabled deviation says.                      *)
(***************************************************************************)
EXTENDS Package, TraceBase

VARIABLES wb, api, l          \* api: the workbook was built through the API alone (no corpus file loaded)
tvars == <<wb, api, l>>

(* ---- from the driver's dump to the state ------------------------------- *)
StripD(x) == [r |-> x.r, c |-> x.c, k |-> x.k, v |-> x.v, f |-> x.f, sm |-> x.sm, sty |-> x.sty]
SheetOfModel(m) ==
  [EmptySheet(m.name) EXCEPT !.cells = {StripD(x) : x \in ToSet(m.cells)}, !.links = ToSet(m.links), !.merges = ToSet(m.merges),
                             !.names = m.names, !.comments = ToSet(m.comments), !.tables = m.tables, !.imgs = m.imgs,
                             !.charts = m.ncharts, !.nole = m.nole, !.vmlnoimg = m.vmlnoimg, !.cfr = m.cfr]
BookOfModel(M) == [sheets |-> [i \in DOMAIN M.sheets |-> SheetOfModel(M.sheets[i])], gnames |-> M.gnames,
                   active |-> M.active, macro |-> M.macro]
(* the fields of the state that a Save is judged against *)
Judged(b) == [sheets |-> [i \in DOMAIN b.sheets |->
                 [name |-> b.sheets[i].name, cells |-> b.sheets[i].cells, links |-> b.sheets[i].links,
                  merges |-> b.sheets[i].merges, names |-> b.sheets[i].names, comments |-> b.sheets[i].comments,
                  tables |-> b.sheets[i].tables, imgs |-> b.sheets[i].imgs, charts |-> b.sheets[i].charts,
                  nole |-> b.sheets[i].nole, vmlnoimg |-> b.sheets[i].vmlnoimg, cfr |-> b.sheets[i].cfr]],
              gnames |-> b.gnames, macro |-> b.macro]
              \* (the active index is taken from the getters at every save: what remove_sheet does to it is not C02's business)
NoDupModel(M) == \A i \in DOMAIN M.sheets :
                   /\ Len(M.sheets[i].cells) = Cardinality({<<x.r, x.c>> : x \in ToSet(M.sheets[i].cells)})
                   /\ Len(M.sheets[i].links) = Cardinality({<<x.r, x.c>> : x \in ToSet(M.sheets[i].links)})
ModelDiff(a, b) ==
  IF DOMAIN a.sheets # DOMAIN b.sheets THEN <<"sheet count", Len(a.sheets), Len(b.sheets)>>
  ELSE LET bad == {i \in DOMAIN a.sheets : a.sheets[i] # b.sheets[i]} IN
       IF bad = {} THEN <<"book", [gnames |-> <<a.gnames, b.gnames>>, macro |-> <<a.macro, b.macro>>]>>
       ELSE LET i == MinOf(bad)
                fs == {f \in DOMAIN a.sheets[i] : a.sheets[i][f] # b.sheets[i][f]}
                f == CHOOSE x \in fs : TRUE
            IN <<"sheet", i, fs, "spec", IF f \in {"cells", "links", "merges", "comments"} THEN a.sheets[i][f] \ b.sheets[i][f] ELSE a.sheets[i][f],
                 "getters", IF f \in {"cells", "links", "merges", "comments"} THEN b.sheets[i][f] \ a.sheets[i][f] ELSE b.sheets[i][f]>>

(* ---- operations --------------------------------------------------------- *)
HasS(e) == e.s \in DOMAIN wb.sheets
InContract(e) ==
  CASE e.a = "AddSheet"    -> ~HasSheetNamed(wb, e.name)
    [] e.a = "RemoveSheet" -> HasS(e) /\ Len(wb.sheets) >= 2
    [] e.a = "RenameSheet" -> HasS(e) /\ ~HasSheetNamed(wb, e.name) /\ wb.sheets[e.s].charts = 0 /\ wb.sheets[e.s].names = <<>>
                              \* (chart series and the sheet's defined names spell the sheet name; set_sheet_name rewrites the latter)
    [] e.a = "SetActive"   -> e.i \in 0..(Len(wb.sheets) - 1)          \* only existing sheets are made active
    [] e.a \in {"SetCell", "RemoveCell", "Link", "Comment", "Image", "Chart", "RowHeight"} ->
          HasS(e) /\ e.r \in 1..MaxRow /\ e.c \in 1..MaxCol
    [] e.a = "StyleCell" -> HasS(e) /\ e.r \in 1..MaxRow /\ e.c \in 1..MaxCol         \* a blank style carrier
                            /\ ~\E x \in wb.sheets[e.s].cells : x.r = e.r /\ x.c = e.c
    [] e.a \in {"Merge", "Name", "Table", "Validation", "CondFmt", "Protect", "AutoFilter", "ColWidth"} -> HasS(e)
    [] e.a \in {"Macro", "ProtectBook"} -> TRUE
    [] OTHER -> FALSE
CellOfStep(e) == [r |-> e.r, c |-> e.c, k |-> IF e.k = "rich" THEN "text" ELSE e.k, v |-> e.v, f |-> e.f, sm |-> "", sty |-> e.sty]
Expected(e) ==
  CASE e.a = "AddSheet"    -> Post_AddSheet(wb, e.name)
    [] e.a = "RemoveSheet" -> Post_RemoveSheet(wb, e.s)
    [] e.a = "RenameSheet" -> Post_RenameSheet(wb, e.s, e.name)
    [] e.a = "SetActive"   -> Post_SetActive(wb, e.i)
    [] e.a = "SetCell"     -> Post_SetCell(wb, e.s, CellOfStep(e))
    [] e.a = "StyleCell"   -> Post_RowDim(wb, e.s, e.r)
    [] e.a = "RemoveCell"  -> Post_RemoveCell(wb, e.s, e.r, e.c)
    [] e.a = "Link"        -> Post_Link(wb, e.s, [r |-> e.r, c |-> e.c, url |-> e.url, loc |-> e.loc, tip |-> e.tip])
    [] e.a = "Merge"       -> Post_Merge(wb, e.s, e.g)
    [] e.a = "Name"        -> Post_Name(wb, e.s, [name |-> e.name, addr |-> e.addr, lsid |-> -1])
    [] e.a = "Comment"     -> Post_Comment(wb, e.s, e.r, e.c)
    [] e.a = "Table"       -> Post_Table(wb, e.s, e.name)
    [] e.a = "Image"       -> Post_Image(wb, e.s, [name |-> e.as, ext |-> e.ext, extl |-> e.extl])
    [] e.a = "Chart"       -> Post_Chart(wb, e.s)
    [] e.a = "Validation"  -> Post_Validation(wb, e.s)
    [] e.a = "CondFmt"     -> Post_CondFmt(wb, e.s, e.fm)
    [] e.a = "Protect"     -> Post_Protect(wb, e.s)
    [] e.a = "RowHeight"   -> Post_RowDim(wb, e.s, e.r)
    [] e.a = "Macro"       -> Post_Macro(wb, e.on)
    [] e.a \in {"ProtectBook", "AutoFilter", "ColWidth"} -> wb          \* no effect on what C02 compares

(* ---- the package clauses with their known deviations --------------------- *)
KnownImgExt == {"png", "jpg", "jpeg", "tiff", "emf"}       \* the writer's table of Default content types for media
AllImgs == UNION {Rng(wb.sheets[i].imgs) : i \in DOMAIN wb.sheets}
(* an extension gets a Default entry iff some image carries it exactly as the table spells it; Default entries match
   case-insensitively (OPC), extl is the extension in lower case *)
TypedExts == {im.extl : im \in {x \in AllImgs : x.ext \in KnownImgExt}}
WbPart(p)   == {it.target : it \in {x \in Rng(RelsOf(p, "/")) : x.kind = "officeDocument"}}
SstParts(p) == UNION {{it.target : it \in {x \in Rng(RelsOf(p, w)) : x.kind = "sharedStrings"}} : w \in WbPart(p)}
VmlParts(p) == UNION {{it.target : it \in {x \in Rng(p.rels[i].items) : x.kind = "vmlDrawing"}} : i \in DOMAIN p.rels}
TablesBeforeOle(ch) ==       \* exactly the deviant order: tableParts directly followed by oleObjects, nothing else out of place
  /\ \E i \in 1..(Len(ch) - 1) : ch[i] = "tableParts" /\ ch[i + 1] = "oleObjects"
  /\ Ordered(SelectSeq(ch, LAMBDA n : n # "tableParts"))

(* KF8 does not depend on where the writer stores a text: the part that carries a text with a character XML
   cannot carry - the shared strings part, or the sheet part that holds the cell (inline string) - is not
   well-formed; no other part may be *)
NotWf(p) == {p.parts[i].name : i \in {j \in DOMAIN p.parts : ~p.parts[j].wf}}
IllSheets(E) == {t.s : t \in ToSet(E.facts.illegal)}
IllSheetParts(p, E) == {p.sheets[i].part : i \in IllSheets(E) \cap DOMAIN p.sheets}
SstBroken(p) == SstParts(p) # {} /\ SstParts(p) \subseteq NotWf(p)
SheetBroken(E, s) == KFOn("C02-KF8") /\ s \in IllSheets(E) /\ s \in DOMAIN E.pkg.sheets /\ E.pkg.sheets[s].part \in NotWf(E.pkg)
CarriersBroken(p, off, E) ==
  /\ E.facts.illegal # <<>> /\ off # {}
  /\ off \subseteq SstParts(p) \cup IllSheetParts(p, E)
  /\ \A t \in ToSet(E.facts.illegal) : (SstParts(p) # {} /\ SstParts(p) \subseteq off)
                                        \/ (t.s \in DOMAIN p.sheets /\ p.sheets[t.s].part \in off)

(* ClauseKF[c] = <<finding id, the deviant offence set is exactly as the defect produces it>> *)
DevMatch(c, p, off, offs, E) ==
  CASE c = "notwf"    -> CarriersBroken(p, off, E)
    [] c = "untyped"  -> off = {"/xl/media/" \o im.name : im \in {x \in AllImgs : x.extl \notin TypedExts}}
    [] c = "sstidx"   -> /\ CarriersBroken(p, offs.notwf, E) /\ SstBroken(p) /\ p.nsst = 0      \* the table cannot be read
                         /\ off = {p.sheets[i].part : i \in {j \in DOMAIN p.sheets : p.sheets[j].ssx # <<>>}}
    [] c = "dangling" -> /\ Cardinality(off) = FoldLeft(LAMBDA a, b : a + b, 0, [i \in DOMAIN wb.sheets |-> wb.sheets[i].vmlnoimg])
                         /\ \A d \in off : d.kind = "image" /\ d.target = "/xl/media" /\ d.src \in VmlParts(p)
    [] c = "order"    -> /\ off = {p.sheets[i].part : i \in {j \in DOMAIN wb.sheets \cap DOMAIN p.sheets :
                                                              wb.sheets[j].tables # <<>> /\ wb.sheets[j].nole > 0}}
                         /\ \A i \in DOMAIN p.sheets : p.sheets[i].part \in off => TablesBeforeOle(p.sheets[i].children)
    [] c = "active"   -> E.model.active >= Len(wb.sheets) /\ off = {E.model.active}
    [] OTHER -> FALSE
ClauseKF == [notwf |-> "C02-KF8", sstidx |-> "C02-KF8", untyped |-> "C02-KF10", dangling |-> "C02-KF11", order |-> "C02-KF9", active |-> "C02-KF3"]
ClauseAccepted(c, p, offs, E) ==
  \/ offs[c] = {}
  \/ c \in DOMAIN ClauseKF /\ KFOn(ClauseKF[c]) /\ DevMatch(c, p, offs[c], offs, E)
BadClauses(p, offs, E) == {c \in Clauses : ~ClauseAccepted(c, p, offs, E)}
ClauseHits(offs) == {ClauseKF[c] : c \in {x \in DOMAIN ClauseKF : offs[x] # {}}}

(* ---- decoded content against the state, with the known deviations --------- *)
PosOf(S) == {<<x.r, x.c>> : x \in S}
IsFormula(m) == m.f # "" \/ m.sm # ""
ErrVar(M)   == IF KFOn("C02-KF4")
               THEN Nz({[NormCell(m) EXCEPT !.v = "#VALUE!"] : m \in {x \in M : x.k = "err" /\ ~IsFormula(x) /\ x.v # "#VALUE!"}}) ELSE {}
FtypeVar(M) == IF KFOn("C02-KF5")
               THEN Nz({[NormCell(m) EXCEPT !.k = "text", !.v = m.d] : m \in {x \in M : IsFormula(x) /\ x.k \in {"num", "bool", "err"}}}) ELSE {}
IllVar(M, E) == IF KFOn("C02-KF8") /\ E.facts.illegal # <<>> /\ SstBroken(E.pkg)      \* cells stored as shared strings
                THEN Nz({[NormCell(m) EXCEPT !.k = "bad", !.v = ""] : m \in {x \in M : x.k = "text" /\ ~IsFormula(x)}}) ELSE {}
(* text facts (computed outside TLC, which cannot look inside a string): t.nl = t.v after XML line-end
   normalisation, t.xs = t.v after ST_Xstring unescaping, t.xn = both *)
FactCell(t, v) == [r |-> t.r, c |-> t.c, k |-> "text", v |-> v, f |-> t.f, sm |-> t.sm]
FactsOf(E, s) == {t \in ToSet(E.facts.text) : t.s = s}
FactsBound(E, s, NM) == \A t \in FactsOf(E, s) : FactCell(t, t.v) \in NM
CrVar(E, s)  == IF KFOn("C02-KF6") THEN {FactCell(t, t.nl) : t \in {x \in FactsOf(E, s) : x.nl # x.v}} ELSE {}
XsVar(E, s)  == IF KFOn("C02-KF7") THEN {FactCell(t, t.xs) : t \in {x \in FactsOf(E, s) : x.xs # x.v}} ELSE {}
CrXsVar(E, s) == IF KFOn("C02-KF6") /\ KFOn("C02-KF7")
                 THEN {FactCell(t, t.xn) : t \in {x \in FactsOf(E, s) : x.nl # x.v /\ x.xn # x.nl}} ELSE {}

CellProblems(E, s) ==
  LET M  == ToSet(E.model.sheets[s].cells)
      NM == Nz({NormCell(m) : m \in M})
      DL == E.dec.sheets[s].cells
      D  == Nz(ToSet(DL))
      V  == NM \cup ErrVar(M) \cup FtypeVar(M) \cup IllVar(M, E) \cup CrVar(E, s) \cup XsVar(E, s) \cup CrXsVar(E, s)
  IN IF ~FactsBound(E, s, NM) THEN {<<"gen", "text facts do not belong to model cells">>}
     ELSE IF D = NM /\ Len(DL) = Cardinality(D) THEN {}
     ELSE IF Len(DL) # Cardinality(PosOf(D)) THEN {<<"cells", s, "a cell is decoded twice">>}
     ELSE IF PosOf(D) # PosOf(NM) THEN {<<"cells", s, "missing", PosOf(NM) \ PosOf(D), "extra", PosOf(D) \ PosOf(NM)>>}
     ELSE IF D \subseteq V THEN {}
     ELSE LET d == CHOOSE x \in D \ V : TRUE IN
          {<<"cells", s, Cardinality(D \ V), "decoded", d, "model", {m \in NM : m.r = d.r /\ m.c = d.c}>>}
CellHits(E, s) ==
  LET M  == ToSet(E.model.sheets[s].cells)
      NM == Nz({NormCell(m) : m \in M})
      D  == Nz(ToSet(E.dec.sheets[s].cells) \ NM)
  IN IF D = {} THEN {}
     ELSE (IF D \cap ErrVar(M) # {} THEN {"C02-KF4"} ELSE {}) \cup (IF D \cap FtypeVar(M) # {} THEN {"C02-KF5"} ELSE {})
          \cup (IF D \cap IllVar(M, E) # {} THEN {"C02-KF8"} ELSE {})
          \cup (IF D \cap (CrVar(E, s) \cup CrXsVar(E, s)) # {} THEN {"C02-KF6"} ELSE {})
          \cup (IF D \cap (XsVar(E, s) \cup CrXsVar(E, s)) # {} THEN {"C02-KF7"} ELSE {})

Tips(L)    == {[r1 |-> x.r1, c1 |-> x.c1, r2 |-> x.r2, c2 |-> x.c2, tip |-> x.tip] : x \in L}
Targets(L) == {[r1 |-> x.r1, c1 |-> x.c1, r2 |-> x.r2, c2 |-> x.c2, url |-> x.url, loc |-> x.loc] : x \in L}
Spots(L)   == {[r1 |-> x.r1, c1 |-> x.c1, r2 |-> x.r2, c2 |-> x.c2] : x \in L}
UrlBag(L)  == [u \in {x.url : x \in L} |-> Cardinality({x \in L : x.url = u})]
Permuted(TM, TD) ==       \* the targets of the external links are dealt to the same cells in another order
  /\ {x \in TM : x.loc} = {x \in TD : x.loc}
  /\ Spots({x \in TM : ~x.loc}) = Spots({x \in TD : ~x.loc})
  /\ UrlBag({x \in TM : ~x.loc}) = UrlBag({x \in TD : ~x.loc})
  /\ Cardinality({x.url : x \in {y \in TM : ~y.loc}}) >= 2
LinkProblems(E, s) ==
  LET ML == ContentLinks(wb.sheets[s])
      DL == E.dec.sheets[s].links
      D  == ToSet(DL)
      tipsOK == Tips(D) \subseteq (Tips(ML) \cup (IF KFOn("C02-KF2") THEN Tips({[x EXCEPT !.tip = ""] : x \in ML}) ELSE {}))
  IN IF Len(DL) # Cardinality(Spots(D)) THEN {<<"links", s, "a hyperlink is decoded twice">>}
     ELSE IF Spots(D) # Spots(ML) THEN {<<"links", s, "cells with hyperlinks", "expected", Spots(ML) \ Spots(D), "decoded", Spots(D) \ Spots(ML)>>}
     ELSE (IF tipsOK THEN {} ELSE {<<"links", s, "tooltips", Tips(D) \ Tips(ML)>>})
          \cup (IF Targets(D) = Targets(ML) \/ (KFOn("C02-KF1") /\ Permuted(Targets(ML), Targets(D))) THEN {}
                ELSE {<<"links", s, "targets", "expected", Targets(ML) \ Targets(D), "decoded", Targets(D) \ Targets(ML)>>})
LinkHits(E, s) ==
  LET ML == ContentLinks(wb.sheets[s])
      D  == ToSet(E.dec.sheets[s].links)
  IN (IF Tips(D) # Tips(ML) THEN {"C02-KF2"} ELSE {}) \cup (IF Targets(D) # Targets(ML) THEN {"C02-KF1"} ELSE {})

ContentProblems(E) ==
  IF [i \in DOMAIN E.dec.sheets |-> E.dec.sheets[i].name] # SheetNames(wb)
  THEN {<<"sheet list", "expected", SheetNames(wb), "decoded", [i \in DOMAIN E.dec.sheets |-> E.dec.sheets[i].name]>>}
  ELSE UNION {IF SheetBroken(E, s)         \* KF8 with the text held in the sheet part: exactly this sheet is undecodable
              THEN (IF E.dec.sheets[s].cells = <<>> /\ E.dec.sheets[s].links = <<>> /\ E.dec.sheets[s].merges = <<>> THEN {}
                    ELSE {<<"sheet", s, "content decoded from a part that is not well-formed">>})
              ELSE CellProblems(E, s) \cup LinkProblems(E, s)
              \cup (IF ToSet(E.dec.sheets[s].merges) = wb.sheets[s].merges /\ Len(E.dec.sheets[s].merges) = Cardinality(wb.sheets[s].merges)
                    THEN {} ELSE {<<"merges", s, "expected", wb.sheets[s].merges, "decoded", E.dec.sheets[s].merges>>})
              : s \in DOMAIN wb.sheets}
       \cup (IF ToSet(E.dec.names) = ToSet(AllNames(wb)) /\ Len(E.dec.names) = Len(AllNames(wb)) THEN {}
             ELSE {<<"defined names", "expected", AllNames(wb), "decoded", E.dec.names>>})
ContentHits(E) == UNION {IF SheetBroken(E, s) THEN {"C02-KF8"} ELSE CellHits(E, s) \cup LinkHits(E, s) : s \in DOMAIN wb.sheets}

(* ---- conditional-format rules and the differential formats they point at --------------------------------
   C02-KF12: the writer's differential format holds font, fill, border and alignment only: the number format and the
   protection of a rule's style are left out of the <dxf>; everything else of the entry must be as intended *)
Carriers(f) == {DxfOf(f)} \cup (IF KFOn("C02-KF12") /\ (f.numfmt # "" \/ f.prot)
                                THEN {[DxfOf(f) EXCEPT !.numfmt = "", !.prot = FALSE]} ELSE {})
RuleProblems(E) == RuleOffences(E.pkg, wb, Carriers)
RuleHits(E) == IF RuleOffences(E.pkg, wb, Intended) # {} THEN {"C02-KF12"} ELSE {}

(* ---- does SavePkg (the design TLC model-checks) still describe the writer?  Not a verdict about the code:
   reported as "drift" and kept out of the violations by checks/c02.py ---------------------------------- *)
Drift(p) ==
  LET q == Skeleton(SavePkg(wb, [i \in DOMAIN wb.sheets |-> CanonOrd(wb.sheets[i])]))
      o == Skeleton(p)
  IN IF q = o THEN <<>>
     ELSE <<"parts only in the design", q.parts \ o.parts, "only in the file", o.parts \ q.parts,
            "relationships only in the design", q.rels \ o.rels, "only in the file", o.rels \ q.rels>>

(* ---- one event per step -------------------------------------------------- *)
Ev == Rec[l]

SaveStep(e) ==
  IF e.outcome # "ok" THEN wb' = wb /\ Mismatch(l, <<"nosave", e.outcome>>)
  ELSE LET B == BookOfModel(e.model) IN
  IF Judged(B) # Judged(wb) \/ ~NoDupModel(e.model)
  THEN wb' = B /\ Mismatch(l, <<"gen", ModelDiff(Judged(wb), Judged(B))>>)
  ELSE LET offs == Offences(e.pkg)
           badc == BadClauses(e.pkg, offs, e)
           cont == IF offs.zip # {} \/ (offs.notwf # {} /\ "notwf" \in badc) THEN {}
                   ELSE ContentProblems(e) \cup (IF offs.notwf = {} THEN RuleProblems(e) ELSE {})
       IN /\ wb' = [wb EXCEPT !.active = e.model.active]
          /\ IF badc = {} /\ cont = {}
             THEN /\ \A id \in ClauseHits(offs) \cup ContentHits(e) \cup (IF offs.notwf = {} THEN RuleHits(e) ELSE {}) : KFHit(id, l)
                  /\ IF api /\ Drift(e.pkg) # <<>> THEN Mismatch(l, <<"drift", Drift(e.pkg)>>) ELSE TRUE
             ELSE Mismatch(l, <<"impl", [c \in badc |-> offs[c]], cont>>)

Step(e) ==
  IF e.a = "Fatal" THEN wb' = wb /\ api' = api /\ Mismatch(l, <<"fatal", e.outcome>>)
  ELSE IF e.a = "New" THEN wb' = EmptyBook /\ api' = TRUE
  ELSE IF e.a = "Open"
  THEN /\ api' = FALSE
       /\ IF e.outcome = "ok" THEN wb' = BookOfModel(e.model) ELSE wb' = EmptyBook /\ Mismatch(l, <<"gen", "open", e.outcome>>)
  ELSE /\ api' = api
       /\ IF e.a = "Save" THEN SaveStep(e)
          ELSE IF ~InContract(e) THEN wb' = wb /\ Mismatch(l, <<"gen", "out of contract", e.a>>)
          ELSE IF e.outcome # "ok" THEN wb' = wb /\ Mismatch(l, <<"gen", "operation failed", e.a, e.outcome>>)
          ELSE wb' = Expected(e)

TraceInit == l = 1 /\ wb = EmptyBook /\ api = TRUE
TraceNext == l <= Len(Rec) /\ l' = l + 1 /\ Step(Ev)
TraceSpec == TraceInit /\ [][TraceNext]_tvars
=============================================================================
