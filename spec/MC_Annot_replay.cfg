CONSTANTS Depth = 3 MaxSheets = 2 Pairing = "one" Family = "all" Wide = FALSE EmitReplay = TRUE
SPECIFICATION MCSpec
INVARIANTS Emit
CHECK_DEADLOCK FALSE
