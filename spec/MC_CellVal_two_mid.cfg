CONSTANTS Pos = {1, 2} PoolName = "mid" Wide = FALSE Bounded = FALSE Depth = 0 EmitReplay = FALSE Deviant = "none"
CONSTANTS
  Texts <- MCTexts
  Forms <- MCForms
  Nums <- MCNums
  RichPool <- MCRich
  OrcOf <- MCOrc
SPECIFICATION MCSpec
VIEW View
INVARIANTS TypeOK Consistent TextsOk NumbersExactly GuessIdempotent LazyEquiv
PROPERTIES FormulaRule TypedNeverGuess Independent CopyExact SaveLoadKeeps
CHECK_DEADLOCK FALSE
