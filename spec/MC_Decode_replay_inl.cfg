CONSTANTS MaxRow = 1048576 MaxCol = 16384 Wide = FALSE MaxOpts = 1 MaxSst = 0 MaxCells = 3 UseBlock = FALSE MaxAttrs = 0
  Variants = "inl" EmitReplay = TRUE
SPECIFICATION MCSpec
INVARIANTS Emit DecodeTotal KindByType
CHECK_DEADLOCK FALSE
