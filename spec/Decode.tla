------------------------------- MODULE Decode -------------------------------
(***************************************************************************)
(* C03 - the reader agrees with an independent decoder on valid files.     *)
(*                                                                         *)
(* Part 1: the ECMA-376 decoding rules for a cell, as operators over the   *)
(* *raw encoding* of the cell (18.3.1.4 c, 18.18.11 ST_CellType, 18.4.8    *)
(* si / CT_Rst, 18.3.1.40 f, 18.8.45 xf / 18.8.30 numFmt):                  *)
(*   raw cell  [r, c,            position (document order = (r, c) order)  *)
(*              t,               "" (absent) | n | s | str | inlineStr | b | e *)
(*              hv, v,           <v> present, its text                      *)
(*              vb,              v as the 16-hex-digit bit pattern of the   *)
(*                               nearest double ("" if v is no number)      *)
(*              vi,              v as an integer (-1 if it is none)         *)
(*              his, isr,        <is> present; isr = [rich, runs]           *)
(*              s,               style index (-1 = attribute absent)        *)
(*              f: [k, si, ht, text, toks]]   k: none|normal|shared|array,  *)
(*                               ht = the element has text, toks = token    *)
(*                               list of the text (Formula.tla; only read   *)
(*                               for the master of a shared formula)        *)
(*   string item [rich, runs]    plain: runs = <<text>>; rich: one per <r>  *)
(*   xf          [id, custom, code]   numFmtId of cellXfs[i]; custom = a    *)
(*                               <numFmt> of the file defines it (code)     *)
(* DecodeCell yields [val: [k, runs, b], frm: [hf, exact, text, toks], fmt].*)
(* A child of a shared formula gets Translate(master tokens, offset) - the  *)
(* operator of Formula.tla that C09 model-checks.                          *)
(*                                                                         *)
(* Part 2: GenFile, the grammar-based xlsx generator of the property's     *)
(* quantifier as a state machine over a *file model* (what                 *)
(* pydec/build_xlsx.py writes down literally).  Every action is            *)
(* file' = Post(file, args).  Invariants (checked by TLC in MC_Decode):    *)
(* DecodeTotal, KindByType, SstIndirection, SharedConsistent, AnchorFirst. *)
(***************************************************************************)
EXTENDS Formula

ErrCodes == {"#NULL!", "#DIV/0!", "#VALUE!", "#REF!", "#NAME?", "#NUM!", "#N/A"}
CellTypes == {"", "n", "s", "str", "inlineStr", "b", "e"}
Kinds == {"blank", "num", "text", "rich", "bool", "err"}
FKinds == {"none", "normal", "shared", "array"}
(* number format ids whose meaning ECMA-376 18.8.30 fixes for all languages *)
EcmaFmtIds == (0..4) \cup (9..22) \cup (37..40) \cup (45..49)

RECURSIVE JoinRuns(_)
JoinRuns(runs) == IF runs = <<>> THEN "" ELSE Head(runs) \o JoinRuns(Tail(runs))

(* ---- values ---------------------------------------------------------------- *)
Val(k, runs, b) == [k |-> k, runs |-> runs, b |-> b]
Blank       == Val("blank", <<>>, "")
TextVal(s)  == Val("text", <<s>>, "")
RstVal(item) == IF item.rich THEN Val("rich", item.runs, "")
                ELSE TextVal(IF item.runs = <<>> THEN "" ELSE item.runs[1])
(* a text cell with the empty string shows nothing: not distinguished from a blank cell *)
NormVal(x) == IF x.k = "text" /\ x.runs = <<"">> THEN Blank ELSE x

ValidValue(c, nsst) ==
  CASE c.t \in {"", "n"}   -> ~c.his /\ (c.hv => c.vb # "")
    [] c.t = "s"           -> ~c.his /\ (c.hv => (c.vi >= 0 /\ c.vi < nsst))
    [] c.t = "str"         -> ~c.his
    [] c.t = "inlineStr"   -> ~c.hv /\ (c.his => (c.isr.runs # <<>>))
    [] c.t = "b"           -> ~c.his /\ (c.hv => c.v \in {"0", "1"})
    [] c.t = "e"           -> ~c.his /\ (c.hv => c.v \in ErrCodes)
    [] OTHER               -> FALSE

DecodeValue(c, sst) ==
  IF ~c.hv /\ ~c.his THEN Blank
  ELSE CASE c.t \in {"", "n"}  -> Val("num", <<>>, c.vb)
         [] c.t = "s"          -> RstVal(sst[c.vi + 1])
         [] c.t = "str"        -> TextVal(c.v)
         [] c.t = "inlineStr"  -> RstVal(c.isr)
         [] c.t = "b"          -> Val("bool", <<IF c.v = "1" THEN "TRUE" ELSE "FALSE">>, "")
         [] c.t = "e"          -> Val("err", <<c.v>>, "")

(* ---- formulas ----------------------------------------------------------------- *)
(* masters: function from shared index to [r, c, toks] - the shared-formula table while reading a sheet;
   the master of a group is the first cell in document order that carries text for that index *)
NoMasters == [x \in {} |-> 0]
IsMaster(c, m) == c.f.k = "shared" /\ c.f.si \notin DOMAIN m /\ c.f.ht
IsChild(c, m)  == c.f.k = "shared" /\ c.f.si \in DOMAIN m
NextMasters(m, c) == IF IsMaster(c, m) THEN m @@ (c.f.si :> [r |-> c.r, c |-> c.c, toks |-> c.f.toks]) ELSE m
ChildToks(c, m) == LET a == m[c.f.si] IN TranslateF(a.toks, c.c - a.c, c.r - a.r)
HasRefErr(f) == \E i \in DOMAIN f : f[i].k = "referr"
ValidFormula(c, m) ==
  /\ c.f.k \in FKinds
  /\ c.f.k = "shared" => (c.f.si >= 0 /\ (c.f.si \notin DOMAIN m => c.f.ht))
  /\ IsMaster(c, m) => Render(c.f.toks) = c.f.text            \* the token list is the text
  /\ IsChild(c, m) => (HasRefErr(ChildToks(c, m)) => HasRefErr(m[c.f.si].toks))   \* no reference leaves the grid
Frm(hf, exact, text, toks) == [hf |-> hf, exact |-> exact, text |-> text, toks |-> toks]
DecodeFormula(c, m) ==
  IF c.f.k = "none" THEN Frm(FALSE, TRUE, "", <<>>)
  ELSE IF IsChild(c, m) THEN LET t == ChildToks(c, m) IN Frm(TRUE, FALSE, Render(t), t)   \* the master overrides
  ELSE Frm(TRUE, TRUE, c.f.text, <<>>)

(* ---- styles -------------------------------------------------------------------- *)
XfIndex(c) == IF c.s < 0 THEN 0 ELSE c.s                    \* s defaults to 0 (18.3.1.4)
ValidStyle(c, xfs) == XfIndex(c) < Len(xfs)
DecodeFmt(c, xfs) == xfs[XfIndex(c) + 1]
(* the format code of xf = [id, custom, code] (18.8.30): a <numFmt> of the file that declares the id wins, whatever the id
   (localised producers declare ids below 164, e.g. 42 / 44 with their own currency); an undeclared id that ECMA-376 lists
   for all languages means that built-in format (compared by id: the wording of a built-in code is the reader's business);
   for an undeclared id outside that list (5-8, 23-36, 41-44, 50..) the standard fixes no code: nothing is demanded *)
FmtDemand(xf) == IF xf.custom THEN "code" ELSE IF xf.id \in EcmaFmtIds THEN "id" ELSE "none"

(* ---- positions (18.3.1.73 row: r optional; 18.3.1.4 c: r optional) ------------------- *)
(* A <row> without r= is the row after the previous <row> element (row 1 if it is the first), whether or not that one
   had cells; a <c> without r= is in the column after the previous <c> of its row (column 1 if it is the first),
   whether or not that one had content (a self-closing <c s=".."/> counts like any other).
   ra = the r= attribute of a row, 0 if absent. *)
NextRowNum(prev, ra) == IF ra > 0 THEN ra ELSE prev + 1
RECURSIVE RowAfter(_, _)           \* the row number after a sequence of <row> elements (their r= attributes)
RowAfter(prev, ras) == IF ras = <<>> THEN prev ELSE RowAfter(NextRowNum(prev, Head(ras)), Tail(ras))
(* p = [row, col]: row number of the current <row> element and column of its last <c> (0 = none yet).
   c carries nr (no r=), rf (first <c> of its <row>), rra (r= of that row), rpre (r= of the cell-less rows before it),
   and r / c = the position its r= attribute names (where it has one). *)
RowOf(p, c) == IF c.rf THEN RowAfter(p.row, Append(c.rpre, c.rra)) ELSE p.row
ColBefore(p, c) == IF c.rf THEN 0 ELSE p.col
CellPosition(p, c) == IF c.nr THEN [row |-> RowOf(p, c), col |-> ColBefore(p, c) + 1] ELSE [row |-> c.r, col |-> c.c]
(* the state after the cell: the row element's number, the cell's column *)
PosAfter(p, c) == [row |-> RowOf(p, c), col |-> CellPosition(p, c).col]
Pos0 == [row |-> 0, col |-> 0]

(* ---- ST_Xstring (22.9.2.19) ---------------------------------------------------------- *)
(* _xHHHH_ (four hexadecimal digits of either case) stands for the UTF-16 code unit HHHH; texts are sequences of UTF-16
   code units.  Scanning is left to right and an escape is consumed whole: _x005F_x0041_ is "_x0041_", and
   _x0041__x0042_ is "AB".  Anything that is not a complete escape stands for itself.  Two escapes may spell a surrogate
   pair (one character outside the BMP); a lone surrogate is no character: such a text has no decoding here. *)
HexVal(u) == IF u >= 48 /\ u <= 57 THEN u - 48 ELSE IF u >= 65 /\ u <= 70 THEN u - 55 ELSE IF u >= 97 /\ u <= 102 THEN u - 87 ELSE -1
IsEscape(s, i) == /\ i + 6 <= Len(s) /\ s[i] = 95 /\ s[i + 1] = 120 /\ s[i + 6] = 95
                  /\ \A k \in 2..5 : HexVal(s[i + k]) >= 0
EscapeUnit(s, i) == 4096 * HexVal(s[i + 2]) + 256 * HexVal(s[i + 3]) + 16 * HexVal(s[i + 4]) + HexVal(s[i + 5])
RECURSIVE XDecodeFrom(_, _)
XDecodeFrom(s, i) == IF i > Len(s) THEN <<>>
                     ELSE IF IsEscape(s, i) THEN <<EscapeUnit(s, i)>> \o XDecodeFrom(s, i + 7)
                     ELSE <<s[i]>> \o XDecodeFrom(s, i + 1)
XDecode(s) == XDecodeFrom(s, 1)
IsHigh(u) == u >= 55296 /\ u <= 56319
IsLow(u)  == u >= 56320 /\ u <= 57343
WellFormed16(s) == \A i \in DOMAIN s :
                     /\ IsHigh(s[i]) => (i < Len(s) /\ IsLow(s[i + 1]))
                     /\ IsLow(s[i]) => (i > 1 /\ IsHigh(s[i - 1]))

(* ---- hyperlinks (18.3.1.47 hyperlink) ------------------------------------------------ *)
(* raw link [ext, val, hasloc, loc, tip]: ext = the element carries r:id and val is the Target of that relationship;
   hasloc / loc = the location attribute; tip = the tooltip attribute ("" if absent).
   With r:id the target of the link is the relationship's Target (location then only names a place inside it);
   with location alone the target is the location itself, a place in this workbook. *)
LinkUrl(h) == IF h.ext THEN h.val ELSE h.loc
LinkIsPlace(h) == ~h.ext
(* whether a link is "a place in this workbook" is only a yes/no of the link as a whole when it has one of the two
   attributes: an external target with a fragment (both) is not expressible as such a flag *)
LinkPlaceDecided(h) == ~(h.ext /\ h.hasloc)
ValidLink(h) == h.ext \/ h.hasloc

ValidCell(c, nsst, xfs, m) == c.t \in CellTypes /\ ValidValue(c, nsst) /\ ValidFormula(c, m) /\ ValidStyle(c, xfs)
DecodeCell(c, sst, xfs, m) == [val |-> DecodeValue(c, sst), frm |-> DecodeFormula(c, m), fmt |-> DecodeFmt(c, xfs)]

(* a whole sheet: cells in document order -> decoded cells, threading the shared-formula table *)
RECURSIVE DecodeSeq(_, _, _, _)
DecodeSeq(cs, sst, xfs, m) ==
  IF cs = <<>> THEN <<>>
  ELSE <<DecodeCell(Head(cs), sst, xfs, m)>> \o DecodeSeq(Tail(cs), sst, xfs, NextMasters(m, Head(cs)))
RECURSIVE ValidSeq(_, _, _, _)
ValidSeq(cs, nsst, xfs, m) ==
  cs = <<>> \/ (ValidCell(Head(cs), nsst, xfs, m) /\ ValidSeq(Tail(cs), nsst, xfs, NextMasters(m, Head(cs))))
RECURSIVE MastersAfter(_, _)
MastersAfter(cs, m) == IF cs = <<>> THEN m ELSE MastersAfter(Tail(cs), NextMasters(m, Head(cs)))

(* which formula texts a reader may show for a decoded formula: the exact text, or - for a derived one -
   any rendering of the token list (optional blanks may vanish, Formula!Renderings); the big set is only
   built for short token lists *)
FewAlts(f) == Cardinality({i \in DOMAIN f : f[i].k \in {"ws", "isect"} \/ (f[i].k = "ref" /\ f[i].qc # <<>>)}) <= 8
AcceptsF(f, text) == text = RenderMin(f) \/ text = Render(f) \/ (FewAlts(f) /\ text \in Renderings(f))

---------------------------------------------------------------------------
(* ---- GenFile: the grammar-based generator ------------------------------------- *)
(* file = [cells: set of raw cells, sst: sequence of string items, xfs, opts, attrs]; phase orders the
   actions (options, strings, cells, shared block, attributes, finish) so that equal files are reached once *)
VARIABLES file, phase
gvars == <<file, phase>>

F0 == [k |-> "none", si |-> -1, ht |-> FALSE, text |-> "", toks |-> <<>>, ref |-> ""]
(* a value encoding (variant) is a raw cell without position; Place puts it somewhere *)
Place(variant, r, c) == [variant EXCEPT !.r = r, !.c = c]
PosLess(a, b) == a.r < b.r \/ (a.r = b.r /\ a.c < b.c)
RECURSIVE SortCells(_)
SortCells(S) == IF S = {} THEN <<>>
                ELSE LET x == CHOOSE y \in S : \A z \in S : z = y \/ PosLess(y, z) IN <<x>> \o SortCells(S \ {x})
DocOrder(f) == SortCells(f.cells)
Occupied(f, r, c) == \E x \in f.cells : x.r = r /\ x.c = c

PostSetOpt(f, name, val)   == [f EXCEPT !.opts = [@ EXCEPT ![name] = val]]
PostAddSst(f, item)        == [f EXCEPT !.sst = Append(@, item)]
PostAddCell(f, variant, r, c) == [f EXCEPT !.cells = @ \cup {Place(variant, r, c)}]
(* the same with the optional position attributes left out: nr = the cell is written without r=, rnr = its <row> is *)
PostAddCellOpt(f, variant, r, c, nr, rnr) ==
  [f EXCEPT !.cells = @ \cup {[Place(variant, r, c) EXCEPT !.nr = nr]}, !.rownr = IF rnr THEN @ \cup {r} ELSE @]
RowCells(f, r) == {x \in f.cells : x.r = r}
LastRowOf(f) == IF f.cells = {} THEN 0 ELSE CHOOSE r \in {x.r : x \in f.cells} : \A x \in f.cells : x.r <= r
LastColOf(f, r) == IF RowCells(f, r) = {} THEN 0 ELSE CHOOSE c \in {x.c : x \in RowCells(f, r)} : \A x \in RowCells(f, r) : x.c <= c
(* in-contract: the attribute may be left out only where document order implies the same position (cells are added in
   document order) *)
CanOmitCellR(f, r, c) == r >= LastRowOf(f) /\ c = LastColOf(f, r) + 1
CanOmitRowR(f, r) == RowCells(f, r) = {} /\ r = LastRowOf(f) + 1
AfterAll(f, r, c) == r > LastRowOf(f) \/ (r = LastRowOf(f) /\ c > LastColOf(f, r))
(* a shared-formula block: the master at (ar, ac) with formula toks and group index si, children at the offsets
   (each <<dr, dc>> later in document order), every cell with the cached value of `variant` *)
MasterF(toks, si, ref) == [k |-> "shared", si |-> si, ht |-> TRUE, text |-> Render(toks), toks |-> toks, ref |-> ref]
ChildF(si)            == [k |-> "shared", si |-> si, ht |-> FALSE, text |-> "", toks |-> <<>>, ref |-> ""]
PostAddSharedBlock(f, variant, ar, ac, toks, si, offs, ref) ==
  [f EXCEPT !.cells = @ \cup {[Place(variant, ar, ac) EXCEPT !.f = MasterF(toks, si, ref)]}
                        \cup {[Place(variant, ar + o[1], ac + o[2]) EXCEPT !.f = ChildF(si)] : o \in offs}]
PostSetAttr(f, channel, val) == [f EXCEPT !.attrs = [@ EXCEPT ![channel] = val]]

(* in-contract arguments *)
LaterInDocOrder(o) == o[1] > 0 \/ (o[1] = 0 /\ o[2] > 0)
CanAddBlock(f, ar, ac, toks, offs) ==
  /\ ~Occupied(f, ar, ac) /\ \A o \in offs : LaterInDocOrder(o) /\ ac + o[2] >= 1 /\ ~Occupied(f, ar + o[1], ac + o[2])
  /\ \A o \in offs : HasRefErr(TranslateF(toks, o[2], o[1])) => HasRefErr(toks)

(* what the position rule derives from the attributes as written, cell by cell in document order *)
RawPos(f, cs, i) == [cs[i] EXCEPT !.rf = (i = 1 \/ cs[i - 1].r # cs[i].r),
                                  !.rra = IF cs[i].r \in f.rownr \/ ~f.opts.rowr THEN 0 ELSE cs[i].r, !.rpre = <<>>,
                                  !.nr = cs[i].nr \/ ~f.opts.rowr]
RECURSIVE DerivedFrom(_, _, _, _)
DerivedFrom(f, cs, i, p) == IF i > Len(cs) THEN <<>>
                            ELSE <<CellPosition(p, RawPos(f, cs, i))>> \o DerivedFrom(f, cs, i + 1, PosAfter(p, RawPos(f, cs, i)))
(* leaving the optional attributes out never moves a cell *)
PositionsImplied == LET cs == DocOrder(file)  d == DerivedFrom(file, cs, 1, Pos0) IN
                    \A i \in DOMAIN cs : d[i].row = cs[i].r /\ d[i].col = cs[i].c

(* ---- properties of the oracle (checked on every reachable file) ----------------- *)
Decoded(f) == DecodeSeq(DocOrder(f), f.sst, f.xfs, NoMasters)
FileValid(f) == ValidSeq(DocOrder(f), Len(f.sst), f.xfs, NoMasters)
(* every valid encoding decodes, to a value of a known kind *)
DecodeTotal == FileValid(file) /\ \A i \in DOMAIN Decoded(file) : Decoded(file)[i].val.k \in Kinds
(* the kind is a function of t= and of the presence of <v>/<is> alone *)
KindByType ==
  LET cs == DocOrder(file)  d == Decoded(file) IN
  \A i \in DOMAIN cs :
    LET c == cs[i]  k == d[i].val.k IN
    /\ (k = "blank") <=> (~c.hv /\ ~c.his)
    /\ (k = "num")   <=> (c.hv /\ c.t \in {"", "n"})
    /\ (k = "bool")  <=> (c.hv /\ c.t = "b")
    /\ (k = "err")   <=> (c.hv /\ c.t = "e")
    /\ (k \in {"text", "rich"}) <=> ((c.hv /\ c.t \in {"s", "str"}) \/ (c.his /\ c.t = "inlineStr"))
(* a shared string cell means what the same item means as an inline string *)
SstIndirection ==
  \A x \in file.cells : (x.t = "s" /\ x.hv) =>
     DecodeValue(x, file.sst) = DecodeValue([x EXCEPT !.t = "inlineStr", !.hv = FALSE, !.his = TRUE, !.isr = file.sst[x.vi + 1]], file.sst)
(* the master of every group is the first cell of the group in document order and has the text *)
AnchorFirst ==
  LET cs == DocOrder(file) IN
  \A i \in DOMAIN cs : cs[i].f.k = "shared" =>
     LET j == CHOOSE k \in DOMAIN cs : cs[k].f.k = "shared" /\ cs[k].f.si = cs[i].f.si
                                      /\ \A n \in DOMAIN cs : (cs[n].f.k = "shared" /\ cs[n].f.si = cs[i].f.si) => k <= n
     IN cs[j].f.ht /\ (i # j => ~cs[i].f.ht)
(* a child's formula is the master's translated by the offset; translation composes, so the same text is
   obtained from any sibling (when no reference leaves the grid) *)
SharedConsistent ==
  LET cs == DocOrder(file)  d == Decoded(file)  m == MastersAfter(cs, NoMasters) IN
  \A i \in DOMAIN cs : (cs[i].f.k = "shared" /\ ~cs[i].f.ht) =>
     LET a == m[cs[i].f.si] IN
     /\ d[i].frm.toks = TranslateF(a.toks, cs[i].c - a.c, cs[i].r - a.r)
     /\ d[i].frm.text = Render(d[i].frm.toks)
     /\ \A j \in DOMAIN cs : (cs[j].f.k = "shared" /\ cs[j].f.si = cs[i].f.si /\ ~cs[j].f.ht /\ ~HasRefErr(d[j].frm.toks)) =>
           TranslateF(d[j].frm.toks, cs[i].c - cs[j].c, cs[i].r - cs[j].r) = d[i].frm.toks
     /\ TranslateF(d[i].frm.toks, a.c - cs[i].c, a.r - cs[i].r) = a.toks         \* and back to the master
=============================================================================
