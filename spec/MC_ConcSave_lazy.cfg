CONSTANTS Sharing = "private" Scenario = "lazy" EmitReplay = FALSE
SPECIFICATION MSpec
VIEW View
INVARIANTS OwnStrings PartIffRel NoForeign
PROPERTY Terminates
CHECK_DEADLOCK FALSE
