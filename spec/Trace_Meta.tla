---------------------------- MODULE Trace_Meta ----------------------------
(***************************************************************************)
(* Trace validation for X01.  harness/src/bin/meta.rs applies one step of  *)
(* a case per event through the public API and logs the step, its outcome  *)
(* and "obs": the projection of the whole workbook through public getters  *)
(* after the step (a sheet equal to sheet j of the previous event's        *)
(* projection is logged as [ref |-> j]: Decode expands it).  A Save event  *)
(* also carries "file": pydec/meta_view.py's independent view of the       *)
(* package written.                                                        *)
(*                                                                         *)
(* Every event must be a step of Meta.tla:                                 *)
(*   obs = GetWb(<Op>P(wb, args))          P1, P2, P5 (the whole workbook  *)
(*                                          is compared after every step)  *)
(*   Save: file view = EffWb(SaveP(wb)), activeCellId designates a range   *)
(*         that contains the active cell    P4                             *)
(*   Load: obs = GetWb(LoadP(file, mode))   P3                             *)
(* An event that the intended action does not explain is tried against the *)
(* enabled known-finding deviations whose trigger holds (exact outcomes);  *)
(* else <<"MISMATCH", ..>>.  An out-of-contract step is <<"gen", ..>>.     *)
(***************************************************************************)
EXTENDS Meta, TraceBase, SequencesExt

VARIABLES l, seen
tvars == <<wb, file, last, l, seen>>

(* ------------------------------------------------ observations <-> state *)
IsRef(x) == "ref" \in DOMAIN x
Decode(o) == [sheets |-> [i \in DOMAIN o.sheets |-> IF IsRef(o.sheets[i]) THEN seen.sheets[o.sheets[i].ref] ELSE o.sheets[i]],
              props  |-> IF IsRef(o.props) THEN seen.props ELSE o.props,
              custom |-> o.custom, active |-> o.active]
RefsOK(o) == /\ \A i \in DOMAIN o.sheets : IsRef(o.sheets[i]) => o.sheets[i].ref \in DOMAIN seen.sheets
             /\ IsRef(o.props) => seen.hasp
ObsSheet(o) == [o EXCEPT !.hrows = ToSet(@), !.hcols = ToSet(@), !.dvs = ToSet(@), !.cfs = ToSet(@)]
ObsWb(d) == [sheets |-> [i \in DOMAIN d.sheets |-> ObsSheet(d.sheets[i])], active |-> d.active, props |-> d.props,
             custom |-> d.custom]
NoDupSheet(o) == /\ Len(o.hrows) = Cardinality(ToSet(o.hrows)) /\ Len(o.hcols) = Cardinality(ToSet(o.hcols))
                 /\ Len(o.dvs) = Cardinality(ToSet(o.dvs)) /\ Len(o.cfs) = Cardinality(ToSet(o.cfs))
NoDup(d) == \A i \in DOMAIN d.sheets : NoDupSheet(d.sheets[i])

(* the independent view of a written file, in the shape of EffWb *)
FileSheet(o) == [name |-> o.name, state |-> o.state, tab |-> o.tab, views |-> o.views, prot |-> o.prot, ps |-> o.ps, po |-> o.po,
                 pm |-> o.pm, hf |-> o.hf, hrows |-> ToSet(o.hrows), hcols |-> ToSet(o.hcols), af |-> o.af,
                 dvs |-> ToSet(o.dvs), cfs |-> ToSet(o.cfs)]
FileWb(f) == [sheets |-> [i \in DOMAIN f.sheets |-> FileSheet(f.sheets[i])], active |-> f.active, props |-> f.props,
              custom |-> f.custom]
(* ECMA-376 18.3.1.78: activeCellId is the index of the sqref range that contains the active cell *)
SelAll(f) == UNION {UNION {{<<i, v, k>> : k \in DOMAIN f.sheets[i].selinfo[v]} : v \in DOMAIN f.sheets[i].selinfo}
                    : i \in DOMAIN f.sheets}
SelBad(f) == {t \in SelAll(f) : LET x == f.sheets[t[1]].selinfo[t[2]][t[3]] IN x.acid \notin ToSet(x.hits)}

(* ------------------------------------------------- texts, looked into *)
(* e.chars: [{s: text, c: <<one-character strings>>}]; an entry is used only if c spells s *)
RECURSIVE Join(_, _)
Join(q, k) == IF k > Len(q) THEN "" ELSE q[k] \o Join(q, k + 1)
Spelling(e, s) == LET hit == {k \in DOMAIN e.chars : e.chars[k].s = s} IN
                  IF hit = {} THEN <<>> ELSE LET c == e.chars[CHOOSE k \in hit : TRUE].c IN IF Join(c, 1) = s THEN c ELSE <<>>
Blank == {" ", "\t", "\r", "\n"}
(* s without leading and trailing blanks (s itself when its spelling is not given) *)
Trim(e, s) == LET c == Spelling(e, s) IN
              IF c = <<>> THEN s
              ELSE LET ink == {k \in DOMAIN c : c[k] \notin Blank} IN
                   IF ink = {} THEN ""
                   ELSE Join(SubSeq(c, CHOOSE k \in ink : \A j \in ink : k <= j, CHOOSE k \in ink : \A j \in ink : k >= j), 1)

(* --------------------------------------------------- known findings *)
(* Where they act.  A workbook in memory holds, for a sheet that is still raw, the sheet part as it is in the file; parsing
   (an eager load, Materialise, or the first operation on the sheet) is where reader defects act on a sheet, saving a
   materialised sheet is where writer defects act; a raw sheet is written back verbatim.
     at Save, on the content written for materialised sheets (what a later load can find in the file):
       X01-KF1  Worksheet::set_active_cell is never written            acell  -> ""
       X01-KF2  Worksheet::set_sheet_state is never written            sstate -> ""
       X01-KF7  cfRule@text is never written                           text   -> ""
       X01-KF9  a sheet whose page margins were never set is written with all margins 0
     at Save, on what the file states to a conforming reader (the library reads its own spelling back):
       X01-KF5  LF / CR / TAB in attribute values are written raw      -> one space each
       X01-KF6  PaneValues::TopRight is spelled "TopRight"
       X01-KF4  activeCellId by substring test                         (selinfo)
     when a sheet part written by another application is parsed:
       X01-KF6  "topRight" is not recognised                           -> absent
       X01-KF7  cfRule@text is not read                                -> ""
     when the document-property parts are read (always, also by a lazy load):
       X01-KF3  text is trimmed
       X01-KF8  the text of an unknown element of the core part is given to the next known element that is empty   *)
NoText(cfs) == {[x EXCEPT !.rules = [j \in DOMAIN @ |-> [@[j] EXCEPT !.text = ""]]] : x \in cfs}
PmUnset(pm) == \A k \in PmKeys : pm[k] = ""
(* "topRight!" marks, in a sheet part that was written by another application and is not parsed yet, a pane value that the
   file spells topRight *)
MapPanes(v, F(_)) == [v EXCEPT !.pane = [j \in DOMAIN @ |-> [@[j] EXCEPT !.ap = F(@)]], !.sel = [j \in DOMAIN @ |-> [@[j] EXCEPT !.pane = F(@)]]]
MapViews(sh, F(_)) == [sh EXCEPT !.views = [v \in DOMAIN @ |-> MapPanes(@[v], F)]]
Mark(p)   == IF p = "topRight" THEN "topRight!" ELSE p
Unmark(p) == IF p = "topRight!" THEN "topRight" ELSE p
Drop(p)   == IF p = "topRight!" THEN "" ELSE p
TR(p)     == IF p = "topRight" THEN "TopRight" ELSE p
(* parsing sheet sh (materialising it) under the reader deviations K *)
Parse(sh, K) == [(IF "KF6" \in K THEN MapViews(sh, Drop) ELSE MapViews(sh, Unmark))
                   EXCEPT !.mat = TRUE, !.cfs = IF "KF7" \in K /\ ~sh.mat THEN NoText(@) ELSE @]
Foreign(sh) == MapViews(sh, Unmark) # sh
ParseKon(sh) == IF sh.mat THEN {}
                ELSE {k \in {"KF6", "KF7"} : KFOn("X01-" \o k) /\ Parse(sh, {k}) # Parse(sh, {})}
(* only a sheet part of another application can still carry a rule text (the library never writes one: KF7 at Save) *)

(* X01-KF8: q: the children of the core part in document order [k: property key or "", t: text]; val: the text carried
   along; p: the properties so far *)
RECURSIVE CoreRun(_, _, _, _)
CoreRun(q, i, val, p) ==
  IF i > Len(q) THEN p
  ELSE LET v2 == IF q[i].t # "" THEN q[i].t ELSE val IN
       IF q[i].k # "" THEN CoreRun(q, i + 1, "", [p EXCEPT ![q[i].k] = v2]) ELSE CoreRun(q, i + 1, v2, p)
TrimCustom(e, c) == IF c.kind \in {"str", "date"} THEN [c EXCEPT !.v = Trim(e, @)] ELSE c
(* reading the document properties of content w under the deviations K *)
PropsDev(e, w, K) ==
  [w EXCEPT !.props  = LET q  == IF e.a = "OpenFile"
                                 THEN [i \in DOMAIN e.orig.core_seq |->
                                         [k |-> e.orig.core_seq[i].k, t |-> IF "KF3" \in K THEN Trim(e, e.orig.core_seq[i].t) ELSE e.orig.core_seq[i].t]]
                                 ELSE <<>>
                           p1 == IF "KF8" \in K THEN CoreRun(q, 1, "", @) ELSE @
                       IN IF "KF3" \in K THEN [p \in PropKeys |-> Trim(e, p1[p])] ELSE p1,
            !.custom = IF "KF3" \in K THEN [j \in DOMAIN @ |-> TrimCustom(e, @[j])] ELSE @]
PropsKon(e, w) == {k \in {"KF3", "KF8"} : KFOn("X01-" \o k) /\ PropsDev(e, w, {k}) # w}

(* the content written by Save: c0 as intended, w the workbook saved (its mat flags say which sheets are written from memory) *)
SaveDevC(w, c0, K) ==
  [c0 EXCEPT !.sheets = [i \in DOMAIN @ |->
      IF ~w.sheets[i].mat THEN @[i]
      ELSE [@[i] EXCEPT !.acell = IF "KF1" \in K THEN "" ELSE @, !.sstate = IF "KF2" \in K THEN "" ELSE @,
                        !.cfs = IF "KF7" \in K THEN NoText(@) ELSE @,
                        !.pm = IF "KF9" \in K /\ PmUnset(@) THEN [k \in PmKeys |-> "0"] ELSE @]]]
(* what the file states: x = EffWb(content) *)
AttrNorm(e, s) == LET c == Spelling(e, s) IN
                  IF c = <<>> THEN s ELSE Join([k \in DOMAIN c |-> IF c[k] \in {"\n", "\t", "\r"} THEN " " ELSE c[k]], 1)
NormDv(e, d) == [d EXCEPT !.ptitle = AttrNorm(e, @), !.prompt = AttrNorm(e, @), !.etitle = AttrNorm(e, @), !.emsg = AttrNorm(e, @)]
(* (these two act on every sheet part the library has written, also one that is raw now; a raw part of another application
   is written back as it is: its "topRight!" is not touched by TR, and SaveStep accepts a sheet with or without KF5) *)
SaveDevX(e, x, K) ==
  [x EXCEPT !.sheets = [i \in DOMAIN @ |->
      [@[i] EXCEPT !.dvs = IF "KF5" \in K THEN {NormDv(e, d) : d \in @} ELSE @,
                   !.views = IF "KF6" \in K THEN [k \in DOMAIN @ |-> MapPanes(@[k], TR)] ELSE @]],
            !.custom = IF "KF5" \in K THEN [j \in DOMAIN @ |-> [@[j] EXCEPT !.name = AttrNorm(e, @)]] ELSE @]
(* the file view of a raw foreign sheet shows the value as the file spells it *)
UnmarkAll(x) == [x EXCEPT !.sheets = [i \in DOMAIN @ |-> MapViews(@[i], Unmark)]]
EffX(c) == UnmarkAll(EffWb(c))
SaveAll(e, w, c0, K) == UnmarkAll(SaveDevX(e, EffWb(SaveDevC(w, c0, K)), K))
SaveKon(e, w, c0) == {k \in {"KF1", "KF2", "KF5", "KF6", "KF7", "KF9"} :
                        KFOn("X01-" \o k) /\ (SaveAll(e, w, c0, {k}) # SaveAll(e, w, c0, {}) \/ SaveDevC(w, c0, {k}) # c0)}
(* KF4: every offending selection has exactly the activeCellId the substring test gives, and that is wrong *)
KF4Explains(f) == \A t \in SelBad(f) : LET x == f.sheets[t[1]].selinfo[t[2]][t[3]] IN x.acid = x.firstsub /\ x.hits # <<>>

(* ------------------------------------------------------------- reporting *)
SheetFields == {"name", "mat", "state", "sstate", "acell", "tab", "views", "prot", "ps", "po", "pm", "hf", "hrows", "hcols",
                "af", "dvs", "cfs"}
FileFields  == SheetFields \ {"mat", "sstate", "acell"}
DiffSheets(want, got, fields) ==
  IF Len(want) # Len(got) THEN <<"sheet count", Len(want), Len(got)>>
  ELSE LET bad == {i \in DOMAIN want : want[i] # got[i]} IN
       IF bad = {} THEN <<"sheets equal">>
       ELSE LET i  == MinOf(bad)
                fs == {f \in fields : want[i][f] # got[i][f]}
                f  == CHOOSE x \in fs : TRUE
            IN <<"sheet", i, fs, f, "expected", want[i][f], "observed", got[i][f]>>
Diff(want, got, fields) ==
  IF want.active # got.active THEN <<"active tab", want.active, got.active>>
  ELSE IF want.props # got.props
       THEN LET ks == {k \in PropKeys : want.props[k] # got.props[k]}
                k == CHOOSE x \in ks : TRUE
            IN <<"properties", ks, k, "expected", want.props[k], "observed", got.props[k]>>
  ELSE IF want.custom # got.custom THEN <<"custom properties", "expected", want.custom, "observed", got.custom>>
  ELSE DiffSheets(want.sheets, got.sheets, fields)

(* ---------------------------------------------------------- the steps *)
DvKeys == {"sqref", "type", "op", "blank", "showin", "showerr", "ptitle", "prompt", "etitle", "emsg", "f1", "f2"}
(* operations that go through get_sheet_mut / read_sheet: they parse a sheet that is still raw *)
ParsingOps == {"Materialise", "SetState", "SetStateStr", "SetActiveCell", "SetTab", "ClearTab",
               "SetZoom", "SetZoomNormal", "SetGrid", "SetMode", "SetTabSel", "SetTopLeft", "SetPane", "AddSel", "SetProt",
               "SetProtPw", "ClearProt", "SetOrient", "SetPsNum", "SetPo", "SetPm", "SetHf", "SetRowHidden", "SetColHidden",
               "SetAf", "ClearAf", "AddDv", "ClearDvs", "AddCf"}
SheetOps == ParsingOps \cup {"RemoveSheet", "Rename"}
WbOps == {"AddSheet", "SetActive", "SetProp", "AddCustom"}
DvOf(e) == [k \in DvKeys |-> e[k]]
CfOf(e) == [sqref |-> e.sqref, rules |-> e.rules]
InContract(e) ==
  /\ e.a \in SheetOps \cup WbOps
  /\ (e.a \in SheetOps => e.s \in DOMAIN wb.sheets)
  /\ CASE e.a = "RemoveSheet" -> Len(wb.sheets) >= 2
       [] e.a = "AddDv"       -> DvOf(e) \notin wb.sheets[e.s].dvs
       [] e.a = "AddCf"       -> CfOf(e) \notin wb.sheets[e.s].cfs
       [] e.a = "SetProp"     -> e.k \in PropKeys
       [] e.a = "SetPsNum"    -> e.k \in PsNumKeys /\ e.v >= 0
       [] e.a = "SetPm"       -> e.k \in PmKeys
       [] e.a = "SetPo"       -> e.k \in {"hc", "vc"}
       [] e.a = "SetHf"       -> e.k \in {"h", "f"}
       [] e.a = "SetProt"     -> DOMAIN e.flags \subseteq FlagKeys
       [] e.a = "AddCustom"   -> e.kind \in {"str", "date", "num", "bool"}
       [] OTHER               -> TRUE
ExpOutcome(e) == IF e.a \in {"AddSheet", "Rename"} /\ NameUsed(wb, e.name) THEN "err" ELSE "ok"
B2I(b) == IF b THEN 1 ELSE 0
Post(w, e) ==
  CASE e.a = "AddSheet"      -> AddSheetP(w, e.name)
    [] e.a = "RemoveSheet"   -> RemoveSheetP(w, e.s)
    [] e.a = "Rename"        -> RenameP(w, e.s, e.name)
    [] e.a = "SetActive"     -> SetActiveP(w, e.i)
    [] e.a = "Materialise"   -> MaterialiseP(w, e.s)
    [] e.a = "SetState"      -> SetStateP(w, e.s, e.v)
    [] e.a = "SetStateStr"   -> SetStateStrP(w, e.s, e.v)
    [] e.a = "SetActiveCell" -> SetActiveCellP(w, e.s, e.v)
    [] e.a = "SetTab"        -> SetTabP(w, e.s, e.v)
    [] e.a = "ClearTab"      -> ClearTabP(w, e.s)
    [] e.a = "SetZoom"       -> SetViewP(w, e.s, "zoom", e.v)
    [] e.a = "SetZoomNormal" -> SetViewP(w, e.s, "zoomn", e.v)
    [] e.a = "SetGrid"       -> SetViewP(w, e.s, "grid", B2I(e.v))
    [] e.a = "SetMode"       -> SetViewP(w, e.s, "mode", e.v)
    [] e.a = "SetTabSel"     -> SetViewP(w, e.s, "tabsel", e.v)
    [] e.a = "SetTopLeft"    -> SetViewP(w, e.s, "tl", e.v)
    [] e.a = "SetPane"       -> SetPaneP(w, e.s, [xs |-> e.xs, ys |-> e.ys, tl |-> e.tl, ap |-> e.ap, st |-> e.st])
    [] e.a = "AddSel"        -> AddSelP(w, e.s, [pane |-> e.pane, cell |-> e.cell, sqref |-> e.sqref])
    [] e.a = "SetProt"       -> SetProtP(w, e.s, e.flags)
    [] e.a = "SetProtPw"     -> SetProtPwP(w, e.s, e.tok)
    [] e.a = "ClearProt"     -> ClearProtP(w, e.s)
    [] e.a = "SetOrient"     -> SetOrientP(w, e.s, e.v)
    [] e.a = "SetPsNum"      -> SetPsNumP(w, e.s, e.k, e.v)
    [] e.a = "SetPo"         -> SetPoP(w, e.s, e.k, e.v)
    [] e.a = "SetPm"         -> SetPmP(w, e.s, e.k, e.v)
    [] e.a = "SetHf"         -> SetHfP(w, e.s, e.k, e.v)
    [] e.a = "SetRowHidden"  -> SetRowHiddenP(w, e.s, e.r, e.v)
    [] e.a = "SetColHidden"  -> SetColHiddenP(w, e.s, e.c, e.v)
    [] e.a = "SetAf"         -> SetAfP(w, e.s, e.v)
    [] e.a = "ClearAf"       -> ClearAfP(w, e.s)
    [] e.a = "AddDv"         -> AddDvP(w, e.s, DvOf(e))
    [] e.a = "ClearDvs"      -> ClearDvsP(w, e.s)
    [] e.a = "AddCf"         -> AddCfP(w, e.s, CfOf(e))
    [] e.a = "SetProp"       -> SetPropP(w, e.k, e.v)
    [] e.a = "AddCustom"     -> AddCustomP(w, [name |-> e.name, kind |-> e.kind, v |-> e.v, n |-> e.n, b |-> e.b])

Brief(e) == <<e.a, IF "s" \in DOMAIN e THEN e.s ELSE 0>>
(* the observation of event e against the expected workbook `want` *)
ObsOK(e, want) == RefsOK(e.obs) /\ NoDup(Decode(e.obs)) /\ ObsWb(Decode(e.obs)) = GetWb(want)
ObsDiff(e, want) == IF ~RefsOK(e.obs) THEN <<"dangling ref in the observation">>
                    ELSE IF ~NoDup(Decode(e.obs)) THEN <<"an item is listed twice">>
                    ELSE Diff(GetWb(want), ObsWb(Decode(e.obs)), SheetFields)

(* an operation on the workbook; a parsing operation on a raw sheet parses it first *)
OpStep(e) ==
  LET raw  == e.a \in ParsingOps /\ ~wb.sheets[e.s].mat
      K    == IF raw THEN ParseKon(wb.sheets[e.s]) ELSE {}
      wI   == IF raw THEN [wb EXCEPT !.sheets[e.s] = Parse(@, {})] ELSE wb
      wD   == IF raw THEN [wb EXCEPT !.sheets[e.s] = Parse(@, K)] ELSE wb
      want == Post(wI, e)
      dev  == Post(wD, e)
  IN /\ file' = file
     /\ IF e.outcome # ExpOutcome(e) THEN wb' = want /\ Mismatch(l, <<"impl", Brief(e), "outcome", e.outcome, "expected", ExpOutcome(e)>>)
        ELSE IF ObsOK(e, want) THEN wb' = want
        ELSE /\ wb' = dev
             /\ IF K # {} /\ ObsOK(e, dev) THEN \A k \in {j \in K : Post([wb EXCEPT !.sheets[e.s] = Parse(@, K \ {j})], e) # dev} : KFHit("X01-" \o k, l)
                ELSE Mismatch(l, <<"impl", Brief(e), ObsDiff(e, dev), "deviations tried", K>>)

(* the file view against x; a sheet may also be as in y (the same expectation without KF5) *)
FileOK2(e, x, y) == /\ e.file.ok
                    /\ LET f == FileWb(e.file) IN
                       /\ f.active = x.active /\ f.props = x.props /\ f.custom = x.custom /\ Len(f.sheets) = Len(x.sheets)
                       /\ \A i \in DOMAIN f.sheets : f.sheets[i] = x.sheets[i] \/ f.sheets[i] = y.sheets[i]
                    /\ \A i \in DOMAIN e.file.sheets : Len(e.file.sheets[i].dvs) = Cardinality(ToSet(e.file.sheets[i].dvs))
                                                   /\ Len(e.file.sheets[i].cfs) = Cardinality(ToSet(e.file.sheets[i].cfs))
                                                   /\ Len(e.file.sheets[i].hrows) = Cardinality(ToSet(e.file.sheets[i].hrows))
                                                   /\ Len(e.file.sheets[i].hcols) = Cardinality(ToSet(e.file.sheets[i].hcols))
FileOK(e, x) == FileOK2(e, x, x)
FileDiff(e, x) == IF ~e.file.ok THEN <<"package not readable", e.file.err>>
                  ELSE IF FileWb(e.file) = x THEN <<"an item is listed twice in the file">>
                  ELSE Diff(x, FileWb(e.file), FileFields)
SelStep(e) == IF SelBad(e.file) = {} THEN TRUE
              ELSE IF KFOn("X01-KF4") /\ KF4Explains(e.file) THEN KFHit("X01-KF4", l)
              ELSE Mismatch(l, <<"impl", "Save", "file", "activeCellId does not designate a range containing the active cell",
                                 SelBad(e.file)>>)
(* KF1 / KF2 leave no trace in the file view: while they are open they are taken whenever their trigger holds *)
SaveStep(e) ==
  LET c0   == SaveP(wb, file)
      KI   == {k \in {"KF1", "KF2"} : KFOn("X01-" \o k) /\ SaveDevC(wb, c0, {k}) # c0}
      c1   == SaveDevC(wb, c0, KI)
      K    == SaveKon(e, wb, c0)
      c2   == SaveDevC(wb, c0, K)
      x2   == SaveAll(e, wb, c0, K)
      x3   == SaveAll(e, wb, c0, K \ {"KF5"})
      used == {k \in K : IF k = "KF5" THEN ~FileOK(e, x3) ELSE SaveAll(e, wb, c0, K \ {k}) # x2 \/ SaveDevC(wb, c0, K \ {k}) # c2}
  IN
  /\ wb' = wb
  /\ IF e.outcome # "ok" THEN file' = file /\ Mismatch(l, <<"impl", "Save", e.outcome>>)
     ELSE IF ~ObsOK(e, wb) THEN file' = <<c1>> /\ Mismatch(l, <<"impl", "Save", "workbook changed by saving", ObsDiff(e, wb)>>)
     ELSE IF FileOK(e, EffX(c1)) THEN file' = <<c1>> /\ (\A k \in KI : KFHit("X01-" \o k, l)) /\ SelStep(e)
     ELSE IF FileOK2(e, x2, x3) THEN file' = <<c2>> /\ (\A k \in used : KFHit("X01-" \o k, l)) /\ SelStep(e)
     ELSE file' = <<c2>> /\ Mismatch(l, <<"impl", "Save", "file", FileDiff(e, x2), "deviations tried", K>>)

(* loading the content c (the file saved last, or a file written by another application) *)
LoadLike(e, c) ==
  LET eager == e.mode = "eager"
      base  == LoadP(c, e.mode)
      PK    == PropsKon(e, base)
      SK    == IF eager THEN UNION {ParseKon([c.sheets[i] EXCEPT !.mat = FALSE]) : i \in DOMAIN c.sheets} ELSE {}
      K     == PK \cup SK
      Sheets(w, Q) == IF eager THEN [w EXCEPT !.sheets = [i \in DOMAIN @ |-> Parse([c.sheets[i] EXCEPT !.mat = FALSE], Q)]] ELSE w
      Want(Q) == PropsDev(e, Sheets(base, Q), Q)
      want  == Want({})
      dev   == Want(K)
      used  == {k \in K : Want(K \ {k}) # dev}
  IN IF e.outcome # "ok" THEN wb' = want /\ Mismatch(l, <<"impl", e.a, e.outcome>>)
     ELSE IF ObsOK(e, want) THEN wb' = want
     ELSE /\ wb' = dev
          /\ IF K # {} /\ ObsOK(e, dev) THEN \A k \in used : KFHit("X01-" \o k, l)
             ELSE Mismatch(l, <<"impl", e.a, e.mode, ObsDiff(e, dev), "deviations tried", K>>)
LoadStep(e) ==
  IF file = <<>> THEN UNCHANGED <<wb, file>> /\ Mismatch(l, <<"gen", "Load without a saved file">>)
  ELSE file' = file /\ LoadLike(e, file[1])
(* a file written by another application as the initial state: e.orig is pydec/meta_view.py's view of it in the shape of the
   model state (absent optional attributes reported as absent; a file without created / modified dates is shown with the
   dates of Properties::default()) *)
RawProps(p) == [p EXCEPT !.created = IF @ = "" THEN DefaultProps.created ELSE @, !.modified = IF @ = "" THEN DefaultProps.modified ELSE @]
RawSheet(x) == MapViews([x EXCEPT !.hrows = ToSet(@), !.hcols = ToSet(@), !.dvs = ToSet(@), !.cfs = ToSet(@)], Mark)
FromRaw(o) == [sheets |-> [i \in DOMAIN o.sheets |-> RawSheet(o.sheets[i])], active |-> o.active, props |-> RawProps(o.props),
               custom |-> o.custom]
OpenStep(e) ==
  IF ~e.orig.ok THEN UNCHANGED <<wb, file>> /\ Mismatch(l, <<"gen", "OpenFile", "the independent reader cannot read the file", e.orig.err>>)
  ELSE file' = <<FromRaw(e.orig)>> /\ LoadLike(e, FromRaw(e.orig))

Ev == Rec[l]
Step(e) ==
  IF e.a = "Fatal" THEN UNCHANGED <<wb, file, seen>> /\ Mismatch(l, <<"impl", "fatal", e.outcome>>)
  ELSE
  /\ seen' = IF RefsOK(e.obs) THEN [sheets |-> Decode(e.obs).sheets, props |-> Decode(e.obs).props, hasp |-> TRUE] ELSE seen
  /\ IF e.a = "Init"
     THEN /\ wb' = InitWb(e.sheets, e.base) /\ file' = <<>>
          /\ IF e.outcome = "ok" /\ ObsOK(e, InitWb(e.sheets, e.base)) THEN TRUE
             ELSE Mismatch(l, <<"gen", "Init", e.outcome, ObsDiff(e, InitWb(e.sheets, e.base))>>)
     ELSE IF e.a = "OpenFile" THEN OpenStep(e)
     ELSE IF e.a = "Save" THEN SaveStep(e)
     ELSE IF e.a = "Load" THEN LoadStep(e)
     ELSE IF ~InContract(e) THEN UNCHANGED <<wb, file>> /\ Mismatch(l, <<"gen", Brief(e), "out of contract">>)
     ELSE OpStep(e)

TraceInit == l = 1 /\ wb = EmptyWb /\ file = <<>> /\ last = [op |-> "init"] /\ seen = [sheets |-> <<>>, props |-> DefaultProps, hasp |-> FALSE]
TraceNext == l <= Len(Rec) /\ l' = l + 1 /\ Step(Ev) /\ UNCHANGED last
TraceSpec == TraceInit /\ [][TraceNext]_tvars
=============================================================================
