CONSTANTS
  Passwords = {}
  Sizes = {}
  MaxSaves = 0
  DoTamper = FALSE
  DoEmit = FALSE
SPECIFICATION TraceSpec
POSTCONDITION Consumed
CHECK_DEADLOCK FALSE
