---- MODULE MC_SST ----
EXTENDS SST, Json
CONSTANTS Depth, EmitReplay
VARIABLES steps, hist
mcvars == <<books, tables, files, last, steps, hist>>
Rec(op, w, extra) == [a |-> op, w |-> w] @@ extra
MCInit == Init /\ steps = 0 /\ hist = <<[a |-> "Init"]>>
L(r) == hist' = Append(hist, r) /\ steps' = steps + 1
MCNext == /\ steps < Depth
          /\ \E w \in DOMAIN books :
              \/ \E c \in Cells, s \in Strs : SetText(w, c, s) /\ L([a |-> "SetText", w |-> w, sh |-> c[1], r |-> c[2], s |-> s])
              \/ \E c \in Cells : Delete(w, c) /\ L([a |-> "Delete", w |-> w, sh |-> c[1], r |-> c[2]])
              \/ \E r \in {1, 2} : RemoveRow(w, r) /\ L([a |-> "RemoveRow", w |-> w, r |-> r])
              \/ RemoveSheet(w) /\ L([a |-> "RemoveSheet", w |-> w])
              \/ Clone(w) /\ L([a |-> "Clone", w |-> w])
              \/ Save(w) /\ L([a |-> "Save", w |-> w])
              \/ \E lz \in BOOLEAN : Reload(w, lz) /\ L([a |-> "Reload", w |-> w, lazy |-> lz])
              \/ \E sh \in {1, 2} : ReadSheet(w, sh) /\ L([a |-> "ReadSheet", w |-> w, sh |-> sh])
MCSpec == MCInit /\ [][MCNext]_mcvars
View == <<books, tables, files, last, steps>>
SaveIsPureMC == [][last'.op = "save" => /\ books' = books
                                         /\ (last.op = "save" /\ last.w = last'.w => files'[last'.w] = files[last'.w])]_mcvars
(* a behaviour is worth replaying when it ends with a save *)
Emit == (EmitReplay /\ steps = Depth /\ last.op = "save") => PrintT(<<"REPLAY", ToJson(hist)>>)
====
