--------------------------- MODULE Trace_CellVal ---------------------------
(***************************************************************************)
(* Trace validation for X02.  harness/src/bin/cellval.rs executes one step *)
(* per event on a real worksheet and logs, for both positions, every       *)
(* getter in scope at three levels:                                        *)
(*   obs[p].w  Worksheet::get_value / get_value_number / get_formatted_..  *)
(*   obs[p].v  Worksheet::get_cell_value(p) -> CellValue getters           *)
(*   obs[p].c  Worksheet::get_cell(p) -> Cell getters (present or not)     *)
(* and obs[3] = the number of cells in the store.  The specification keeps *)
(* its own sheet (CellVal.tla): the expected sheet after the step is       *)
(* computed with the Post operators and EVERY getter of EVERY position is  *)
(* compared with the projection of the expected cell (P1), the logged      *)
(* projection must satisfy ConsistentProj and NumOk itself (P2), the value *)
(* returned by get_value_lazy / remove_cell is compared as well.           *)
(*                                                                         *)
(* Deviations (open findings, /verif/ext_findings.json) are parameters of  *)
(* the expectation: Expected(e, on) is computed with the set `on` of       *)
(* enabled finding ids; an event that is accepted although                 *)
(* Expected(e, on) differs from Expected(e, {}) prints one KF line for     *)
(* every finding whose removal from `on` changes the expectation.          *)
(*   X02-KF1  the type guess compares TRUE / FALSE / the error values      *)
(*            without regard to ASCII case ("true" -> boolean)             *)
(*   X02-KF2  ... after Unicode upper-casing: U+017F and U+0131 count as   *)
(*            S and I ("fal<U+017F>e" -> boolean FALSE)                    *)
(*   X02-KF3  a literal that is not a finite double is stored as a number  *)
(*            (inf, Infinity, nan, 1e999 -> get_value_number = inf / NaN)  *)
(*   X02-KF4  get_value_lazy removes the formula of a cell that holds no   *)
(*            lazy value                                                   *)
(*   X02-KF5  the error values are those of the doc comment, not those of  *)
(*            ECMA-376: "#DATA!" is one, "#GETTING_DATA" is not            *)
(*   X02-KF6  an unresolved lazy value is written as an empty <v/>: the    *)
(*            cell reloads blank                                           *)
(* After a mismatch the specification continues with ITS expected sheet    *)
(* (every value setter overwrites the value, so a divergence does not      *)
(* spread); only the first mismatch of a case is reported by the check.    *)
(***************************************************************************)
EXTENDS CellVal, TraceBase

VARIABLE l
tvars == <<cells, last, l>>
Ev == Rec[l]

TrOrc(cs) == NoDec             \* (the oracle of a text comes with the event)

AllKF == {"X02-KF1", "X02-KF2", "X02-KF3", "X02-KF4", "X02-KF5", "X02-KF6"}
OnSet == {k \in AllKF : KFOn(k)}

(* ---- the deviant classification ------------------------------------------------------------ *)
Special == JsonDeserialize("Trace_CellVal_chars.json")       \* the two non-ASCII characters, as \uXXXX
AsciiUp(c) ==
  CASE c = "a" -> "A" [] c = "b" -> "B" [] c = "c" -> "C" [] c = "d" -> "D" [] c = "e" -> "E" [] c = "f" -> "F"
    [] c = "g" -> "G" [] c = "h" -> "H" [] c = "i" -> "I" [] c = "j" -> "J" [] c = "k" -> "K" [] c = "l" -> "L"
    [] c = "m" -> "M" [] c = "n" -> "N" [] c = "o" -> "O" [] c = "p" -> "P" [] c = "q" -> "Q" [] c = "r" -> "R"
    [] c = "s" -> "S" [] c = "t" -> "T" [] c = "u" -> "U" [] c = "v" -> "V" [] c = "w" -> "W" [] c = "x" -> "X"
    [] c = "y" -> "Y" [] c = "z" -> "Z" [] OTHER -> c
UniUp(c) == IF c = Special.longs THEN "S" ELSE IF c = Special.dotlessi THEN "I" ELSE c
Fold(cs, on) == [i \in DOMAIN cs |->
                   LET a == IF "X02-KF2" \in on THEN UniUp(cs[i]) ELSE cs[i]
                   IN  IF "X02-KF1" \in on THEN AsciiUp(a) ELSE a]
GettingData == <<"#", "G", "E", "T", "T", "I", "N", "G", "_", "D", "A", "T", "A">>
DataBang    == <<"#", "D", "A", "T", "A", "!">>
CodeErrors  == (EcmaErrors \ {GettingData}) \cup {DataBang}
UpAll(cs)   == [i \in DOMAIN cs |-> AsciiUp(cs[i])]
(* what std parses besides decimal literals: [+-] inf | infinity | nan, any case; and literals beyond f64::MAX *)
NonFinite(cs) ==
  LET w == UpAll(Body(cs)) IN
  IF w \in {<<"I", "N", "F">>, <<"I", "N", "F", "I", "N", "I", "T", "Y">>} THEN Dec("inf", IsNeg(cs), <<>>, 0)
  ELSE IF w = <<"N", "A", "N">> THEN Dec("nan", IsNeg(cs), <<>>, 0)
  ELSE IF IsDecimal(cs) /\ SureOver(DecOf(cs)) THEN Dec("inf", IsNeg(cs), <<>>, 0)
  ELSE NoDec
DevGuess(cs, orc, on) ==
  Classify(cs, orc, Fold(cs, on), IF "X02-KF5" \in on THEN CodeErrors ELSE EcmaErrors,
           IF "X02-KF3" \in on THEN NonFinite(cs) ELSE NoDec)

(* ---- reading an event ------------------------------------------------------------------------ *)
N(n) == [Dec(n.cls, n.neg, n.digs, n.e) EXCEPT !.bits = n.bits]
TextOk(e) == Str(e.tc) = e.t
GuessTextOk(e) == TextOk(e) /\ (IsDecimal(e.tc) => GenOkNumber(e.tc, N(e.n)))
InPos(p) == p \in Pos

InContract(e) ==
  CASE e.a = "Init" -> TRUE
    [] e.a \in {"Touch", "SetBlank", "RemoveFormula", "GetLazy", "Remove"} -> InPos(e.p)
    [] e.a \in {"SetValue", "SetResult", "SetLazy"} -> InPos(e.p) /\ GuessTextOk(e)
    [] e.a \in {"SetString", "SetFormula"} -> InPos(e.p) /\ TextOk(e)
    [] e.a = "SetNumber" -> InPos(e.p) /\ DecOk(N(e.n))
    [] e.a = "SetBool" -> InPos(e.p)
    [] e.a = "SetRich" -> InPos(e.p) /\ e.runs # <<>>
    [] e.a = "SetError" -> InPos(e.p) /\ TextOk(e) /\ e.tc \in EcmaErrors
    [] e.a = "CopyValue" -> InPos(e.p) /\ InPos(e.q)
    [] e.a = "CopyCell" -> InPos(e.p) /\ InPos(e.q)
    [] e.a = "SaveLoad" -> CanSave(cells) /\ e.w \in {"std", "light"}
    [] OTHER -> FALSE

(* ---- the expected sheet, with the deviations `on` ----------------------------------------------- *)
NoFormula(c) == [c EXCEPT !.f = FALSE, !.ft = <<>>]
ReloadedDev(c, on) ==
  IF "X02-KF6" \in on /\ c.here /\ c.v.k = "lazy"
  THEN Cell(TRUE, BlankV, FALSE, <<>>)                                   \* <c><v></v></c>: a blank cell comes back
  ELSE Reloaded(c, LAMBDA cs, o : DevGuess(cs, o, on))
Expected(e, on) ==
  CASE e.a = "Init"          -> [p \in Pos |-> Absent]
    [] e.a = "Touch"         -> PostTouch(cells, e.p)
    [] e.a = "SetValue"      -> PostSetValue(cells, e.p, DevGuess(e.tc, N(e.n), on))
    [] e.a = "SetString"     -> PostSetString(cells, e.p, e.tc)
    [] e.a = "SetNumber"     -> PostSetNumber(cells, e.p, N(e.n))
    [] e.a = "SetBool"       -> PostSetBool(cells, e.p, e.b)
    [] e.a = "SetRich"       -> PostSetRich(cells, e.p, e.runs)
    [] e.a = "SetBlank"      -> PostSetBlank(cells, e.p)
    [] e.a = "SetFormula"    -> PostSetFormula(cells, e.p, e.tc)
    [] e.a = "RemoveFormula" -> PostRemoveFormula(cells, e.p)
    [] e.a = "SetResult"     -> PostSetResult(cells, e.p, DevGuess(e.tc, N(e.n), on))
    [] e.a = "SetError"      -> IF "X02-KF5" \in on /\ e.tc = GettingData
                                THEN PostSetResult(cells, e.p, StrV(e.tc))       \* set_error guesses as well
                                ELSE PostSetError(cells, e.p, e.tc)
    [] e.a = "SetLazy"       -> PostSetLazy(cells, e.p, e.tc, N(e.n))
    [] e.a = "GetLazy"       -> LET s == PostGetLazy(cells, e.p, LAMBDA cs, o : DevGuess(cs, o, on))
                                IN  IF "X02-KF4" \in on THEN At(s, e.p, NoFormula(s[e.p])) ELSE s
    [] e.a = "Remove"        -> PostRemove(cells, e.p)
    [] e.a = "CopyValue"     -> PostCopyValue(cells, e.p, e.q)
    [] e.a = "CopyCell"      -> PostCopyCell(cells, e.p, e.q)
    [] e.a = "SaveLoad"      -> [p \in Pos |-> ReloadedDev(cells[p], on)]
(* The text of a number: ANY decimal literal that parses back to the very same double is accepted (how many digits,
   exponent or not is the library's business; the model's NumChars is one such spelling).  The other levels must
   return the same text as CellValue::get_value. *)
FinNum(c) == c.v.k = "num" /\ c.v.n.cls = "fin"
NumTextOk(o) == o.hasnum /\ Str(o.valc) = o.val /\ IsDecimal(o.valc) /\ o.reread /\ o.rawstr = o.val
XVal(c, ov) == IF FinNum(c) THEN ov.val ELSE Proj(c).val

(* the values the calls return *)
ExpRet(e, want)  == IF e.a = "GetLazy" THEN XVal(want[e.p], e.obs[e.p].v)
                    ELSE IF e.a = "CopyCell" /\ ~CanCopyCell(cells, e.p) THEN "nocell"      \* (the driver found no source)
                    ELSE ""
ExpRetB(e)       == IF e.a = "Remove" THEN cells[e.p].here ELSE FALSE
(* after a reload a cell without value and formula may be there or not: its presence is taken from the log *)
Adopt(want, e) ==
  IF e.a # "SaveLoad" THEN want
  ELSE [p \in Pos |-> IF ~want[p].here \/ Blankish(want[p])
                      THEN (IF e.obs[p].c.present THEN Fresh ELSE Absent) ELSE want[p]]

(* ---- the judgement: every getter of position p against the expected cell c ---------------------- *)
(* a number that carries its bit pattern is compared by it, a decimal derived from a short text by its digits *)
NumEq(o, d) == /\ o.cls = d.cls
               /\ d.cls = "fin" => IF d.bits # "" THEN o.bits = d.bits
                                   ELSE (o.neg = d.neg /\ o.digs = Str(d.digs) /\ o.e = d.e)
               /\ d.cls = "inf" => o.neg = d.neg
RawText(v) == IF v.k \in {"str", "bool", "err", "lazy"} THEN Str(v.t) ELSE ""
Finite(c)  == c.v.k # "num" \/ c.v.n.cls = "fin"

(* CellValue level (Worksheet::get_cell_value: the shared default value for a cell that is not there) *)
ChecksV(o, c) ==
  LET x == Proj(c) IN
  IF c.v.k = "lazy"
  THEN << <<"raw value (lazy text)", o.rk = "lazy" /\ o.rt = Str(c.v.t)>>,
          <<"is_formula", o.isf = c.f /\ o.hasfobj = c.f>>, <<"get_formula", o.ft = x.ft>>,
          <<"get_rich_text", ~o.hasrich>>, <<"consistency of the getters (P2)", ConsistentProj(o)>> >>
  ELSE << <<"get_data_type", o.dt = x.dt /\ o.rawdt = x.dt>>,
          <<"get_value", IF FinNum(c) THEN NumTextOk(o) ELSE o.val = x.val /\ o.rawstr = x.val>>,
          <<"get_value_number", o.hasnum = x.hasnum /\ NumEq(o.num, x.num)>>,
          <<"is_error", o.iserr = x.iserr /\ o.rawiserr = x.iserr>>,
          <<"is_formula", o.isf = c.f /\ o.hasfobj = c.f>>, <<"get_formula", o.ft = x.ft>>,
          <<"is_empty", o.empty = x.empty /\ o.rawempty = (c.v.k = "blank")>>,
          <<"get_raw_value", o.rk = c.v.k /\ o.rt = RawText(c.v)>>,
          <<"get_rich_text", o.hasrich = x.hasrich /\ o.runs = x.runs>>,
          <<"consistency of the getters (P2)", ConsistentProj(o)>>,
          <<"number is finite and its text re-reads to it (P2/P4)", ~Finite(c) \/ NumOk(o)>> >>
(* Cell level *)
ChecksC(o, ov, c, p) ==
  LET x == Proj(c) IN
  IF ~c.here THEN << <<"get_cell (no such cell)", ~o.present>> >>
  ELSE IF c.v.k = "lazy"
  THEN << <<"get_cell", o.present /\ o.col = p /\ o.row = 1>>,
          <<"Cell raw value (lazy text)", o.rk = "lazy" /\ o.rt = Str(c.v.t)>>,
          <<"Cell::is_formula / get_formula", o.isf = c.f /\ o.hasfobj = c.f /\ o.ft = x.ft>> >>
  ELSE << <<"get_cell", o.present /\ o.col = p /\ o.row = 1>>,
          <<"Cell::get_data_type", o.dt = x.dt>>, <<"Cell::get_value", o.val = XVal(c, ov)>>,
          <<"Cell::get_value_number", o.hasnum = x.hasnum /\ NumEq(o.num, x.num)>>,
          <<"Cell::is_formula / get_formula", o.isf = c.f /\ o.hasfobj = c.f /\ o.ft = x.ft>>,
          <<"Cell::get_raw_value", o.rk = c.v.k /\ o.rt = RawText(c.v)>>,
          <<"Cell rich text", o.hasrich = x.hasrich /\ o.runs = x.runs>>,
          <<"Cell::get_formatted_value (General)", o.fmt = XVal(c, ov)>> >>
(* Worksheet shortcuts *)
ChecksW(o, ov, c) ==
  LET x == Proj(c) IN
  IF c.v.k = "lazy" THEN << <<"Worksheet::get_value agrees with CellValue::get_value", o.val = ov.val /\ o.sval = ov.val>> >>
  ELSE << <<"Worksheet::get_value", o.val = XVal(c, ov) /\ o.sval = XVal(c, ov)>>,
          <<"Worksheet::get_value_number", o.hasnum = x.hasnum /\ NumEq(o.num, x.num)>>,
          <<"Worksheet::get_formatted_value (General)", o.fmt = XVal(c, ov)>> >>

FailedOf(chk) == LET b == SelectSeq(chk, LAMBDA y : ~y[2]) IN [i \in DOMAIN b |-> b[i][1]]
FailedAt(e, want, p) ==
  FailedOf(ChecksV(e.obs[p].v, want[p])) \o FailedOf(ChecksC(e.obs[p].c, e.obs[p].v, want[p], p))
  \o FailedOf(ChecksW(e.obs[p].w, e.obs[p].v, want[p]))
FailedGlobal(e, want) ==
  FailedOf(<< <<"number of cells in the store", e.obs[3] = Cardinality({p \in Pos : want[p].here})>>,
              <<"returned value", e.ret = ExpRet(e, want) /\ e.retb = ExpRetB(e)>> >>)
Brief(o) == [dt |-> o.v.dt, val |-> o.v.val, rk |-> o.v.rk, rt |-> o.v.rt, num |-> [cls |-> o.v.num.cls, neg |-> o.v.num.neg, digs |-> o.v.num.digs, e |-> o.v.num.e],
             isf |-> o.v.isf, ft |-> o.v.ft, present |-> o.c.present]
WantBrief(c) == LET x == Proj(c) IN [dt |-> x.dt, val |-> x.val, rk |-> c.v.k, isf |-> c.f, ft |-> x.ft, here |-> c.here]

Sig(e, on) == LET w == Expected(e, on) IN <<w, ExpRet(e, w)>>
Needed(e) == {k \in OnSet : Sig(e, OnSet \ {k}) # Sig(e, OnSet)}

Step(e) ==
  IF e.a = "Fatal" THEN UNCHANGED cells /\ Mismatch(l, <<"impl", "fatal", e.outcome>>)
  ELSE IF ~InContract(e) THEN UNCHANGED cells /\ Mismatch(l, <<"gen", e.a>>)
  ELSE IF e.outcome # "ok" THEN cells' = Expected(e, OnSet) /\ Mismatch(l, <<"impl", e.a, e.outcome, e.msg>>)
  ELSE LET want == Adopt(Expected(e, OnSet), e)
           bad  == [p \in Pos |-> FailedAt(e, want, p)]
           glob == FailedGlobal(e, want)
           badp == {p \in Pos : bad[p] # <<>>}
       IN  /\ cells' = want
           /\ IF badp = {} /\ glob = <<>>
              THEN \A k \in Needed(e) : KFHit(k, l)
              ELSE LET p == IF badp = {} THEN MinOf(Pos) ELSE MinOf(badp)
                   IN  Mismatch(l, <<"impl", e.a, "position", p, bad[p], glob,
                                     "observed", Brief(e.obs[p]), "expected", WantBrief(want[p])>>)

TraceInit == l = 1 /\ cells = [p \in Pos |-> Absent] /\ last = Op("Init", 0, 0)
TraceNext == l <= Len(Rec) /\ l' = l + 1 /\ Step(Ev) /\ UNCHANGED last
TraceSpec == TraceInit /\ [][TraceNext]_tvars
=============================================================================
