CONSTANTS
  Passwords = {"p1", "p2"}
  Sizes = {1048575, 1048576, 1048577, 1052673}
  MaxSaves = 1
  DoTamper = TRUE
  DoEmit = FALSE
SPECIFICATION Spec
INVARIANTS TypeOK Correct LenDeclared WrongPwFails HmacCoversStream Layout SegmentKeysDistinct Fresh
CHECK_DEADLOCK FALSE
