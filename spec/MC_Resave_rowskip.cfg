CONSTANTS MaxGen = 2 DropStyledBlank = FALSE ColFold = "adjacent" RowSkip = "default" Family = "small" EmitReplay = FALSE
SPECIFICATION MCSpec
VIEW View
INVARIANTS FixedPoint FileFixedPoint OrigSim OrigSimExists EditLocal SaveTwiceSame NormIdempotent
CHECK_DEADLOCK FALSE
