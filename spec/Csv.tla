------------------------------- MODULE Csv -------------------------------
(***************************************************************************)
(* CSV export (C20): the CSV written for a workbook is a faithful          *)
(* rectangular rendering of the active sheet.                              *)
(*                                                                         *)
(* Characters are Unicode code points (naturals), texts are sequences of   *)
(* code points.  A sheet is a function from positions <<row, col>> to the  *)
(* cell's value text.  The module contains                                 *)
(*   - the grid a CSV export must denote (Grid, Field, Trim),              *)
(*   - an RFC-4180 reader as a character-level state machine (PInit,       *)
(*     PStep, PEnd) and as a fold over a whole text (ParseAll),            *)
(*   - the state machine: build a workbook (SetCell, RemoveCell, SetActive), start an  *)
(*     export (Begin), the writer of the intended design emitting one      *)
(*     character per step into the reader (EmitOpen .. EmitNewline), the   *)
(*     end of the text (Finish), the encoding step (Encode, bytes as a     *)
(*     symbolic term), and a free-input mode in which the reader is fed    *)
(*     arbitrary characters (BeginFree, Feed, FinishFree).                 *)
(* The property is the invariant ParsedEqualsGrid (+ Rectangular,          *)
(* InStep for every intermediate state, WellFormed, FoldAgrees,            *)
(* NoQuoteClean).  The same operators judge the real library in            *)
(* Trace_Csv.tla.                                                          *)
(***************************************************************************)
EXTENDS Naturals, Sequences, FiniteSets, TLC, Json

CONSTANTS NSheets,       \* number of sheets of the model workbook
          MaxR, MaxC,    \* window in which the model places cells
          Values,        \* value texts the model may place (non-empty sequences of code points)
          MaxCells,      \* at most this many cells in the whole workbook
          Overwrite,     \* TRUE = the model also sets a cell that already has a value
          FreeAlphabet,  \* characters fed in free-input mode ({} switches the mode off)
          FreeLen,       \* length bound of free input
          Escape,        \* TRUE = intended design (the wrap character is doubled inside a field)
          Record         \* TRUE = keep the history and print one REPLAY line per export

COMMA == 44
CR    == 13
LF    == 10
DQ    == 34
SQ    == 39
NoWrap == 0                         \* option "no wrap character"
WrapChars == {NoWrap, DQ, SQ}
Encodings == {"utf_8", "shift_jis", "koi_8_u", "koi_8_r", "iso_8859_8_i", "gbk", "euc_kr", "big_5",
              "utf_16_le", "utf_16_be"}
(* Unicode White_Space: what "trimmed" removes from both ends of a value text *)
WhiteSpace == {9, 10, 11, 12, 13, 32, 133, 160, 5760, 8232, 8233, 8239, 8287, 12288} \cup (8192..8202)

MaxOf(S) == CHOOSE x \in S : \A y \in S : y <= x
MinOf0(S) == CHOOSE x \in S : \A y \in S : x <= y

---------------------------------------------------------------------------
(* The grid an export denotes *)
EmptySheet == << >>                 \* the function with empty domain
Post_SetCell(sh, r, c, t) ==
  [p \in (DOMAIN sh) \cup {<<r, c>>} |-> IF p = <<r, c>> THEN t ELSE sh[p]]

Post_RemoveCell(sh, r, c) == [p \in (DOMAIN sh) \ {<<r, c>>} |-> sh[p]]

Used(sh)       == {p \in DOMAIN sh : sh[p] # << >>}
MaxUsedRow(sh) == IF Used(sh) = {} THEN 0 ELSE MaxOf({p[1] : p \in Used(sh)})
MaxUsedCol(sh) == IF Used(sh) = {} THEN 0 ELSE MaxOf({p[2] : p \in Used(sh)})

Trim(t) == LET keep == {i \in DOMAIN t : t[i] \notin WhiteSpace}
           IN  IF keep = {} THEN << >> ELSE SubSeq(t, MinOf0(keep), MaxOf(keep))
Field(t, o) == IF o.trim THEN Trim(t) ELSE t
ValueAt(sh, r, c) == IF <<r, c>> \in DOMAIN sh THEN sh[<<r, c>>] ELSE << >>

Grid(sh, o) == [r \in 1..MaxUsedRow(sh) |-> [c \in 1..MaxUsedCol(sh) |-> Field(ValueAt(sh, r, c), o)]]

(* No text can carry a field containing the delimiter or a line break when the reader has no  *)
(* quote character (see NoQuoteClean): such grids have no rendering at all under NoWrap.      *)
Breaks(f)        == \E i \in DOMAIN f : f[i] \in {COMMA, CR, LF}
Contains(f, ch)  == \E i \in DOMAIN f : f[i] = ch
Renderable(g, q) == q # NoWrap \/ \A r \in DOMAIN g : \A c \in DOMAIN g[r] : ~Breaks(g[r][c])

---------------------------------------------------------------------------
(* RFC-4180 reader with delimiter COMMA and quote character q (NoWrap: quoting disabled).       *)
(* Records end at CRLF, CR or LF outside quotes; an empty line is a record with one empty      *)
(* field (RFC 4180 grammar); a final line break does not start another record.  Lenient like   *)
(* common readers: a quote in an unquoted field is literal, text after a closing quote is      *)
(* appended, an unterminated quoted field ends at the end of the text; wf records whether the  *)
(* strict grammar was followed.                                                                *)
PInit == [mode |-> "sof", cr |-> FALSE, field |-> << >>, rec |-> << >>, recs |-> << >>, wf |-> TRUE]

PushField(st)    == [st EXCEPT !.rec = Append(st.rec, st.field), !.field = << >>, !.mode = "sof"]
EndRecord(st, c) == LET s1 == PushField(st)
                    IN  [s1 EXCEPT !.recs = Append(s1.recs, s1.rec), !.rec = << >>, !.cr = c]

PStep(st0, ch, q) ==
  IF st0.cr /\ ch = LF THEN [st0 EXCEPT !.cr = FALSE]          \* LF of a CRLF
  ELSE
    LET st == [st0 EXCEPT !.cr = FALSE] IN
    CASE st.mode = "sof" ->
           IF q # NoWrap /\ ch = q THEN [st EXCEPT !.mode = "quo"]
           ELSE IF ch = COMMA THEN PushField(st)
           ELSE IF ch = CR \/ ch = LF THEN EndRecord(st, ch = CR)
           ELSE [st EXCEPT !.mode = "unq", !.field = <<ch>>]
      [] st.mode = "unq" ->
           IF ch = COMMA THEN PushField(st)
           ELSE IF ch = CR \/ ch = LF THEN EndRecord(st, ch = CR)
           ELSE [st EXCEPT !.field = Append(@, ch), !.wf = @ /\ (q = NoWrap \/ ch # q)]
      [] st.mode = "quo" ->
           IF ch = q THEN [st EXCEPT !.mode = "qq"]
           ELSE [st EXCEPT !.field = Append(@, ch)]
      [] st.mode = "qq" ->
           IF ch = q THEN [st EXCEPT !.mode = "quo", !.field = Append(@, ch)]
           ELSE IF ch = COMMA THEN PushField(st)
           ELSE IF ch = CR \/ ch = LF THEN EndRecord(st, ch = CR)
           ELSE [st EXCEPT !.mode = "unq", !.field = Append(@, ch), !.wf = FALSE]

PEnd(st) == IF st.mode = "sof" /\ st.rec = << >> THEN st
            ELSE LET s1 == EndRecord(st, FALSE) IN [s1 EXCEPT !.wf = @ /\ st.mode # "quo"]

RECURSIVE PRun(_, _, _, _)
PRun(text, i, st, q) == IF i > Len(text) THEN PEnd(st) ELSE PRun(text, i + 1, PStep(st, text[i], q), q)
ParseAll(text, q) == PRun(text, 1, PInit, q)          \* .recs = the grid read, .wf = strictly well-formed

---------------------------------------------------------------------------
(* Bytes are symbolic terms: text encoded with a named encoding.  Decoding with the same name   *)
(* gives the text back (texts are restricted to what the encoding can represent), decoding with *)
(* another name does not.                                                                       *)
Enc(e, text) == [enc |-> e, text |-> text]
Dec(e, b)    == IF b.enc = e THEN [ok |-> TRUE, text |-> b.text] ELSE [ok |-> FALSE, text |-> << >>]

---------------------------------------------------------------------------
VARIABLES book,      \* sequence of sheets
          active,    \* index of the active sheet
          pc,        \* "build" | "write" | "eot" | "done" | "free" | "freedone"
          opt,       \* [trim, wrap] of the running export
          w,         \* writer position [r, c, k, ph]; ph = "open" | "body" | "sep" | "eof"
          out,       \* text emitted so far
          ps,        \* reader state after consuming out
          enc,       \* selected encoding ("" until Encode)
          bytes,     \* encoded output
          hist       \* history (kept only when Record)
vars == <<book, active, pc, opt, w, out, ps, enc, bytes, hist>>

Sheet == book[active]
G     == Grid(Sheet, opt)
Q     == opt.wrap
F     == G[w.r][w.c]                 \* field being written

NoOpt    == [trim |-> FALSE, wrap |-> NoWrap]
NoW      == [r |-> 0, c |-> 0, k |-> 0, ph |-> "eof"]
NoBytes  == Enc("", << >>)
Log(e)   == IF Record THEN Append(hist, e) ELSE hist
CellCount == LET RECURSIVE Sum(_)
                 Sum(i) == IF i = 0 THEN 0 ELSE Cardinality(DOMAIN book[i]) + Sum(i - 1)
             IN  Sum(Len(book))

Init == /\ book = [s \in 1..NSheets |-> EmptySheet]
        /\ active = 1
        /\ pc = "build" /\ opt = NoOpt /\ w = NoW /\ out = << >> /\ ps = PInit
        /\ enc = "" /\ bytes = NoBytes /\ hist = << >>

(* ---- building the workbook ---- *)
Post_BookSetCell(b, s, r, c, t) == [b EXCEPT ![s] = Post_SetCell(b[s], r, c, t)]

SetCell(s, r, c, t) ==
  /\ pc = "build"
  /\ IF <<r, c>> \in DOMAIN book[s] THEN Overwrite ELSE CellCount < MaxCells
  /\ book' = Post_BookSetCell(book, s, r, c, t)
  /\ hist' = Log([a |-> "SetCell", s |-> s, r |-> r, c |-> c, v |-> t])
  /\ UNCHANGED <<active, pc, opt, w, out, ps, enc, bytes>>

(* removing a cell: the grid shrinks to what is still used (a missing cell: nothing happens) *)
Post_BookRemoveCell(b, s, r, c) == [b EXCEPT ![s] = Post_RemoveCell(b[s], r, c)]

RemoveCell(s, r, c) ==
  /\ pc = "build"
  /\ <<r, c>> \in DOMAIN book[s]
  /\ book' = Post_BookRemoveCell(book, s, r, c)
  /\ hist' = Log([a |-> "RemoveCell", s |-> s, r |-> r, c |-> c])
  /\ UNCHANGED <<active, pc, opt, w, out, ps, enc, bytes>>

SetActive(s) ==
  /\ pc = "build" /\ s # active
  /\ active' = s
  /\ hist' = Log([a |-> "SetActive", s |-> s])
  /\ UNCHANGED <<book, pc, opt, w, out, ps, enc, bytes>>

(* ---- the export: writer of the intended design, feeding the reader ---- *)
StartField(r, c, q) == [r |-> r, c |-> c, k |-> 1, ph |-> IF q = NoWrap THEN "body" ELSE "open"]

Begin(o) ==
  /\ pc = "build"
  /\ Escape => Renderable(Grid(Sheet, o), o.wrap)
  /\ pc' = "write" /\ opt' = o
  /\ w' = IF MaxUsedRow(Sheet) = 0 THEN NoW ELSE StartField(1, 1, o.wrap)
  /\ out' = << >> /\ ps' = PInit
  /\ hist' = Log([a |-> "Export", trim |-> o.trim, wrap |-> o.wrap])
  /\ IF Record THEN PrintT(<<"REPLAY", ToJson(hist')>>) ELSE TRUE
  /\ UNCHANGED <<book, active, enc, bytes>>

Emit(chars) ==          \* append to the text and run the reader over it
  /\ out' = out \o chars
  /\ ps' = IF Len(chars) = 1 THEN PStep(ps, chars[1], Q) ELSE PStep(PStep(ps, chars[1], Q), chars[2], Q)
  /\ UNCHANGED <<book, active, pc, opt, enc, bytes, hist>>

EmitOpen ==
  /\ pc = "write" /\ w.ph = "open"
  /\ Emit(<<Q>>) /\ w' = [w EXCEPT !.ph = "body"]

EmitChar ==
  /\ pc = "write" /\ w.ph = "body" /\ w.k <= Len(F)
  /\ ~(Escape /\ Q # NoWrap /\ F[w.k] = Q)
  /\ Emit(<<F[w.k]>>) /\ w' = [w EXCEPT !.k = @ + 1]

EmitDoubled ==
  /\ pc = "write" /\ w.ph = "body" /\ w.k <= Len(F)
  /\ Escape /\ Q # NoWrap /\ F[w.k] = Q
  /\ Emit(<<Q, Q>>) /\ w' = [w EXCEPT !.k = @ + 1]

EmitClose ==
  /\ pc = "write" /\ w.ph = "body" /\ w.k > Len(F) /\ Q # NoWrap
  /\ Emit(<<Q>>) /\ w' = [w EXCEPT !.ph = "sep"]

FieldDone == w.ph = "sep" \/ (w.ph = "body" /\ Q = NoWrap /\ w.k > Len(F))

EmitComma ==
  /\ pc = "write" /\ FieldDone /\ w.c < MaxUsedCol(Sheet)
  /\ Emit(<<COMMA>>) /\ w' = StartField(w.r, w.c + 1, Q)

EmitNewline ==
  /\ pc = "write" /\ FieldDone /\ w.c = MaxUsedCol(Sheet)
  /\ Emit(<<CR, LF>>)
  /\ w' = IF w.r < MaxUsedRow(Sheet) THEN StartField(w.r + 1, 1, Q) ELSE NoW

Finish ==
  /\ pc = "write" /\ w.ph = "eof"
  /\ pc' = "eot" /\ ps' = PEnd(ps)
  /\ UNCHANGED <<book, active, opt, w, out, enc, bytes, hist>>

Encode(e) ==
  /\ pc = "eot"
  /\ pc' = "done" /\ enc' = e /\ bytes' = Enc(e, out)
  /\ UNCHANGED <<book, active, opt, w, out, ps, hist>>

(* ---- free input: the reader on arbitrary text ---- *)
BeginFree(q) ==
  /\ pc = "build" /\ FreeAlphabet # {} /\ CellCount = 0 /\ active = 1
  /\ pc' = "free" /\ opt' = [trim |-> FALSE, wrap |-> q] /\ out' = << >> /\ ps' = PInit
  /\ UNCHANGED <<book, active, w, enc, bytes, hist>>

Feed(ch) ==
  /\ pc = "free" /\ Len(out) < FreeLen
  /\ out' = Append(out, ch) /\ ps' = PStep(ps, ch, Q)
  /\ UNCHANGED <<book, active, pc, opt, w, enc, bytes, hist>>

FinishFree ==
  /\ pc = "free"
  /\ pc' = "freedone" /\ ps' = PEnd(ps)
  /\ UNCHANGED <<book, active, opt, w, out, enc, bytes, hist>>

Next ==
  \/ \E s \in 1..NSheets, r \in 1..MaxR, c \in 1..MaxC, t \in Values : SetCell(s, r, c, t)
  \/ \E s \in 1..NSheets, r \in 1..MaxR, c \in 1..MaxC : RemoveCell(s, r, c)
  \/ \E s \in 1..NSheets : SetActive(s)
  \/ \E tr \in BOOLEAN, q \in WrapChars : Begin([trim |-> tr, wrap |-> q])
  \/ EmitOpen \/ EmitChar \/ EmitDoubled \/ EmitClose \/ EmitComma \/ EmitNewline \/ Finish
  \/ \E e \in Encodings : Encode(e)
  \/ \E q \in WrapChars : BeginFree(q)
  \/ \E ch \in FreeAlphabet : Feed(ch)
  \/ FinishFree

Spec == Init /\ [][Next]_vars

---------------------------------------------------------------------------
TypeOK ==
  /\ active \in 1..NSheets /\ Len(book) = NSheets
  /\ pc \in {"build", "write", "eot", "done", "free", "freedone"}
  /\ opt.trim \in BOOLEAN /\ opt.wrap \in WrapChars
  /\ ps.mode \in {"sof", "unq", "quo", "qq"} /\ ps.cr \in BOOLEAN /\ ps.wf \in BOOLEAN
  /\ ps.cr => (ps.mode = "sof" /\ ps.rec = << >>)
  /\ enc \in Encodings \cup {""}

(* every intermediate state of an export: what the reader has understood so far is exactly the  *)
(* part of the grid the writer has finished                                                     *)
InStep ==
  pc = "write" =>
    IF w.ph = "eof" THEN ps.recs = G /\ ps.rec = << >> /\ ps.field = << >>
    ELSE /\ ps.recs = SubSeq(G, 1, w.r - 1)
         /\ ps.rec = SubSeq(G[w.r], 1, w.c - 1)
         /\ ps.field = CASE w.ph = "open" -> << >>
                         [] w.ph = "body" -> SubSeq(F, 1, w.k - 1)
                         [] w.ph = "sep"  -> F

Exported == pc \in {"eot", "done"}

(* the property: the text, read by a standard reader with the same delimiter and quote          *)
(* character, is the grid; after the encoding step: the bytes, decoded with the selected        *)
(* encoding and read, are the grid                                                              *)
ParsedEqualsGrid ==
  /\ Exported => ps.recs = G
  /\ pc = "done" => LET d == Dec(enc, bytes) IN d.ok /\ ParseAll(d.text, Q).recs = G

Rectangular ==
  Exported => /\ Len(ps.recs) = MaxUsedRow(Sheet)
              /\ \A r \in DOMAIN ps.recs : Len(ps.recs[r]) = MaxUsedCol(Sheet)

WellFormed == pc \in {"write", "eot", "done"} => ps.wf

(* the step-wise reader and the fold over the whole text are the same function *)
FoldAgrees == pc \in {"eot", "freedone"} => ps = ParseAll(out, Q)

(* without a quote character no field ever read contains the delimiter or a line break *)
NoQuoteClean ==
  (pc \in {"free", "freedone"} /\ Q = NoWrap) =>
     /\ ~Breaks(ps.field)
     /\ \A i \in DOMAIN ps.rec : ~Breaks(ps.rec[i])
     /\ \A r \in DOMAIN ps.recs : \A c \in DOMAIN ps.recs[r] : ~Breaks(ps.recs[r][c])

(* the reader never drops or invents records: it has read at most one record per line break + 1 *)
ReaderBounded ==
  pc \in {"free", "freedone"} =>
     Len(ps.recs) <= Cardinality({i \in DOMAIN out : out[i] \in {CR, LF}}) + 1
=============================================================================
