\* the design WITHOUT doubling of the wrap character and without the NoWrap restriction: TLC must
\* find a counterexample to ParsedEqualsGrid (guards the invariants against vacuity)
CONSTANTS NSheets = 1 MaxR = 2 MaxC = 2 MaxCells = 1 FreeLen = 0 Escape = FALSE Overwrite = FALSE Record = FALSE
CONSTANTS Values <- PaletteValues FreeAlphabet <- NoFree
SPECIFICATION Spec
INVARIANTS ParsedEqualsGrid
CHECK_DEADLOCK FALSE
