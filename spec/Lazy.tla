-------------------------------- MODULE Lazy --------------------------------
(***************************************************************************)
(* C11: a workbook opened lazily behaves like one opened eagerly.          *)
(*                                                                         *)
(* orig    the file that was opened: a sequence of sheet facts             *)
(*           [name, pno, rels, tabs, refs]                                 *)
(*           pno   number N of its part xl/worksheets/sheetN.xml           *)
(*           rels  the sheet part has a relationship part (drawing,        *)
(*                 comments, tables, printer settings, hyperlinks ..)      *)
(*           tabs  its table parts, in relationship order: <<[no, name]>>  *)
(*                 (no = N of xl/tables/tableN.xml)                        *)
(*           refs  the sheet names its charts take their data from         *)
(* sheets  the workbook object: a sequence of                              *)
(*           [name, o, loaded, marks]                                      *)
(*           o      index into orig (0: a sheet added by new_sheet)        *)
(*           loaded materialised (FALSE: still the raw bytes of the file   *)
(*                  and the raw closure of its relationship parts)         *)
(*           marks  the edits made to it, in order: <<[t, k, v]>> with     *)
(*                  t = "s" text / "b" bold text in cell k of the marker   *)
(*                  zone, "c" a comment, "t" a table named v               *)
(* The content of a sheet is abstract: View(s) = <<s.o, marks of s>>; the  *)
(* trace specification instantiates it with digests of the real sheets.    *)
(*                                                                         *)
(* Save is modelled at the level of part names.  The writer emits parts    *)
(* in a fixed order and the first writer of a name wins:                   *)
(*   loop 1, sheets in order:  sheet<p>.xml;  for a raw sheet also its     *)
(*           relationship part and the closure below it (tables ..)        *)
(*   loop 2, loaded sheets in order: their tables, then sheet<p>.xml.rels  *)
(* Three design decisions are parameters, so that TLC checks the intended  *)
(* design and refutes the others (they are the known findings):            *)
(*   Home  = "pos"     a raw sheet's relationship part is re-homed to the  *)
(*                     sheet's new position (intended)                     *)
(*           "orig"    ... is written under its original name              *)
(*   TabNo = "fresh"   tables of loaded sheets get part numbers not in use *)
(*           "counter" ... are numbered 1, 2, .. regardless of raw parts   *)
(*   Chart = "cached"  saving a chart never needs another sheet's cells    *)
(*           "cells"   ... reads the cells of the referenced sheet, which  *)
(*                     fails while that sheet is raw                       *)
(***************************************************************************)
EXTENDS Naturals, Sequences, FiniteSets, TLC

RelMarks == {"c", "t"}                 \* kinds of edits that need a relationship part

SeqSet(q) == {q[i] : i \in DOMAIN q}
RECURSIVE Flatten(_)
Flatten(qq) == IF qq = <<>> THEN <<>> ELSE Head(qq) \o Flatten(Tail(qq))
SelSeq(q, T(_)) == SelectSeq(q, T)

(* ---- a sheet of the workbook object ------------------------------------------------------- *)
MarkSet(s)      == SeqSet(s.marks)
View(s)         == [o |-> s.o, marks |-> MarkSet(s)]
TMarks(s)       == SelectSeq(s.marks, LAMBDA m : m.t = "t")
OrigTabs(og, s) == IF s.o = 0 THEN <<>> ELSE og[s.o].tabs
(* table names of a sheet, in the order the writer meets them *)
TabNames(og, s) == [j \in DOMAIN OrigTabs(og, s) |-> OrigTabs(og, s)[j].name] \o
                   [j \in DOMAIN TMarks(s) |-> TMarks(s)[j].v]
NeedsRels(og, s) == \/ (s.o # 0 /\ og[s.o].rels)
                    \/ \E m \in MarkSet(s) : m.t \in RelMarks

(* ---- operations on the workbook object (plain operators) ---------------------------------- *)
Materialise(S, I) == [p \in DOMAIN S |-> IF p \in I THEN [S[p] EXCEPT !.loaded = TRUE] ELSE S[p]]
PostRead(S, i)    == Materialise(S, {i})
PostReadAll(S)    == Materialise(S, DOMAIN S)
PostEdit(S, i, m) == [Materialise(S, {i}) EXCEPT ![i].marks = Append(@, m)]
PostNew(S, nm)    == Append(S, [name |-> nm, o |-> 0, loaded |-> TRUE, marks |-> <<>>])
PostRemove(S, i)  == [p \in 1..(Len(S) - 1) |-> IF p < i THEN S[p] ELSE S[p + 1]]
PostRename(S, i, nm) == [S EXCEPT ![i].name = nm]
Names(S)          == {S[p].name : p \in DOMAIN S}
IndexOf(S, nm)    == CHOOSE p \in DOMAIN S : S[p].name = nm
(* an edit may use a slot only once per sheet (a second comment on a cell would be a second comment) *)
Class(t)          == IF t \in {"s", "b"} THEN "v" ELSE t
SlotFree(s, m)    == \A x \in MarkSet(s) : ~(Class(x.t) = Class(m.t) /\ x.k = m.k)

(* ---- the writer --------------------------------------------------------------------------- *)
RECURSIVE FirstWins(_, _)
FirstWins(ws, acc) ==
  IF ws = <<>> THEN acc
  ELSE LET h == Head(ws) IN FirstWins(Tail(ws), IF h[1] \in DOMAIN acc THEN acc ELSE acc @@ (h[1] :> h[2]))

(* loop 1 *)
Loop1Of(og, S, p, home) ==
  LET s == S[p] IN
  IF s.loaded \/ s.o = 0 THEN << <<<<"sheet", p>>, [for |-> p]>> >>
  ELSE << <<<<"sheet", p>>, [for |-> p]>> >> \o
       (IF og[s.o].rels
        THEN << <<<<"rels", IF home = "pos" THEN p ELSE og[s.o].pno>>,
                  [for |-> p, tabs |-> [j \in DOMAIN og[s.o].tabs |-> og[s.o].tabs[j].no]]>> >>
        ELSE <<>>) \o
       [j \in DOMAIN og[s.o].tabs |-> <<<<"tab", og[s.o].tabs[j].no>>, [name |-> og[s.o].tabs[j].name, for |-> p]>>]
Loop1(og, S, home) == Flatten([p \in DOMAIN S |-> Loop1Of(og, S, p, home)])

RawTabNos(og, S) == UNION {{og[S[p].o].tabs[j].no : j \in DOMAIN og[S[p].o].tabs} : p \in {q \in DOMAIN S : ~S[q].loaded /\ S[q].o # 0}}

(* the part numbers given to the tables of the loaded sheets: `cnt` tables, numbered in writer order *)
RECURSIVE FreshNos(_, _, _)
FreshNos(cnt, used, n) ==                        \* the first cnt numbers >= n that are not in `used`
  IF cnt = 0 THEN <<>> ELSE IF n \in used THEN FreshNos(cnt, used, n + 1) ELSE <<n>> \o FreshNos(cnt - 1, used, n + 1)
TabNos(og, S, tabno, cnt) == IF tabno = "counter" THEN [j \in 1..cnt |-> j] ELSE FreshNos(cnt, RawTabNos(og, S), 1)

LoadedPos(S) == SelectSeq([p \in DOMAIN S |-> p], LAMBDA p : S[p].loaded)
RECURSIVE Loop2From(_, _, _, _, _)
Loop2From(og, S, lp, nos, k) ==                 \* lp: loaded positions still to do, k: tables numbered so far
  IF lp = <<>> THEN <<>>
  ELSE LET p  == Head(lp)
           tn == TabNames(og, S[p])
           my == [j \in DOMAIN tn |-> nos[k + j]]
       IN [j \in DOMAIN tn |-> <<<<"tab", my[j]>>, [name |-> tn[j], for |-> p]>>] \o
          (IF NeedsRels(og, S[p]) THEN << <<<<"rels", p>>, [for |-> p, tabs |-> my]>> >> ELSE <<>>) \o
          Loop2From(og, S, Tail(lp), nos, k + Len(tn))
RECURSIVE SumTabs(_, _, _)
SumTabs(og, S, lp) == IF lp = <<>> THEN 0 ELSE Len(TabNames(og, S[Head(lp)])) + SumTabs(og, S, Tail(lp))
Loop2(og, S, tabno) == Loop2From(og, S, LoadedPos(S), TabNos(og, S, tabno, SumTabs(og, S, LoadedPos(S))), 0)

EmptyPkg == [x \in {} |-> 0]
Pkg(og, S, home, tabno) == FirstWins(Loop1(og, S, home) \o Loop2(og, S, tabno), EmptyPkg)

(* saving fails while a chart of a loaded sheet takes its data from a sheet that is still raw *)
ChartBlocked(og, S) == \E p \in DOMAIN S : /\ S[p].loaded /\ S[p].o # 0
                                          /\ \E q \in DOMAIN S : ~S[q].loaded /\ S[q].name \in og[S[p].o].refs
SaveOutcome(og, S, chart) == IF chart = "cells" /\ ChartBlocked(og, S) THEN "panic" ELSE "ok"

(* ---- what a reader finds at position p of the written package ------------------------------ *)
Dec(P, p) ==
  LET r == <<"rels", p>> IN
  [hasrels  |-> r \in DOMAIN P,
   relsfor  |-> IF r \in DOMAIN P THEN P[r].for ELSE 0,
   tabnames |-> IF r \in DOMAIN P THEN [j \in DOMAIN P[r].tabs |-> P[<<"tab", P[r].tabs[j]>>].name] ELSE <<>>]
(* ... and what it must find: the sheet's own relationships and tables *)
Want(og, S, p) ==
  [hasrels  |-> NeedsRels(og, S[p]),
   relsfor  |-> IF NeedsRels(og, S[p]) THEN p ELSE 0,
   tabnames |-> TabNames(og, S[p])]
OrphanRels(P, S) == {x[2] : x \in {y \in DOMAIN P : y[1] = "rels" /\ y[2] \notin DOMAIN S}}

(* ---- the properties of C11, for a workbook object S opened from og ------------------------- *)
(* valid file: every sheet has its part, no relationship part without its sheet, every relationship a sheet
   uses resolves in its own relationship part *)
PackageOKP(og, S, P) ==
  /\ \A p \in DOMAIN S : <<"sheet", p>> \in DOMAIN P
  /\ OrphanRels(P, S) = {}
  /\ \A p \in DOMAIN S : NeedsRels(og, S[p]) => (Dec(P, p).hasrels /\ Dec(P, p).relsfor = p)
(* every sheet that was not edited - accessed or not - reads back with its own content *)
UneditedKeptP(og, S, P) == \A p \in DOMAIN S : S[p].marks = <<>> => Dec(P, p) = Want(og, S, p)
(* every edit is present *)
EditsPresentP(og, S, P) == \A p \in DOMAIN S : S[p].marks # <<>> => Dec(P, p) = Want(og, S, p)
PackageOK(og, S, home, tabno)    == PackageOKP(og, S, Pkg(og, S, home, tabno))
UneditedKept(og, S, home, tabno) == UneditedKeptP(og, S, Pkg(og, S, home, tabno))
EditsPresent(og, S, home, tabno) == EditsPresentP(og, S, Pkg(og, S, home, tabno))
SaveTotal(og, S, chart) == SaveOutcome(og, S, chart) = "ok"
=============================================================================
