CONSTANTS MaxRow = 5 MaxCol = 4 EmitReplay = FALSE EmitWb = TRUE MaxToks = 5 Depth = 1 NCells = 1
  UsePercent = FALSE UseParens = TRUE
  Operands <- WbOperandsIsect FnNames <- FnsSmall InfixOps <- NoOps PrefixOps <- NoPre BlankRuns <- Blanks1
  Ns <- NsOne
SPECIFICATION MCSpec
INVARIANTS EmitWbInv
CHECK_DEADLOCK FALSE
