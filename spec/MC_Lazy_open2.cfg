CONSTANTS Home = "pos" TabNo = "fresh" Chart = "cached" Perm = TRUE Depth = 99 MaxEdits = 2 Shapes = "all" Wide = FALSE EmitReplay = FALSE
SPECIFICATION MCSpec
VIEW OpenView
INVARIANTS LazyEqEager SaveProps SaveWorks
PROPERTY AccessMonotone
CHECK_DEADLOCK FALSE
