CONSTANTS MaxRow = 1048576 MaxCol = 16384 EmitReplay = TRUE MaxToks = 4
  UsePercent = TRUE UseParens = TRUE
  Operands <- OperandsFull FnNames <- FnsFull InfixOps <- OpsSmall PrefixOps <- PreBoth BlankRuns <- Blanks1
SPECIFICATION GenSpec
INVARIANTS Emit
CHECK_DEADLOCK FALSE
