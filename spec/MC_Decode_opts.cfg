CONSTANTS MaxRow = 1048576 MaxCol = 16384 Wide = FALSE MaxOpts = 2 MaxSst = 0 MaxCells = 1 UseBlock = FALSE MaxAttrs = 2
  Variants = "few" EmitReplay = FALSE
SPECIFICATION MCSpec
INVARIANTS DecodeTotal KindByType SstIndirection AnchorFirst SharedConsistent PositionsImplied XLemmas FmtLemmas LinksOk
CHECK_DEADLOCK FALSE
