CONSTANTS Years = {} Step = 1
SPECIFICATION TraceSpec
POSTCONDITION Consumed
CHECK_DEADLOCK FALSE
