------------------------- MODULE Trace_DateSerial -------------------------
(***************************************************************************)
(* Conformance of helper::date::{convert_date, convert_date_windows_1900,  *)
(* excel_to_date_time_object} and of Worksheet::get_formatted_value (cell  *)
(* with the number format yyyy-mm-dd hh:mm:ss) with DateSerial.tla.        *)
(*                                                                         *)
(* One event = one batch of observations.  An item is                      *)
(*   c  the civil input <<y, m, d, h, mi, s>> given to the library         *)
(*   s  convert_date(c), w  convert_date_windows_1900(c): the returned     *)
(*      double as <<n, f3, f2, f1, f0>> (lossless, see DateSerial.tla)     *)
(*   b  excel_to_date_time_object(s) as <<y, m, d, h, mi, s>>              *)
(*   t  the displayed text of a cell holding s (only if the event's fmt)   *)
(*   o  "ok", or "panic" / "unrep" / "unparsed" (then the rest is filler)  *)
(* Events "disp" carry a number format and items c, s, t, o only.          *)
(* Event headers say what the generator meant to enumerate; that the items *)
(* are exactly that enumeration is checked here first (kind "gen").        *)
(***************************************************************************)
EXTENDS DateSerial, TraceBase, FiniteSets

VARIABLE l
tvars == <<l, clk>>

Ev == Rec[l]

DateOf(c) == <<c[1], c[2], c[3]>>
TimeOf(c) == <<c[4], c[5], c[6]>>
SodOf(c)  == Sod(c[4], c[5], c[6])
FracOf(x) == <<x[2], x[3], x[4], x[5]>>

(* ValidDate and Ord read components 1..3 only, so they apply to a civil 6-tuple as it is *)
ValidCivil(c) == Len(c) = 6 /\ ValidDate(c) /\ ValidTime(TimeOf(c))

----------------------------------------------------------------------------
(* what the generator claims to have enumerated *)
DaysGenOk(e) ==
  /\ e.sod \in 0..86399
  /\ e.items # <<>>
  /\ LET t == HMS(e.sod)
     IN  \A j \in DOMAIN e.items : ValidCivil(e.items[j].c) /\ TimeOf(e.items[j].c) = t
  /\ IF e.full
     THEN (* every day of year e.y, and the next January 1st unless the date system ends *)
          /\ e.y \in FirstYear..LastYear
          /\ Len(e.items) = YearLen(e.y) + (IF e.y < LastYear THEN 1 ELSE 0)
          /\ LET jan1 == Ord(<<e.y, 1, 1>>)
             IN  \A j \in DOMAIN e.items : Ord(e.items[j].c) = jan1 + j - 1
     ELSE \A j \in 1..(Len(e.items) - 1) : Ord(e.items[j].c) < Ord(e.items[j + 1].c)

SecsGenOk(e) ==
  /\ ValidDate(<<e.y, e.m, e.d>>)
  /\ e.from >= 0 /\ e.items # <<>> /\ e.from + Len(e.items) <= 86400
  /\ \A j \in DOMAIN e.items : e.items[j].c = <<e.y, e.m, e.d>> \o HMS(e.from + j - 1)

DispGenOk(e) ==
  /\ e.format \in DisplayFormats
  /\ e.items # <<>>
  /\ \A j \in DOMAIN e.items : ValidCivil(e.items[j].c)

GenOk(e) == CASE e.a = "days" -> DaysGenOk(e)
              [] e.a = "secs" -> SecsGenOk(e)
              [] e.a = "disp" -> DispGenOk(e)
              [] OTHER -> FALSE

----------------------------------------------------------------------------
(* the judgement *)
SerialOk(x, day, sod) == /\ x[1] = day
                         /\ FracOK(FracOf(x))
                         /\ FracIsSecond(FracOf(x), sod)

ItemOk(it, fmt) ==
  /\ it.o = "ok"
  /\ LET day == SerialDay(it.c)
         sod == SodOf(it.c)
     IN  /\ SerialOk(it.s, day, sod)                       \* convert_date
         /\ it.w = it.s \/ SerialOk(it.w, day, sod)        \* convert_date_windows_1900
  /\ it.b = it.c                                    \* excel_to_date_time_object inverts, to the second
  /\ fmt => it.t = Display(it.c, TimeOf(it.c))

(* items are in strictly increasing time order (GenOk): so must the serials be *)
Rising(items, j) == \/ items[j].o # "ok" \/ items[j + 1].o # "ok"
                    \/ DoubleLess(items[j].s, items[j + 1].s)

(* A mismatch is reported as a short marker (TLC wraps a printed tuple wider than 80 columns over *)
(* several lines, which the framework does not read) and the full detail as a string (one line) *)
Report(kind, j, detail) == /\ PrintT("DETAIL " \o ToString(l) \o " " \o ToString(detail))
                           /\ Mismatch(l, <<kind, j>>)

(* "disp": a cell holding the serial of c (s = convert_date(c), checked to be that serial) under  *)
(* the number format e.format shows the calendar date of c - and hour:minute where the format    *)
(* has them - whatever the seconds are                                                          *)
DispItemOk(it, f) ==
  /\ it.o = "ok"
  /\ SerialOk(it.s, SerialDay(it.c), SodOf(it.c))
  /\ it.t = DisplayAs(f, it.c, TimeOf(it.c))

JudgeDisp(e) ==
  LET bad == {j \in DOMAIN e.items : ~DispItemOk(e.items[j], e.format)}
  IN  IF bad = {} THEN TRUE
      ELSE LET it == e.items[MinOf(bad)]
           IN  Report("impl display", MinOf(bad),
                      [format |-> e.format, observed |-> it, expected_day |-> SerialDay(it.c),
                       display |-> DisplayAs(e.format, it.c, TimeOf(it.c)), bad_items_in_batch |-> Cardinality(bad)])

JudgeConv(e) ==
  IF /\ \A j \in DOMAIN e.items : ItemOk(e.items[j], e.fmt)
     /\ \A j \in 1..(Len(e.items) - 1) : Rising(e.items, j)
  THEN TRUE
  ELSE LET bad  == {j \in DOMAIN e.items : ~ItemOk(e.items[j], e.fmt)}
           down == {j \in 1..(Len(e.items) - 1) : ~Rising(e.items, j)}
       IN  /\ IF bad = {} THEN TRUE
              ELSE LET it == e.items[MinOf(bad)]
                   IN  Report("impl item", MinOf(bad),
                              [observed |-> it, expected_day |-> SerialDay(it.c), second_of_day |-> SodOf(it.c),
                               fraction_times_86400 |-> Times86400(FracOf(it.s)),
                               display |-> Display(it.c, TimeOf(it.c)), bad_items_in_batch |-> Cardinality(bad)])
           /\ IF down = {} THEN TRUE
              ELSE Report("impl not increasing", MinOf(down),
                          <<e.items[MinOf(down)], e.items[MinOf(down) + 1]>>)

TraceInit == l = 1 /\ clk = Start(FirstYear)
TraceNext == /\ l <= Len(Rec)
             /\ l' = l + 1
             /\ IF Ev.a = "Fatal" THEN Mismatch(l, <<"impl fatal", Ev.outcome>>)
                ELSE IF GenOk(Ev) THEN (IF Ev.a = "disp" THEN JudgeDisp(Ev) ELSE JudgeConv(Ev)) ELSE Mismatch(l, <<"gen", Ev.case>>)
             /\ UNCHANGED clk
TraceSpec == TraceInit /\ [][TraceNext]_tvars
=============================================================================
