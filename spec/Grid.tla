------------------------------- MODULE Grid -------------------------------
(***************************************************************************)
(* Index and rectangle arithmetic of structural edits, shared by Sheet,    *)
(* CellStore and Formula.  An edit is (ax, p, n): on axis ax \in           *)
(* {"row","col"} insert n lines before line p, or remove the band p..p+n-1.*)
(***************************************************************************)
EXTENDS Integers

InsIdx(i, p, n)  == IF i >= p THEN i + n ELSE i
InBand(i, p, n)  == i >= p /\ i < p + n
RemIdx(i, p, n)  == IF i >= p + n THEN i - n ELSE i            \* only meaningful outside the band
(* a range edge under removal: clipped to the surviving lines *)
ClipLo(a, p, n)  == IF a < p THEN a ELSE IF a >= p + n THEN a - n ELSE p
ClipHi(b, p, n)  == IF b < p THEN b ELSE IF b >= p + n THEN b - n ELSE p - 1

(* rectangles are records [r1, c1, r2, c2] with r1 <= r2, c1 <= c2 *)
InsRect(g, ax, p, n) ==
  IF ax = "row" THEN [g EXCEPT !.r1 = InsIdx(@, p, n), !.r2 = InsIdx(@, p, n)]
                ELSE [g EXCEPT !.c1 = InsIdx(@, p, n), !.c2 = InsIdx(@, p, n)]
RectDeleted(g, ax, p, n) ==
  IF ax = "row" THEN g.r1 >= p /\ g.r2 < p + n ELSE g.c1 >= p /\ g.c2 < p + n
RemRect(g, ax, p, n) ==
  IF ax = "row" THEN [g EXCEPT !.r1 = ClipLo(@, p, n), !.r2 = ClipHi(@, p, n)]
                ELSE [g EXCEPT !.c1 = ClipLo(@, p, n), !.c2 = ClipHi(@, p, n)]
RectOK(g) == g.r1 <= g.r2 /\ g.c1 <= g.c2
InRect(r, c, g) == r >= g.r1 /\ r <= g.r2 /\ c >= g.c1 /\ c <= g.c2

(* a point record x with fields r, c *)
PtIns(x, ax, p, n) == IF ax = "row" THEN [x EXCEPT !.r = InsIdx(@, p, n)] ELSE [x EXCEPT !.c = InsIdx(@, p, n)]
PtInBand(x, ax, p, n) == IF ax = "row" THEN InBand(x.r, p, n) ELSE InBand(x.c, p, n)
PtRem(x, ax, p, n) == IF ax = "row" THEN [x EXCEPT !.r = RemIdx(@, p, n)] ELSE [x EXCEPT !.c = RemIdx(@, p, n)]
=============================================================================
