\* thorough tier: one sheet, 2x3 window, up to 3 cells, 10 value classes, all trim x wrap, all encodings
CONSTANTS NSheets = 1 MaxR = 2 MaxC = 3 MaxCells = 3 FreeLen = 0 Escape = TRUE Overwrite = FALSE Record = FALSE
CONSTANTS Values <- PaletteValues FreeAlphabet <- NoFree
SPECIFICATION Spec
INVARIANTS TypeOK InStep ParsedEqualsGrid Rectangular WellFormed FoldAgrees
CHECK_DEADLOCK FALSE
