\* prints the (format, value) pairs of the quick model: they are replayed into the library
CONSTANTS I = 4 F = 2 KMax = 4 Block = 20
CONSTANTS Catalogue <- MCCatalogue Starts <- QuickStarts MCDev = {}
SPECIFICATION SpecR
INVARIANTS EmitReplay
CHECK_DEADLOCK FALSE
