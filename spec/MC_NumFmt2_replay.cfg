\* the machine of the quick model without the invariants: rule coverage (every R* action must be taken) and one REPLAY
\* line per (format, value) pair visited: the pairs are replayed into the library
CONSTANTS I = 4 F = 2 KMax = 4 Block = 20
CONSTANTS Catalogue <- MCCatalogue Starts <- RuleStarts MCDev = {}
SPECIFICATION Spec2
INVARIANTS EmitReplay
CHECK_DEADLOCK FALSE
