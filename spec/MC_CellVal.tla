---------------------------- MODULE MC_CellVal ----------------------------
(* Bounded instances of CellVal.tla.                                                                       *)
(* The pools of texts come from a JSON file (environment variable POOLS, written by checks/x02.py): TLA+    *)
(* string literals cannot hold the non-ASCII characters of the adversarial alphabet, JSON \uXXXX can.       *)
(*   pools.texts  : sequence of texts, each a sequence of one-character strings                             *)
(*   pools.sets   : record  name |-> sequence of indices into pools.texts  (full / mid / small)             *)
(*   pools.orc    : sequence of [ti, n]: the shortest round-trip decimal of the double of text ti (texts    *)
(*                  with more than 15 significant digits), computed by CPython's float/repr                 *)
(*   pools.forms  : sequence of formula texts;  pools.nums : sequence of numbers;  pools.rich : rich texts  *)
(* Exhaustive configs (Bounded = FALSE): the whole reachable state space of cells (VIEW = cells).           *)
(* Replay configs: all histories of length Depth, one REPLAY line each.  Simulation config (Wide): one      *)
(* random draw per parameter, histories of random length up to Depth.                                       *)
EXTENDS CellVal, Json, IOUtils, Randomization

CONSTANTS PoolName,     \* which text pool: "full" | "mid" | "small"
          Wide,         \* TRUE: one random draw per parameter (simulation)
          Bounded,      \* TRUE: histories of length len <= Depth (steps are counted)
          Depth,
          EmitReplay    \* TRUE: keep the history and print one REPLAY line per behaviour

VARIABLES steps, len, hist
mcvars == <<cells, last, steps, len, hist>>

Pools == JsonDeserialize(IOEnv.POOLS)

DecOfJson(n) == [Dec(n.cls, n.neg, n.digs, n.e) EXCEPT !.bits = n.bits]
TextIdx   == {Pools.sets[PoolName][i] : i \in DOMAIN Pools.sets[PoolName]}
MCTexts   == {Pools.texts[i] : i \in TextIdx}
MCForms   == {Pools.forms[i] : i \in DOMAIN Pools.forms}
MCNums    == {DecOfJson(Pools.nums[i]) : i \in DOMAIN Pools.nums}
MCRich    == {Pools.rich[i] : i \in DOMAIN Pools.rich}
MCOrc(cs) == LET I == {i \in DOMAIN Pools.orc : Pools.texts[Pools.orc[i].ti] = cs}
             IN  IF I = {} THEN NoDec ELSE DecOfJson(Pools.orc[CHOOSE i \in I : TRUE].n)

IdxOfText(cs) == CHOOSE i \in DOMAIN Pools.texts : Pools.texts[i] = cs
IdxOfForm(cs) == CHOOSE i \in DOMAIN Pools.forms : Pools.forms[i] = cs
IdxOfNum(d)   == CHOOSE i \in DOMAIN Pools.nums : DecOfJson(Pools.nums[i]) = d
IdxOfRich(r)  == CHOOSE i \in DOMAIN Pools.rich : Pools.rich[i] = r

Pick(S) == IF Wide THEN {RandomElement(S)} ELSE S

(* one history record per step: the action, the positions and the index of its argument in the pool *)
H(a, p, q, i, b) == [a |-> a, p |-> p, q |-> q, i |-> i, b |-> b]
Log(rec) == /\ hist' = IF EmitReplay THEN Append(hist, rec) ELSE hist
            /\ steps' = IF Bounded THEN steps + 1 ELSE steps
            /\ len' = len
G == ~Bounded \/ steps < len

MCInit == /\ Init
          /\ steps = 0
          /\ len \in (IF Bounded THEN (IF Wide THEN 1..Depth ELSE {Depth}) ELSE {0})
          /\ hist = <<>>

MCTouch         == G /\ \E p \in Pick(Pos) : Touch(p) /\ Log(H("Touch", p, p, 0, FALSE))
MCSetValue      == G /\ \E p \in Pick(Pos), t \in Pick(Texts) : SetValue(p, t) /\ Log(H("SetValue", p, p, IdxOfText(t), FALSE))
MCSetString     == G /\ \E p \in Pick(Pos), t \in Pick(Texts) : SetString(p, t) /\ Log(H("SetString", p, p, IdxOfText(t), FALSE))
MCSetNumber     == G /\ \E p \in Pick(Pos), d \in Pick(Nums) : SetNumber(p, d) /\ Log(H("SetNumber", p, p, IdxOfNum(d), FALSE))
MCSetBool       == G /\ \E p \in Pick(Pos), b \in Pick(BOOLEAN) : SetBool(p, b) /\ Log(H("SetBool", p, p, 0, b))
MCSetRich       == G /\ \E p \in Pick(Pos), r \in Pick(RichPool) : SetRich(p, r) /\ Log(H("SetRich", p, p, IdxOfRich(r), FALSE))
MCSetBlank      == G /\ \E p \in Pick(Pos) : SetBlank(p) /\ Log(H("SetBlank", p, p, 0, FALSE))
MCSetFormula    == G /\ \E p \in Pick(Pos), t \in Pick(Forms) : SetFormula(p, t) /\ Log(H("SetFormula", p, p, IdxOfForm(t), FALSE))
MCRemoveFormula == G /\ \E p \in Pick(Pos) : RemoveFormula(p) /\ Log(H("RemoveFormula", p, p, 0, FALSE))
MCSetResult     == G /\ \E p \in Pick(Pos), t \in Pick(Texts) : SetResult(p, t) /\ Log(H("SetResult", p, p, IdxOfText(t), FALSE))
MCSetError      == G /\ ErrPool # {} /\ \E p \in Pick(Pos), t \in Pick(ErrPool) : SetError(p, t) /\ Log(H("SetError", p, p, IdxOfText(t), FALSE))
MCSetLazy       == G /\ \E p \in Pick(Pos), t \in Pick(Texts) : SetLazy(p, t) /\ Log(H("SetLazy", p, p, IdxOfText(t), FALSE))
MCGetLazy       == G /\ \E p \in Pick(Pos) : GetLazy(p) /\ Log(H("GetLazy", p, p, 0, FALSE))
MCRemove        == G /\ \E p \in Pick(Pos) : Remove(p) /\ Log(H("Remove", p, p, 0, FALSE))
MCCopyValue     == G /\ \E p \in Pick(Pos), q \in Pick(Pos) : CopyValue(p, q) /\ Log(H("CopyValue", p, q, 0, FALSE))
MCCopyCell      == G /\ \E p \in Pick(Pos), q \in Pick(Pos) : CopyCell(p, q) /\ Log(H("CopyCell", p, q, 0, FALSE))
MCSaveLoad      == G /\ SaveLoad /\ Log(H("SaveLoad", 0, 0, 0, FALSE))

MCNext == \/ MCTouch \/ MCSetValue \/ MCSetString \/ MCSetNumber \/ MCSetBool \/ MCSetRich \/ MCSetBlank
          \/ MCSetFormula \/ MCRemoveFormula \/ MCSetResult \/ MCSetError \/ MCSetLazy \/ MCGetLazy
          \/ MCRemove \/ MCCopyValue \/ MCCopyCell \/ MCSaveLoad
MCSpec == MCInit /\ [][MCNext]_mcvars

View == <<cells, steps>>

Emit == (EmitReplay /\ Bounded /\ steps = len) => PrintT(<<"REPLAY", ToJson(hist)>>)
=============================================================================
