CONSTANTS MaxRow = 1048576 MaxCol = 16384 Wide = TRUE MaxOpts = 2 MaxSst = 3 MaxCells = 4 UseBlock = TRUE MaxAttrs = 3
  Variants = "all" EmitReplay = TRUE
SPECIFICATION MCSpec
INVARIANTS Emit DecodeTotal SharedConsistent PositionsImplied
CHECK_DEADLOCK FALSE
