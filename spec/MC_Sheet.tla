------------------------------ MODULE MC_Sheet ------------------------------
(* Bounded instance of Sheet.tla: a 5 x 4 grid, two sheets, histories of Depth operations.   *)
EXTENDS Sheet, Json

CONSTANTS Wide,         \* FALSE: small pools for exhaustive checking; TRUE: wide pools for random simulation
          Depth,        \* length of the histories explored
          Family,       \* "full": all combinations of objects; "rich": few initial sheets with every object kind
          EmitReplay    \* TRUE: print one REPLAY line per behaviour of length Depth

VARIABLES steps, hist
mcvars == <<sh, last, steps, hist>>

Cell(r, c, v, f, s, u) == [r |-> r, c |-> c, v |-> v, f |-> f, s |-> s, u |-> u]
Rect(r1, c1, r2, c2)   == [r1 |-> r1, c1 |-> c1, r2 |-> r2, c2 |-> c2]

CellPool == { Cell(1, 1, "a", "", "", ""), Cell(2, 2, "b", "NOW()", "S1", ""),
              Cell(3, 2, "c", "", "", "http://x/"), Cell(5, 4, "d", "", "S2", "") }
CellSets == IF Family = "full" THEN {T \in SUBSET CellPool : Cardinality(T) <= 2} ELSE {CellPool, {}}
MergeSets == IF Family = "full" THEN {{}, {Rect(2, 1, 3, 2)}, {Rect(2, 2, 4, 3)}}
             ELSE {{}, {Rect(2, 1, 3, 2)}, {Rect(2, 2, 4, 3), Rect(1, 1, 1, 2)}}
RowSets  == {{}, {[r |-> 3, h |-> 30]}}
ColSets  == {{}, {[c |-> 2, w |-> 20]}}
ComSets  == {{}, {[r |-> 3, c |-> 2, t |-> "note"]}}
CfSets   == {{}, {[id |-> 1, g |-> Rect(2, 1, 3, 3)]}}
AfSets   == {<<>>, <<Rect(1, 1, 3, 3)>>}

Other == [name |-> "Other", cells |-> {Cell(2, 2, "o", "", "", ""), Cell(4, 1, "p", "", "", "")},
          rows |-> {[r |-> 2, h |-> 25]}, cols |-> {[c |-> 1, w |-> 15]}, merges |-> {Rect(2, 2, 3, 3)},
          comments |-> {[r |-> 2, c |-> 2, t |-> "o"]}, cf |-> {[id |-> 2, g |-> Rect(1, 1, 4, 2)]},
          af |-> <<Rect(2, 1, 4, 3)>>]

E(x) == IF x = {} THEN 1 ELSE 0
RichOK(ce, me, ro, co, cm, cf, af) ==
  \/ Family = "full"
  \/ (ce = CellPool /\ E(ro) + E(co) + E(cm) + E(cf) + (IF af = <<>> THEN 1 ELSE 0) \in {0, 4, 5})

MCInit ==
  /\ \E ce \in CellSets, me \in MergeSets, ro \in RowSets, co \in ColSets, cm \in ComSets, cf \in CfSets, af \in AfSets :
        /\ RichOK(ce, me, ro, co, cm, cf, af)
        /\ sh = << [name |-> "S", cells |-> ce, rows |-> ro, cols |-> co, merges |-> me, comments |-> cm,
                    cf |-> cf, af |-> af], Other >>
  /\ last = [op |-> "init", s |-> 0]
  /\ steps = 0
  /\ hist = <<[a |-> "Init", sheets |-> sh]>>

Ns == IF Wide THEN {1, 2, 3} ELSE {1, 2}
RectPool == {Rect(1, 1, 2, 2), Rect(2, 2, 3, 2), Rect(3, 1, 5, 4)}
Offsets  == {<<0, 1>>, <<1, 0>>, <<-1, 0>>, <<0, -1>>, <<1, 1>>, <<2, 0>>}
NewCells == {Cell(3, 2, "new", "1+2", "S3", "")}

(* exhaustive runs enumerate a parameter set, simulation runs draw one element at random *)
Pick(S) == IF Wide THEN {RandomElement(S)} ELSE S
AllRects == {Rect(r1, c1, r1 + h, c1 + w) : r1 \in 1..(MaxRow - 2), c1 \in 1..(MaxCol - 2), h \in {0, 1, 2}, w \in {0, 1, 2}}
AllOffsets == {<<dr, dc>> : dr \in -3..3, dc \in -2..2} \ {<<0, 0>>}
AllNewCells == {Cell(r, c, "new", "1+2", "S3", "") : r \in 1..MaxRow, c \in 1..MaxCol}

Log(rec) == hist' = Append(hist, rec) /\ steps' = steps + 1

MCNext ==
  /\ steps < Depth
  /\ \/ \E s \in Pick(DOMAIN sh), ax \in Pick(Axes), n \in Pick(Ns) : \E p \in Pick(1..Lines(ax)) :
          /\ InsertLines(s, ax, p, n)
          /\ Log([a |-> "Insert", s |-> s, ax |-> ax, p |-> p, n |-> n])
     \/ \E s \in Pick(DOMAIN sh), ax \in Pick(Axes), n \in Pick(Ns) : \E p \in Pick(1..Lines(ax)) :
          /\ RemoveLines(s, ax, p, n)
          /\ Log([a |-> "Remove", s |-> s, ax |-> ax, p |-> p, n |-> n])
     \/ \E g \in (IF Wide THEN Pick(AllRects) ELSE RectPool), o \in (IF Wide THEN Pick(AllOffsets) ELSE Offsets) :
          /\ MoveRange(1, g, o[1], o[2])
          /\ Log([a |-> "Move", s |-> 1, g |-> g, dr |-> o[1], dc |-> o[2]])
     \/ \E g \in (IF Wide THEN Pick(AllRects) ELSE RectPool), o \in (IF Wide THEN Pick(AllOffsets) ELSE Offsets) :
          /\ CopyRange(1, g, o[1], o[2])
          /\ Log([a |-> "Copy", s |-> 1, g |-> g, dr |-> o[1], dc |-> o[2]])
     \/ \E nc \in (IF Wide THEN Pick(AllNewCells) ELSE NewCells) :
          /\ SetCell(1, nc)
          /\ Log([a |-> "SetCell", s |-> 1, cell |-> nc])
     \/ \E x \in (IF Wide /\ sh[1].cells # {} THEN Pick(sh[1].cells) ELSE sh[1].cells) :
          /\ RemoveCell(1, x.r, x.c)
          /\ Log([a |-> "RemoveCell", s |-> 1, r |-> x.r, c |-> x.c])

MCSpec == MCInit /\ [][MCNext]_mcvars

View == <<sh, last, steps>>

(* the properties, evaluated in every reachable state *)
RemoveUndoesInsert ==
  \A s \in DOMAIN sh, ax \in Axes, n \in Ns : \A p \in 1..Lines(ax) : RemoveUndoesInsertAt(sh[s], ax, p, n)
MoveExact == \A g \in RectPool, o \in Offsets : CanMove(g, o[1], o[2]) => MoveExactAt(sh[1], g, o[1], o[2])
CopyExact == \A g \in RectPool, o \in Offsets : CanMove(g, o[1], o[2]) => CopyExactAt(sh[1], g, o[1], o[2])
OthersUntouchedMC == [][\A t \in DOMAIN sh : t # last'.s => sh'[t] = sh[t]]_mcvars

Emit == (EmitReplay /\ steps = Depth) => PrintT(<<"REPLAY", ToJson(hist)>>)
=============================================================================
