\* behaviours with removals to be run on the real library: every history of <= 3 build actions
\* (SetCell with 2 value classes, RemoveCell, SetActive; 2 sheets, 2x2 window, <= 2 cells at a time)
\* followed by an export with each trim x wrap combination; checks/c20.py keeps those with a RemoveCell
CONSTANTS NSheets = 2 MaxR = 2 MaxC = 2 MaxCells = 2 FreeLen = 0 Escape = FALSE Overwrite = FALSE Record = TRUE
CONSTANTS Values <- RemovalValues FreeAlphabet <- NoFree
SPECIFICATION Spec
CONSTRAINT BuildOnly3
CHECK_DEADLOCK FALSE
