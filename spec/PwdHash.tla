------------------------------ MODULE PwdHash ------------------------------
(***************************************************************************)
(* C15 - protection password verifiers (sheet, workbook, revisions).       *)
(*                                                                         *)
(* Hashing is modelled symbolically: byte strings are TERMS of a free      *)
(* algebra (H = the hash function named by the stored algorithm name, Cat  *)
(* = concatenation, LE32 = 32-bit little-endian counter, U16LE = UTF-16LE  *)
(* encoding of the password, B64Dec / B64Enc = base64).  Two independent   *)
(* descriptions of the ECMA-376 password hash are given and TLC checks     *)
(* that they agree on every reachable state:                               *)
(*   * the state machine hashes the way an implementation does, one spin   *)
(*     per step (BeginSet, SpinStep*, FinishSet);                          *)
(*   * the verifier a consumer of the file applies is the closed term      *)
(*     Verifier(alg, salt, spin, pw) (an Iter node), whose meaning is      *)
(*     Unroll, and the standard's wording is EcmaH.                        *)
(* The very same closed term, with leaves instead of values (Template), is *)
(* emitted as JSON and evaluated with real SHA-512 on the salts and        *)
(* passwords of the recorded runs (pydec/pwdhash_eval.py, a generic term   *)
(* evaluator); Trace_PwdHash compares those evaluations with what the      *)
(* library stored.                                                         *)
(*                                                                         *)
(* Every action is  state' = Post_A(state, args)  with Post_A a plain      *)
(* operator, and every property is a plain predicate parametrised by the   *)
(* digest evaluation D (symbolic here, table look-up in the trace spec).   *)
(***************************************************************************)
EXTENDS Naturals, Sequences, FiniteSets, TLC

CONSTANTS Kinds,        \* protection objects, e.g. {"sheet1","workbook","revisions"}
          Passwords,    \* password atoms (strings)
          Salts,        \* supply of salt atoms (strings); a fresh one is drawn per call
          LegacyVals,   \* values of the legacy 16-bit hash attribute (strings, non-empty)
          SpecAlg,      \* algorithm name the design stores ("SHA-512")
          SpecSpin,     \* spin count the design stores (small in MC, 100000 in the code)
          MaxSets,      \* bound on the number of SetPassword calls
          MaxHist,      \* bound on the recorded history (replay emission)
          NoHash        \* value of an absent hash attribute (a term here, "" in traces)

----------------------------------------------------------------------------
(* terms: every node is a record with field op; children are terms *)
Leaf(n)        == [op |-> "Leaf", name |-> n]        \* bound per evaluation: alg, salt, spin, pw
Val(kind, v)   == [op |-> "Val", kind |-> kind, v |-> v]   \* a concrete atom (MC only), v a string
Int(v)         == [op |-> "Int", v |-> v]
Acc            == [op |-> "Acc"]                     \* loop variable: previous hash
Idx            == [op |-> "Idx"]                     \* loop variable: iteration number
U16LE(x)       == [op |-> "U16LE", x |-> x]
B64Dec(x)      == [op |-> "B64Dec", x |-> x]
B64Enc(x)      == [op |-> "B64Enc", x |-> x]
Cat(x, y)      == [op |-> "Cat", x |-> x, y |-> y]
H(a, x)        == [op |-> "H", alg |-> a, x |-> x]
LE32(n)        == [op |-> "LE32", n |-> n]
(* Iter: acc := init; for k = 0 .. n-1: acc := body[Acc := acc, Idx := first + k]; result acc *)
Iter(n, first, init, body) == [op |-> "Iter", n |-> n, first |-> first, init |-> init, body |-> body]

(* The verifier of ECMA-376 Part 1, 18.2.29 / 18.3.1.85 (hashValue, saltValue, spinCount,
   algorithmName): H0 = H(salt || password as UTF-16LE), Hk = H(H(k-1) || LE32(k-1)) - the counter
   FOLLOWS the previous hash and starts at 0 - hashValue = base64(H(spinCount)). *)
Verifier(a, s, n, p) ==
  B64Enc(Iter(n, Int(0), H(a, Cat(B64Dec(s), U16LE(p))), H(a, Cat(Acc, LE32(Idx)))))

(* what the conformance check evaluates with real hash functions *)
Template == Verifier(Leaf("alg"), Leaf("salt"), Leaf("spin"), Leaf("pw"))

(* the standard's wording, by recursion on the number of spins *)
RECURSIVE EcmaH(_, _, _, _)
EcmaH(a, s, p, k) == IF k = 0 THEN H(a, Cat(B64Dec(s), U16LE(p)))
                     ELSE H(a, Cat(EcmaH(a, s, p, k - 1), LE32(Int(k - 1))))

(* the key-derivation loop of the file-encryption code in the same source file: counter FIRST *)
RECURSIVE KdfH(_, _, _, _)
KdfH(a, s, p, k) == IF k = 0 THEN H(a, Cat(B64Dec(s), U16LE(p)))
                    ELSE H(a, Cat(LE32(Int(k - 1)), KdfH(a, s, p, k - 1)))

(* meaning of Iter *)
RECURSIVE Subst(_, _, _)
Subst(t, acc, idx) ==
  CASE t.op = "Acc"  -> acc
    [] t.op = "Idx"  -> idx
    [] t.op = "H"    -> H(t.alg, Subst(t.x, acc, idx))
    [] t.op = "Cat"  -> Cat(Subst(t.x, acc, idx), Subst(t.y, acc, idx))
    [] t.op = "LE32" -> LE32(Subst(t.n, acc, idx))
    [] t.op \in {"U16LE", "B64Dec", "B64Enc"} -> [t EXCEPT !.x = Subst(@, acc, idx)]
    [] OTHER -> t
RECURSIVE IterRec(_, _, _, _)
IterRec(body, acc, i, n) == IF n = 0 THEN acc ELSE IterRec(body, Subst(body, acc, Int(i)), i + 1, n - 1)
RECURSIVE Unroll(_)
Unroll(t) == CASE t.op = "Iter"   -> IterRec(t.body, t.init, t.first.v, t.n.v)
               [] t.op = "B64Enc" -> B64Enc(Unroll(t.x))
               [] OTHER -> t

(* password atoms a term exposes to somebody who cannot invert H *)
RECURSIVE Exposed(_)
Exposed(t) ==
  CASE t.op = "Val" -> IF t.kind = "pw" THEN {t.v} ELSE {}
    [] t.op = "Cat" -> Exposed(t.x) \cup Exposed(t.y)
    [] t.op \in {"U16LE", "B64Dec", "B64Enc"} -> Exposed(t.x)
    [] OTHER -> {}                                   \* H, LE32, Int, None, ...

(* symbolic digest: the verifier term of concrete atoms, unrolled *)
SymDigest(a, s, n, p) == Unroll(Verifier(Val("alg", a), Val("salt", s), Int(n), Val("pw", p)))

----------------------------------------------------------------------------
(* protection objects *)
Unset == [alg |-> "", salt |-> "", spin |-> 0, hash |-> NoHash, legacy |-> ""]

PostLegacy(p, k, v)        == [p EXCEPT ![k].legacy = v]                 \* set_*_password_raw
PostSet(p, k, a, s, n, h)  == [p EXCEPT ![k] = [alg |-> a, salt |-> s, spin |-> n, hash |-> h,
                                                legacy |-> ""]]          \* set_*_password

(* saving writes an attribute iff it has a value; loading gives absent attributes their default *)
Attrs == {"alg", "salt", "spin", "hash", "legacy"}
HasValue(r, n) == CASE n = "alg" -> r.alg # "" [] n = "salt" -> r.salt # "" [] n = "spin" -> r.spin # 0
                    [] n = "hash" -> r.hash # NoHash [] n = "legacy" -> r.legacy # ""
Written(p)   == [k \in DOMAIN p |-> [has |-> {n \in Attrs : HasValue(p[k], n)}, v |-> p[k]]]
ReadBack(f) == [k \in DOMAIN f |->
                     [alg    |-> IF "alg"    \in f[k].has THEN f[k].v.alg    ELSE "",
                      salt   |-> IF "salt"   \in f[k].has THEN f[k].v.salt   ELSE "",
                      spin   |-> IF "spin"   \in f[k].has THEN f[k].v.spin   ELSE 0,
                      hash   |-> IF "hash"   \in f[k].has THEN f[k].v.hash   ELSE NoHash,
                      legacy |-> IF "legacy" \in f[k].has THEN f[k].v.legacy ELSE ""]]

(* the property, as predicates over a projection p (kind -> record), the kinds whose password
   has been set, their passwords and a digest evaluation D(alg, salt, spin, pw) *)
VerifiesAt(p, k, pw, D(_, _, _, _))   == p[k].hash = D(p[k].alg, p[k].salt, p[k].spin, pw)
OtherFailsAt(p, k, q, D(_, _, _, _))  == p[k].hash # D(p[k].alg, p[k].salt, p[k].spin, q)
VerifiesP(p, set, pws, D(_, _, _, _)) == \A k \in set : VerifiesAt(p, k, pws[k], D)
OthersFailP(p, set, pws, others, D(_, _, _, _)) ==
  \A k \in set : \A q \in others : q # pws[k] => OtherFailsAt(p, k, q, D)
LegacyAbsentP(p, set)  == \A k \in set : p[k].legacy = ""
SurvivesP(before, after, set) == \A k \in set : after[k] = before[k]
NoDup(seq) == \A i, j \in DOMAIN seq : i # j => seq[i] # seq[j]

----------------------------------------------------------------------------
VARIABLES prot,     \* kind -> [alg, salt, spin, hash, legacy]   (the model object)
          isSet,    \* kinds whose password has been set (ghost)
          pwOf,     \* kind -> the password last set (ghost)
          file,     \* [present, parts, setAt, pws]: the saved package (+ ghost: what was set when saving)
          used,     \* sequence of the salts drawn so far (ghost)
          pc, job,  \* the hashing loop: pc \in {"idle","spin"}, job = [kind, pw, salt, acc, i]
          nsets,
          hist      \* history of the public calls (hidden behind VIEW in MC, printed in replay mode)
vars == <<prot, isSet, pwOf, file, used, pc, job, nsets, hist>>
View == <<prot, isSet, pwOf, file, used, pc, job, nsets>>

NoJob == [kind |-> "", pw |-> "", salt |-> "", acc |-> NoHash, i |-> 0]
NoFile == [present |-> FALSE, parts |-> Written([k \in Kinds |-> Unset]), setAt |-> {},
           pws |-> [k \in Kinds |-> ""]]

Init == /\ prot = [k \in Kinds |-> Unset] /\ isSet = {} /\ pwOf = [k \in Kinds |-> ""]
        /\ file = NoFile /\ used = <<>> /\ pc = "idle" /\ job = NoJob /\ nsets = 0 /\ hist = <<>>

Room == pc = "idle" /\ Len(hist) < MaxHist

(* the user stores a legacy 16-bit hash by hand (only meaningful before a password is set) *)
SetLegacy(k, v) ==
  /\ Room /\ k \notin isSet
  /\ prot' = PostLegacy(prot, k, v)
  /\ hist' = Append(hist, [a |-> "Legacy", kind |-> k, v |-> v])
  /\ UNCHANGED <<isSet, pwOf, file, used, pc, job, nsets>>

(* set_password / set_workbook_password / set_revisions_password: a fresh salt, then the loop *)
BeginSet(k, pw) ==
  /\ Room /\ nsets < MaxSets
  /\ \E s \in Salts \ {used[i] : i \in DOMAIN used} :
       /\ job' = [kind |-> k, pw |-> pw, salt |-> s, i |-> 0,
                  acc |-> H(Val("alg", SpecAlg), Cat(B64Dec(Val("salt", s)), U16LE(Val("pw", pw))))]
       /\ used' = Append(used, s)
  /\ pc' = "spin" /\ nsets' = nsets + 1
  /\ hist' = Append(hist, [a |-> "Set", kind |-> k, pw |-> pw])
  /\ UNCHANGED <<prot, isSet, pwOf, file>>
SpinStep ==
  /\ pc = "spin" /\ job.i < SpecSpin
  /\ job' = [job EXCEPT !.acc = H(Val("alg", SpecAlg), Cat(@, LE32(Int(job.i)))), !.i = @ + 1]
  /\ UNCHANGED <<prot, isSet, pwOf, file, used, pc, nsets, hist>>
FinishSet ==
  /\ pc = "spin" /\ job.i = SpecSpin
  /\ prot' = PostSet(prot, job.kind, SpecAlg, job.salt, SpecSpin, B64Enc(job.acc))
  /\ isSet' = isSet \cup {job.kind} /\ pwOf' = [pwOf EXCEPT ![job.kind] = job.pw]
  /\ pc' = "idle" /\ job' = NoJob
  /\ UNCHANGED <<file, used, nsets, hist>>

Save == /\ Room
        /\ file' = [present |-> TRUE, parts |-> Written(prot), setAt |-> isSet, pws |-> pwOf]
        /\ hist' = Append(hist, [a |-> "Save"])
        /\ UNCHANGED <<prot, isSet, pwOf, used, pc, job, nsets>>
Load == /\ Room /\ file.present
        /\ prot' = ReadBack(file.parts)
        /\ isSet' = file.setAt /\ pwOf' = file.pws          \* the loaded workbook is the saved one
        /\ hist' = Append(hist, [a |-> "Load"])
        /\ UNCHANGED <<file, used, pc, job, nsets>>

Next == \/ \E k \in Kinds, v \in LegacyVals : SetLegacy(k, v)
        \/ \E k \in Kinds, pw \in Passwords : BeginSet(k, pw)
        \/ SpinStep \/ FinishSet \/ Save \/ Load
Spec == Init /\ [][Next]_vars

----------------------------------------------------------------------------
(* the property on the model *)
TypeOK == /\ isSet \subseteq Kinds /\ pc \in {"idle", "spin"} /\ nsets \in 0..MaxSets
          /\ \A k \in Kinds : prot[k].spin \in {0, SpecSpin} /\ prot[k].alg \in {"", SpecAlg}

(* the loop computes the standard's H(i); the stored hash is what the verifier term evaluates to *)
LoopIsEcma == pc = "spin" =>
                job.acc = EcmaH(Val("alg", SpecAlg), Val("salt", job.salt), Val("pw", job.pw), job.i)
Verifies   == VerifiesP(prot, isSet, pwOf, SymDigest)
OthersFail == OthersFailP(prot, isSet, pwOf, Passwords, SymDigest)
FreshSalt  == NoDup(used) /\ \A k1, k2 \in isSet : k1 # k2 => prot[k1].salt # prot[k2].salt
LegacyAbsent == LegacyAbsentP(prot, isSet) /\ LegacyAbsentP(ReadBack(file.parts), file.setAt)
(* the saved package carries verifiers that verify, too *)
FileVerifies == /\ VerifiesP(ReadBack(file.parts), file.setAt, file.pws, SymDigest)
                /\ OthersFailP(ReadBack(file.parts), file.setAt, file.pws, Passwords, SymDigest)
NoClearText ==
  /\ \A k \in Kinds : /\ Exposed(prot[k].hash) = {}
                      /\ {prot[k].alg, prot[k].salt, prot[k].legacy} \cap Passwords = {}
                      /\ Exposed(file.parts[k].v.hash) = {}
                      /\ {file.parts[k].v.alg, file.parts[k].v.salt, file.parts[k].v.legacy} \cap Passwords = {}
(* loading what was saved gives back the model that was saved (checked on every reachable model) *)
Survives   == ReadBack(Written(prot)) = prot

(* lemmas about the oracle itself: closed term = standard's wording, and the order matters *)
UnrollIsEcma == \A k \in 0..(SpecSpin + 2) : \A p \in Passwords : \A s \in Salts :
                  Unroll(Verifier(Val("alg", SpecAlg), Val("salt", s), Int(k), Val("pw", p)))
                    = B64Enc(EcmaH(Val("alg", SpecAlg), Val("salt", s), Val("pw", p), k))
OrderMatters == \A k \in 1..(SpecSpin + 2) : \A p \in Passwords : \A s \in Salts :
                  EcmaH(Val("alg", SpecAlg), Val("salt", s), Val("pw", p), k)
                    # KdfH(Val("alg", SpecAlg), Val("salt", s), Val("pw", p), k)
=============================================================================
