CONSTANTS Sharing = "private" Scenario = "overlap" EmitReplay = FALSE
SPECIFICATION MSpec
VIEW View
INVARIANTS OwnStrings PartIffRel NoForeign
PROPERTY Terminates
CHECK_DEADLOCK FALSE
