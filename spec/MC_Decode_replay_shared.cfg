CONSTANTS MaxRow = 1048576 MaxCol = 16384 Wide = FALSE MaxOpts = 1 MaxSst = 0 MaxCells = 0 UseBlock = TRUE MaxAttrs = 0
  Variants = "few" EmitReplay = TRUE
SPECIFICATION MCSpec
INVARIANTS Emit
CHECK_DEADLOCK FALSE
