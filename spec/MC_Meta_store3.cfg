CONSTANTS Design = "own" Depth = 5 MaxSheets = 3 Family = "min" Shape = "free" Wide = FALSE EmitReplay = FALSE
SPECIFICATION MCSpec
VIEW View
INVARIANTS WellFormed RoundTrip Observers
PROPERTIES IndependenceMC ListOpsMC
CHECK_DEADLOCK FALSE
