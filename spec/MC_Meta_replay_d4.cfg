CONSTANTS Design = "own" Depth = 4 MaxSheets = 2 Family = "all" Shape = "sl" Wide = FALSE EmitReplay = TRUE
SPECIFICATION MCSpec
INVARIANTS Emit
CHECK_DEADLOCK FALSE
