\* the design with the observed defect "unwrap" switched in: TLC must report a violation (checks/c13.py expects it)
CONSTANTS BufCap = 2 Deviant = "unwrap" MaxChunk = 3 MaxChunks = 2 PlanMode = "any" EmitReplay = FALSE
SPECIFICATION MCSpec
VIEW View
INVARIANTS ErrorNotPanic
CHECK_DEADLOCK FALSE
