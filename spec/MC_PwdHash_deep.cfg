CONSTANTS
  Kinds = {"sheet1", "workbook", "revisions"}
  Passwords = {"p1", "p2"}
  Salts = {"s1", "s2", "s3", "s4"}
  LegacyVals = {"CC1A"}
  SpecAlg = "SHA-512"
  SpecSpin = 3
  MaxSets = 3
  MaxHist = 100
  NoHash <- MCNoHash
SPECIFICATION Spec
VIEW View
INVARIANTS TypeOK LoopIsEcma Verifies OthersFail FreshSalt LegacyAbsent FileVerifies NoClearText Survives
CHECK_DEADLOCK FALSE
