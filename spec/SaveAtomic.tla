----------------------------- MODULE SaveAtomic -----------------------------
(***************************************************************************)
(* C13: saving to a path is all-or-nothing under I/O failure; saving to a  *)
(* caller-supplied writer that fails returns the error.                    *)
(*                                                                         *)
(* The disk is two files, the destination and the temporary sibling:       *)
(*     disk = [dest |-> F, tmp |-> F]                                      *)
(*     F    = [k |-> "absent"|"old"|"new"|"stale"|"dir"|"torn",            *)
(*             n |-> bytes, junk |-> bytes]                                *)
(* "old" is the complete file that was there before the save, ("new", n)   *)
(* a file opened by this save into which n payload bytes have gone; it is  *)
(* the complete new file iff n = cfg.size and junk = 0.  ("stale", junk =  *)
(* k) is a temporary file of k foreign bytes that an earlier, killed save  *)
(* left behind (cfg.stale = k, 0 = none); junk counts the foreign bytes    *)
(* still in a file beyond what this save has written: opening WITH         *)
(* truncation (PostCreate) empties the file, opening without it            *)
(* (PostOpenKeep) keeps them, and every written byte overwrites one.       *)
(* So the temporary file must be created empty.  (For the sequential writers n  *)
(* is the length of the prefix written; for the compound-file writer it is *)
(* the volume written: both are complete exactly when every write of the   *)
(* fault-free save has been done.)                                         *)
(*                                                                         *)
(* The saver (intended design): create the temporary file, build the       *)
(* payload, hand it chunk by chunk to a writer with a BufCap-byte buffer   *)
(* (a chunk that does not fit flushes the buffer first, a chunk of BufCap  *)
(* bytes or more is written directly), FLUSH EXPLICITLY, rename over the   *)
(* destination, return ok.  Every system call may fail; a write may be     *)
(* short.  Any error leads to removing the temporary file and returning    *)
(* the error.  The process may be killed in any state (Crash): what is in  *)
(* the user-space buffer is lost, the disk stays as the last completed     *)
(* system call left it.                                                    *)
(*                                                                         *)
(* cfg (constant during a behaviour):                                      *)
(*   mode "path"|"sink", chunks (sizes), size = their sum, existed, stale   *)
(*   (bytes of a left-over temporary file, 0 = none),                      *)
(*   buffered (FALSE: every chunk is written directly - the compound-file  *)
(*   writer of the password instances), buildFirst (payload built before   *)
(*   the temporary file is created - password instances)                   *)
(* env: the fault plan. [t |-> "any"] = every result of every call is      *)
(* possible (model checking); the other plans are the faults the check can *)
(* really produce (size limit at byte k, error at the i-th write, failing  *)
(* create/rename/unlink, kill before the j-th call) and make the behaviour *)
(* deterministic: those behaviours are replayed on the library.            *)
(*                                                                         *)
(* Deviant # "none" switches one of the observed defects into the model    *)
(* (MC_SaveAtomic_dev_*.cfg: TLC must find the violation).                 *)
(***************************************************************************)
EXTENDS Naturals, Sequences, FiniteSets, TLC

CONSTANTS BufCap,     \* capacity of the user-space buffer (8192 in the library)
          Deviant     \* "none" | "dropflush" | "unwrap" | "inplace" | "notrunc"

VARIABLES cfg, env, disk, sink, pc, nxt, buf, pend, phase, failed, ret
vars == <<cfg, env, disk, sink, pc, nxt, buf, pend, phase, failed, ret>>

(* ---- files and the file-system semantics of the calls ------------------ *)
Absent    == [k |-> "absent", n |-> 0, junk |-> 0]
Old       == [k |-> "old", n |-> 0, junk |-> 0]
Dir       == [k |-> "dir", n |-> 0, junk |-> 0]
Torn      == [k |-> "torn", n |-> 0, junk |-> 0]
NewPfx(n) == [k |-> "new", n |-> n, junk |-> 0]
Stale(j)  == [k |-> "stale", n |-> 0, junk |-> j]       \* left behind by an earlier save that was killed
Tmp0(c)   == IF c.stale > 0 THEN Stale(c.stale) ELSE Absent

RECURSIVE SumSeq(_)
SumSeq(s) == IF s = <<>> THEN 0 ELSE Head(s) + SumSeq(Tail(s))

Dest0(c)     == IF c.existed THEN Old ELSE Absent
Whole(f, c)  == f = Dest0(c) \/ f = NewPfx(c.size)

(* plain operators: used by the actions below and, on the logged system calls, by Trace_SaveAtomic *)
PostCreate(d, f)   == [d EXCEPT ![f] = NewPfx(0)]                       \* open(O_CREAT|O_TRUNC) = fd
(* open(O_CREAT) without O_TRUNC = fd: an absent file is created empty, the bytes of an existing one stay *)
PostOpenKeep(d, f) == [d EXCEPT ![f] = IF @.k = "absent" THEN NewPfx(0)
                                       ELSE IF @.k = "stale" THEN [k |-> "new", n |-> 0, junk |-> @.junk]
                                       ELSE @]
PostWrite(d, f, m) == IF m = 0 THEN d
                      ELSE [d EXCEPT ![f] = IF @.k = "new"
                                            THEN [k |-> "new", n |-> @.n + m, junk |-> IF @.junk > m THEN @.junk - m ELSE 0]
                                            ELSE Torn]
PostRenameG(d, f, g) == IF f = g THEN d ELSE [d EXCEPT ![g] = d[f], ![f] = Absent]   \* rename(f, g) = 0
PostRename(d)      == PostRenameG(d, "tmp", "dest")
PostUnlink(d, f)   == [d EXCEPT ![f] = Absent]

(* the property on a disk / a returned result *)
NeverTornD(d, c)       == Whole(d.dest, c)
AllOrNothingD(r, d, c) == r = "ok" => d.dest = NewPfx(c.size)
ReturnsD(r)            == r \in {"ok", "err"}                           \* the call returns: no panic

(* ---- the environment ---------------------------------------------------- *)
Target == IF Deviant = "inplace" THEN "dest" ELSE "tmp"
Off    == disk[Target].n                       \* bytes in the file being written

(* may call `call` have result `res` (m bytes written) under the fault plan? *)
ResAllowed(call, res, m) ==
  LET p == env.plan IN
  CASE p.t = "any"  -> TRUE
    [] p.t = "none" -> res = "ok"
    [] p.t = "limit" ->
         IF call # "write" THEN res = "ok"
         ELSE IF Off >= p.k THEN res = "err"
         ELSE IF Off + pend <= p.k THEN res = "ok"
         ELSE res = "short" /\ m = p.k - Off
    [] p.t = "failwrite" ->
         IF call = "write" THEN (IF env.writes + 1 = p.i \/ (p.sticky /\ env.writes + 1 > p.i) THEN res = "err" ELSE res = "ok")
         ELSE IF call = "unlink" /\ p.unlink THEN res = "err"
         ELSE res = "ok"
    [] p.t = "failcall" -> IF call = p.call THEN res = "err" ELSE res = "ok"
    [] p.t = "crash" -> res = "ok"
    [] OTHER -> FALSE
CrashNow   == env.plan.t = "crash" /\ env.calls = env.plan.j
MayCrash   == env.plan.t = "any" \/ CrashNow
Called(w)  == env' = [env EXCEPT !.calls = @ + 1, !.writes = @ + w]

(* ---- the saver, path mode ----------------------------------------------- *)
Create(res) ==
  /\ cfg.mode = "path" /\ pc = "create" /\ ~CrashNow
  /\ ResAllowed("create", res, 0)
  /\ Called(0)
  /\ IF res = "ok"
     THEN /\ disk' = IF Deviant = "notrunc" THEN PostOpenKeep(disk, Target) ELSE PostCreate(disk, Target)
          /\ pc' = IF cfg.buildFirst THEN "write" ELSE "build"
          /\ UNCHANGED <<failed, ret>>
     ELSE /\ IF Deviant = "unwrap" /\ cfg.buildFirst
             THEN ret' = "panic" /\ pc' = "done" /\ UNCHANGED failed
             ELSE failed' = TRUE /\ pc' = "return" /\ UNCHANGED ret
          /\ UNCHANGED disk
  /\ UNCHANGED <<cfg, sink, nxt, buf, pend, phase>>

Build(res) ==
  /\ pc = "build"
  /\ ResAllowed("build", res, 0)
  /\ IF res = "ok"
     THEN pc' = IF cfg.mode = "sink" \/ ~cfg.buildFirst THEN "write" ELSE "create"
     ELSE pc' = IF cfg.mode = "sink" \/ cfg.buildFirst THEN "return" ELSE "cleanup"
  /\ failed' = (failed \/ res = "err")
  /\ UNCHANGED <<cfg, env, disk, sink, nxt, buf, pend, phase, ret>>

(* the writer takes the next chunk *)
Hand ==
  /\ cfg.mode = "path" /\ pc = "write" /\ pend = 0 /\ nxt <= Len(cfg.chunks)
  /\ LET c == cfg.chunks[nxt] IN
       IF cfg.buffered /\ buf > 0 /\ buf + c > BufCap
       THEN pend' = buf /\ phase' = "flushbuf" /\ UNCHANGED <<buf, nxt>>
       ELSE IF ~cfg.buffered \/ c >= BufCap
       THEN pend' = c /\ phase' = "direct" /\ UNCHANGED <<buf, nxt>>
       ELSE buf' = buf + c /\ nxt' = nxt + 1 /\ UNCHANGED <<pend, phase>>
  /\ UNCHANGED <<cfg, env, disk, sink, pc, failed, ret>>

AllHanded ==
  /\ cfg.mode = "path" /\ pc = "write" /\ pend = 0 /\ nxt > Len(cfg.chunks)
  /\ pc' = "flush"
  /\ UNCHANGED <<cfg, env, disk, sink, nxt, buf, pend, phase, failed, ret>>

(* the explicit flush of the intended design *)
Flush ==
  /\ pc = "flush" /\ pend = 0
  /\ IF buf > 0 THEN pend' = buf /\ phase' = "final" /\ UNCHANGED pc
     ELSE pc' = "rename" /\ UNCHANGED <<pend, phase>>
  /\ UNCHANGED <<cfg, env, disk, sink, nxt, buf, failed, ret>>

(* one write system call on the file being written: all of the pending bytes, some of them, or an error *)
SysWrite(res, m) ==
  /\ cfg.mode = "path" /\ pend > 0 /\ pc \in {"write", "flush"} /\ ~CrashNow
  /\ ResAllowed("write", res, m)
  /\ Called(1)
  /\ IF res \in {"ok", "short"}
     THEN /\ (res = "ok" => m = pend) /\ (res = "short" => m \in 1..(pend - 1))
          /\ disk' = PostWrite(disk, Target, m)
          /\ pend' = pend - m
          /\ IF pend - m > 0 THEN UNCHANGED <<buf, nxt, pc>>
             ELSE CASE phase = "flushbuf" -> buf' = 0 /\ UNCHANGED <<nxt, pc>>
                    [] phase = "direct"   -> nxt' = nxt + 1 /\ UNCHANGED <<buf, pc>>
                    [] phase = "final"    -> buf' = 0 /\ pc' = "rename" /\ UNCHANGED nxt
          /\ UNCHANGED <<failed, ret>>
     ELSE /\ pend' = 0
          /\ UNCHANGED <<disk, buf, nxt>>
          /\ IF Deviant = "dropflush" /\ phase = "final"
             THEN pc' = "rename" /\ UNCHANGED <<failed, ret>>           \* the error is dropped with the writer
             ELSE IF Deviant = "unwrap"
             THEN ret' = "panic" /\ pc' = "done" /\ UNCHANGED failed    \* unwrap(): nothing is cleaned up
             ELSE failed' = TRUE /\ pc' = "cleanup" /\ UNCHANGED ret
  /\ UNCHANGED <<cfg, sink, phase>>

Rename(res) ==
  /\ pc = "rename" /\ ~CrashNow
  /\ IF Deviant = "inplace"
     THEN pc' = "return" /\ UNCHANGED <<env, disk, failed>>
     ELSE /\ ResAllowed("rename", res, 0)
          /\ Called(0)
          /\ IF res = "ok" THEN disk' = PostRename(disk) /\ pc' = "return" /\ UNCHANGED failed
             ELSE failed' = TRUE /\ pc' \in {"cleanup", "return"} /\ UNCHANGED disk
  /\ UNCHANGED <<cfg, sink, nxt, buf, pend, phase, ret>>

RemoveTmp(res) ==
  /\ pc = "cleanup" /\ ~CrashNow
  /\ IF Deviant = "inplace" \/ disk.tmp.k # "new"
     THEN UNCHANGED <<env, disk>>
     ELSE /\ ResAllowed("unlink", res, 0)
          /\ Called(0)
          /\ disk' = IF res = "ok" THEN PostUnlink(disk, "tmp") ELSE disk
  /\ pc' = "return"
  /\ UNCHANGED <<cfg, sink, nxt, buf, pend, phase, failed, ret>>

Return ==
  /\ pc = "return"
  /\ ret' = IF failed THEN "err" ELSE "ok"
  /\ pc' = "done"
  /\ UNCHANGED <<cfg, env, disk, sink, nxt, buf, pend, phase, failed>>

(* process kill: the buffer is lost, the disk is what the completed system calls made it *)
Crash ==
  /\ pc \notin {"done", "crashed"} /\ MayCrash
  /\ pc' = "crashed" /\ buf' = 0 /\ pend' = 0
  /\ UNCHANGED <<cfg, env, disk, sink, nxt, phase, failed, ret>>

(* ---- the saver, caller-supplied writer ----------------------------------- *)
SinkHand ==
  /\ cfg.mode = "sink" /\ pc = "write" /\ pend = 0
  /\ IF nxt <= Len(cfg.chunks) THEN pend' = cfg.chunks[nxt] /\ UNCHANGED pc
     ELSE pc' = "return" /\ UNCHANGED pend
  /\ UNCHANGED <<cfg, env, disk, sink, nxt, buf, phase, failed, ret>>

(* one call of the writer: it takes m of the pending bytes, takes nothing (Ok(0)) or fails *)
SinkWrite(res, m) ==
  /\ cfg.mode = "sink" /\ pc = "write" /\ pend > 0
  /\ IF res = "ok"
     THEN /\ m \in 1..pend
          /\ sink' = [sink EXCEPT !.got = @ + m]
          /\ pend' = pend - m
          /\ nxt' = IF pend - m = 0 THEN nxt + 1 ELSE nxt
          /\ UNCHANGED <<pc, failed, ret>>
     ELSE /\ res \in {"err", "zero"}
          /\ sink' = [sink EXCEPT !.bad = TRUE]
          /\ pend' = 0 /\ UNCHANGED nxt
          /\ IF Deviant = "unwrap"
             THEN ret' = "panic" /\ pc' = "done" /\ UNCHANGED failed
             ELSE failed' = TRUE /\ pc' = "return" /\ UNCHANGED ret
  /\ UNCHANGED <<cfg, env, disk, buf, phase>>

Terminated == pc \in {"done", "crashed"} /\ UNCHANGED vars

Results == {"ok", "err"}
(* a planned kill happens as soon as the planned number of system calls has completed *)
Saver ==
  \/ \E r \in Results : Create(r) \/ Build(r) \/ Rename(r) \/ RemoveTmp(r)
  \/ Hand \/ AllHanded \/ Flush \/ Return \/ SinkHand
  \/ \E r \in {"ok", "short", "err"} : \E m \in 0..pend : SysWrite(r, m)
  \/ \E r \in {"ok", "err", "zero"} : \E m \in 0..pend : SinkWrite(r, m)
Next == Crash \/ Terminated \/ (~CrashNow /\ Saver)

(* initial state for a configuration c and a fault plan p *)
InitWith(c, p) ==
  /\ cfg = c
  /\ env = [plan |-> p, calls |-> 0, writes |-> 0]
  /\ disk = [dest |-> Dest0(c), tmp |-> Tmp0(c)]
  /\ sink = [got |-> 0, bad |-> FALSE]
  /\ pc = IF c.mode = "sink" \/ c.buildFirst THEN "build" ELSE "create"
  /\ nxt = 1 /\ buf = 0 /\ pend = 0 /\ phase = "direct" /\ failed = FALSE /\ ret = "none"

(* ---- the property -------------------------------------------------------- *)
(* an observer (or a crash) at any moment: the destination is the complete old or the complete new file *)
NeverTorn     == NeverTornD(disk, cfg)
(* success means the destination holds the complete new file *)
AllOrNothing  == cfg.mode = "path" => AllOrNothingD(ret, disk, cfg)
(* the call returns (ok or err), it does not panic - path and sink *)
ErrorNotPanic == ret # "none" => ReturnsD(ret)
(* a failing caller-supplied writer: its error is what the call returns *)
SinkErrorReturned == cfg.mode = "sink" => /\ (sink.bad /\ ret # "none") => ret = "err"
                                          /\ ret = "ok" => sink.got = cfg.size
(* why it holds: nothing is still in the buffer when success is reported, the destination is only ever
   touched by the rename, a failure is never forgotten *)
NothingBuffered == ret = "ok" => buf = 0 /\ pend = 0
FailureReported == (failed /\ ret # "none") => ret = "err"
OnlyRenameTouchesDest == [][disk'.dest # disk.dest => pc = "rename"]_vars
=============================================================================
