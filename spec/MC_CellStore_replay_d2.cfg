CONSTANTS Wide = FALSE MaxRow = 4 MaxCol = 4 Win = 3 Depth = 2 Pools = "lean" EmitReplay = TRUE
SPECIFICATION MCSpec
INVARIANTS Emit
CHECK_DEADLOCK FALSE
