CONSTANTS MaxRow = 1048576 MaxCol = 16384
  NSheets = {1} Pool = "full" NPos = 1 MaxCells = 1 Depth = 2 MaxSaves = 0 Wide = FALSE Emit = "deviant"
  Dev = {"C01-KF2", "C01-KF3", "C01-KF4"}
SPECIFICATION MCSpec
INVARIANTS EmitInv
CHECK_DEADLOCK FALSE
