------------------------------ MODULE CellVal ------------------------------
(***************************************************************************)
(* X02 - the value/type state machine of a cell under the public setter /  *)
(* getter API of Cell, CellValue and Worksheet (src/structs/cell.rs,       *)
(* cell_value.rs, cell_raw_value.rs, worksheet.rs get_value.. getters).              *)
(*                                                                         *)
(* WHAT A USER OF THE LIBRARY RELIES ON (the properties of this domain)    *)
(*                                                                         *)
(* P1  Getters tell what was set.  After any history of setter calls on    *)
(*     the cells of a sheet, every getter of every cell - at all three     *)
(*     levels: Cell::get_*, CellValue::get_* (Worksheet::get_cell_value),  *)
(*     Worksheet::get_value / get_value_number / get_formatted_value       *)
(*     (General) - returns what the abstract cell below says: the type tag *)
(*     (get_data_type: "" blank, "n", "b", "s", "e"), the value text, the  *)
(*     number (bit-exact), is_error, is_formula / get_formula, the rich    *)
(*     text runs.  A cell that was never touched (or was removed) reads as *)
(*     blank.  An operation on one cell changes no other cell; a copy      *)
(*     (CellValue clone + set_cell_value, Cell clone + set_cell) makes the *)
(*     target read exactly like the source.                                *)
(* P2  The getters are consistent with each other in every reachable       *)
(*     state (ConsistentProj): get_value_number is Some iff the type tag   *)
(*     is "n"; is_error iff the tag is "e"; tag "b" reads TRUE/FALSE;      *)
(*     tag "" reads ""; rich text present implies tag "s" and get_value =  *)
(*     the concatenation of the runs; no formula implies get_formula = ""; *)
(*     a number is finite and its get_value text parses back to the very   *)
(*     same number (NumOk).                                                *)
(* P3  Typed setters never guess: set_value_string(t) gives the text t     *)
(*     whatever t looks like ("", "123", "TRUE", "#N/A" stay texts),       *)
(*     set_value_number / set_value_bool / set_rich_text / set_blank give  *)
(*     exactly their argument, set_error(e) with an error value e of       *)
(*     ECMA-376 18.17.3 gives that error.                                  *)
(* P4  set_value(t) (and set_formula_result_default(t), and the resolution *)
(*     of a lazy value) classify t as the doc comment of set_value says -  *)
(*     a function of the text alone:                                       *)
(*        ""                       -> blank                                *)
(*        "TRUE" | "FALSE"         -> boolean   (exactly these spellings)  *)
(*        an error value           -> error     (ECMA-376 18.17.3: #NULL!  *)
(*                                    #DIV/0! #VALUE! #REF! #NAME? #NUM!   *)
(*                                    #N/A #GETTING_DATA)                  *)
(*        a decimal literal  [+-] (d+ | d+.d* | d*.d+) [e[+-]d+]  whose    *)
(*        value is a finite double -> that number                          *)
(*        anything else            -> the text, unchanged                  *)
(*     so the numbers it accepts are exactly the texts whose number is     *)
(*     finite, and what it stores reads back as a text that set_value      *)
(*     classifies to the same value again (GuessIdempotent).               *)
(* P5  Formula and value.  Decided from the code and the doc comments:     *)
(*     set_value, set_value_string, set_value_number, set_value_bool,      *)
(*     set_rich_text, set_blank make the cell a constant: they DROP the    *)
(*     formula.  set_formula sets the formula text verbatim and KEEPS the  *)
(*     value (the cached result).  set_formula_result_default and          *)
(*     set_error set the cached result and KEEP the formula (the reader    *)
(*     uses them for <v> after <f>).  set_value_lazy stores the text       *)
(*     unresolved and keeps the formula until get_value_lazy resolves it;  *)
(*     resolution = set_value of that text (formula dropped).  A getter    *)
(*     changes nothing, get_value_lazy on a cell that holds no lazy value  *)
(*     included.                                                           *)
(* P6  (cheap probe, C01 is the real check) save + load of the workbook    *)
(*     preserves what every cell reads like; a lazy value is saved as the  *)
(*     value it resolves to; cells without value, formula and style need   *)
(*     not be kept.                                                        *)
(*                                                                         *)
(* THE MODEL.  Texts are sequences of one-character strings (TLC cannot    *)
(* look inside a string).  A value is a record [k, t, n, runs]:            *)
(*   k in {blank, num, bool, str, err, rich, lazy}; t = the characters of  *)
(*   a str / lazy / err / bool value; n = a number; runs = the rich text.  *)
(* A number is an exact decimal [cls, neg, digs, e, bits]: value =         *)
(* (-1)^neg x d.igs x 10^e with digs free of leading and trailing zeros    *)
(* (<<>> = zero; -0 is kept).  For a text of at most 15 significant digits *)
(* and -307 <= e <= 307 this decimal IS the shortest round-trip decimal of *)
(* the double nearest to the text (IEEE 754: DBL_DIG = 15), which is how   *)
(* the real object is observed ({:e} of std); for longer digit strings the *)
(* correctly rounded double (its bit pattern and a shortest round-trip     *)
(* decimal) comes with the step (oracle computed by an independent         *)
(* implementation, CPython's float/repr); it is sanity-checked here        *)
(* (OrcPlausible) and compared with the real number by its bits.           *)
(* A cell is [here, v, f, ft]: exists in the store, value, has a formula,  *)
(* formula text.  Every action is cells' = Post..(cells, args) with plain  *)
(* operators, so that Trace_CellVal.tla evaluates the same operators.      *)
(***************************************************************************)
EXTENDS Integers, Sequences, FiniteSets, TLC

CONSTANTS Pos,        \* the positions (cells of one sheet) the actions address
          Texts,      \* pool of texts (character sequences) for the text-taking setters
          Forms,      \* pool of formula texts
          Nums,       \* pool of numbers for set_value_number
          RichPool,   \* pool of rich texts (sequences of <<text, bold>>)
          OrcOf(_),   \* text -> shortest round-trip decimal of its double (used for long digit strings only)
          Deviant     \* "none" = the intended design; other values: designs TLC must refute (vacuity guards)

VARIABLES cells, last
vars == <<cells, last>>

MinOfSet(S) == CHOOSE x \in S : \A y \in S : x <= y

RECURSIVE Str(_)
Str(cs) == IF cs = <<>> THEN "" ELSE Head(cs) \o Str(Tail(cs))

----------------------------------------------------------------------------
(* ---- decimal literals (the grammar std documents for f64::from_str, which set_value's doc refers to) ---- *)
Digit == {"0", "1", "2", "3", "4", "5", "6", "7", "8", "9"}
DigitVal(c) == CASE c = "0" -> 0 [] c = "1" -> 1 [] c = "2" -> 2 [] c = "3" -> 3 [] c = "4" -> 4
                 [] c = "5" -> 5 [] c = "6" -> 6 [] c = "7" -> 7 [] c = "8" -> 8 [] c = "9" -> 9
AllDigits(s) == \A i \in DOMAIN s : s[i] \in Digit
FirstIn(s, S) == LET I == {i \in DOMAIN s : s[i] \in S} IN IF I = {} THEN 0 ELSE MinOfSet(I)
SignLen(cs)  == IF cs # <<>> /\ cs[1] \in {"+", "-"} THEN 1 ELSE 0
IsNeg(cs)    == cs # <<>> /\ cs[1] = "-"
Body(cs)     == SubSeq(cs, SignLen(cs) + 1, Len(cs))
ExpAt(b)     == FirstIn(b, {"e", "E"})
Mant(b)      == IF ExpAt(b) = 0 THEN b ELSE SubSeq(b, 1, ExpAt(b) - 1)
ExpPart(b)   == SubSeq(b, ExpAt(b) + 1, Len(b))
DotAt(m)     == FirstIn(m, {"."})
IntDigs(m)   == IF DotAt(m) = 0 THEN m ELSE SubSeq(m, 1, DotAt(m) - 1)
FracDigs(m)  == IF DotAt(m) = 0 THEN <<>> ELSE SubSeq(m, DotAt(m) + 1, Len(m))
MantOk(m)    == AllDigits(IntDigs(m)) /\ AllDigits(FracDigs(m)) /\ Len(IntDigs(m)) + Len(FracDigs(m)) >= 1
ExpOk(x)     == LET d == Body(x) IN Len(d) >= 1 /\ AllDigits(d)
IsDecimal(cs) == LET b == Body(cs) IN MantOk(Mant(b)) /\ (ExpAt(b) # 0 => ExpOk(ExpPart(b)))

RECURSIVE StripLZ(_)
StripLZ(ds) == IF ds # <<>> /\ Head(ds) = "0" THEN StripLZ(Tail(ds)) ELSE ds
RECURSIVE StripTZ(_)
StripTZ(ds) == IF ds # <<>> /\ ds[Len(ds)] = "0" THEN StripTZ(SubSeq(ds, 1, Len(ds) - 1)) ELSE ds
RECURSIVE NatOf(_)
NatOf(ds) == IF ds = <<>> THEN 0 ELSE 10 * NatOf(SubSeq(ds, 1, Len(ds) - 1)) + DigitVal(ds[Len(ds)])
(* value of an exponent part; anything beyond six digits is "huge" (far outside the range of a double) *)
ExpVal(x) == LET d == StripLZ(Body(x))
                 m == IF Len(d) > 6 THEN 999999 ELSE NatOf(d)
             IN  IF IsNeg(x) THEN 0 - m ELSE m

(* bits: the bit pattern of the double (16 hex digits) when it came with the step (oracle, set_value_number), ""
   for a decimal derived from a text here.  Shortest round-trip digits are unique up to 15 digits; a 17-digit
   shortest decimal need not be (a double that lies exactly between two 17-digit decimals), so numbers that carry
   their bits are compared by them. *)
Dec(cls, neg, digs, e) == [cls |-> cls, neg |-> neg, digs |-> digs, e |-> e, bits |-> ""]
NoBits(d) == [d EXCEPT !.bits = ""]
NoDec == Dec("none", FALSE, <<>>, 0)
Zero(neg) == Dec("fin", neg, <<>>, 0)

(* the exact decimal a literal denotes *)
DecOf(cs) ==
  LET b   == Body(cs)
      m   == Mant(b)
      all == IntDigs(m) \o FracDigs(m)
      lz  == Len(all) - Len(StripLZ(all))
      sig == StripTZ(StripLZ(all))
      x   == IF ExpAt(b) = 0 THEN 0 ELSE ExpVal(ExpPart(b))
  IN  IF sig = <<>> THEN Zero(IsNeg(cs)) ELSE Dec("fin", IsNeg(cs), sig, Len(IntDigs(m)) - lz - 1 + x)

(* digit strings as decimal fractions 0.d1d2..: a <= b *)
RECURSIVE LexLeq(_, _)
LexLeq(a, b) == IF a = <<>> THEN TRUE
                ELSE IF b = <<>> THEN FALSE
                ELSE IF DigitVal(Head(a)) < DigitVal(Head(b)) THEN TRUE
                ELSE IF DigitVal(Head(a)) > DigitVal(Head(b)) THEN FALSE
                ELSE LexLeq(Tail(a), Tail(b))
MaxDigs  == <<"1", "7", "9", "7", "6", "9", "3", "1", "3", "4", "8", "6", "2", "3", "1", "5", "7">>   \* f64::MAX = 1.7976931348623157e308
OverDigs == <<"1", "7", "9", "7", "6", "9", "3", "1", "3", "4", "8", "6", "2", "3", "1", "5", "9">>   \* rounds to infinity for sure
(* the double nearest to the decimal is: finite for sure / infinite for sure / zero for sure; the narrow bands in
   between (the last ulp below f64::MAX, subnormals) are not decided here: generators stay out of them *)
SureFinite(d) == d.digs = <<>> \/ (d.e < 308 /\ d.e >= -307) \/ (d.e = 308 /\ LexLeq(d.digs, MaxDigs))
SureOver(d)   == d.digs # <<>> /\ (d.e > 308 \/ (d.e = 308 /\ LexLeq(OverDigs, d.digs)))
SureZero(d)   == d.digs # <<>> /\ d.e <= -326
Decided(d)    == SureFinite(d) \/ SureOver(d) \/ SureZero(d)
Short(d)      == Len(d.digs) <= 15
(* the oracle's decimal of a long literal: plausible if it is a finite decimal of at most 17 digits with the same
   sign and the same first 14 digits at the same exponent (rounding carries into the first 14 digits are kept out
   of the generators) *)
Pad14(ds) == [i \in 1..14 |-> IF i <= Len(ds) THEN ds[i] ELSE "0"]
OrcPlausible(d, o) == /\ o.cls = "fin" /\ o.neg = d.neg /\ o.e = d.e
                      /\ AllDigits(o.digs) /\ Len(o.digs) <= 17 /\ o.digs # <<>>
                      /\ StripTZ(StripLZ(o.digs)) = o.digs
                      /\ Pad14(o.digs) = Pad14(d.digs)
(* the number a decimal literal is stored as (a finite one); orc = the oracle's decimal *)
NumberOf(cs, orc) == LET d == DecOf(cs) IN
                     IF SureZero(d) THEN Zero(d.neg) ELSE IF Short(d) THEN d ELSE orc
GenOkNumber(cs, orc) == LET d == DecOf(cs) IN
                        Decided(d) /\ ((SureFinite(d) /\ ~Short(d)) => OrcPlausible(d, orc))

Zeros(n) == [i \in 1..n |-> "0"]
(* the text of a number: positional notation, never an exponent (std's Display of f64) *)
NumChars(d) ==
  (IF d.neg /\ d.cls # "nan" THEN <<"-">> ELSE <<>>) \o
  (CASE d.cls = "inf" -> <<"i", "n", "f">>
     [] d.cls = "nan" -> <<"N", "a", "N">>
     [] OTHER ->
        IF d.digs = <<>> THEN <<"0">>
        ELSE IF d.e >= 0
        THEN LET n == Len(d.digs) IN
             IF n <= d.e + 1 THEN d.digs \o Zeros(d.e + 1 - n)
             ELSE SubSeq(d.digs, 1, d.e + 1) \o <<".">> \o SubSeq(d.digs, d.e + 2, n)
        ELSE <<"0", ".">> \o Zeros(0 - d.e - 1) \o d.digs)

----------------------------------------------------------------------------
(* ---- values ---- *)
V(k, t, n, runs) == [k |-> k, t |-> t, n |-> n, runs |-> runs]
BlankV       == V("blank", <<>>, NoDec, <<>>)
NumV(d)      == V("num", <<>>, d, <<>>)
cTRUE        == <<"T", "R", "U", "E">>
cFALSE       == <<"F", "A", "L", "S", "E">>
BoolV(b)     == V("bool", IF b THEN cTRUE ELSE cFALSE, NoDec, <<>>)
StrV(cs)     == V("str", cs, NoDec, <<>>)
ErrV(cs)     == V("err", cs, NoDec, <<>>)
RichV(runs)  == V("rich", <<>>, NoDec, runs)
LazyV(cs, o) == V("lazy", cs, o, <<>>)           \* (the oracle of the text travels with it until it is resolved)

(* the error values of ECMA-376 Part 1, 18.17.3 *)
EcmaErrors == { <<"#", "N", "U", "L", "L", "!">>, <<"#", "D", "I", "V", "/", "0", "!">>,
                <<"#", "V", "A", "L", "U", "E", "!">>, <<"#", "R", "E", "F", "!">>,
                <<"#", "N", "A", "M", "E", "?">>, <<"#", "N", "U", "M", "!">>, <<"#", "N", "/", "A">>,
                <<"#", "G", "E", "T", "T", "I", "N", "G", "_", "D", "A", "T", "A">> }

(* P4: the classification set_value documents, parameterised by the pieces a deviation may change:
   fold = what the text is compared as (the text itself in the intended design), errs = the error values,
   special = a non-finite number the text is taken as all the same (NoDec in the intended design: none) *)
Classify(cs, orc, fold, errs, special) ==
  IF cs = <<>> THEN BlankV
  ELSE IF fold = cTRUE THEN BoolV(TRUE)
  ELSE IF fold = cFALSE THEN BoolV(FALSE)
  ELSE IF fold \in errs THEN ErrV(fold)
  ELSE IF IsDecimal(cs) /\ ~SureOver(DecOf(cs)) THEN NumV(NumberOf(cs, orc))
  ELSE IF special.cls # "none" THEN NumV(special)
  ELSE StrV(cs)
Guess(cs, orc) == Classify(cs, orc, cs, EcmaErrors, NoDec)

----------------------------------------------------------------------------
(* ---- one cell ---- *)
Cell(here, v, f, ft) == [here |-> here, v |-> v, f |-> f, ft |-> ft]
Absent == Cell(FALSE, BlankV, FALSE, <<>>)
Fresh  == Cell(TRUE, BlankV, FALSE, <<>>)
Touched(c) == IF c.here THEN c ELSE Fresh                    \* Worksheet::get_cell_mut creates the cell
PutValue(c, v)  == [Touched(c) EXCEPT !.v = v, !.f = FALSE, !.ft = <<>>]     \* a constant: the formula goes
PutResult(c, v) == [Touched(c) EXCEPT !.v = v]                               \* a cached result: the formula stays

PSetValue(c, g)     == PutValue(c, g)                        \* g = Guess(text)
PSetString(c, cs)   == PutValue(c, StrV(cs))
PSetNumber(c, d)    == PutValue(c, NumV(d))
PSetBool(c, b)      == IF Deviant = "sticky" THEN PutResult(c, BoolV(b)) ELSE PutValue(c, BoolV(b))
PSetRich(c, runs)   == PutValue(c, RichV(runs))
PSetBlank(c)        == PutValue(c, BlankV)
PSetFormula(c, cs)  == [Touched(c) EXCEPT !.f = TRUE, !.ft = cs]
PRemoveFormula(c)   == [Touched(c) EXCEPT !.f = FALSE, !.ft = <<>>]
PSetResult(c, g)    == PutResult(c, g)                       \* g = Guess(text)
PSetError(c, cs)    == PutResult(c, ErrV(cs))                \* cs an error value
PSetLazy(c, cs, o)  == PutResult(c, LazyV(cs, o))
(* get_value_lazy: G(text, oracle) = the classification used for resolving *)
PGetLazy(c, G(_, _)) == LET t == Touched(c) IN IF t.v.k = "lazy" THEN PutValue(t, G(t.v.t, t.v.n)) ELSE t

(* ---- what the getters return ---- *)
RECURSIVE JoinRuns(_)
JoinRuns(runs) == IF runs = <<>> THEN "" ELSE runs[1][1] \o JoinRuns(Tail(runs))
DataType(v) == CASE v.k = "num" -> "n" [] v.k = "bool" -> "b" [] v.k \in {"str", "rich"} -> "s"
                 [] v.k = "err" -> "e" [] OTHER -> ""
ValueChars(v) == CASE v.k = "num" -> NumChars(v.n) [] v.k \in {"bool", "str", "err"} -> v.t [] OTHER -> <<>>
ValueStr(v) == IF v.k = "rich" THEN JoinRuns(v.runs) ELSE Str(ValueChars(v))
HasNum(v)   == v.k = "num" \/ (Deviant = "strnum" /\ v.k = "str" /\ IsDecimal(v.t))
Rereads(d)  == d.cls = "fin" /\ IsDecimal(NumChars(d)) /\ DecOf(NumChars(d)) = NoBits(d)
(* the projection of a cell through the getters (an absent cell reads like a blank one: Worksheet::get_value,
   get_cell_value).  An unresolved lazy value reads as blank through the plain getters. *)
Proj(c) == [dt |-> DataType(c.v), val |-> ValueStr(c.v), hasnum |-> HasNum(c.v),
            num |-> IF c.v.k = "num" THEN c.v.n ELSE NoDec,
            reread |-> c.v.k = "num" /\ Rereads(c.v.n),
            iserr |-> c.v.k = "err", isf |-> c.f, ft |-> Str(c.ft),
            hasrich |-> c.v.k = "rich", runs |-> IF c.v.k = "rich" THEN c.v.runs ELSE <<>>,
            empty |-> c.v.k = "blank" /\ ~c.f]

(* P2, as a predicate on a projection: the same predicate is applied to what the real object returns *)
ConsistentProj(o) ==
  /\ o.dt \in {"", "n", "b", "s", "e"}
  /\ o.hasnum <=> o.dt = "n"
  /\ o.hasnum <=> o.num.cls # "none"
  /\ o.iserr <=> o.dt = "e"
  /\ o.dt = "b" => o.val \in {"TRUE", "FALSE"}
  /\ o.dt = "" => (o.val = "" /\ ~o.hasrich)
  /\ o.hasrich => (o.dt = "s" /\ o.val = JoinRuns(o.runs))
  /\ ~o.hasrich => o.runs = <<>>
  /\ ~o.isf => o.ft = ""
  /\ o.empty => (o.dt = "" /\ o.val = "" /\ ~o.isf)
NumOk(o) == o.hasnum => (o.num.cls = "fin" /\ o.reread)

----------------------------------------------------------------------------
(* ---- the sheet: Pos -> cell ---- *)
At(cs, p, c) == [cs EXCEPT ![p] = c]
PostTouch(cs, p)              == At(cs, p, Touched(cs[p]))
PostSetValue(cs, p, g)        == At(cs, p, PSetValue(cs[p], g))
PostSetString(cs, p, t)       == At(cs, p, PSetString(cs[p], t))
PostSetNumber(cs, p, d)       == At(cs, p, PSetNumber(cs[p], d))
PostSetBool(cs, p, b)         == At(cs, p, PSetBool(cs[p], b))
PostSetRich(cs, p, runs)      == At(cs, p, PSetRich(cs[p], runs))
PostSetBlank(cs, p)           == At(cs, p, PSetBlank(cs[p]))
PostSetFormula(cs, p, t)      == At(cs, p, PSetFormula(cs[p], t))
PostRemoveFormula(cs, p)      == At(cs, p, PRemoveFormula(cs[p]))
PostSetResult(cs, p, g)       == At(cs, p, PSetResult(cs[p], g))
PostSetError(cs, p, t)        == At(cs, p, PSetError(cs[p], t))
PostSetLazy(cs, p, t, o)      == At(cs, p, PSetLazy(cs[p], t, o))
PostGetLazy(cs, p, G(_, _))   == At(cs, p, PGetLazy(cs[p], G))
PostRemove(cs, p)             == At(cs, p, Absent)                       \* Worksheet::remove_cell
(* CellValue clone + Cell::set_cell_value: value and formula of p (blank if p does not exist) arrive at q *)
PostCopyValue(cs, p, q)       == At(cs, q, [cs[p] EXCEPT !.here = TRUE])
(* Cell clone + Worksheet::set_cell: needs the source cell (without one there is nothing to copy) *)
CanCopyCell(cs, p)            == cs[p].here
PostCopyCell(cs, p, q)        == IF cs[p].here THEN At(cs, q, cs[p]) ELSE cs

(* P6: what a cell is after save + load.  A cell without value and formula (these cells carry no style) need not
   be kept; a lazy value is saved as what it resolves to.  Kept out of the contract: a lazy value under a formula
   (no documented meaning), and what C01 already records as open findings (a rich text as the cached result of a
   formula, a rich text without runs). *)
Blankish(c) == c.v.k = "blank" /\ ~c.f
CanSaveCell(c) == ~c.here \/ (/\ ~(c.v.k \in {"rich", "lazy"} /\ c.f)
                              /\ (c.v.k = "rich" => c.v.runs # <<>>))
CanSave(cs) == \A p \in DOMAIN cs : CanSaveCell(cs[p])
Reloaded(c, G(_, _)) ==
  LET r == IF c.here /\ c.v.k = "lazy" THEN PutValue(c, G(c.v.t, c.v.n)) ELSE c
  IN  IF ~r.here \/ Blankish(r) THEN Absent ELSE r
PostSaveLoad(cs, G(_, _)) == [p \in DOMAIN cs |-> Reloaded(cs[p], G)]

----------------------------------------------------------------------------
(* ---- the state machine ---- *)
ErrPool  == EcmaErrors \cap Texts
Op(a, p, q) == [a |-> a, p |-> p, q |-> q]

Init == cells = [p \in Pos |-> Absent] /\ last = Op("Init", 0, 0)

Touch(p)         == cells' = PostTouch(cells, p) /\ last' = Op("Touch", p, p)
SetValue(p, t)   == cells' = PostSetValue(cells, p, Guess(t, OrcOf(t))) /\ last' = Op("SetValue", p, p)
SetString(p, t)  == cells' = PostSetString(cells, p, t) /\ last' = Op("SetString", p, p)
SetNumber(p, d)  == cells' = PostSetNumber(cells, p, d) /\ last' = Op("SetNumber", p, p)
SetBool(p, b)    == cells' = PostSetBool(cells, p, b) /\ last' = Op("SetBool", p, p)
SetRich(p, r)    == cells' = PostSetRich(cells, p, r) /\ last' = Op("SetRich", p, p)
SetBlank(p)      == cells' = PostSetBlank(cells, p) /\ last' = Op("SetBlank", p, p)
SetFormula(p, t) == cells' = PostSetFormula(cells, p, t) /\ last' = Op("SetFormula", p, p)
RemoveFormula(p) == cells' = PostRemoveFormula(cells, p) /\ last' = Op("RemoveFormula", p, p)
SetResult(p, t)  == cells' = PostSetResult(cells, p, Guess(t, OrcOf(t))) /\ last' = Op("SetResult", p, p)
SetError(p, t)   == cells' = PostSetError(cells, p, t) /\ last' = Op("SetError", p, p)
SetLazy(p, t)    == cells' = PostSetLazy(cells, p, t, OrcOf(t)) /\ last' = Op("SetLazy", p, p)
GetLazy(p)       == cells' = PostGetLazy(cells, p, Guess) /\ last' = Op("GetLazy", p, p)
Remove(p)        == cells' = PostRemove(cells, p) /\ last' = Op("Remove", p, p)
CopyValue(p, q)  == cells' = PostCopyValue(cells, p, q) /\ last' = Op("CopyValue", p, q)
CopyCell(p, q)   == CanCopyCell(cells, p) /\ cells' = PostCopyCell(cells, p, q) /\ last' = Op("CopyCell", p, q)
SaveLoad         == CanSave(cells) /\ cells' = PostSaveLoad(cells, Guess) /\ last' = Op("SaveLoad", 0, 0)

DoTouch         == \E p \in Pos : Touch(p)
DoSetValue      == \E p \in Pos, t \in Texts : SetValue(p, t)
DoSetString     == \E p \in Pos, t \in Texts : SetString(p, t)
DoSetNumber     == \E p \in Pos, d \in Nums : SetNumber(p, d)
DoSetBool       == \E p \in Pos, b \in BOOLEAN : SetBool(p, b)
DoSetRich       == \E p \in Pos, r \in RichPool : SetRich(p, r)
DoSetBlank      == \E p \in Pos : SetBlank(p)
DoSetFormula    == \E p \in Pos, t \in Forms : SetFormula(p, t)
DoRemoveFormula == \E p \in Pos : RemoveFormula(p)
DoSetResult     == \E p \in Pos, t \in Texts : SetResult(p, t)
DoSetError      == \E p \in Pos, t \in ErrPool : SetError(p, t)
DoSetLazy       == \E p \in Pos, t \in Texts : SetLazy(p, t)
DoGetLazy       == \E p \in Pos : GetLazy(p)
DoRemove        == \E p \in Pos : Remove(p)
DoCopyValue     == \E p \in Pos, q \in Pos : CopyValue(p, q)
DoCopyCell      == \E p \in Pos, q \in Pos : CopyCell(p, q)
DoSaveLoad      == SaveLoad

Next == \/ DoTouch \/ DoSetValue \/ DoSetString \/ DoSetNumber \/ DoSetBool \/ DoSetRich \/ DoSetBlank
        \/ DoSetFormula \/ DoRemoveFormula \/ DoSetResult \/ DoSetError \/ DoSetLazy \/ DoGetLazy
        \/ DoRemove \/ DoCopyValue \/ DoCopyCell \/ DoSaveLoad
Spec == Init /\ [][Next]_vars

----------------------------------------------------------------------------
(* ---- the properties ---- *)
Kinds == {"blank", "num", "bool", "str", "err", "rich", "lazy"}
DecOk(d) == d.cls = "fin" /\ AllDigits(d.digs) /\ StripTZ(StripLZ(d.digs)) = d.digs /\ (d.digs = <<>> => d.e = 0)
TypeOK == \A p \in Pos : LET c == cells[p] IN
            /\ c.here \in BOOLEAN /\ c.f \in BOOLEAN /\ c.v.k \in Kinds
            /\ ~c.here => c = Absent
            /\ ~c.f => c.ft = <<>>
            /\ c.v.k = "num" => DecOk(c.v.n)
            /\ c.v.k = "bool" => c.v.t \in {cTRUE, cFALSE}
            /\ c.v.k = "err" => c.v.t \in EcmaErrors
            /\ c.v.k \notin {"num", "lazy"} => c.v.n = NoDec
            /\ c.v.k # "rich" => c.v.runs = <<>>
            /\ c.v.k \in {"blank", "num", "rich"} => c.v.t = <<>>

(* P2 *)
Consistent == \A p \in Pos : ConsistentProj(Proj(cells[p])) /\ NumOk(Proj(cells[p]))

(* P4 on the classification itself, for every text of the pool, in every state (the pool is a constant: checked
   once per state, cheap) *)
TextsOk == \A t \in Texts : (IsDecimal(t) => GenOkNumber(t, OrcOf(t)))
NumbersExactly ==
  \A t \in Texts : LET g == Guess(t, OrcOf(t)) IN
     /\ g.k = "num" <=> (IsDecimal(t) /\ ~SureOver(DecOf(t)))
     /\ g.k = "num" => Rereads(g.n)
     /\ g.k = "str" => g.t = t
     /\ g.k = "blank" <=> t = <<>>
SameValue(a, b) == [a EXCEPT !.n = NoBits(@)] = [b EXCEPT !.n = NoBits(@)]
GuessIdempotent ==
  \A t \in Texts : LET g == Guess(t, OrcOf(t)) IN SameValue(Guess(ValueChars(g), g.n), g)
(* resolving a lazy value = set_value of its text, in every reachable cell state *)
LazyEquiv == \A p \in Pos, t \in Texts :
               PGetLazy(PSetLazy(cells[p], t, OrcOf(t)), Guess) = PSetValue(cells[p], Guess(t, OrcOf(t)))

(* P3 / P5 / independence as properties of every step *)
DropsFormula == {"SetValue", "SetString", "SetNumber", "SetBool", "SetRich", "SetBlank", "RemoveFormula"}
KeepsFormula == {"Touch", "SetResult", "SetError", "SetLazy"}
KeepsValue   == {"Touch", "SetFormula", "RemoveFormula"}
FormulaRule ==
  [][LET p == last'.p
         old == IF last'.a \in {"CopyValue", "CopyCell", "SaveLoad", "Init"} THEN Absent ELSE Touched(cells[p])
         new == IF last'.a \in {"CopyValue", "CopyCell", "SaveLoad", "Init"} THEN Absent ELSE cells'[p]
     IN  /\ last'.a \in DropsFormula => (~new.f /\ new.ft = <<>>)
         /\ last'.a \in KeepsFormula => (new.f = old.f /\ new.ft = old.ft)
         /\ last'.a = "SetFormula" => (new.f /\ new.ft \in Forms)
         /\ last'.a \in KeepsValue => new.v = old.v
         /\ last'.a = "GetLazy" => IF old.v.k = "lazy" THEN ~new.f /\ new.v.k # "lazy" ELSE new = old
         /\ last'.a \notin {"Remove", "CopyValue", "CopyCell", "SaveLoad", "Init"} => new.here]_vars
TypedNeverGuess ==
  [][LET new == cells'[last'.p] IN
       /\ last'.a = "SetString" => (new.v.k = "str" /\ new.v.t \in Texts)
       /\ last'.a = "SetNumber" => (new.v.k = "num" /\ new.v.n \in Nums)
       /\ last'.a = "SetBool"   => new.v.k = "bool"
       /\ last'.a = "SetRich"   => (new.v.k = "rich" /\ new.v.runs \in RichPool)
       /\ last'.a = "SetBlank"  => new.v.k = "blank"
       /\ last'.a = "SetError"  => (new.v.k = "err" /\ new.v.t \in ErrPool)
       /\ last'.a = "SetLazy"   => (new.v.k = "lazy" /\ new.v.t \in Texts)]_vars
Independent ==
  [][last'.a # "SaveLoad" => \A r \in Pos : r # last'.q => cells'[r] = cells[r]]_vars
CopyExact ==
  [][last'.a \in {"CopyValue", "CopyCell"} =>
       /\ Proj(cells'[last'.q]) = Proj(cells[last'.p])
       /\ cells'[last'.q].v = cells[last'.p].v]_vars
(* P6: what a resolved cell reads like is preserved; a lazy value reads after the reload as its resolution *)
SaveLoadKeeps ==
  [][last'.a = "SaveLoad" =>
       \A p \in Pos : Proj(cells'[p]) = IF cells[p].v.k = "lazy" THEN Proj(PGetLazy(cells[p], Guess))
                                        ELSE Proj(cells[p])]_vars
=============================================================================
