------------------------------- MODULE Resave -------------------------------
(***************************************************************************)
(* C04 - re-saving is stable.                                              *)
(*                                                                         *)
(* PART 1 (content, Norm, edits) is written over the *observable content*  *)
(* of a workbook, i.e. the shape of the projection the driver logs through *)
(* public getters:                                                         *)
(*   W = [sheets |-> <<S1, .., Sn>>, plain |-> digest of the plain style,   *)
(*        .. workbook-level fields ..]                                     *)
(*   S = [cells |-> <<cell>>  sorted by (r, c), cell = [r, c, k, v, b, f,   *)
(*                            rt, s]  (k = kind, s = style digest),        *)
(*        rows  |-> <<[r, ht, hid, custom, thick, desc, s]>> sorted by r,   *)
(*        cols  |-> <<[c, w, hid, best, s]>>            sorted by c,        *)
(*        .. annotations: compared as they are ..]                         *)
(* No operator looks at any other field, so the same operators serve the   *)
(* bounded model of PART 2 and the trace specification (real files).       *)
(*                                                                         *)
(* Norm spells out what a save may legitimately normalise:                 *)
(*   - a blank cell without formula and with the plain style is not        *)
(*     content (the writer drops it; the reader may create it);            *)
(*   - a row / column entry whose every attribute has its default value is *)
(*     not content;                                                        *)
(*   - style ids are not part of the projection at all; the style that the *)
(*     workbook's own cell format 0 denotes (digest D) and "no style" are   *)
(*     two representations of the same formatting: both are written as     *)
(*     "no s attribute" (Stylesheet::set_style returns 0 for both).        *)
(***************************************************************************)
EXTENDS Naturals, Sequences, FiniteSets, TLC, SequencesExt

BlankPlain(c, plain) == c.k = "blank" /\ c.f = "" /\ c.s = plain
DefaultRow(x, plain) == x.ht = "0" /\ ~x.hid /\ ~x.custom /\ ~x.thick /\ x.desc = "0" /\ x.s = plain
DefaultCol(x, plain) == x.w = "8.38" /\ ~x.hid /\ ~x.best /\ x.s = plain
Restyle(x, D, plain) == IF x.s = D THEN [x EXCEPT !.s = plain] ELSE x
RestyleAll(q, D, plain) == [i \in DOMAIN q |-> Restyle(q[i], D, plain)]

NormSheet(S, D, plain) ==
  [S EXCEPT !.cells = SelectSeq(RestyleAll(@, D, plain), LAMBDA x : ~BlankPlain(x, plain)),
            !.rows  = SelectSeq(RestyleAll(@, D, plain), LAMBDA x : ~DefaultRow(x, plain)),
            !.cols  = SelectSeq(RestyleAll(@, D, plain), LAMBDA x : ~DefaultCol(x, plain))]
(* D = digest of the style that cell format 0 of the workbook's stylesheet denotes *)
NormWb(W, D) == [W EXCEPT !.sheets = [i \in DOMAIN @ |-> NormSheet(@[i], D, W.plain)]]
Norm(W)      == NormWb(W, W.plain)

(* every style digest that occurs on a cell, row or column *)
(* Range(q) = {q[i] : i \in DOMAIN q} comes with SequencesExt (module Functions) *)
DigestsOfSheet(S) == {x.s : x \in Range(S.cells)} \cup {x.s : x \in Range(S.rows)} \cup {x.s : x \in Range(S.cols)}
Digests(W) == UNION {DigestsOfSheet(W.sheets[i]) : i \in DOMAIN W.sheets}

(* OrigSim: generation 1 equals the original up to Norm.  The digest of cell format 0 of a foreign file *)
(* cannot be read through the public API; it is a digest of the original that no longer occurs in      *)
(* generation 1 (or the plain one): one uniform choice for the whole workbook.                         *)
DCandidates(orig, g1) == (Digests(orig) \ Digests(g1)) \cup {orig.plain}
OrigSimWith(orig, g1, D) == NormWb(orig, D) = Norm(g1)
OrigSimHolds(orig, g1)   == \E D \in DCandidates(orig, g1) : OrigSimWith(orig, g1, D)
ChosenD(orig, g1) == CHOOSE D \in DCandidates(orig, g1) : OrigSimWith(orig, g1, D)

(* a single-cell edit: the cell at (cell.r, cell.c) of sheet s is replaced / created *)
Before(a, b) == a.r < b.r \/ (a.r = b.r /\ a.c < b.c)
SetCellSeq(cs, cell) == SelectSeq(cs, LAMBDA x : Before(x, cell)) \o <<cell>> \o SelectSeq(cs, LAMBDA x : Before(cell, x))
EditWb(W, s, cell) == [W EXCEPT !.sheets[s].cells = SetCellSeq(@, cell)]
(* EditLocal: the saved result of the edited workbook is the saved result of the unedited one with exactly that cell changed *)
EditExpected(g1, s, cell, D) == Norm(EditWb(Norm(g1), s, Restyle(cell, D, g1.plain)))

(* the decoder's view of a file: what must agree between two saves of the same content *)
FileView(f) == [parts |-> f.parts, strings |-> f.strings]

-----------------------------------------------------------------------------
(***************************************************************************)
(* PART 2 - the bounded model: a workbook in memory, the file a save       *)
(* writes and what a load makes of a file, generation after generation.    *)
(*                                                                         *)
(* Style tokens: "P" no style (Style::default()); "L0" the library's own   *)
(* default style (cell format 0 of a workbook the library created; it has  *)
(* the same effective formatting as "P"); "X0" cell format 0 of a foreign  *)
(* file (another default font); "S1", "S2" ordinary styles.                *)
(***************************************************************************)
CONSTANTS MaxGen,          \* number of load/save generations explored
          DropStyledBlank, \* FALSE = the design; TRUE = deviant writer that drops every blank cell (must be refuted)
          ColFold,         \* "adjacent" | "any" (deviant, must be refuted): see FoldCols
          RowSkip          \* "never" | "default" | "forgets-hidden" (deviant, must be refuted): see RowSkipped

Eff(s) == IF s = "L0" THEN "P" ELSE s          \* effective formatting = what the digest is computed from

(* ---- files --------------------------------------------------------------------------------- *)
(* file = [x0, xfs (cell formats 1.., as the styles they denote), sheets: <<[cells: set of raw cells, rows: set]>>,  *)
(*         sst: sequence of texts, extra: set of parts the library does not model, rid: a token that     *)
(*         stands for everything that may differ between two saves without being content]               *)
(* raw cell = [r, c, t ("s" shared string | "n" number | "" none), v (sst index or literal), f, xf (-1 = no s attribute)] *)
StyleOfXf(f, xf) == IF xf = -1 THEN "P" ELSE IF xf = 0 THEN f.x0 ELSE f.xfs[xf]

LoadCell(f, rc) ==
  [r |-> rc.r, c |-> rc.c,
   k |-> IF rc.t = "s" THEN "text" ELSE IF rc.t = "n" THEN "num" ELSE "blank",
   v |-> IF rc.t = "s" THEN f.sst[rc.v] ELSE rc.v,
   f |-> rc.f, s |-> StyleOfXf(f, rc.xf)]
LoadRow(f, rr) == [r |-> rr.r, ht |-> rr.ht, hid |-> rr.hid, s |-> StyleOfXf(f, rr.xf)]
LoadCol(f, cc) == [c |-> cc.c, w |-> cc.w, hid |-> cc.hid, s |-> StyleOfXf(f, cc.xf)]

(* memory = [x0, xfs, sheets: <<[cells: set of cells, rows: set of rows, cols: set of columns]>>, extra] *)
Load(f) ==
  [x0 |-> f.x0, xfs |-> f.xfs, extra |-> f.extra,
   sheets |-> [i \in DOMAIN f.sheets |->
                 [cells |-> {LoadCell(f, rc) : rc \in f.sheets[i].cells},
                  (* the reader creates a row entry for every <row> element *)
                  rows  |-> {LoadRow(f, rr) : rr \in f.sheets[i].rows},
                  (* a <col min max> run declares every column min..max *)
                  cols  |-> UNION {{LoadCol(f, [c |-> k, w |-> cc.w, hid |-> cc.hid, xf |-> cc.xf]) : k \in cc.min..cc.max} :
                                   cc \in f.sheets[i].cols}]]]

(* ---- save ---------------------------------------------------------------------------------- *)
CellLess(a, b) == a.r < b.r \/ (a.r = b.r /\ a.c < b.c)
SortedCells(T) == SetToSortSeq(T, CellLess)
RowLess(a, b)  == a.r < b.r
SortedRows(T)  == SetToSortSeq(T, RowLess)
ColLess(a, b)  == a.c < b.c
SortedCols(T)  == SetToSortSeq(T, ColLess)

(* cells the writer emits (Cell::write_to: nothing for an empty value with an empty style) *)
Written(cs) == {x \in cs : ~(x.k = "blank" /\ x.f = "" /\ (x.s = "P" \/ DropStyledBlank))}
AllWritten(m) == [i \in DOMAIN m.sheets |-> SortedCells(Written(m.sheets[i].cells))]

(* Stylesheet::set_style: 0 for the empty style and for a style equal to cell format 0, else the index of an
   equal entry, else a new entry *)
RECURSIVE InternAll(_, _, _)
InternAll(x0, xfs, styles) ==
  IF styles = <<>> THEN xfs
  ELSE LET s == Head(styles) IN
       IF s = "P" \/ s = x0 \/ (\E j \in DOMAIN xfs : xfs[j] = s)
       THEN InternAll(x0, xfs, Tail(styles))
       ELSE InternAll(x0, Append(xfs, s), Tail(styles))
XfOf(x0, xfs, s) == IF s = "P" \/ s = x0 THEN -1 ELSE CHOOSE j \in DOMAIN xfs : xfs[j] = s

(* the string table of a save is private to it: texts in order of first use *)
RECURSIVE Dedup(_, _)
Dedup(q, acc) == IF q = <<>> THEN acc
                 ELSE IF \E j \in DOMAIN acc : acc[j] = Head(q) THEN Dedup(Tail(q), acc)
                 ELSE Dedup(Tail(q), Append(acc, Head(q)))
Flatten(seqs) == FoldLeft(LAMBDA a, b : a \o b, <<>>, seqs)
TextsOf(q) == [i \in DOMAIN SelectSeq(q, LAMBDA x : x.k = "text") |-> SelectSeq(q, LAMBDA x : x.k = "text")[i].v]
IndexIn(q, t) == CHOOSE j \in DOMAIN q : q[j] = t

(* runs of declared columns with equal properties: ColFold = "adjacent" (the design: a run only continues with the NEXT
   column number), "any" (deviant: the adjacency test is missing, the run jumps over undeclared columns) *)
SameColProps(a, b) == a.w = b.w /\ a.hid = b.hid /\ a.s = b.s
RECURSIVE FoldCols(_, _)
FoldCols(q, acc) ==
  IF q = <<>> THEN acc
  ELSE LET x == Head(q)
           n == Len(acc)
       IN IF n > 0 /\ SameColProps(acc[n].p, x) /\ (ColFold = "any" \/ x.c = acc[n].max + 1)
          THEN FoldCols(Tail(q), [acc EXCEPT ![n].max = x.c])
          ELSE FoldCols(Tail(q), Append(acc, [min |-> x.c, max |-> x.c, p |-> x]))

(* which <row> elements of rows WITHOUT cells the writer leaves out: "never" (the code as it is); "default" (a row
   entry all of whose attributes have their default value: legitimate, Norm does not count such an entry as content);
   "forgets-hidden" (the deviant design: the test for "nothing of its own" looks at height and style only) *)
RowSkipped(x) == CASE RowSkip = "never" -> FALSE
                   [] RowSkip = "default" -> x.ht = "0" /\ x.s = "P" /\ ~x.hid
                   [] RowSkip = "forgets-hidden" -> x.ht = "0" /\ x.s = "P"
Save(m, rid) ==
  LET w     == AllWritten(m)
      rowsq == [i \in DOMAIN m.sheets |-> SortedRows(m.sheets[i].rows)]
      used  == Flatten([i \in DOMAIN w |-> [j \in DOMAIN w[i] |-> w[i][j].s]])
               \o Flatten([i \in DOMAIN rowsq |-> [j \in DOMAIN rowsq[i] |-> rowsq[i][j].s]])
               \o Flatten([i \in DOMAIN m.sheets |-> [j \in DOMAIN SortedCols(m.sheets[i].cols) |-> SortedCols(m.sheets[i].cols)[j].s]])
      xfs2  == InternAll(m.x0, m.xfs, used)
      sst   == Dedup(Flatten([i \in DOMAIN w |-> TextsOf(w[i])]), <<>>)
      rawc(x) == [r |-> x.r, c |-> x.c,
                  t |-> IF x.k = "text" THEN "s" ELSE IF x.k = "num" THEN "n" ELSE "",
                  v |-> IF x.k = "text" THEN IndexIn(sst, x.v) ELSE x.v,
                  f |-> x.f, xf |-> XfOf(m.x0, xfs2, x.s)]
      (* a <row> is written for every row entry and for every row that has a written cell *)
      hascell(i, r) == \E y \in Range(w[i]) : y.r = r
      rowset(i) == {[r |-> x.r, ht |-> x.ht, hid |-> x.hid, xf |-> XfOf(m.x0, xfs2, x.s)] :
                           x \in {y \in m.sheets[i].rows : hascell(i, y.r) \/ ~RowSkipped(y)}}
                   \cup {[r |-> x.r, ht |-> "0", hid |-> FALSE, xf |-> -1] :
                           x \in {y \in Range(w[i]) : ~\E z \in m.sheets[i].rows : z.r = y.r}}
      (* every column entry is written; Columns::write_to folds equal declared columns into one <col min..max> run *)
      colset(i) == {[min |-> g.min, max |-> g.max, w |-> g.p.w, hid |-> g.p.hid, xf |-> XfOf(m.x0, xfs2, g.p.s)] :
                      g \in Range(FoldCols(SortedCols(m.sheets[i].cols), <<>>))}
  IN [x0 |-> m.x0, xfs |-> xfs2, sst |-> sst, extra |-> m.extra, rid |-> rid,
      sheets |-> [i \in DOMAIN m.sheets |-> [cells |-> {rawc(x) : x \in Range(w[i])}, rows |-> rowset(i), cols |-> colset(i)]]]

(* ---- projections ---------------------------------------------------------------------------- *)
ProjCell(x) == [r |-> x.r, c |-> x.c, k |-> x.k, v |-> x.v, b |-> "", f |-> x.f, rt |-> "", s |-> Eff(x.s)]
ProjRow(x)  == [r |-> x.r, ht |-> x.ht, hid |-> x.hid, custom |-> x.ht # "0", thick |-> FALSE, desc |-> "0", s |-> Eff(x.s)]
ProjCol(x)  == [c |-> x.c, w |-> x.w, hid |-> x.hid, best |-> FALSE, s |-> Eff(x.s)]
Proj(m) == [plain |-> "P",
            sheets |-> [i \in DOMAIN m.sheets |->
                          [cells |-> [j \in DOMAIN SortedCells(m.sheets[i].cells) |-> ProjCell(SortedCells(m.sheets[i].cells)[j])],
                           rows  |-> [j \in DOMAIN SortedRows(m.sheets[i].rows) |-> ProjRow(SortedRows(m.sheets[i].rows)[j])],
                           cols  |-> [j \in DOMAIN SortedCols(m.sheets[i].cols) |-> ProjCol(SortedCols(m.sheets[i].cols)[j])]]]]
(* what the independent decoder reports about a file *)
(* the string inventory as a bag: text -> number of items with that text *)
BagOf(q) == [t \in Range(q) |-> Cardinality({j \in DOMAIN q : q[j] = t})]
PartsOf(f) == {"workbook", "styles"} \cup {"sheet" \o ToString(i) : i \in DOMAIN f.sheets}
              \cup (IF f.sst # <<>> THEN {"sharedStrings"} ELSE {}) \cup f.extra
DecoderView(f) == [parts |-> PartsOf(f), strings |-> BagOf(f.sst)]

(* ---- state machine ---------------------------------------------------------------------------- *)
VARIABLES mem,      \* the workbook in memory
          file,     \* the bytes last read or written
          orig,     \* Proj of generation 0 (as loaded from the original file)
          d0,       \* digest of cell format 0 of the original file
          gen,      \* number of save+load generations so far
          edit,     \* <<>> or <<[s, cell]>>: the single-cell edit made between load and first save
          prev,     \* Norm(Proj(mem)) of the previous generation (gen >= 1)
          prevFile  \* DecoderView of the file of the previous generation
vars == <<mem, file, orig, d0, gen, edit, prev, prevFile>>

Open(f) ==
  /\ mem = Load(f) /\ file = f /\ orig = Proj(Load(f)) /\ d0 = Eff(f.x0)
  /\ gen = 0 /\ edit = <<>> /\ prev = Norm(Proj(Load(f))) /\ prevFile = DecoderView(f)

(* Worksheet::get_cell_mut(..).set_value_*: the cell keeps its style; a row entry is created if there is none *)
EditMem(m, s, r, c, k, v) ==
  LET old == {x \in m.sheets[s].cells : x.r = r /\ x.c = c}
      sty == IF old = {} THEN "P" ELSE (CHOOSE x \in old : TRUE).s
      new == [r |-> r, c |-> c, k |-> k, v |-> v, f |-> "", s |-> sty]
  IN [m EXCEPT !.sheets[s].cells = (@ \ old) \cup {new},
               !.sheets[s].rows  = IF \E x \in @ : x.r = r THEN @ ELSE @ \cup {[r |-> r, ht |-> "0", hid |-> FALSE, s |-> "P"]},
               (* ... and a default-valued column entry *)
               !.sheets[s].cols  = IF \E x \in @ : x.c = c THEN @ ELSE @ \cup {[c |-> c, w |-> "8.38", hid |-> FALSE, s |-> "P"]}]
EditedCell(m, s, r, c) == ProjCell(CHOOSE x \in m.sheets[s].cells : x.r = r /\ x.c = c)

EditCell(s, r, c, k, v) ==
  /\ gen = 0 /\ edit = <<>>
  /\ mem' = EditMem(mem, s, r, c, k, v)
  /\ edit' = <<[s |-> s, cell |-> EditedCell(EditMem(mem, s, r, c, k, v), s, r, c)]>>
  /\ UNCHANGED <<file, orig, d0, gen, prev, prevFile>>

Resave(rid) ==
  /\ gen < MaxGen
  /\ file' = Save(mem, rid)
  /\ mem' = Load(Save(mem, rid))
  /\ gen' = gen + 1
  /\ prev' = Norm(Proj(mem))
  /\ prevFile' = DecoderView(file)
  /\ UNCHANGED <<orig, d0, edit>>

(* ---- the properties of C04 --------------------------------------------------------------------- *)
Cur == Norm(Proj(mem))
(* the second generation is a fixed point (content and decoder's view of the file) *)
FixedPoint     == gen >= 2 => Cur = prev
FileFixedPoint == gen >= 2 => DecoderView(file) = prevFile
(* generation 1 equals the original up to Norm *)
OrigSim  == (gen = 1 /\ edit = <<>>) => NormWb(orig, d0) = Cur
(* ... and the trace specification's way of finding d0 is sound on every file of the model *)
OrigSimExists == (gen = 1 /\ edit = <<>>) => (OrigSimHolds(orig, Proj(mem)) /\ OrigSimWith(orig, Proj(mem), ChosenD(orig, Proj(mem))))
(* an edit of one cell changes exactly that cell in the saved result *)
EditLocal == (gen = 1 /\ edit # <<>>) => Cur = EditExpected(NormWb(orig, d0), edit[1].s, edit[1].cell, d0)
(* two saves of the same unchanged workbook: same parts, same content *)
Rids == {"a", "b"}
SaveTwiceSame == \A p, q \in Rids : /\ DecoderView(Save(mem, p)) = DecoderView(Save(mem, q))
                                     /\ Proj(Load(Save(mem, p))) = Proj(Load(Save(mem, q)))
NormIdempotent == Norm(Cur) = Cur
=============================================================================
