CONSTANTS MaxRow = 1048576 MaxCol = 16384 MaxSheets = 2 Depth = 3 Rich = TRUE EmitReplay = TRUE Wide = FALSE
SPECIFICATION MCSpec
INVARIANTS Emit
CHECK_DEADLOCK FALSE
