\* a deviant design (literals are not rendered): TLC must refute LiteralsKept
CONSTANTS I = 4 F = 2 KMax = 4 Block = 20
CONSTANTS Catalogue <- MCCatalogue Starts <- QuickStarts MCDev <- DevLit
SPECIFICATION SpecR
INVARIANTS LiteralsKept
CHECK_DEADLOCK FALSE
