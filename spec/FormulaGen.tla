---------------------------- MODULE FormulaGen ----------------------------
(***************************************************************************)
(* A push-down generator of well-formed formulas (C09, and the palette of  *)
(* C08).  State: the token list written so far, the stack of open          *)
(* parentheses ("fn" | "sub") and what the grammar expects next:           *)
(*   "operand"   an operand start (operand, prefix operator, (, function)  *)
(*   "operand1"  the same, directly after optional blanks (no more blanks) *)
(*   "strict"    directly after an intersection blank: operand, ( or fn    *)
(*   "operator"  an operand has just ended: infix, postfix, separator, ),  *)
(*               intersection, optional blanks, or the end of the formula  *)
(*   "operator1" the same, directly after optional blanks                  *)
(* The accepting states are exactly the well-formed formulas over the      *)
(* lexeme palette (constants).  Independent characterisation checked by    *)
(* TLC: WellFormed (adjacent-pair grammar + balanced parentheses).         *)
(*                                                                         *)
(* Generation class.  Two lexeme classes make the implementation's         *)
(* tokenizer lose the rest of the formula (an apostrophe-quoted sheet name *)
(* and a bracketed reference), a trailing blank makes it panic.  So that   *)
(* the trace specification can state the exact deviant result, at most one *)
(* of these occurs per generated formula and an apostrophe-quoted          *)
(* reference is followed by plain lexemes only (no string, array, error    *)
(* literal, qualified or range reference).  This restricts what is         *)
(* generated, not what is demanded.                                        *)
(***************************************************************************)
EXTENDS Formula

CONSTANTS Operands,     \* set of operand tokens (ref, num, str, name, bool, err, arr, brk)
          FnNames,      \* set of function names
          InfixOps,     \* set of infix operator lexemes
          PrefixOps,    \* subset of {"-", "+"}
          UsePercent,   \* BOOLEAN: postfix %
          UseParens,    \* BOOLEAN: sub-expressions and unions
          BlankRuns,    \* set of lengths of blank runs (e.g. {1, 2}); {} = no blanks
          MaxToks       \* length bound

VARIABLES toks, stack, expect
gvars == <<toks, stack, expect>>

Tok(k, s) == [k |-> k, s |-> s]
Last == toks[Len(toks)]
LastSolidK == LET s == SelectSeq(toks, LAMBDA t : t.k # "ws") IN IF s = <<>> THEN "" ELSE s[Len(s)].k

NonLocal(t) == (t.k = "ref" /\ t.qq) \/ t.k = "brk"
HasNonLocal == \E i \in DOMAIN toks : NonLocal(toks[i])
HasApos     == \E i \in DOMAIN toks : toks[i].k = "ref" /\ toks[i].qq
PlainAfterApos(t) == /\ t.k \notin {"str", "arr", "brk", "err"}
                     /\ t.k = "ref" => (t.qc = <<>> /\ t.g.k = "cell")
ClassOK(t) == /\ NonLocal(t) => ~HasNonLocal
              /\ HasApos => PlainAfterApos(t)

Put(t, e, st) == /\ Len(toks) < MaxToks
                 /\ ClassOK(t)
                 /\ toks' = Append(toks, t) /\ expect' = e /\ stack' = st

WantsOperand == expect \in {"operand", "operand1", "strict"}
WantsOperator == expect \in {"operator", "operator1"}

Operand == WantsOperand /\ \E x \in Operands :
             /\ expect = "strict" => x.k = "ref"         \* an intersection joins references
             /\ Put(x, "operator", stack)
Prefix  == expect \in {"operand", "operand1"} /\ LastSolidK # "pre" /\ \E o \in PrefixOps : Put(Tok("pre", o), "operand", stack)
Open    == UseParens /\ WantsOperand /\ Put(Tok("open", "("), "operand", Append(stack, "sub"))
Fn      == WantsOperand /\ \E f \in FnNames : Put(Tok("fn", f), "operand", Append(stack, "fn"))
Close0  == expect = "operand" /\ toks # <<>> /\ Last.k = "fn"                      \* zero-argument call
           /\ Put(Tok("close", ")"), "operator", SubSeq(stack, 1, Len(stack) - 1))
Infix   == WantsOperator /\ \E o \in InfixOps : Put(Tok("op", o), "operand", stack)
Percent == UsePercent /\ expect = "operator" /\ Last.k # "post" /\ Put(Tok("post", "%"), "operator", stack)
Sep     == WantsOperator /\ stack # <<>> /\ Put(Tok("sep", ","), "operand", stack)
Close   == WantsOperator /\ stack # <<>> /\ Put(Tok("close", ")"), "operator", SubSeq(stack, 1, Len(stack) - 1))
Isect   == expect = "operator" /\ Last.k \in {"ref", "close", "name"} /\ \E b \in BlankRuns : Put([k |-> "isect", n |-> b], "strict", stack)
WsA     == expect = "operand" /\ \E b \in BlankRuns : Put([k |-> "ws", n |-> b], "operand1", stack)
WsB     == expect = "operator" /\ \E b \in BlankRuns : Put([k |-> "ws", n |-> b], "operator1", stack)

GenInit == toks = <<>> /\ stack = <<>> /\ expect = "operand"
GenNext == Operand \/ Prefix \/ Open \/ Fn \/ Close0 \/ Infix \/ Percent \/ Sep \/ Close \/ Isect \/ WsA \/ WsB
GenSpec == GenInit /\ [][GenNext]_gvars

(* a trailing blank is its own class: not together with a quoted sheet name or a bracket *)
Accepting == WantsOperator /\ stack = <<>> /\ (expect = "operator1" => ~HasNonLocal)

---------------------------------------------------------------------------
(* independent characterisation of well-formedness: adjacent pairs + parentheses *)
Solid(f) == SelectSeq(f, LAMBDA t : t.k # "ws")            \* optional blanks are transparent
EndsOperand(t)   == t.k \in {"ref", "num", "str", "name", "bool", "err", "arr", "brk", "close", "post"}
StartsOperand(t) == t.k \in {"ref", "num", "str", "name", "bool", "err", "arr", "brk", "open", "fn", "pre"}
PairOK(a, b) ==
  IF a.k = "isect" THEN b.k \in {"ref", "open", "fn"}
  ELSE IF EndsOperand(a) THEN b.k \in {"op", "sep", "close", "isect"} \/ (b.k = "post" /\ a.k # "post")
  ELSE (* a is op, pre, sep, open or fn *)
       (StartsOperand(b) /\ ~(a.k = "pre" /\ b.k = "pre")) \/ (a.k = "fn" /\ b.k = "close")
RECURSIVE Depths(_, _)      \* parenthesis depth after each token
Depths(f, d) == IF f = <<>> THEN <<>>
                ELSE LET d2 == d + (IF Head(f).k \in {"open", "fn"} THEN 1 ELSE IF Head(f).k = "close" THEN -1 ELSE 0)
                     IN <<d2>> \o Depths(Tail(f), d2)
NoDoubleBlank(f) == \A i \in 1..(Len(f) - 1) : ~(f[i].k \in {"ws", "isect"} /\ f[i + 1].k \in {"ws", "isect"})
(* Which blanks are intersection operators: exactly those between the end of one operand (a reference, a name, *)
(* a literal, the closing parenthesis of a function call or of a sub-expression, %) and the start of the next   *)
(* (an operand, a function call, an opening parenthesis).  Every other blank run is optional white space.        *)
BetweenOperands(f, i) == i > 1 /\ i < Len(f) /\ EndsOperand(f[i - 1]) /\ f[i + 1].k \in {"ref", "num", "str", "name", "bool", "err", "arr", "brk", "open", "fn"}
BlanksClassified(f) == \A i \in DOMAIN f : /\ (f[i].k = "isect" => BetweenOperands(f, i))
                                            /\ (f[i].k = "ws" => ~BetweenOperands(f, i))
WellFormed(f) ==
  LET s == Solid(f)
      d == Depths(s, 0)
  IN /\ s # <<>> /\ StartsOperand(s[1]) /\ EndsOperand(s[Len(s)])
     /\ \A i \in 1..(Len(s) - 1) : PairOK(s[i], s[i + 1])
     /\ \A i \in DOMAIN d : d[i] >= 0
     /\ d[Len(d)] = 0
     /\ \A i \in DOMAIN s : s[i].k = "sep" => d[i] >= 1        \* separators only inside parentheses
     /\ NoDoubleBlank(f)
     /\ \A i \in DOMAIN f : f[i].k = "isect" => (i > 1 /\ i < Len(f) /\ f[i - 1].k \in {"ref", "close", "name"})
     /\ BlanksClassified(f)


(* ---- properties checked by TLC on every reachable generator state ---------- *)
StackMatches == LET d == Depths(toks, 0) IN Len(stack) = (IF d = <<>> THEN 0 ELSE d[Len(d)])
AcceptedAreWellFormed == Accepting => WellFormed(toks)
(* C09, identity: a translation by (0,0) changes no token, and the unchanged text is acceptable *)
Identity == /\ TranslateF(toks, 0, 0) = toks
            /\ Accepts(toks, Render(toks)) /\ Accepts(toks, RenderMin(toks))
(* C09, only relative parts move: stated per coordinate part *)
PartOK(old, new, lock, d) == IF lock THEN new = old ELSE new = old + d
OnlyRelativeAt(t, dc, dr) ==
  LET u == Translate(t, dc, dr) IN
  IF ~IsRef(t) THEN u = t
  ELSE LET g == t.g
           leaves == \/ HasCols(g) /\ (~g.lc1 /\ (g.c1 + dc < 1 \/ g.c1 + dc > MaxCol))
                     \/ HasCols(g) /\ Two(g) /\ (~g.lc2 /\ (g.c2 + dc < 1 \/ g.c2 + dc > MaxCol))
                     \/ HasRows(g) /\ (~g.lr1 /\ (g.r1 + dr < 1 \/ g.r1 + dr > MaxRow))
                     \/ HasRows(g) /\ Two(g) /\ (~g.lr2 /\ (g.r2 + dr < 1 \/ g.r2 + dr > MaxRow))
       IN IF leaves THEN u = RefErr(t)
          ELSE /\ IsRef(u) /\ u.qc = t.qc /\ u.qq = t.qq /\ u.g.k = g.k
               /\ u.g.lc1 = g.lc1 /\ u.g.lr1 = g.lr1 /\ u.g.lc2 = g.lc2 /\ u.g.lr2 = g.lr2
               /\ HasCols(g) => PartOK(g.c1, u.g.c1, g.lc1, dc) /\ (Two(g) => PartOK(g.c2, u.g.c2, g.lc2, dc))
               /\ HasRows(g) => PartOK(g.r1, u.g.r1, g.lr1, dr) /\ (Two(g) => PartOK(g.r2, u.g.r2, g.lr2, dr))
               /\ ~HasCols(g) => (u.g.c1 = g.c1 /\ u.g.c2 = g.c2)
               /\ ~HasRows(g) => (u.g.r1 = g.r1 /\ u.g.r2 = g.r2)
=============================================================================
