CONSTANTS Pos = {1, 2} PoolName = "full" Wide = FALSE Bounded = TRUE Depth = 1 EmitReplay = TRUE Deviant = "none"
CONSTANTS
  Texts <- MCTexts
  Forms <- MCForms
  Nums <- MCNums
  RichPool <- MCRich
  OrcOf <- MCOrc
SPECIFICATION MCSpec
INVARIANTS Emit
CHECK_DEADLOCK FALSE
