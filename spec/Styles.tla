------------------------------- MODULE Styles -------------------------------
(***************************************************************************)
(* C05: styles and dimensions of cells, rows and columns across save and   *)
(* reload; interning of styles into the tables of styles.xml.              *)
(*                                                                         *)
(* A style in *assigned form* is a record of optional components, each     *)
(* <<>> (not given) or <<component>>:                                      *)
(*   font   [name, size, bold, italic, underline, strike, color, sch]      *)
(*   fill   [pattern, fg, bg]                                              *)
(*   border [left, right, top, bottom, diagonal : [style, color], up, down]*)
(*   align  [h, v, wrap, rot]     prot [locked, hidden]                    *)
(*   numFmt [code, id]   id = the numFmtId the format carries: 0 for a     *)
(*          format made through the API (placeholder) or a built-in one,   *)
(*          175 + its position in the numFmts table it was loaded from     *)
(* colours are [argb, theme, tint] (NoColor = none); sizes, tints, heights *)
(* and widths are decimal digit strings (they only travel, nothing is      *)
(* computed from them).  Eff(s) is the *effective* formatting: a component *)
(* that was not given reads as the workbook default (DESIGN Appendix A).   *)
(*                                                                         *)
(* A workbook has one sheet: book = [cells, rows, cols] (finite sets of    *)
(* carriers, keys unique) and a stylesheet ss = [fonts, fills, borders,    *)
(* numFmts, xfs, made]: component tables, cellXfs and the list of styles   *)
(* already mapped to an xf (maked_style_list of the library).              *)
(*   Intern      whole-style lookup by equality, else per-component lookup *)
(*               by key, else append (Stylesheet::set_style)               *)
(*   Reconstruct style of an xf, honouring apply* (get_style_by_cell_format)*)
(*   SaveBook    carriers in the order they are written: column groups     *)
(*               (adjacent equal columns merged into <col min max>), then  *)
(*               row by row the row's style and its cells                  *)
(*   LoadFile    re-expands column groups, maps xf indexes back to styles  *)
(* The key of a component is a parameter: "exact" (intended: the component *)
(* itself) or "concat" (the fields of a font written one after the other   *)
(* without separators, so that the end of the name and the size run into   *)
(* each other) or "trustid" (a custom number format is looked up by the id *)
(* it carries, without comparing codes).  LoadFile has two switches for     *)
(* what a reader may do to a component table on the way in (identity in    *)
(* the intended design).                                                   *)
(* There are NBooks workbook objects: a Style read from one (a template    *)
(* that was saved and loaded, whose styles therefore carry the ids of ITS  *)
(* tables) can be set on a carrier of another one (Import).                *)
(***************************************************************************)
EXTENDS Naturals, Sequences, FiniteSets, TLC, SequencesExt

CONSTANTS KeyMode,      \* "exact" | "concat" | "trustid": the design that the actions below use
          NBooks        \* number of workbook objects

NoColor == [argb |-> "", theme |-> 0, tint |-> "0"]
Edge0   == [style |-> "none", color |-> NoColor]
DefaultFont == [name |-> "Calibri", size |-> "11", bold |-> FALSE, italic |-> FALSE, underline |-> "none",
                strike |-> FALSE, color |-> [argb |-> "", theme |-> 1, tint |-> "0"], sch |-> "minor"]
DefaultFill == [pattern |-> "none", fg |-> NoColor, bg |-> NoColor]
Gray125Fill == [pattern |-> "gray125", fg |-> NoColor, bg |-> NoColor]
DefaultBorder == [left |-> Edge0, right |-> Edge0, top |-> Edge0, bottom |-> Edge0, diagonal |-> Edge0,
                  up |-> FALSE, down |-> FALSE]
DefaultAlign == [h |-> "general", v |-> "bottom", wrap |-> FALSE, rot |-> 0]
DefaultProt  == [locked |-> FALSE, hidden |-> FALSE]
EmptyStyle == [font |-> <<>>, fill |-> <<>>, border |-> <<>>, align |-> <<>>, numFmt |-> <<>>, prot |-> <<>>]

(* ---- effective formatting ------------------------------------------------ *)
Opt(o, d) == IF o = <<>> THEN d ELSE o[1]
EffFont(f) == [name |-> f.name, size |-> f.size, bold |-> f.bold, italic |-> f.italic, underline |-> f.underline,
               strike |-> f.strike, color |-> f.color]
Eff(s) == [font |-> EffFont(Opt(s.font, DefaultFont)), fill |-> Opt(s.fill, DefaultFill),
           border |-> Opt(s.border, DefaultBorder), align |-> Opt(s.align, DefaultAlign),
           numFmt |-> IF s.numFmt = <<>> THEN "General" ELSE s.numFmt[1].code, prot |-> Opt(s.prot, DefaultProt)]
PlainEff == Eff(EmptyStyle)
NoHeight == "0"          \* Row::get_height of a row without a height
StdWidth == "8.38"       \* Column::get_width of a column without a width

NoDescent == "0"         \* Row::get_descent of a row without dyDescent
RowDimmed(y) == y.ht # NoHeight \/ y.hid \/ y.ch \/ y.tb \/ y.dd # NoDescent
ColDimmed(y) == y.w # StdWidth \/ y.hid \/ y.bf
(* what the public getters show of a book: carriers whose formatting or dimension is not the default *)
ProjBook(B) ==
  [cells |-> {[r |-> x.r, c |-> x.c, sty |-> Eff(x.sty)] : x \in {y \in B.cells : Eff(y.sty) # PlainEff}},
   rows  |-> {[r |-> x.r, ht |-> x.ht, hid |-> x.hid, ch |-> x.ch, tb |-> x.tb, dd |-> x.dd, sty |-> Eff(x.sty)] :
                 x \in {y \in B.rows : RowDimmed(y) \/ Eff(y.sty) # PlainEff}},
   cols  |-> {[c |-> x.c, w |-> x.w, hid |-> x.hid, bf |-> x.bf, sty |-> Eff(x.sty)] :
                 x \in {y \in B.cols : ColDimmed(y) \/ Eff(y.sty) # PlainEff}}]
(* every component of a dimension on its own: height, customHeight, hidden, thickBot, dyDescent / width, hidden, bestFit *)
DimsOf(B) == [rows |-> {[r |-> x.r, ht |-> x.ht, hid |-> x.hid, ch |-> x.ch, tb |-> x.tb, dd |-> x.dd] :
                           x \in {y \in B.rows : RowDimmed(y)}},
              cols |-> {[c |-> x.c, w |-> x.w, hid |-> x.hid, bf |-> x.bf] : x \in {y \in B.cols : ColDimmed(y)}}]

EmptyBook == [cells |-> {}, rows |-> {}, cols |-> {}]

(* ---- assignments (public setters) ------------------------------------------ *)
SetCellB(B, r, c, s) == [B EXCEPT !.cells = {x \in @ : ~(x.r = r /\ x.c = c)} \cup {[r |-> r, c |-> c, sty |-> s]}]
(* d = [ht, ch, ord, hid, tb, dd]: the row setters.  A height "0" means set_height is not called (the height   *)
(* stays); set_height switches customHeight on, set_custom_height(ch) is called before it (ord = "ch") or after *)
(* it (ord = "hc"); a descent "0" means set_descent is not called.                                              *)
SetRowB(B, r, d, s) ==
  LET old == {x \in B.rows : x.r = r}
      o   == IF old = {} THEN [ht |-> NoHeight, dd |-> NoDescent] ELSE CHOOSE x \in old : TRUE
      h   == IF d.ht # NoHeight THEN d.ht ELSE o.ht
      ch  == IF d.ord = "ch" /\ d.ht # NoHeight THEN TRUE ELSE d.ch
      dd  == IF d.dd # NoDescent THEN d.dd ELSE o.dd
  IN [B EXCEPT !.rows = (@ \ old) \cup {[r |-> r, ht |-> h, hid |-> d.hid, ch |-> ch, tb |-> d.tb, dd |-> dd, sty |-> s]}]
PlainRowDim == [ht |-> NoHeight, ch |-> FALSE, ord |-> "hc", hid |-> FALSE, tb |-> FALSE, dd |-> NoDescent]
(* d = [w, hid, bf] *)
SetColB(B, c, d, s) ==
  [B EXCEPT !.cols = {x \in @ : x.c # c} \cup {[c |-> c, w |-> d.w, hid |-> d.hid, bf |-> d.bf, sty |-> s]}]
PlainColDim == [w |-> StdWidth, hid |-> FALSE, bf |-> FALSE]
(* only the style of a row / column (get_row_dimension_mut(r).set_style(s)): dimensions stay *)
SetRowStyleB(B, r, s) ==
  LET old == {x \in B.rows : x.r = r}
  IN IF old = {} THEN SetRowB(B, r, PlainRowDim, s)
     ELSE [B EXCEPT !.rows = (@ \ old) \cup {[x EXCEPT !.sty = s] : x \in old}]
SetColStyleB(B, c, s) ==
  LET old == {x \in B.cols : x.c = c}
  IN IF old = {} THEN SetColB(B, c, PlainColDim, s)
     ELSE [B EXCEPT !.cols = (@ \ old) \cup {[x EXCEPT !.sty = s] : x \in old}]
(* Worksheet::get_style: the style of the cell, the empty style where there is no cell *)
StyleAt(B, r, c) == LET m == {x \in B.cells : x.r = r /\ x.c = c} IN IF m = {} THEN EmptyStyle ELSE (CHOOSE x \in m : TRUE).sty
(* an import item [k, r, c, r2, c2]: target carrier (cell (r, c), row r or column c) <- style s *)
ImportB(B, it, s) == IF it.k = "cell" THEN SetCellB(B, it.r, it.c, s)
                     ELSE IF it.k = "row" THEN SetRowStyleB(B, it.r, s) ELSE SetColStyleB(B, it.c, s)

(* ---- the stylesheet ---------------------------------------------------------- *)
MinOfSet(S) == CHOOSE x \in S : \A y \in S : x <= y
T1 == <<TRUE>>
Xf(fo, fi, bo, nu, s) ==
  [font |-> fo, fill |-> fi, border |-> bo, num |-> nu,
   aFont |-> IF s.font = <<>> THEN <<>> ELSE T1, aFill |-> IF s.fill = <<>> THEN <<>> ELSE T1,
   aBorder |-> IF s.border = <<>> THEN <<>> ELSE T1, aNum |-> IF s.numFmt = <<>> THEN <<>> ELSE T1,
   aAlign |-> IF s.align = <<>> THEN <<>> ELSE T1, aProt |-> IF s.prot = <<>> THEN <<>> ELSE T1,
   align |-> s.align, prot |-> s.prot]
GeneralNum == [k |-> "b", code |-> "General", i |-> 0]
Default1 == [EmptyStyle EXCEPT !.font = <<DefaultFont>>, !.fill = <<DefaultFill>>, !.border = <<DefaultBorder>>]
Default2 == [EmptyStyle EXCEPT !.font = <<DefaultFont>>, !.fill = <<Gray125Fill>>, !.border = <<DefaultBorder>>]
(* the stylesheet of a new workbook *)
NewSS == [fonts |-> <<DefaultFont>>, fills |-> <<DefaultFill, Gray125Fill>>, borders |-> <<DefaultBorder>>,
          numFmts |-> <<>>, xfs |-> <<Xf(1, 1, 1, GeneralNum, Default1), Xf(1, 2, 1, GeneralNum, Default2)>>,
          made |-> <<Default1, Default2>>]

(* format codes with a built-in id (the ASCII ones of the library's table) *)
BuiltinCodes == {"General", "0", "0.00", "#,##0", "#,##0.00", "0%", "0.00%", "0.00E+00", "# ?/?", "# ??/??",
                 "m/d/yyyy", "d-mmm-yy", "d-mmm", "mmm-yy", "h:mm AM/PM", "h:mm:ss AM/PM", "h:mm", "h:mm:ss",
                 "m/d/yyyy h:mm", "#,##0_);(#,##0)", "#,##0_);[Red](#,##0)", "#,##0.00_);(#,##0.00)",
                 "#,##0.00_);[Red](#,##0.00)", "mm:ss", "[h]:mm:ss", "mm:ss.0", "##0.0E+0", "@", "[$-404]e/m/d",
                 "m/d/yy", "t0", "t0.00", "t#,##0", "t#,##0.00", "t0%", "t0.00%", "t# ?/?", "t# ??/??"}

(* keys *)
FontKey(km, f) == IF km = "exact" THEN <<"", f>>
                  ELSE <<f.name \o f.size, [f EXCEPT !.name = "", !.size = ""]>>
Same(x) == x

(* first index of tbl whose key equals that of v, 0 if none *)
FirstIdx(tbl, K(_), v) ==
  LET hits == {i \in DOMAIN tbl : K(tbl[i]) = K(v)} IN IF hits = {} THEN 0 ELSE MinOfSet(hits)
(* component lookup: a component that is not given maps to entry 1 *)
InternComp(tbl, opt, K(_)) ==
  IF opt = <<>> THEN [t |-> tbl, i |-> 1]
  ELSE LET h == FirstIdx(tbl, K, opt[1])
       IN IF h # 0 THEN [t |-> tbl, i |-> h] ELSE [t |-> Append(tbl, opt[1]), i |-> Len(tbl) + 1]
(* NumberingFormats::set_style: built-in codes keep their id; a custom code is looked up by its code (the id *)
(* the format carries says nothing about THIS table), else appended under the next id.  The numFmts table   *)
(* holds the custom codes, entry i has id 175 + i.                                                          *)
FirstCustomId == 176
NumOf(code) == [code |-> code, id |-> 0]
InternNum(tbl, opt, km) ==
  IF opt = <<>> THEN [t |-> tbl, n |-> GeneralNum]
  ELSE IF opt[1].code \in BuiltinCodes THEN [t |-> tbl, n |-> [k |-> "b", code |-> opt[1].code, i |-> 0]]
  ELSE IF km = "trustid" /\ opt[1].id >= FirstCustomId /\ (opt[1].id - FirstCustomId + 1) \in DOMAIN tbl
  THEN [t |-> tbl, n |-> [k |-> "c", code |-> "", i |-> opt[1].id - FirstCustomId + 1]]
  ELSE LET c == InternComp(tbl, <<opt[1].code>>, Same) IN [t |-> c.t, n |-> [k |-> "c", code |-> "", i |-> c.i]]

(* Stylesheet::set_style: [ss |-> stylesheet afterwards, x |-> xf index, 0-based] *)
Intern(ss, s, km) ==
  IF s = EmptyStyle THEN [ss |-> ss, x |-> 0]
  ELSE LET hit == FirstIdx(ss.made, Same, s) IN
       IF hit # 0 THEN [ss |-> ss, x |-> hit - 1]
       ELSE LET fo == InternComp(ss.fonts, s.font, LAMBDA f : FontKey(km, f))
                fi == InternComp(ss.fills, s.fill, Same)
                bo == InternComp(ss.borders, s.border, Same)
                nu == InternNum(ss.numFmts, s.numFmt, km)
            IN [ss |-> [fonts |-> fo.t, fills |-> fi.t, borders |-> bo.t, numFmts |-> nu.t,
                        xfs |-> Append(ss.xfs, Xf(fo.i, fi.i, bo.i, nu.n, s)), made |-> Append(ss.made, s)],
                x |-> Len(ss.xfs)]

Apply(flag) == IF flag = <<>> THEN TRUE ELSE flag[1]
NumCode(ss, n) == IF n.k = "b" THEN n.code ELSE ss.numFmts[n.i]
(* the format as the reader hands it out: a custom one carries the id it has in this table *)
NumRead(ss, n) == [code |-> NumCode(ss, n), id |-> IF n.k = "b" THEN 0 ELSE FirstCustomId + n.i - 1]
Reconstruct(ss, xf) ==
  [font   |-> IF Apply(xf.aFont) THEN <<ss.fonts[xf.font]>> ELSE <<>>,
   fill   |-> IF Apply(xf.aFill) THEN <<ss.fills[xf.fill]>> ELSE <<>>,
   border |-> IF Apply(xf.aBorder) THEN <<ss.borders[xf.border]>> ELSE <<>>,
   align  |-> IF Apply(xf.aAlign) THEN xf.align ELSE <<>>,
   numFmt |-> IF Apply(xf.aNum) THEN <<NumRead(ss, xf.num)>> ELSE <<>>,
   prot   |-> IF Apply(xf.aProt) THEN xf.prot ELSE <<>>]
(* the style a carrier with xf index x (0-based) gets on load; no index attribute is written for 0 *)
StyleOfIdx(ss, x) == IF x = 0 THEN EmptyStyle ELSE Reconstruct(ss, ss.xfs[x + 1])
EffOfIdx(ss, x)   == Eff(Reconstruct(ss, ss.xfs[x + 1]))

Sizes(ss) == [fonts |-> Len(ss.fonts), fills |-> Len(ss.fills), borders |-> Len(ss.borders),
              numFmts |-> Len(ss.numFmts), cellXfs |-> Len(ss.xfs), dxfs |-> 0]

(* ---- save ---------------------------------------------------------------------- *)
(* carriers as uniform items [k, a, b, d, hid, fl, sty]: column group a..b, row a, cell (a, b); d = width / height, *)
(* fl = the other dimension components (row: customHeight, thickBot, dyDescent; column: bestFit)                  *)
NoFlags == [ch |-> FALSE, tb |-> FALSE, dd |-> NoDescent, bf |-> FALSE]
ColItem(x)  == [k |-> "col",  a |-> x.c, b |-> x.c, d |-> x.w,  hid |-> x.hid, fl |-> [NoFlags EXCEPT !.bf = x.bf], sty |-> x.sty]
RowItem(x)  == [k |-> "row",  a |-> x.r, b |-> 0,   d |-> x.ht, hid |-> x.hid,
                fl |-> [NoFlags EXCEPT !.ch = x.ch, !.tb = x.tb, !.dd = x.dd], sty |-> x.sty]
CellItem(x) == [k |-> "cell", a |-> x.r, b |-> x.c, d |-> "",   hid |-> FALSE, fl |-> NoFlags, sty |-> x.sty]
(* Columns::write_to: adjacent columns with equal width, hidden flag, bestFit and style become one group *)
RECURSIVE MergeCols(_, _)
MergeCols(done, todo) ==
  IF todo = <<>> THEN done
  ELSE LET x == Head(todo) IN
       IF done # <<>> /\ done[Len(done)].b + 1 = x.a /\ done[Len(done)].d = x.d
          /\ done[Len(done)].hid = x.hid /\ done[Len(done)].fl = x.fl /\ done[Len(done)].sty = x.sty
       THEN MergeCols([done EXCEPT ![Len(done)].b = x.b], Tail(todo))
       ELSE MergeCols(Append(done, x), Tail(todo))
WriteOrder(B) ==
  MergeCols(<<>>, SetToSortSeq({ColItem(x) : x \in B.cols}, LAMBDA p, q : p.a < q.a))
  \o SetToSortSeq({RowItem(x) : x \in B.rows} \cup {CellItem(x) : x \in B.cells},
                  LAMBDA p, q : p.a < q.a \/ (p.a = q.a /\ p.b < q.b))
RECURSIVE InternAll(_, _, _, _)
InternAll(ss, items, km, xs) ==
  IF items = <<>> THEN [ss |-> ss, xs |-> xs]
  ELSE LET r == Intern(ss, Head(items).sty, km) IN InternAll(r.ss, Tail(items), km, Append(xs, r.x))
(* the file: the items with their xf index (sty is kept only to state the properties) and styles.xml *)
SaveBook(B, ss, km) ==
  LET items == WriteOrder(B)
      r     == InternAll(ss, items, km, <<>>)
  IN [items |-> [i \in DOMAIN items |-> [k |-> items[i].k, a |-> items[i].a, b |-> items[i].b, d |-> items[i].d,
                                         hid |-> items[i].hid, fl |-> items[i].fl, sty |-> items[i].sty, x |-> r.xs[i]]],
      ss |-> r.ss]

(* ---- load ---------------------------------------------------------------------- *)
(* what the reader makes of the component tables: identity in the intended design;              *)
(*   autosolid: a pattern fill "none" with a foreground colour is turned into "solid"           *)
(*   nx:        transformation of font names                                                    *)
LoadFill(f, autosolid) == IF autosolid /\ f.pattern = "none" /\ f.fg # NoColor THEN [f EXCEPT !.pattern = "solid"] ELSE f
LoadSS(fs, autosolid, nx(_)) ==
  LET t == [fs EXCEPT !.fonts = [i \in DOMAIN fs.fonts |-> [fs.fonts[i] EXCEPT !.name = nx(fs.fonts[i].name)]],
                      !.fills = [i \in DOMAIN fs.fills |-> LoadFill(fs.fills[i], autosolid)]]
  IN [t EXCEPT !.made = [i \in DOMAIN t.xfs |-> Reconstruct(t, t.xfs[i])]]
LoadFile(F, autosolid, nx(_)) ==
  LET ls == LoadSS(F.ss, autosolid, nx)
      it == F.items
      St(i) == StyleOfIdx(ls, it[i].x)
  IN [book |-> [cells |-> {[r |-> it[i].a, c |-> it[i].b, sty |-> St(i)] : i \in {j \in DOMAIN it : it[j].k = "cell"}},
                rows  |-> {[r |-> it[i].a, ht |-> it[i].d, hid |-> it[i].hid, ch |-> it[i].fl.ch, tb |-> it[i].fl.tb,
                            dd |-> it[i].fl.dd, sty |-> St(i)] :
                              i \in {j \in DOMAIN it : it[j].k = "row"}},
                cols  |-> UNION {{[c |-> n, w |-> it[i].d, hid |-> it[i].hid, bf |-> it[i].fl.bf, sty |-> St(i)] : n \in it[i].a..it[i].b} :
                                   i \in {j \in DOMAIN it : it[j].k = "col"}}],
      ss |-> ls]
Load(F) == LoadFile(F, FALSE, Same)

(* well-formedness *)
BookOK(B) == /\ \A x, y \in B.cells : (x.r = y.r /\ x.c = y.c) => x = y
             /\ \A x, y \in B.rows : x.r = y.r => x = y
             /\ \A x, y \in B.cols : x.c = y.c => x = y
SSOK(s) == /\ Len(s.made) = Len(s.xfs) /\ Len(s.fonts) >= 1 /\ s.fonts[1] = DefaultFont
           /\ Len(s.fills) >= 2 /\ s.fills[1] = DefaultFill /\ Len(s.borders) >= 1 /\ s.borders[1] = DefaultBorder
           /\ \A i \in DOMAIN s.xfs : /\ s.xfs[i].font \in DOMAIN s.fonts /\ s.xfs[i].fill \in DOMAIN s.fills
                                      /\ s.xfs[i].border \in DOMAIN s.borders
                                      /\ (s.xfs[i].num.k = "c" => s.xfs[i].num.i \in DOMAIN s.numFmts)

----------------------------------------------------------------------------
(* a workbook object:                                                                            *)
(*   book   the carriers          given  ghost: the same carriers with the styles as assigned    *)
(*   ss     its stylesheet (tables of a new workbook, or of the file it was loaded from)         *)
(*   file   <<>> or <<the last file written>>                                                    *)
(*   sizes  table sizes of the files written since the last assignment                           *)
NewWb == [book |-> EmptyBook, given |-> EmptyBook, ss |-> NewSS, file |-> <<>>, sizes |-> <<>>]
SetCellW(W, r, c, s)      == [W EXCEPT !.book = SetCellB(@, r, c, s), !.given = SetCellB(@, r, c, s), !.sizes = <<>>]
SetRowW(W, r, d, s) == [W EXCEPT !.book = SetRowB(@, r, d, s), !.given = SetRowB(@, r, d, s), !.sizes = <<>>]
SetColW(W, c, d, s) == [W EXCEPT !.book = SetColB(@, c, d, s), !.given = SetColB(@, c, d, s), !.sizes = <<>>]
ImportW(W, it, s)         == [W EXCEPT !.book = ImportB(@, it, s), !.given = ImportB(@, it, s), !.sizes = <<>>]
(* write_writer works on a copy of the stylesheet: the workbook object does not change *)
SaveW(W, km) == LET F == SaveBook(W.book, W.ss, km) IN [W EXCEPT !.file = <<F>>, !.sizes = Append(@, Sizes(F.ss))]
ReloadW(W)   == LET L == Load(W.file[1]) IN [W EXCEPT !.book = L.book, !.ss = L.ss]

VARIABLE wbs     \* the workbook objects, 1..NBooks
vars == <<wbs>>

Init == wbs = [w \in 1..NBooks |-> NewWb]

SetCell(w, r, c, s)      == wbs' = [wbs EXCEPT ![w] = SetCellW(@, r, c, s)]
SetRow(w, r, d, s) == wbs' = [wbs EXCEPT ![w] = SetRowW(@, r, d, s)]
SetCol(w, c, d, s) == wbs' = [wbs EXCEPT ![w] = SetColW(@, c, d, s)]
(* the Style object of cell (it.r2, it.c2) of workbook v is set on a carrier of workbook w *)
Import(w, v, it)         == wbs' = [wbs EXCEPT ![w] = ImportW(@, it, StyleAt(wbs[v].book, it.r2, it.c2))]
Save(w)   == wbs' = [wbs EXCEPT ![w] = SaveW(@, KeyMode)]
Reload(w) == wbs[w].file # <<>> /\ wbs' = [wbs EXCEPT ![w] = ReloadW(@)]

(* ---- the properties of C05 ------------------------------------------------------ *)
(* every carrier shows the effective formatting and the dimensions it was given *)
FaithfulW(W) == ProjBook(W.book) = ProjBook(W.given)
DimsKeptW(W) == DimsOf(W.book) = DimsOf(W.given)
(* in the file: the xf a carrier points to reconstructs to the carrier's effective formatting ... *)
FaithfulFileW(W) == W.file # <<>> =>
  \A i \in DOMAIN W.file[1].items :
       Eff(StyleOfIdx(W.file[1].ss, W.file[1].items[i].x)) = Eff(W.file[1].items[i].sty)
(* ... and two carriers with different formatting never point to xfs that read back the same *)
NoMergeW(W) == W.file # <<>> =>
  \A i, j \in DOMAIN W.file[1].items :
     Eff(W.file[1].items[i].sty) # Eff(W.file[1].items[j].sty) =>
        Eff(StyleOfIdx(W.file[1].ss, W.file[1].items[i].x)) # Eff(StyleOfIdx(W.file[1].ss, W.file[1].items[j].x))
(* saving again (after a reload, without an assignment in between) does not grow the tables *)
SizesLeq(a, b) == \A k \in DOMAIN a : a[k] <= b[k]
NoGrowthW(W) == \A i, j \in DOMAIN W.sizes : i < j => SizesLeq(W.sizes[j], W.sizes[i])
(* (the intended design even keeps them equal) *)
StableSizesW(W) == \A i, j \in DOMAIN W.sizes : W.sizes[i] = W.sizes[j]
WellFormedW(W) == BookOK(W.book) /\ SSOK(W.ss) /\ (W.file # <<>> => SSOK(W.file[1].ss))

Faithful     == \A w \in DOMAIN wbs : FaithfulW(wbs[w])
DimsKept     == \A w \in DOMAIN wbs : DimsKeptW(wbs[w])
FaithfulFile == \A w \in DOMAIN wbs : FaithfulFileW(wbs[w])
NoMerge      == \A w \in DOMAIN wbs : NoMergeW(wbs[w])
NoGrowth     == \A w \in DOMAIN wbs : NoGrowthW(wbs[w])
StableSizes  == \A w \in DOMAIN wbs : StableSizesW(wbs[w])
WellFormed   == \A w \in DOMAIN wbs : WellFormedW(wbs[w])
=============================================================================
