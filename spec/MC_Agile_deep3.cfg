CONSTANTS
  Passwords = {"p1", "p2"}
  Sizes = {0, 1, 15, 16, 17, 4095, 4096, 4097, 8191, 8192, 8193}
  MaxSaves = 3
  DoTamper = TRUE
  DoEmit = FALSE
SPECIFICATION Spec
INVARIANTS TypeOK Correct LenDeclared WrongPwFails HmacCoversStream Layout SegmentKeysDistinct Fresh
CHECK_DEADLOCK FALSE
