------------------------------ MODULE Agile ------------------------------
(***************************************************************************)
(* ECMA-376 / MS-OFFCRYPTO "agile" encryption of a package, as a symbolic  *)
(* (Dolev-Yao style) model over a free term algebra.                       *)
(*                                                                         *)
(* Two independent descriptions meet here:                                 *)
(*   EncryptFile(pw, n, r)  what the library writes (read off              *)
(*                          src/helper/crypt.rs: encrypt, crypt_package,   *)
(*                          create_iv, convert_password_to_key), every     *)
(*                          field of EncryptionInfo and the whole          *)
(*                          EncryptedPackage stream as a term over atoms   *)
(*                          (password, 5 random values, package bytes);    *)
(*   Prog                   the decryptor of the standard as a *program of *)
(*                          terms* over the fields and parameters found in *)
(*                          a file and a candidate password.               *)
(* TLC checks that Prog inverts EncryptFile (Correct, LenDeclared), that   *)
(* another password is rejected (WrongPwFails), that any change of the     *)
(* stream incl. its length prefix breaks the MAC (HmacCoversStream), the   *)
(* segment arithmetic (Layout) and that no random value is used twice in a *)
(* history of saves (Fresh).                                               *)
(* The same Prog is printed as JSON and *evaluated on the real files* by   *)
(* /verif/pydec/agile_eval.py (hashlib / hmac / OpenSSL AES); the trace    *)
(* specification Trace_Agile compares what it yields with                  *)
(* DecryptResult(EncryptFile(..)) computed here with the real sizes.       *)
(*                                                                         *)
(* Terms are tuples whose first element is the operator name; an operator  *)
(* has a fixed signature, so equality of terms never compares values of    *)
(* different types (TLC stops at the first differing component).           *)
(***************************************************************************)
EXTENDS Naturals, Sequences, FiniteSets, TLC, Json

CONSTANTS Passwords,   \* set of password texts (MC: two of them)
          Sizes,       \* set of package sizes in bytes
          MaxSaves,    \* length of the histories explored
          DoTamper,    \* BOOLEAN: the attacker actions are part of Next
          DoEmit       \* BOOLEAN: print one REPLAY line per complete history

SegSize   == 4096     \* PACKAGE_ENCRYPTION_CHUNK_SIZE / MS-OFFCRYPTO 2.3.4.15
LenPrefix == 8        \* StreamSize field

(* parameters the library writes into EncryptionInfo: "k" = p:encryptedKey, "p" = keyData *)
ParamsOf == [k |-> [spinCount |-> 100000, keyBytes |-> 32, hashSize |-> 64, blockSize |-> 16, saltSize |-> 16],
             p |-> [keyBytes |-> 32, hashSize |-> 64, blockSize |-> 16, saltSize |-> 16]]

BK_VerIn   == <<"hex", "fea7d2763b4b9e79", 8>>
BK_VerVal  == <<"hex", "d7aa0f6d3061344e", 8>>
BK_Key     == <<"hex", "146e0be7abacd0d6", 8>>
BK_HmacKey == <<"hex", "5fb2ad010cb9e1f6", 8>>
BK_HmacVal == <<"hex", "a0677f02b22c8433", 8>>
Empty      == <<"hex", "", 0>>

---------------------------------------------------------------------------
(* constructors: integer-valued terms *)
Int(n)        == <<"int", n>>
Var(v)        == <<"var", v>>
Prm(d, name)  == <<"prm", d, name>>          \* parameter read from the file's XML
Add(a, b)     == <<"Add", a, b>>
Mul(a, b)     == <<"Mul", a, b>>
Sub(a, b)     == <<"Sub", a, b>>
Min2(a, b)    == <<"Min", a, b>>
CeilDiv(a, b) == <<"CeilDiv", a, b>>
Len_(x)       == <<"Len", x>>
UnLE64(x)     == <<"UnLE64", x>>
(* byte-string-valued terms *)
Atom(name, size) == <<"atom", name, size>>
Pw(text, units)  == <<"pw", text, units>>    \* a password: its text and its number of UTF-16 units
Pwd              == <<"pwd">>                \* the candidate password of a decryption
Fld(name)        == <<"fld", name>>          \* a field of the file
H(d, x)          == <<"H", d, x>>
Cat(x, y)        == <<"Cat", x, y>>
CatL(parts)      == <<"CatL", parts>>
LE32(n)          == <<"LE32", n>>
LE64(n)          == <<"LE64", n>>
U16(p)           == <<"U16", p>>             \* UTF-16LE bytes of a password
Spin(d, n, x)    == <<"Spin", d, n, x>>      \* h := x; for i in 0..n-1: h := H(LE32(i) || h)
Fit(x, n)        == <<"Fit", x, n>>          \* truncate to n bytes or pad with 0x36 up to n bytes
Take(x, n)       == <<"Take", x, n>>         \* first n bytes
Enc(d, k, iv, x) == <<"Enc", d, k, iv, x>>   \* cipher of d, CBC, no padding
Dec(d, k, iv, c) == <<"Dec", d, k, iv, c>>
Hmac(d, k, x)    == <<"Hmac", d, k, x>>
PadZero(x, b)    == <<"PadZero", x, b>>      \* zero bytes up to the next multiple of b
Slice(x, a, b)   == <<"Slice", x, a, b>>     \* bytes a .. b-1
CatFor(v, n, body) == <<"CatFor", v, n, body>>   \* body[v:=0] || ... || body[v:=n-1]

N(t) == t[2]                                  \* value of a normal integer term <<"int", n>>

(* LE32 / LE64 at byte level (least significant byte first).  The terms LE32(n), LE64(n) are free     *)
(* constructors; that the byte strings they stand for determine n - in particular that the block key  *)
(* LE32(i) of segment i differs from that of every other segment, also beyond i = 255 and i = 65535 - *)
(* is checked on these definitions (LE32Exact, and the invariant SegmentKeysDistinct).                *)
LE32Bytes(n) == <<n % 256, (n \div 256) % 256, (n \div 65536) % 256, (n \div 16777216) % 256>>
FromLE32(b)  == b[1] + 256 * b[2] + 65536 * b[3] + 16777216 * b[4]
LE32Exact(S) == /\ \A i \in S : FromLE32(LE32Bytes(i)) = i /\ \A k \in 1..4 : LE32Bytes(i)[k] \in 0..255
                /\ \A i, j \in S : i # j => LE32Bytes(i) # LE32Bytes(j)
RoundUp(n, b) == ((n + b - 1) \div b) * b
MinN(a, b) == IF a <= b THEN a ELSE b
MaxN(a, b) == IF a >= b THEN a ELSE b

---------------------------------------------------------------------------
(* The symbolic interpreter: Ev(t, env) is the normal form of t, where        *)
(* env = [file: field name -> normal term, pw: password term, vars].          *)
(* Only identities of byte strings are used:                                  *)
(*   Dec(k,iv,Enc(k,iv,x)) = x;  Fit/Take/Slice of the full length = x;       *)
(*   PadZero of a multiple of the block = x;  Take(PadZero(x),n) = Take(x,n)  *)
(*   for n <= |x|;  slices and prefixes of concatenations by their sizes;     *)
(*   adjacent slices of one atom merge.  Anything else stays a (stuck) term.  *)
RECURSIVE Size(_), Ev(_, _), TakeN(_, _), TakeParts(_, _), SliceN(_, _, _), SliceParts(_, _, _, _),
          MergeL(_), SumSizes(_)

SumSizes(parts) == IF parts = <<>> THEN 0 ELSE Size(Head(parts)) + SumSizes(Tail(parts))

Size(t) ==
  LET op == t[1] IN
  CASE op = "atom"    -> t[3]
    [] op = "hex"     -> t[3]
    [] op = "H"       -> ParamsOf[t[2]].hashSize
    [] op = "Spin"    -> ParamsOf[t[2]].hashSize
    [] op = "Hmac"    -> ParamsOf[t[2]].hashSize
    [] op = "Cat"     -> Size(t[2]) + Size(t[3])
    [] op = "CatL"    -> SumSizes(t[2])
    [] op = "LE32"    -> 4
    [] op = "LE64"    -> 8
    [] op = "U16"     -> 2 * t[2][3]
    [] op = "Fit"     -> N(t[3])
    [] op = "Take"    -> N(t[3])
    [] op = "Enc"     -> Size(t[5])
    [] op = "Dec"     -> Size(t[5])
    [] op = "PadZero" -> RoundUp(Size(t[2]), N(t[3]))
    [] op = "Slice"   -> N(t[4]) - N(t[3])

Wrap(parts) == IF parts = <<>> THEN Empty ELSE IF Len(parts) = 1 THEN parts[1] ELSE CatL(parts)

(* merge adjacent slices of one atom; a slice that is the whole atom is the atom *)
WholeOr(s) == IF s[1] = "Slice" /\ s[2][1] = "atom" /\ N(s[3]) = 0 /\ N(s[4]) = s[2][3] THEN s[2] ELSE s
AsSlice(x) == IF x[1] = "atom" THEN Slice(x, Int(0), Int(x[3])) ELSE x
MergeL(parts) ==
  IF Len(parts) <= 1 THEN [i \in DOMAIN parts |-> WholeOr(parts[i])]
  ELSE LET a == AsSlice(parts[1])
           b == AsSlice(parts[2])
       IN IF a[1] = "Slice" /\ b[1] = "Slice" /\ a[2] = b[2] /\ a[2][1] = "atom" /\ N(a[4]) = N(b[3])
          THEN MergeL(<<Slice(a[2], a[3], b[4])>> \o SubSeq(parts, 3, Len(parts)))
          ELSE <<WholeOr(parts[1])>> \o MergeL(Tail(parts))

TakeParts(parts, n) ==
  IF parts = <<>> \/ n = 0 THEN <<>>
  ELSE LET h == Head(parts) IN
       IF Size(h) <= n THEN <<h>> \o TakeParts(Tail(parts), n - Size(h))
       ELSE <<TakeN(h, n)>>

TakeN(x, n) ==
  IF n = Size(x) THEN x
  ELSE IF n > Size(x) THEN <<"TakeBeyondEnd", x, Int(n)>>
  ELSE IF n = 0 THEN Empty
  ELSE IF x[1] = "CatL" THEN Wrap(MergeL(TakeParts(x[2], n)))
  ELSE IF x[1] = "PadZero" /\ n <= Size(x[2]) THEN TakeN(x[2], n)
  ELSE IF x[1] = "atom" THEN Slice(x, Int(0), Int(n))
  ELSE IF x[1] = "Slice" /\ x[2][1] = "atom" THEN Slice(x[2], x[3], Int(N(x[3]) + n))
  ELSE Take(x, Int(n))

SliceParts(parts, off, a, b) ==
  IF parts = <<>> THEN <<>>
  ELSE LET h == Head(parts)
           s == Size(h) IN
       IF off + s <= a THEN SliceParts(Tail(parts), off + s, a, b)
       ELSE IF off >= b THEN <<>>
       ELSE <<SliceN(h, MaxN(a, off) - off, MinN(b, off + s) - off)>> \o SliceParts(Tail(parts), off + s, a, b)

SliceN(x, a, b) ==
  IF a = 0 /\ b = Size(x) THEN x
  ELSE IF a >= b THEN Empty
  ELSE IF x[1] = "CatL" THEN Wrap(MergeL(SliceParts(x[2], 0, a, b)))
  ELSE IF x[1] = "atom" THEN Slice(x, Int(a), Int(b))
  ELSE IF x[1] = "Slice" /\ x[2][1] = "atom" THEN Slice(x[2], Int(N(x[3]) + a), Int(N(x[3]) + b))
  ELSE Slice(x, Int(a), Int(b))

Ev(t, env) ==
  LET op == t[1] IN
  CASE op = "int"     -> t
    [] op = "var"     -> Int(env.vars[t[2]])
    [] op = "prm"     -> Int(ParamsOf[t[2]][t[3]])
    [] op = "Add"     -> Int(N(Ev(t[2], env)) + N(Ev(t[3], env)))
    [] op = "Mul"     -> Int(N(Ev(t[2], env)) * N(Ev(t[3], env)))
    [] op = "Sub"     -> LET a == N(Ev(t[2], env))
                             b == N(Ev(t[3], env)) IN Int(IF a >= b THEN a - b ELSE 0)
    [] op = "Min"     -> Int(MinN(N(Ev(t[2], env)), N(Ev(t[3], env))))
    [] op = "CeilDiv" -> LET b == N(Ev(t[3], env)) IN Int((N(Ev(t[2], env)) + b - 1) \div b)
    [] op = "Len"     -> Int(Size(Ev(t[2], env)))
    [] op = "UnLE64"  -> LET x == Ev(t[2], env) IN IF x[1] = "LE64" THEN x[2] ELSE UnLE64(x)
    [] op = "fld"     -> env.file[t[2]]
    [] op = "pwd"     -> env.pw
    [] op = "atom"    -> t
    [] op = "hex"     -> t
    [] op = "pw"      -> t
    [] op = "H"       -> H(t[2], Ev(t[3], env))
    [] op = "Cat"     -> Cat(Ev(t[2], env), Ev(t[3], env))
    [] op = "CatL"    -> Wrap(MergeL([i \in DOMAIN t[2] |-> Ev(t[2][i], env)]))
    [] op = "LE32"    -> LE32(Ev(t[2], env))
    [] op = "LE64"    -> LE64(Ev(t[2], env))
    [] op = "U16"     -> U16(Ev(t[2], env))
    [] op = "Spin"    -> Spin(t[2], Ev(t[3], env), Ev(t[4], env))
    [] op = "Hmac"    -> Hmac(t[2], Ev(t[3], env), Ev(t[4], env))
    [] op = "Enc"     -> Enc(t[2], Ev(t[3], env), Ev(t[4], env), Ev(t[5], env))
    [] op = "Dec"     -> LET k  == Ev(t[3], env)
                             iv == Ev(t[4], env)
                             c  == Ev(t[5], env)
                         IN IF c[1] = "Enc" /\ c[2] = t[2] /\ c[3] = k /\ c[4] = iv THEN c[5]
                            ELSE Dec(t[2], k, iv, c)
    [] op = "Fit"     -> LET x == Ev(t[2], env)
                             n == Ev(t[3], env)
                         IN IF Size(x) = N(n) THEN x ELSE Fit(x, n)
    [] op = "Take"    -> TakeN(Ev(t[2], env), N(Ev(t[3], env)))
    [] op = "PadZero" -> LET x == Ev(t[2], env)
                             b == Ev(t[3], env)
                         IN IF Size(x) % N(b) = 0 THEN x ELSE PadZero(x, b)
    [] op = "Slice"   -> SliceN(Ev(t[2], env), N(Ev(t[3], env)), N(Ev(t[4], env)))
    [] op = "CatFor"  -> LET n == N(Ev(t[3], env)) IN
                         IF n = 0 THEN Empty
                         ELSE Wrap(MergeL([i \in 1..n |-> Ev(t[4], [env EXCEPT !.vars = (t[2] :> (i - 1)) @@ @])]))

NoVars == [v \in {} |-> 0]
NoFile == [f \in {} |-> Empty]
Normal(t) == Ev(t, [file |-> NoFile, pw |-> Empty, vars |-> NoVars])

---------------------------------------------------------------------------
(* What the library writes.  pw: password term; n: package size; r: names of the five random     *)
(* values [keySalt, pkgSalt, pkgKey, verIn, hmacKey] drawn by gen_random_16/32/64.               *)
LibDerive(pw, salt, bk) ==          \* convert_password_to_key
  Fit(H("k", Cat(Spin("k", Int(100000), H("k", Cat(salt, U16(pw)))), bk)), Int(32))
LibIV(salt, bk) == Fit(H("p", Cat(salt, bk)), Int(16))                      \* create_iv
NSegOf(n) == (n + SegSize - 1) \div SegSize
LibStream(pkg, n, key, salt) ==     \* crypt_package: 8-byte length, 4096-byte chunks, zero padding to 16
  IF n = 0 THEN LE64(Int(0)) ELSE
  CatL(<<LE64(Int(n))>> \o
       [i \in 1..NSegOf(n) |->
          Enc("p", key, LibIV(salt, LE32(Int(i - 1))),
              PadZero(Slice(pkg, Int(SegSize * (i - 1)), Int(MinN(SegSize * i, n))), Int(16)))])

PkgAtom(n) == Atom("pkg", n)
EncryptFile(pw, n, r) ==
  LET keySalt == Atom(r.keySalt, 16)
      pkgSalt == Atom(r.pkgSalt, 16)
      pkgKey  == Atom(r.pkgKey, 32)
      verIn   == Atom(r.verIn, 16)
      hmacKey == Atom(r.hmacKey, 64)
      stream  == Normal(LibStream(PkgAtom(n), n, pkgKey, pkgSalt))
  IN [keySalt    |-> keySalt,
      pkgSalt    |-> pkgSalt,
      encVerIn   |-> Normal(Enc("k", LibDerive(pw, keySalt, BK_VerIn), keySalt, verIn)),
      encVerVal  |-> Normal(Enc("k", LibDerive(pw, keySalt, BK_VerVal), keySalt, H("k", verIn))),
      encKey     |-> Normal(Enc("k", LibDerive(pw, keySalt, BK_Key), keySalt, pkgKey)),
      encHmacKey |-> Normal(Enc("p", pkgKey, LibIV(pkgSalt, BK_HmacKey), hmacKey)),
      encHmacVal |-> Normal(Enc("p", pkgKey, LibIV(pkgSalt, BK_HmacVal), Hmac("p", hmacKey, stream))),
      stream     |-> stream]

(* The decryptor of the standard (MS-OFFCRYPTO 2.3.4.10-2.3.4.15) as a program of terms over the *)
(* file's fields (Fld), its parameters (Prm) and the candidate password (Pwd).                    *)
StdKey(bk) == Fit(H("k", Cat(Spin("k", Prm("k", "spinCount"), H("k", Cat(Fld("keySalt"), U16(Pwd)))), bk)),
                  Prm("k", "keyBytes"))
StdKeyIV   == Fit(Fld("keySalt"), Prm("k", "blockSize"))
StdIV(bk)  == Fit(H("p", Cat(Fld("pkgSalt"), bk)), Prm("p", "blockSize"))
P_verIn    == Take(Dec("k", StdKey(BK_VerIn), StdKeyIV, Fld("encVerIn")), Prm("k", "saltSize"))
P_verHash  == Take(Dec("k", StdKey(BK_VerVal), StdKeyIV, Fld("encVerVal")), Prm("k", "hashSize"))
P_pkgKey   == Take(Dec("k", StdKey(BK_Key), StdKeyIV, Fld("encKey")), Prm("p", "keyBytes"))
P_hmacKey  == Take(Dec("p", P_pkgKey, StdIV(BK_HmacKey), Fld("encHmacKey")), Prm("p", "hashSize"))
P_hmacVal  == Take(Dec("p", P_pkgKey, StdIV(BK_HmacVal), Fld("encHmacVal")), Prm("p", "hashSize"))
P_declared == UnLE64(Slice(Fld("stream"), Int(0), Int(LenPrefix)))
P_nseg     == CeilDiv(Sub(Len_(Fld("stream")), Int(LenPrefix)), Int(SegSize))
P_segment  == Slice(Fld("stream"), Add(Int(LenPrefix), Mul(Int(SegSize), Var("i"))),
                    Min2(Add(Int(LenPrefix), Mul(Int(SegSize), Add(Var("i"), Int(1)))), Len_(Fld("stream"))))
P_plain    == Take(CatFor("i", P_nseg, Dec("p", P_pkgKey, StdIV(LE32(Var("i"))), P_segment)), P_declared)

Prog == [verLhs   |-> H("k", P_verIn),       \* password verifier: H(verifierHashInput) ...
         verRhs   |-> P_verHash,             \* ... = verifierHashValue
         macLhs   |-> Hmac("p", P_hmacKey, Fld("stream")),   \* HMAC over the whole EncryptedPackage stream
         macRhs   |-> P_hmacVal,
         declared |-> P_declared,
         plain    |-> P_plain,
         keySalt  |-> Fld("keySalt"),        \* the five random values as the file reveals them
         pkgSalt  |-> Fld("pkgSalt"),
         verIn    |-> P_verIn,
         pkgKey   |-> P_pkgKey,
         hmacKey  |-> P_hmacKey]

Whole(n) == IF n = 0 THEN Empty ELSE PkgAtom(n)

DecryptResult(file, pw) ==
  LET env == [file |-> file, pw |-> pw, vars |-> NoVars] IN
  IF Ev(Prog.verLhs, env) # Ev(Prog.verRhs, env) THEN [status |-> "badpw", declared |-> 0, plain |-> Empty]
  ELSE IF Ev(Prog.macLhs, env) # Ev(Prog.macRhs, env) THEN [status |-> "hmac", declared |-> 0, plain |-> Empty]
  ELSE [status |-> "ok", declared |-> N(Ev(Prog.declared, env)), plain |-> Ev(Prog.plain, env)]

Expected(n) == [status |-> "ok", declared |-> n, plain |-> Whole(n)]

(* the random values a decryption with the right password reveals *)
Revealed(file, pw) ==
  LET env == [file |-> file, pw |-> pw, vars |-> NoVars] IN
  [keySalt |-> Ev(Prog.keySalt, env)[2], pkgSalt |-> Ev(Prog.pkgSalt, env)[2], pkgKey |-> Ev(Prog.pkgKey, env)[2],
   verIn |-> Ev(Prog.verIn, env)[2], hmacKey |-> Ev(Prog.hmacKey, env)[2]]

---------------------------------------------------------------------------
(* State machine: a history of saves, then possibly one attack on a stored stream. *)
VARIABLES used,     \* names of the random values drawn so far
          files     \* history: [pw, n, r, file, tampered]
vars == <<used, files>>

RndSet(r) == {r.keySalt, r.pkgSalt, r.pkgKey, r.verIn, r.hmacKey}
FreshRnd(r, u) == Cardinality(RndSet(r)) = 5 /\ RndSet(r) \cap u = {}

(* the fresh-name supply of the model: the k-th drawn value is called "r<k>".  Save does not test  *)
(* freshness (the code does not either): that the supply never repeats is the invariant Fresh;  *)
(* on recorded traces FreshRnd is evaluated on the values found in the real files.              *)
Draw(u) == LET c == Cardinality(u) IN
  [keySalt |-> "r" \o ToString(c + 1), pkgSalt |-> "r" \o ToString(c + 2), pkgKey |-> "r" \o ToString(c + 3),
   verIn |-> "r" \o ToString(c + 4), hmacKey |-> "r" \o ToString(c + 5)]

PwTerm(p) == Pw(p, 1)

Post_Save(u, fs, pw, n, r) ==
  [used  |-> u \cup RndSet(r),
   files |-> Append(fs, [pw |-> pw, n |-> n, r |-> r, file |-> EncryptFile(pw, n, r), tampered |-> FALSE])]

Untampered == \A i \in DOMAIN files : ~files[i].tampered
History == [i \in DOMAIN files |-> [pw |-> files[i].pw[2], size |-> files[i].n]]

Save(p, n) ==
  /\ Len(files) < MaxSaves
  /\ Untampered
  /\ LET r  == Draw(used)
         st == Post_Save(used, files, PwTerm(p), n, r)
     IN /\ used' = st.used
        /\ files' = st.files
        /\ (DoEmit /\ Len(files) + 1 = MaxSaves) =>
              PrintT(<<"REPLAY", ToJson([i \in 1..MaxSaves |->
                         IF i < MaxSaves THEN History[i] ELSE [pw |-> p, size |-> n]])>>)

(* attacks on the stored EncryptedPackage stream: parts[1] is the length prefix *)
Parts(st) == IF st[1] = "CatL" THEN st[2] ELSE <<st>>
TamperLen(i) ==
  /\ DoTamper /\ Untampered /\ i \in DOMAIN files
  /\ LET ps == Parts(files[i].file.stream) IN
     files' = [files EXCEPT ![i].tampered = TRUE,
                            ![i].file.stream = Wrap(<<LE64(Int(files[i].n + 1))>> \o Tail(ps))]
  /\ UNCHANGED used
TamperDrop(i) ==
  /\ DoTamper /\ Untampered /\ i \in DOMAIN files
  /\ LET ps == Parts(files[i].file.stream) IN
     /\ Len(ps) >= 2
     /\ files' = [files EXCEPT ![i].tampered = TRUE, ![i].file.stream = Wrap(SubSeq(ps, 1, Len(ps) - 1))]
  /\ UNCHANGED used
TamperSwap(i) ==
  /\ DoTamper /\ Untampered /\ i \in DOMAIN files
  /\ LET ps == Parts(files[i].file.stream) IN
     /\ Len(ps) >= 3 /\ Size(ps[2]) = Size(ps[3])
     /\ files' = [files EXCEPT ![i].tampered = TRUE,
                               ![i].file.stream = Wrap(<<ps[1], ps[3], ps[2]>> \o SubSeq(ps, 4, Len(ps)))]
  /\ UNCHANGED used

Init == used = {} /\ files = <<>>
Next == \/ \E p \in Passwords, n \in Sizes : Save(p, n)
        \/ \E i \in 1..MaxSaves : TamperLen(i) \/ TamperDrop(i) \/ TamperSwap(i)
Spec == Init /\ [][Next]_vars

---------------------------------------------------------------------------
TypeOK == Len(files) <= MaxSaves /\ \A i \in DOMAIN files : files[i].n \in Sizes

(* the right password opens every stored file: verifier and MAC hold, the result is the package *)
Correct == \A i \in DOMAIN files : ~files[i].tampered =>
              DecryptResult(files[i].file, files[i].pw) = Expected(files[i].n)

LenDeclared == \A i \in DOMAIN files : ~files[i].tampered =>
   Ev(Prog.declared, [file |-> files[i].file, pw |-> files[i].pw, vars |-> NoVars]) = Int(files[i].n)

WrongPwFails == \A i \in DOMAIN files : \A q \in Passwords :
   PwTerm(q) # files[i].pw => DecryptResult(files[i].file, PwTerm(q)).status = "badpw"

(* a stream that was changed anywhere - length prefix included - no longer passes the MAC *)
HmacCoversStream == \A i \in DOMAIN files : files[i].tampered =>
   DecryptResult(files[i].file, files[i].pw).status = "hmac"

(* segment arithmetic with the real constants *)
Layout == \A i \in DOMAIN files : ~files[i].tampered =>
   LET n  == files[i].n
       ps == Parts(files[i].file.stream)
   IN /\ Len(ps) = 1 + NSegOf(n)
      /\ Size(files[i].file.stream) = LenPrefix + RoundUp(n, 16)
      /\ \A j \in 2..Len(ps) : IF j < Len(ps) THEN Size(ps[j]) = SegSize
                               ELSE Size(ps[j]) = RoundUp(n - SegSize * (NSegOf(n) - 1), 16)

(* every segment of a stored stream is encrypted under its own IV: the block keys LE32(i), taken as *)
(* the four bytes that are hashed, are pairwise different and are the segment numbers 0, 1, 2, ...   *)
SegKeyBytes(seg) == LE32Bytes(N(seg[4][2][3][3][2]))      \* Enc(p, key, Fit(H(p, Cat(salt, LE32(int i))), 16), x)
SegmentKeysDistinct == \A i \in DOMAIN files : ~files[i].tampered =>
   LET ps == Parts(files[i].file.stream) IN
   /\ \A j \in 2..Len(ps) : ps[j][1] = "Enc" /\ ps[j][4][2][3][3][1] = "LE32" /\ FromLE32(SegKeyBytes(ps[j])) = j - 2
   /\ Cardinality({SegKeyBytes(ps[j]) : j \in 2..Len(ps)}) = Len(ps) - 1

(* no random value occurs twice, neither inside a save nor in two saves of a history *)
Fresh == /\ Cardinality(used) = 5 * Len(files)
         /\ \A i \in DOMAIN files : files[i].tampered \/ RndSet(Revealed(files[i].file, files[i].pw)) = RndSet(files[i].r)
         /\ \A i, j \in DOMAIN files : i # j => RndSet(files[i].r) \cap RndSet(files[j].r) = {}
=============================================================================
