CONSTANTS MaxRow = 1048576 MaxCol = 16384 Wide = FALSE MaxOpts = 1 MaxSst = 1 MaxCells = 1 UseBlock = FALSE MaxAttrs = 0
  Variants = "sst" EmitReplay = TRUE
SPECIFICATION MCSpec
INVARIANTS Emit DecodeTotal
CHECK_DEADLOCK FALSE
