CONSTANTS
  Passwords = {"p1", "p2"}
  Sizes = {1048577}
  MaxSaves = 1
  DoTamper = TRUE
  DoEmit = FALSE
SPECIFICATION Spec
INVARIANTS TypeOK Correct LenDeclared WrongPwFails HmacCoversStream Layout SegmentKeysDistinct Fresh
CHECK_DEADLOCK FALSE
