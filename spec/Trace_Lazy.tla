----------------------------- MODULE Trace_Lazy -----------------------------
(***************************************************************************)
(* Trace validation for C11 against Lazy.tla.                              *)
(*                                                                         *)
(* One event per step of a history that harness/src/bin/lazy.rs ran on a   *)
(* lazily opened workbook and on its eagerly opened twin:                  *)
(*   obs / tobs  name, materialised?, view of every sheet of the lazy      *)
(*               workbook / of the twin (a view = one digest per aspect of *)
(*               the sheet through public getters + the marks found)       *)
(*   Open:  orig = eager views of the file, opkg = the file as seen by     *)
(*          pydec/lazy_view.py (part numbers, relationship parts, tables,  *)
(*          chart references)                                              *)
(*   Save:  outcome of write_writer on the lazy workbook, pkg = the written*)
(*          file as seen by pydec/lazy_view.py, lz / tw = the written file *)
(*          of the lazy workbook / of the twin reloaded eagerly            *)
(* Judgement:                                                              *)
(*   LazyEqEager   after every step every sheet the specification says is  *)
(*                 materialised is materialised, and every materialised    *)
(*                 sheet has the twin's view and the marks of the          *)
(*                 specification state                                     *)
(*   Save          succeeds; the package is valid (PkgMatches with the     *)
(*                 package Lazy!Pkg builds for the intended design); the   *)
(*                 reload succeeds; a sheet that is still raw reads back   *)
(*                 with exactly the eager view of the original, a          *)
(*                 materialised one with the view the twin's saved file    *)
(*                 gives (cell-hyperlink pairing excepted, see c11.py) and *)
(*                 with exactly the marks of the specification state       *)
(* Known findings are the other values of Lazy's design parameters; a      *)
(* deviation is tried only if its finding is open and its trigger holds.   *)
(***************************************************************************)
EXTENDS Lazy, TraceBase, SequencesExt

VARIABLES orig, sheets, l
tvars == <<orig, sheets, l>>

Aspects == {"cells", "styles", "links", "linkset", "rows", "cols", "merges", "comments", "cf", "dv", "af", "drawing",
            "ole", "tables", "pivots", "page", "props", "names"}
(* the pairing of cells with external hyperlink targets of a *serialised* sheet is not compared (c11.py, assumptions) *)
SavedAspects == Aspects \ {"links"}

(* set_sheet_name rewrites the sheet name inside the defined names attached to the sheet: they are compared with
   the original only while the sheet has its original name (lazy and eager are always compared in full) *)
VsOrig(s) == IF s.o # 0 /\ s.name = orig[s.o].name THEN Aspects ELSE Aspects \ {"names"}
DiffOrig(s, base) == {a \in VsOrig(s) : base[a] # orig[s.o].base[a]}

(* ---- facts about the opened file ------------------------------------------------------------ *)
OrigOf(e) ==
  [i \in DOMAIN e.opkg.sheets |->
     LET s == e.opkg.sheets[i] IN
     [name |-> s.name, pno |-> s.pno, rels |-> s.rels, tabs |-> s.tabs, refs |-> ToSet(s.chartrefs),
      relsig |-> s.relsig, ids |-> ToSet(s.ids), used |-> ToSet(s.used),
      base |-> e.orig[i].v.base]]
PkgValid(pk) == /\ pk.zip /\ pk.wf /\ pk.dup = <<>> /\ pk.ct = <<>> /\ pk.missing = <<>> /\ pk.nosheet = 0
                /\ \A i \in DOMAIN pk.sheets : pk.sheets[i].exists
SourceOK(e) == /\ e.outcome = "ok" /\ PkgValid(e.opkg) /\ e.opkg.orphans = <<>>
               /\ Len(e.opkg.sheets) = Len(e.orig) /\ Len(e.obs) = Len(e.orig) /\ Len(e.tobs) = Len(e.orig)
               /\ \A i \in DOMAIN e.orig : /\ e.opkg.sheets[i].name = e.orig[i].name /\ e.opkg.sheets[i].unres = <<>>
                                           /\ e.orig[i].loaded /\ e.tobs[i].loaded /\ e.tobs[i].v = e.orig[i].v
                                           /\ e.orig[i].v.marks = <<>>
               /\ \A i, j \in DOMAIN e.orig : i # j => e.orig[i].name # e.orig[j].name

(* ---- contract of the steps ------------------------------------------------------------------ *)
AllRefs(S) == UNION {orig[S[p].o].refs : p \in {q \in DOMAIN S : S[q].o # 0}}
NoDangling(S) == AllRefs(S) \subseteq Names(S)      \* else the eager workbook cannot be saved either (not C11)
InContract(e) ==
  CASE e.a \in {"ReadSheet", "GetMut"}       -> e.i \in DOMAIN sheets
    [] e.a \in {"ReadByName", "GetByNameMut", "WbInsertRows", "WbRemoveRows"} -> e.name \in Names(sheets)
    [] e.a \in {"ReadAll", "GetCollMut"}     -> TRUE
    [] e.a = "Edit"        -> /\ e.t \in {"s", "b", "c", "t"} /\ e.k \in 1..9
                              /\ IF e.via = "name" THEN e.name \in Names(sheets) ELSE e.i \in DOMAIN sheets
                              /\ LET i == IF e.via = "name" THEN IndexOf(sheets, e.name) ELSE e.i
                                 IN SlotFree(sheets[i], [t |-> e.t, k |-> e.k, v |-> e.v])
    [] e.a = "NewSheet"    -> e.name \notin Names(sheets)
    [] e.a = "RemoveSheet" -> e.i \in DOMAIN sheets /\ Len(sheets) > 1 /\ NoDangling(PostRemove(sheets, e.i))
    [] e.a = "Rename"      -> e.i \in DOMAIN sheets /\ e.name \notin Names(sheets)
                              /\ NoDangling(PostRename(sheets, e.i, e.name))
    [] e.a = "Save"        -> NoDangling(sheets)
    [] OTHER -> FALSE

Expected(e) ==
  CASE e.a \in {"ReadSheet", "GetMut"}           -> PostRead(sheets, e.i)
    [] e.a \in {"ReadByName", "GetByNameMut"}    -> PostRead(sheets, IndexOf(sheets, e.name))
    [] e.a \in {"ReadAll", "GetCollMut"}         -> PostReadAll(sheets)
    (* a workbook-level insertion/removal of rows need not materialise anything, as long as every sheet shows
       what the eager workbook shows whenever it is looked at or saved (the twin is the reference) *)
    [] e.a \in {"WbInsertRows", "WbRemoveRows"}  -> sheets
    [] e.a = "Edit"        -> PostEdit(sheets, IF e.via = "name" THEN IndexOf(sheets, e.name) ELSE e.i,
                                       [t |-> e.t, k |-> e.k, v |-> e.v])
    [] e.a = "NewSheet"    -> PostNew(sheets, e.name)
    [] e.a = "RemoveSheet" -> PostRemove(sheets, e.i)
    [] e.a = "Rename"      -> PostRename(sheets, e.i, e.name)
    [] e.a = "Save"        -> sheets

(* ---- LazyEqEager: the observation after a step ------------------------------------------------ *)
MarksOK(v, s) == ToSet(v.marks) = MarkSet(s) /\ Len(v.marks) = Cardinality(MarkSet(s))
ObsBad0(e, want) ==       \* the set of reasons why the observed sheets do not fit `want` ({} = they fit)
  IF Len(e.obs) # Len(want) \/ Len(e.tobs) # Len(want) THEN {<<"sheet count", Len(want), Len(e.obs)>>}
  ELSE UNION {
    (IF e.obs[p].name # want[p].name THEN {<<"name", p, want[p].name, e.obs[p].name>>} ELSE {}) \cup
    (IF want[p].loaded /\ ~e.obs[p].loaded THEN {<<"not materialised", p>>} ELSE {}) \cup
    (IF e.obs[p].loaded /\ e.obs[p].v # e.tobs[p].v
     THEN {<<"lazy differs from eager", p, {a \in Aspects : e.obs[p].v.base[a] # e.tobs[p].v.base[a]},
             e.obs[p].v.marks, e.tobs[p].v.marks>>} ELSE {}) \cup
    (IF e.obs[p].loaded /\ ~MarksOK(e.obs[p].v, want[p]) THEN {<<"marks", p, e.obs[p].v.marks>>} ELSE {})
    : p \in DOMAIN want}
ObsBad(e, want) == IF e.outcome # "ok" THEN {<<"outcome", e.outcome>>} ELSE ObsBad0(e, want)
(* the twin must follow the specification, else the history is not one this check can judge *)
TwinBad(e, want) ==
  \/ e.tw_outcome # "ok" \/ Len(e.tobs) # Len(want)
  \/ \E p \in DOMAIN want : \/ ~e.tobs[p].loaded \/ e.tobs[p].name # want[p].name \/ ~MarksOK(e.tobs[p].v, want[p])
Follow(e, want) == IF Len(e.obs) = Len(want) THEN [p \in DOMAIN want |-> [want[p] EXCEPT !.loaded = e.obs[p].loaded]]
                   ELSE want

(* ---- Save: the written package and its reload -------------------------------------------------- *)
RelsName(n)   == "xl/worksheets/_rels/sheet" \o ToString(n) \o ".xml.rels"
BagEq(q1, q2) == Len(q1) = Len(q2) /\ \A x \in SeqSet(q1) \cup SeqSet(q2) :
                     Cardinality({i \in DOMAIN q1 : q1[i] = x}) = Cardinality({i \in DOMAIN q2 : q2[i] = x})
(* relationship ids a sheet uses that the relationship part found at its position does not define.  A raw sheet
   uses the ids of the original; a materialised sheet that finds a raw sheet's relationship part instead of its own
   uses the ids the writer gave it, which are the ones the twin's file shows (tu[p]) *)
UnresPred(S, P, p, tu) ==
  LET d == Dec(P, p)
      foreign == d.hasrels /\ d.relsfor # p
  IN IF S[p].loaded THEN (IF foreign THEN tu[p] \ orig[S[d.relsfor].o].ids ELSE {})
     ELSE orig[S[p].o].used \ (IF d.hasrels THEN orig[S[d.relsfor].o].ids ELSE {})
TwinUsed(e) == [p \in DOMAIN e.twpkg.sheets |-> ToSet(e.twpkg.sheets[p].used)]
(* does the observed package have the part structure of P ? *)
SheetPkgBad(S, P, pk, p, tu) ==
  LET d == Dec(P, p)
      x == pk.sheets[p]
      foreign == d.hasrels /\ d.relsfor # p          \* the relationship part of another (raw) sheet
  IN (IF x.name # S[p].name THEN {<<"name in workbook.xml", p, x.name>>} ELSE {}) \cup
     (IF ToSet(x.unres) # UnresPred(S, P, p, tu) THEN {<<"unresolved r:ids", p, x.unres>>} ELSE {}) \cup
     (IF ~S[p].loaded \/ foreign
      THEN (IF x.rels # d.hasrels THEN {<<"relationship part present", p, x.rels>>} ELSE {}) \cup
           (IF d.hasrels /\ x.relsig # orig[S[d.relsfor].o].relsig
            THEN {<<"relationship part is not the one expected", p, d.relsfor>>} ELSE {})
      ELSE {}) \cup
     (IF ~BagEq(x.tablenames, d.tabnames) THEN {<<"tables", p, x.tablenames, d.tabnames>>} ELSE {})
PkgBad(S, P, pk, tu) ==
  IF ~PkgValid(pk) THEN {<<"package", [zip |-> pk.zip, wf |-> pk.wf, dup |-> pk.dup, ct |-> pk.ct,
                                       missing |-> pk.missing, nosheet |-> pk.nosheet]>>}
  ELSE IF Len(pk.sheets) # Len(S) THEN {<<"sheets in workbook.xml", Len(pk.sheets)>>}
  ELSE (IF ToSet(pk.orphans) # {RelsName(n) : n \in OrphanRels(P, S)} THEN {<<"orphan relationship parts", pk.orphans>>}
        ELSE {}) \cup
       UNION {SheetPkgBad(S, P, pk, p, tu) : p \in DOMAIN S}

(* the eager reader may give up (panic) on a sheet that uses a relationship id its relationship part does not
   define - whether it does depends on what the id is used for - and on nothing else *)
ReloadMayPanic(S, P, tu) == \E p \in DOMAIN S : UnresPred(S, P, p, tu) # {}
RelsAffected(S, P, p) == Dec(P, p).hasrels # Want(orig, S, p).hasrels \/ Dec(P, p).relsfor # Want(orig, S, p).relsfor
TabsAffected(S, P, p) == Dec(P, p).tabnames # Want(orig, S, p).tabnames
(* marks a reader finds: a table mark is found iff the relationship part at p leads to a table of that name *)
MarksPred(S, P, p) == {m \in MarkSet(S[p]) : m.t # "t" \/ m.v \in SeqSet(Dec(P, p).tabnames)}
SheetReloadBad(S, P, e, p) ==
  LET x == e.lz.sheets[p] IN
  IF x.name # S[p].name THEN {<<"name after reload", p, x.name>>}
  ELSE IF RelsAffected(S, P, p) THEN {}                 \* foreign relationships: content not predicted
  ELSE LET drop == IF TabsAffected(S, P, p) THEN {"tables"} ELSE {}
           (* a raw sheet is copied: it must read back like the original.  Its defined names are not part of the
              copy (they live in workbook.xml and are serialised from the model for every sheet), so they are
              compared with the eager save like every aspect of a materialised sheet *)
           bad == IF S[p].loaded THEN {a \in SavedAspects \ drop : x.v.base[a] # e.tw.sheets[p].v.base[a]}
                  ELSE IF DiffOrig(S[p], e.tobs[p].v.base) = {}
                  THEN {a \in (Aspects \ {"names"}) \ drop : x.v.base[a] # orig[S[p].o].base[a]} \cup
                       {a \in {"names"} : x.v.base[a] # e.tw.sheets[p].v.base[a]}
                  (* a workbook-level edit changed what the eager workbook shows on this sheet: a raw copy of the
                     original is not what the file must hold; the eager save is *)
                  ELSE {a \in SavedAspects \ drop : x.v.base[a] # e.tw.sheets[p].v.base[a]}
       IN (IF bad # {} THEN {<<IF S[p].loaded THEN "materialised sheet differs from the eager save" ELSE
                               "raw sheet differs from the original", p, bad>>} ELSE {}) \cup
          (IF ToSet(x.v.marks) # MarksPred(S, P, p) \/ Len(x.v.marks) # Cardinality(MarksPred(S, P, p))
           THEN {<<"marks after reload", p, x.v.marks>>} ELSE {})
ReloadBad(S, P, e) ==
  IF ReloadMayPanic(S, P, TwinUsed(e)) /\ e.lz.outcome = "panic" THEN {}
  ELSE IF e.lz.outcome # "ok" THEN {<<"reload outcome", e.lz.outcome>>}
  ELSE IF Len(e.lz.sheets) # Len(S) THEN {<<"sheets after reload", Len(e.lz.sheets)>>}
  ELSE UNION {SheetReloadBad(S, P, e, p) : p \in DOMAIN S}

(* the twin's save is the reference for materialised sheets.  Where the eagerly opened workbook cannot be saved
   and reloaded after this history (a defect of the eager pipeline, e.g. a defined name scoped to a removed sheet),
   there is nothing to compare a lazily opened workbook with: the save is not judged (c11.py counts these) *)
TwinSaveFailed(e) == e.tw_outcome # "ok" \/ e.tw.outcome # "ok"
TwinSaveBad(S, e) == \/ Len(e.tw.sheets) # Len(S) \/ Len(e.twpkg.sheets) # Len(S)
                     \/ \E p \in DOMAIN S : e.tw.sheets[p].name # S[p].name \/ ~MarksOK(e.tw.sheets[p].v, S[p])

SaveBad(S, e, home, tabno, chart) ==
  IF SaveOutcome(orig, S, chart) = "panic" THEN (IF e.outcome = "panic" THEN {} ELSE {<<"save outcome", e.outcome>>})
  ELSE IF e.outcome # "ok" THEN {<<"save outcome", e.outcome, e.msg>>}
  ELSE LET P == Pkg(orig, S, home, tabno) IN PkgBad(S, P, e.pkg, TwinUsed(e)) \cup ReloadBad(S, P, e)

(* ---- known findings: triggers (over the state being saved) and the design each one stands for -- *)
TrigKF1(S) == \E p \in DOMAIN S : ~S[p].loaded /\ S[p].o # 0 /\ orig[S[p].o].rels /\ orig[S[p].o].pno # p
TrigKF2(S) == LET lp == LoadedPos(S) IN
              \E n \in 1..SumTabs(orig, S, lp) : n \in RawTabNos(orig, S)
TrigKF3(S) == ChartBlocked(orig, S)
Homes(S)  == <<"pos">> \o (IF KFOn("C11-KF1") /\ TrigKF1(S) THEN <<"orig">> ELSE <<>>)
TabNos2(S) == <<"fresh">> \o (IF KFOn("C11-KF2") /\ TrigKF2(S) THEN <<"counter">> ELSE <<>>)
Charts(S) == <<"cached">> \o (IF KFOn("C11-KF3") /\ TrigKF3(S) THEN <<"cells">> ELSE <<>>)
(* designs in the order in which they are tried: the intended one first, then single deviations, then combinations *)
Designs(S) == LET all == {<<h, t, c>> : h \in SeqSet(Homes(S)), t \in SeqSet(TabNos2(S)), c \in SeqSet(Charts(S))}
                  Dev(d) == (IF d[1] = "orig" THEN 1 ELSE 0) + (IF d[2] = "counter" THEN 1 ELSE 0) + (IF d[3] = "cells" THEN 1 ELSE 0)
              IN SortSeq(SetToSeq(all), LAMBDA a, b : Dev(a) < Dev(b))
Fits(S, e)  == SelectSeq(Designs(S), LAMBDA d : SaveBad(S, e, d[1], d[2], d[3]) = {})
HitsOf(d, n) == /\ (IF d[1] = "orig" THEN KFHit("C11-KF1", n) ELSE TRUE)
                /\ (IF d[2] = "counter" THEN KFHit("C11-KF2", n) ELSE TRUE)
                /\ (IF d[3] = "cells" THEN KFHit("C11-KF3", n) ELSE TRUE)

Small(set) == IF Cardinality(set) <= 3 THEN set ELSE LET a == CHOOSE x \in set : TRUE IN {a, <<"and", Cardinality(set) - 1, "more">>}

(* ---- one event per step -------------------------------------------------------------------- *)
Ev == Rec[l]
Step(e) ==
  IF e.a = "Fatal" THEN UNCHANGED <<orig, sheets>> /\ Mismatch(l, <<"impl", "fatal", e.outcome>>)
  ELSE IF e.a = "Open"
  THEN IF SourceOK(e)
       THEN /\ orig' = OrigOf(e)
            /\ sheets' = [i \in DOMAIN e.obs |-> [name |-> e.orig[i].name, o |-> i, loaded |-> e.obs[i].loaded, marks |-> <<>>]]
            /\ LET bad == {i \in DOMAIN e.obs : e.obs[i].name # e.orig[i].name \/ (e.obs[i].loaded /\ e.obs[i].v # e.orig[i].v)}
               IN IF bad = {} THEN TRUE ELSE Mismatch(l, <<"impl", "Open", "sheets differ from the eager load", bad>>)
       ELSE orig' = <<>> /\ sheets' = <<>> /\ Mismatch(l, <<"gen", "Open", "unusable source file">>)
  ELSE IF ~InContract(e)
  THEN /\ UNCHANGED orig
       /\ sheets' = IF Len(e.obs) = Len(sheets) THEN Follow(e, sheets) ELSE sheets
       /\ Mismatch(l, <<"gen", e.a, "out of contract">>)
  ELSE LET want == Expected(e) IN
       /\ UNCHANGED orig
       /\ sheets' = Follow(e, want)
       /\ IF e.a = "Save" /\ TwinSaveFailed(e)
          THEN (IF ObsBad0(e, want) # {} THEN Mismatch(l, <<"impl", "Save", "state after save", Small(ObsBad0(e, want))>>)
                ELSE TRUE)
          ELSE IF e.a = "Save" /\ TwinSaveBad(sheets, e) THEN Mismatch(l, <<"gen", "Save", "the eager twin's file does not show the specification's sheets and marks">>)
          ELSE IF TwinBad(e, want) THEN Mismatch(l, <<"gen", e.a, "the eager twin does not follow the specification">>)
          ELSE IF e.a # "Save"
          THEN LET bad == ObsBad(e, want) IN IF bad = {} THEN TRUE ELSE Mismatch(l, <<"impl", e.a, Small(bad)>>)
          ELSE LET fits == Fits(sheets, e)
                   obad == ObsBad0(e, want)                  \* a save, failed or not, leaves the workbook as it was
               IN IF obad # {} THEN Mismatch(l, <<"impl", "Save", "state after save", Small(obad)>>)
                  ELSE IF fits # <<>> THEN HitsOf(fits[1], l)
                  ELSE Mismatch(l, <<"impl", "Save", Small(SaveBad(sheets, e, "pos", "fresh", "cached")),
                                     "open findings tried", [k \in 2..Len(Designs(sheets)) |->
                                        LET d == Designs(sheets)[k] IN <<d, Small(SaveBad(sheets, e, d[1], d[2], d[3]))>>]>>)

TraceInit == l = 1 /\ orig = <<>> /\ sheets = <<>>
TraceNext == l <= Len(Rec) /\ l' = l + 1 /\ Step(Ev)
TraceSpec == TraceInit /\ [][TraceNext]_tvars
=============================================================================
