CONSTANTS BufCap = 8192 Deviant = "none"
SPECIFICATION TraceSpec
POSTCONDITION Consumed
CHECK_DEADLOCK FALSE
