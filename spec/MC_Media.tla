------------------------------ MODULE MC_Media ------------------------------
(* Bounded instance of Media.tla: a 6 x 5 grid, sheets Data / S1 / S2 (+ S3), three picture files (two of them with
   the same file name and different bytes, two with the same bytes under different names), two charts over Data. *)
EXTENDS Media, Json

CONSTANTS Wide,         \* FALSE: small pools, exhaustive; TRUE: parameters drawn with RandomElement (simulation)
          Depth,        \* length of the histories explored
          Family,       \* "all": every initial workbook of the family; "rich": the two richest
          Gen,          \* TRUE: generator mode - only histories the real library is driven through (a band removal
                        \*       drops the touched objects, as the library does today; no save with a dangling chart
                        \*       reference: that is exercised by dedicated exemplar cases)
          EmitReplay    \* TRUE: print one REPLAY line per behaviour of length Depth

VARIABLES steps, hist
mcvars == <<sh, last, steps, hist>>

File(f) == CASE f = "A" -> [nm |-> "logo.png", dg |-> "dA", ext |-> <<30, 20>>]
             [] f = "B" -> [nm |-> "logo.png", dg |-> "dB", ext |-> <<40, 10>>]
             [] f = "C" -> [nm |-> "pic.png", dg |-> "dA", ext |-> <<30, 20>>]
Files == {"A", "B", "C"}
Img(f, r, c) == [r1 |-> r, c1 |-> c, r2 |-> 0, c2 |-> 0, two |-> FALSE, off |-> <<0, 0, 0, 0>>,
                 ext |-> File(f).ext, nm |-> File(f).nm, nk |-> "", dg |-> File(f).dg]
K1 == [r1 |-> 2, c1 |-> 1, r2 |-> 4, c2 |-> 3, off |-> <<0, 0, 0, 0>>, ct |-> "lineChart",
       ser |-> <<"Data!$A$1:$A$4", "Data!$B$1:$B$4">>, refs |-> <<"Data", "Data">>, qn |-> 0, ti |-> "T1", tt |-> "T1"]
K2 == [r1 |-> 1, c1 |-> 2, r2 |-> 3, c2 |-> 4, off |-> <<0, 0, 0, 0>>, ct |-> "pieChart",
       ser |-> <<"Data!$C$1:$C$4">>, refs |-> <<"Data">>, qn |-> 0, ti |-> " T 2 ", tt |-> "T 2"]
K3 == [r1 |-> 3, c1 |-> 3, r2 |-> 5, c2 |-> 5, off |-> <<0, 0, 0, 0>>, ct |-> "barChart",
       ser |-> <<"S2!$A$1:$A$4">>, refs |-> <<"S2">>, qn |-> 0, ti |-> "", tt |-> ""]
ChartPool == {K1, K2, K3}

Sheet(name, imgs, charts) == [name |-> name, imgs |-> imgs, charts |-> charts, oth |-> 0, raw |-> FALSE]
S1s == IF Family = "all"
       THEN {Sheet("S1", <<>>, <<>>), Sheet("S1", <<Img("A", 2, 2)>>, <<>>), Sheet("S1", <<Img("A", 2, 2), Img("C", 4, 3)>>, <<K1>>)}
       ELSE {Sheet("S1", <<Img("A", 2, 2), Img("C", 4, 3)>>, <<K1>>)}
S2s == IF Family = "all"
       THEN {Sheet("S2", <<>>, <<>>), Sheet("S2", <<Img("B", 3, 3)>>, <<K2>>)}
       ELSE {Sheet("S2", <<Img("B", 3, 3)>>, <<K2>>), Sheet("S2", <<Img("A", 3, 3)>>, <<>>)}

MCInit ==
  /\ \E a \in S1s, b \in S2s : sh = <<Sheet("Data", <<>>, <<>>), a, b>>
  /\ last = Op("init", 0)
  /\ steps = 0
  /\ hist = <<[a |-> "Init", sheets |-> sh]>>

Pick(S) == IF Wide /\ S # {} THEN {RandomElement(S)} ELSE S
Cells == IF Wide THEN {<<r, c>> : r \in 1..MaxRow, c \in 1..MaxCol} ELSE {<<2, 2>>, <<4, 3>>}
Rects == IF Wide THEN {[r1 |-> r, c1 |-> c, r2 |-> r + h, c2 |-> c + w] : r \in 1..(MaxRow - 2), c \in 1..(MaxCol - 2), h \in 0..2, w \in 0..2}
         ELSE {[r1 |-> 1, c1 |-> 1, r2 |-> 2, c2 |-> 2], [r1 |-> 3, c1 |-> 2, r2 |-> 5, c2 |-> 4]}
Ns == IF Wide THEN {1, 2, 3} ELSE {1, 2}
NewNames == {"Zed", "S3"}
Keeps(q, ax, p, n) == IF Gen THEN {{}} ELSE SUBSET {i \in DOMAIN q : Touched(q[i], ax, p, n)}

Log(rec) == hist' = Append(hist, rec) /\ steps' = steps + 1

Bound == steps < Depth
AddImageAny == Bound /\ \E s \in Pick(DOMAIN sh), f \in Pick(Files), rc \in Pick(Cells) :
          /\ AddImage(s, Img(f, rc[1], rc[2]))
          /\ Log([a |-> "AddImage", s |-> s, f |-> f, r |-> rc[1], c |-> rc[2]])
AddChartAny == Bound /\ \E s \in Pick(DOMAIN sh), k \in Pick(ChartPool) :
          /\ AddChart(s, k)
          /\ Log([a |-> "AddChart", s |-> s, ch |-> k])
RemoveImageAny == Bound /\ \E s \in Pick(DOMAIN sh) : \E i \in Pick(DOMAIN sh[s].imgs) :
          /\ RemoveImage(s, i)
          /\ Log([a |-> "RemoveImage", s |-> s, i |-> i])
RemoveChartAny == Bound /\ \E s \in Pick(DOMAIN sh) : \E i \in Pick(DOMAIN sh[s].charts) :
          /\ RemoveChart(s, i)
          /\ Log([a |-> "RemoveChart", s |-> s, i |-> i])
ChangeImageAny == Bound /\ \E s \in Pick(DOMAIN sh), f \in Pick(Files) : \E i \in Pick(DOMAIN sh[s].imgs) :
          /\ ChangeImage(s, i, File(f).nm, "", File(f).dg, File(f).ext)
          /\ Log([a |-> "ChangeImage", s |-> s, i |-> i, f |-> f])
MoveImageAny == Bound /\ \E s \in Pick(DOMAIN sh), rc \in Pick(Cells) : \E i \in Pick(DOMAIN sh[s].imgs) :
          /\ MoveImage(s, i, rc[1], rc[2])
          /\ Log([a |-> "MoveImage", s |-> s, i |-> i, r |-> rc[1], c |-> rc[2]])
MoveChartAny == Bound /\ \E s \in Pick(DOMAIN sh), g \in Pick(Rects) : \E i \in Pick(DOMAIN sh[s].charts) :
          /\ MoveChart(s, i, g)
          /\ Log([a |-> "MoveChart", s |-> s, i |-> i, r1 |-> g.r1, c1 |-> g.c1, r2 |-> g.r2, c2 |-> g.c2])
InsertAny == Bound /\ \E s \in Pick(DOMAIN sh), ax \in Pick(Axes), n \in Pick(Ns), wb \in Pick(BOOLEAN) : \E p \in Pick(1..Lines(ax)) :
          /\ InsertLines(s, ax, p, n, wb)
          /\ Log([a |-> "Insert", s |-> s, ax |-> ax, p |-> p, n |-> n, lvl |-> IF wb THEN "wb" ELSE "ws"])
RemoveAny == Bound /\ \E s \in Pick(DOMAIN sh), ax \in Pick(Axes), n \in Pick(Ns), wb \in Pick(BOOLEAN) : \E p \in Pick(1..Lines(ax)) :
          \E ki \in Keeps(sh[s].imgs, ax, p, n), kc \in Keeps(sh[s].charts, ax, p, n) :
          /\ RemoveLines(s, ax, p, n, wb, ki, kc)
          /\ Log([a |-> "Remove", s |-> s, ax |-> ax, p |-> p, n |-> n, lvl |-> IF wb THEN "wb" ELSE "ws"])
AddSheetAny == Bound /\ \E nm \in Pick(NewNames) :
          /\ AddSheet(nm)
          /\ Log([a |-> "AddSheet", name |-> nm])
RemoveSheetAny == Bound /\ \E s \in Pick(DOMAIN sh) :
          /\ RemoveSheet(s)
          /\ Log([a |-> "RemoveSheet", s |-> s])
RenameSheetAny == Bound /\ \E s \in Pick(DOMAIN sh), nm \in Pick(NewNames) :
          /\ RenameSheet(s, nm)
          /\ Log([a |-> "RenameSheet", s |-> s, name |-> nm])
ReadSheetAny == Bound /\ \E s \in Pick(DOMAIN sh) :
          /\ sh[s].raw
          /\ ReadSheet(s)
          /\ Log([a |-> "ReadSheet", s |-> s])
ReloadAny == Bound /\ \E lazy \in Pick(BOOLEAN) :
          /\ Gen => ~Dangling(sh)
          /\ Reload(lazy)
          /\ Log([a |-> "Reload", lazy |-> lazy])

MCNext == AddImageAny \/ AddChartAny \/ RemoveImageAny \/ RemoveChartAny \/ ChangeImageAny \/ MoveImageAny \/ MoveChartAny
          \/ InsertAny \/ RemoveAny \/ AddSheetAny \/ RemoveSheetAny \/ RenameSheetAny \/ ReadSheetAny \/ ReloadAny

MCSpec == MCInit /\ [][MCNext]_mcvars
View == <<sh, last, steps>>

(* the properties, evaluated in every reachable state *)
RemoveUndoesInsert ==
  \A s \in DOMAIN sh, ax \in Axes, n \in Ns : \A p \in 1..Lines(ax) : RemoveUndoesInsertAt(sh[s], ax, p, n)
ModelRemovalsAllowed ==
  \A s \in DOMAIN sh, ax \in Axes, n \in Ns : \A p \in 1..Lines(ax) :
     CanRemove(sh[s], ax, p, n) => ModelRemovalsAllowedAt(sh[s], ax, p, n)
OthersUntouchedMC ==
  [][\/ (last'.op \in {"rmsheet"} /\ \A t \in DOMAIN sh' : Objs(sh'[t]) = Objs(sh[IF t < last'.s THEN t ELSE t + 1]))
     \/ (last'.op = "addsheet" /\ \A t \in DOMAIN sh : sh'[t] = sh[t])
     \/ (last'.op = "reload")
     \/ (last'.op \notin {"rmsheet", "addsheet", "reload"} /\ DOMAIN sh' = DOMAIN sh /\
         \A t \in DOMAIN sh : t # last'.s => Objs(sh'[t]) = Objs(sh[t]))]_mcvars
RawKeptMC == [][\A t \in DOMAIN sh : (t \in DOMAIN sh' /\ sh[t].raw /\ sh'[t].raw /\ last'.op \notin {"rmsheet", "reload"}) => Objs(sh'[t]).imgs = Objs(sh[t]).imgs /\ sh'[t].charts = sh[t].charts /\ sh'[t].oth = sh[t].oth]_mcvars
(* a reload shows the workbook that was saved (raw flags aside) *)
ReloadIdentityMC == [][last'.op = "reload" => \A t \in DOMAIN sh : Objs(sh'[t]) = Objs(sh[t])]_mcvars

Emit == (EmitReplay /\ steps = Depth) => PrintT(<<"REPLAY", ToJson(hist)>>)
=============================================================================
