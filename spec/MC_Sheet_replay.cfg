CONSTANTS Wide = FALSE MaxRow = 5 MaxCol = 4 Depth = 1 Family = "rich" EmitReplay = TRUE
SPECIFICATION MCSpec
INVARIANTS Emit
CHECK_DEADLOCK FALSE
