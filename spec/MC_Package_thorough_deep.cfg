CONSTANTS MaxRow = 1048576 MaxCol = 16384 MaxSheets = 2 Depth = 5 Rich = FALSE EmitReplay = FALSE Wide = FALSE
SPECIFICATION MCSpec
VIEW View
INVARIANTS SavedOK DecodedEqualsModel RulesCarried
CHECK_DEADLOCK FALSE
