---- MODULE MC_Agile ----
(* Exhaustive check of the symbolic model on small constants; also prints the decryptor program  *)
(* (PROGRAM) and the encryption-side terms for the repository's pinned vectors (VECTORS), which   *)
(* /verif/pydec/agile_eval.py evaluates with real SHA-512 / AES / HMAC.                           *)
EXTENDS Agile

VecPw   == Pw("password", 8)
VecKS   == Atom("keySalt", 16)
VecPS   == Atom("pkgSalt", 16)
VecKey  == Atom("pkgKey", 32)
VecHK   == Atom("hmacKey", 64)
Vectors == [key        |-> LibDerive(VecPw, VecKS, BK_Key),
            verInKey   |-> LibDerive(VecPw, VecKS, BK_VerIn),
            encKey     |-> Enc("k", LibDerive(VecPw, VecKS, BK_Key), VecKS, VecKey),
            ivHmacKey  |-> LibIV(VecPS, BK_HmacKey),
            ivHmacVal  |-> LibIV(VecPS, BK_HmacVal),
            encHmacKey |-> Enc("p", VecKey, LibIV(VecPS, BK_HmacKey), VecHK)]

(* little-endian block keys are exact and pairwise different around every byte boundary *)
ASSUME LE32Exact({0, 1, 254, 255, 256, 257, 511, 512, 65535, 65536, 65537, 16777215, 16777216, 16777217, 2147483647})

ASSUME PrintT(<<"PROGRAM", ToJson(Prog)>>)
ASSUME PrintT(<<"VECTORS", ToJson(Vectors)>>)
====
