CONSTANTS MaxRow = 1048576 MaxCol = 16384 MaxSheets = 3 Depth = 14 Rich = TRUE EmitReplay = TRUE Wide = TRUE
SPECIFICATION MCSpec
INVARIANTS Emit
CHECK_DEADLOCK FALSE
