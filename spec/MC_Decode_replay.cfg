CONSTANTS MaxRow = 1048576 MaxCol = 16384 Wide = FALSE MaxOpts = 1 MaxSst = 0 MaxCells = 1 UseBlock = FALSE MaxAttrs = 0
  Variants = "all" EmitReplay = TRUE
SPECIFICATION MCSpec
INVARIANTS Emit
CHECK_DEADLOCK FALSE
