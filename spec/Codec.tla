------------------------------ MODULE Codec ------------------------------
(***************************************************************************)
(* Textual codecs of the grid: column letters (bijective base 26), cell    *)
(* coordinates with $ locks, range strings, sheet-qualified addresses.     *)
(*                                                                         *)
(* The module is a small state machine -- an odometer over column letters  *)
(* that is stepped 18278 times -- whose invariants tie the closed-form     *)
(* printer ColName to the successor function on names (A..Z, AA..ZZ,       *)
(* AAA..ZZZ), to positional evaluation and to shortlex order.  The same    *)
(* operators are the oracle of the conformance check (Trace_Codec).        *)
(***************************************************************************)
EXTENDS Naturals, Sequences, TLC

CONSTANTS MaxCol,      \* 16384  (XFD)
          MaxRow,      \* 1048576
          LastName     \* 18278  (ZZZ): the last column *name* of <= 3 letters

Letters == <<"A","B","C","D","E","F","G","H","I","J","K","L","M",
             "N","O","P","Q","R","S","T","U","V","W","X","Y","Z">>

(* closed form: bijective base-26 numeral of n >= 1 *)
RECURSIVE ColName(_)
ColName(n) == IF n <= 26 THEN Letters[n]
              ELSE ColName((n - 1) \div 26) \o Letters[((n - 1) % 26) + 1]

(* digits (1..26, most significant first) of n *)
RECURSIVE ColDigits(_)
ColDigits(n) == IF n <= 26 THEN <<n>>
                ELSE Append(ColDigits((n - 1) \div 26), ((n - 1) % 26) + 1)

RECURSIVE DigitsValue(_)
DigitsValue(ds) == IF ds = <<>> THEN 0
                   ELSE 26 * DigitsValue(SubSeq(ds, 1, Len(ds) - 1)) + ds[Len(ds)]

RECURSIVE DigitsText(_)
DigitsText(ds) == IF ds = <<>> THEN "" ELSE Letters[Head(ds)] \o DigitsText(Tail(ds))

(* odometer successor: increment the last digit, carry Z -> A leftwards, grow by a leading A *)
RECURSIVE Succ(_)
Succ(ds) == IF ds = <<>> THEN <<1>>
            ELSE IF ds[Len(ds)] < 26 THEN [ds EXCEPT ![Len(ds)] = @ + 1]
            ELSE Append(Succ(SubSeq(ds, 1, Len(ds) - 1)), 1)

(* shortlex order on digit strings: shorter first, then lexicographic *)
RECURSIVE LexLess(_, _)
LexLess(a, b) == /\ a # <<>>
                 /\ \/ Head(a) < Head(b)
                    \/ Head(a) = Head(b) /\ LexLess(Tail(a), Tail(b))
ShortLexLess(a, b) == Len(a) < Len(b) \/ (Len(a) = Len(b) /\ LexLess(a, b))

Lock(b) == IF b THEN "$" ELSE ""

ColRef(c, lc)  == Lock(lc) \o ColName(c)
RowRef(r, lr)  == Lock(lr) \o ToString(r)
CoordStr(c, r, lc, lr) == ColRef(c, lc) \o RowRef(r, lr)

(* a range is a record; kind "cell" (one corner), "rect" (two corners), "rows", "cols" *)
RangeStr(g) ==
  CASE g.k = "cell" -> CoordStr(g.c1, g.r1, g.lc1, g.lr1)
    [] g.k = "rect" -> CoordStr(g.c1, g.r1, g.lc1, g.lr1) \o ":" \o CoordStr(g.c2, g.r2, g.lc2, g.lr2)
    [] g.k = "rows" -> RowRef(g.r1, g.lr1) \o ":" \o RowRef(g.r2, g.lr2)
    [] g.k = "cols" -> ColRef(g.c1, g.lc1) \o ":" \o ColRef(g.c2, g.lc2)

(* corners (row_start,row_end,col_start,col_end) a range string designates; 0 = axis not given *)
RangeCorners(g) ==
  CASE g.k = "cell" -> <<g.r1, g.r1, g.c1, g.c1>>
    [] g.k = "rect" -> <<g.r1, g.r2, g.c1, g.c2>>
    [] g.k = "rows" -> <<g.r1, g.r2, 0, 0>>
    [] g.k = "cols" -> <<0, 0, g.c1, g.c2>>

(* Sheet names are sequences of one-character strings. *)
RECURSIVE Concat(_)
Concat(chars) == IF chars = <<>> THEN "" ELSE Head(chars) \o Concat(Tail(chars))

(* helper::address::join_address: plain "name!range" *)
JoinAddress(chars, rangeText) == IF chars = <<>> THEN rangeText ELSE Concat(chars) \o "!" \o rangeText

(* Address::get_address: the name is quoted when it contains white space *)
IsSpace(ch) == ch \in {" "}
NeedsQuote(chars) == \E i \in DOMAIN chars : IsSpace(chars[i])
AddressText(chars, rangeText) ==
  IF chars = <<>> THEN rangeText
  ELSE IF NeedsQuote(chars) THEN "'" \o Concat(chars) \o "'!" \o rangeText
  ELSE Concat(chars) \o "!" \o rangeText

---------------------------------------------------------------------------
VARIABLES n, ds          \* n-th column name, as digit string
vars == <<n, ds>>

Init == n = 1 /\ ds = <<1>>
Tick == n < LastName /\ n' = n + 1 /\ ds' = Succ(ds)
Next == Tick
Spec == Init /\ [][Next]_vars

TypeOK       == n \in 1..LastName /\ Len(ds) \in 1..3 /\ \A i \in DOMAIN ds : ds[i] \in 1..26
ClosedForm   == ColDigits(n) = ds /\ ColName(n) = DigitsText(ds)      \* printer = odometer
Positional   == DigitsValue(ds) = n                                   \* parser inverts printer
Lengths      == Len(ds) = (IF n <= 26 THEN 1 ELSE IF n <= 702 THEN 2 ELSE 3)
LastColumn   == n = MaxCol => DigitsText(ds) = "XFD"
Ordered      == [][ShortLexLess(ds, ds')]_vars                        \* strictly increasing
=============================================================================
