CONSTANTS KeyMode = "exact" NBooks = 1 PalKind = "full" MaxImport = 0 MaxAssign = 2 MaxSaves = 2 Pairs = TRUE Wide = FALSE EmitReplay = TRUE
SPECIFICATION MCSpec
INVARIANTS Emit
CHECK_DEADLOCK FALSE
