CONSTANTS MaxRow = 1048576 MaxCol = 16384 MediaKey = "content" ChartCache = "tolerant"
SPECIFICATION TraceSpec
POSTCONDITION Consumed
CHECK_DEADLOCK FALSE
