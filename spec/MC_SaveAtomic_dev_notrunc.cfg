\* the design with the defect "notrunc" (the temporary file is opened without truncation) switched in:
\* TLC must report a violation (a longer left-over temporary file keeps its tail)
CONSTANTS BufCap = 2 Deviant = "notrunc" MaxChunk = 3 MaxChunks = 2 PlanMode = "any" EmitReplay = FALSE
SPECIFICATION MCSpec
VIEW View
INVARIANTS NeverTorn AllOrNothing
CHECK_DEADLOCK FALSE
