CONSTANTS MaxGen = 1 DropStyledBlank = FALSE ColFold = "any" RowSkip = "never" Family = "mid" EmitReplay = FALSE
SPECIFICATION MCSpec
VIEW View
INVARIANTS OrigSim
CHECK_DEADLOCK FALSE
