CONSTANTS MaxRow = 1048576 MaxCol = 16384 MaxSheets = 3 Depth = 4 Rich = TRUE EmitReplay = FALSE Wide = FALSE
SPECIFICATION MCSpec
VIEW View
INVARIANTS SavedOK DecodedEqualsModel RulesCarried
CHECK_DEADLOCK FALSE
