\* thorough: blocks of 50 numbers: 0.00 .. 9.99 contiguous and the blocks around 100, 124.5, 500, 1000, 1234.5, 5000 and
\* 9999.99, both signs, under every catalogue format
CONSTANTS I = 4 F = 2 KMax = 4 Block = 50
CONSTANTS Catalogue <- MCCatalogue Starts <- ThoroughStarts MCDev = {}
SPECIFICATION Spec2
INVARIANTS TypeOK2 CatalogueOK OneSection NumValue Placeholders Grouping LiteralsKept NegByPosition AutoMinus SciValue SciZero FracValue Calendar ClockOK DateOut
CHECK_DEADLOCK FALSE
