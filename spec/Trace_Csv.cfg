CONSTANTS NSheets = 1 MaxR = 1 MaxC = 1 MaxCells = 0 FreeLen = 0 Escape = TRUE Overwrite = TRUE Record = FALSE
CONSTANTS Values = {} FreeAlphabet = {}
SPECIFICATION TraceSpec
POSTCONDITION Consumed
CHECK_DEADLOCK FALSE
