-------------------------------- MODULE SST --------------------------------
(***************************************************************************)
(* C12: what a saved file contains, over histories of several workbook     *)
(* objects (originals, clones, reloaded files).                            *)
(*                                                                         *)
(* A workbook object holds text cells on two sheets ("S1" rows 1..2,       *)
(* "S2" row 1) and a *handle* to a string table.  Saving registers the     *)
(* text cells in a table and dumps a table into the package.               *)
(*   Sharing = "private": the table is created by the save (intended).     *)
(*   Sharing = "shared" : the table is the workbook's own, which clones    *)
(*                        share and which only ever grows (the design of   *)
(*                        the pinned tree before the repair); TLC refutes  *)
(*                        OnlyReachable for it in three steps.             *)
(***************************************************************************)
EXTENDS Naturals, Sequences, FiniteSets, TLC

CONSTANTS Strs,        \* the strings that may be stored
          MaxBooks,    \* bound on the number of workbook objects
          Sharing      \* "private" | "shared"

Cells == {<<1, 1>>, <<1, 2>>, <<2, 1>>}            \* <<sheet, row>>, column A
NoText == ""

VARIABLES books,    \* sequence of [text : Cells -> Strs \cup {NoText}, has2 : BOOLEAN, tbl : table id,
                    \*              raw : sheets not materialised yet (lazy loading), ltab : strings of the loaded file's table]
          tables,   \* sequence of string tables (sequences without duplicates)
          files,    \* files[w] = <<>> (never saved) or <<[strs, text, has2]>> : the last file saved from w
          last      \* [op, w]
vars == <<books, tables, files, last>>

Reach(b) == {b.text[c] : c \in Cells} \ {NoText}
(* cells in writer order: sheet, then row *)
Order == <<<<1, 1>>, <<1, 2>>, <<2, 1>>>>
RECURSIVE RegisterAll(_, _, _)
RegisterAll(tab, b, i) ==
  IF i > Len(Order) THEN tab
  ELSE LET s == b.text[Order[i]] IN
       IF s = NoText \/ \E k \in DOMAIN tab : tab[k] = s THEN RegisterAll(tab, b, i + 1)
       ELSE RegisterAll(Append(tab, s), b, i + 1)
SeqSet(q) == {q[i] : i \in DOMAIN q}

EmptyText == [c \in Cells |-> NoText]

(* ---- the operations as plain operators (used by the trace specification) ---- *)
(* removing row r of sheet 1 deletes its cell and moves the rows below up *)
SetTextB(b, c, s)  == [b EXCEPT !.text[c] = s, !.raw = @ \ {c[1]}]       \* mutable access materialises the sheet
DeleteB(b, c)      == [b EXCEPT !.text[c] = NoText, !.raw = @ \ {c[1]}]
(* removing row r of sheet 1 (workbook-level entry point: materialises every sheet) deletes its cell and
   moves the rows below up *)
RemoveRowB(b, r)   == IF r = 1 THEN [b EXCEPT !.text[<<1, 1>>] = b.text[<<1, 2>>], !.text[<<1, 2>>] = NoText, !.raw = {}]
                      ELSE [b EXCEPT !.text[<<1, 2>>] = NoText, !.raw = {}]
RemoveSheetB(b)    == [b EXCEPT !.text[<<2, 1>>] = NoText, !.has2 = FALSE, !.raw = @ \ {2}]
ReadSheetB(b, sh)  == [b EXCEPT !.raw = @ \ {sh}]
FileOf(b, strs)    == [strs |-> strs, text |-> b.text, has2 |-> b.has2]
Sheets(has2)       == IF has2 THEN {1, 2} ELSE {1}
LoadedB(f, lazy, t) == [text |-> f.text, has2 |-> f.has2, tbl |-> t, raw |-> IF lazy THEN Sheets(f.has2) ELSE {},
                        ltab |-> f.strs]

NewBook == [text |-> EmptyText, has2 |-> TRUE, tbl |-> 1, raw |-> {}, ltab |-> {}]
Init == /\ books = <<NewBook>>
        /\ tables = <<<<>>>>
        /\ files = <<<<>>>>
        /\ last = [op |-> "init", w |-> 1]

SetText(w, c, s) == /\ (c[1] = 2 => books[w].has2)
                    /\ books' = [books EXCEPT ![w] = SetTextB(@, c, s)]
                    /\ last' = [op |-> "set", w |-> w] /\ UNCHANGED <<tables, files>>
Delete(w, c)     == /\ books[w].text[c] # NoText
                    /\ books' = [books EXCEPT ![w] = DeleteB(@, c)]
                    /\ last' = [op |-> "del", w |-> w] /\ UNCHANGED <<tables, files>>
RemoveRow(w, r)  == /\ books' = [books EXCEPT ![w] = RemoveRowB(@, r)]
                    /\ last' = [op |-> "remrow", w |-> w] /\ UNCHANGED <<tables, files>>
RemoveSheet(w)   == /\ books[w].has2
                    /\ books' = [books EXCEPT ![w] = RemoveSheetB(@)]
                    /\ last' = [op |-> "remsheet", w |-> w] /\ UNCHANGED <<tables, files>>
Clone(w)         == /\ Len(books) < MaxBooks
                    /\ IF Sharing = "shared"
                       THEN books' = Append(books, books[w]) /\ UNCHANGED tables          \* the handle is copied
                       ELSE /\ books' = Append(books, [books[w] EXCEPT !.tbl = Len(tables) + 1])
                            /\ tables' = Append(tables, tables[books[w].tbl])
                    /\ files' = Append(files, <<>>)
                    /\ last' = [op |-> "clone", w |-> w]
Save(w) ==
  /\ IF Sharing = "shared"
     THEN LET t == RegisterAll(tables[books[w].tbl], books[w], 1) IN
          /\ tables' = [tables EXCEPT ![books[w].tbl] = t]
          /\ files' = [files EXCEPT ![w] = <<FileOf(books[w], SeqSet(t))>>]
     ELSE /\ files' = [files EXCEPT ![w] = <<FileOf(books[w], SeqSet(RegisterAll(<<>>, books[w], 1)))>>]
          /\ UNCHANGED tables
  /\ last' = [op |-> "save", w |-> w] /\ UNCHANGED books
Reload(w, lazy) ==
  /\ files[w] # <<>> /\ Len(books) < MaxBooks
  /\ books' = Append(books, LoadedB(files[w][1], lazy, Len(tables) + 1))
  /\ tables' = Append(tables, <<>>)          \* (the order of the reloaded table is irrelevant here)
  /\ files' = Append(files, <<>>)
  /\ last' = [op |-> "reload", w |-> w]
ReadSheet(w, sh) == /\ sh \in books[w].raw
                    /\ books' = [books EXCEPT ![w] = ReadSheetB(@, sh)]
                    /\ last' = [op |-> "read", w |-> w] /\ UNCHANGED <<tables, files>>

Next == \E w \in DOMAIN books :
          \/ \E c \in Cells, s \in Strs : SetText(w, c, s)
          \/ \E c \in Cells : Delete(w, c)
          \/ \E r \in {1, 2} : RemoveRow(w, r)
          \/ RemoveSheet(w) \/ Clone(w) \/ Save(w) \/ Reload(w, FALSE) \/ Reload(w, TRUE)
          \/ \E sh \in {1, 2} : ReadSheet(w, sh)
Spec == Init /\ [][Next]_vars

(* ---- C12 ----------------------------------------------------------------- *)
(* the file just saved contains exactly the strings reachable from the saved workbook *)
OnlyReachable == last.op = "save" => files[last.w][1].strs = Reach(books[last.w])
(* ... and decodes to the workbook's cells *)
Decodes       == last.op = "save" => files[last.w][1].text = books[last.w].text
(* saving has no effect on any workbook, and saving twice in a row gives the same file *)
SaveIsPure    == [][last'.op = "save" => /\ books' = books
                                         /\ (last.op = "save" /\ last.w = last'.w => files'[last'.w] = files[last'.w])]_vars
=============================================================================
