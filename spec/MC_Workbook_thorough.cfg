CONSTANTS MaxRow = 1048576 MaxCol = 16384
  NSheets = {1, 2} Pool = "intern" NPos = 3 MaxCells = 3 Depth = 5 MaxSaves = 2 Wide = FALSE Emit = "none" Dev = {}
SPECIFICATION MCSpec
VIEW View
INVARIANTS WellFormed FileWellFormed RoundTripNow Stable
PROPERTIES RoundTripMC OthersUntouchedMC
CHECK_DEADLOCK FALSE
