----------------------------- MODULE MC_Styles -----------------------------
(* Bounded instance of Styles.tla.  Palette: one base style, for every attribute of the property a  *)
(* variant that differs from the base in exactly that attribute, variants with a component left out *)
(* or given as the explicit default, and key-adjacent fonts ("Arial1"/1 next to "Arial"/11).        *)
(* Carriers: three cells, one row, two adjacent columns.  A behaviour is up to MaxAssign assignments *)
(* followed by save, reload, save, reload.  With NBooks = 2 (PalKind = "import": a small palette of  *)
(* styles with custom number formats, cells only) up to MaxImport times the Style of a cell of one  *)
(* workbook is set on a cell, row or column of the other, in any interleaving with the saves and     *)
(* reloads of both: a template that was saved and loaded hands out styles that carry the ids of ITS *)
(* tables, the receiving workbook has other content under the same ids (and vice versa).            *)
EXTENDS Styles, Json

CONSTANTS MaxAssign,    \* number of assignments (all workbooks together)
          MaxImport,    \* number of style imports from one workbook into another
          MaxSaves,     \* number of save/reload rounds of every workbook
          PalKind,      \* "full": the palette below; "import": the small palette with custom number formats, cells only
          Pairs,        \* TRUE: the styles of a workbook differ pairwise in at most one attribute (or are key-adjacent)
          Wide,         \* TRUE: random styles from the whole attribute product on a larger sheet (simulation)
          EmitReplay    \* TRUE: print one REPLAY line per complete behaviour

VARIABLES nassign, nimport, nsave, phase, hist       \* nsave, phase: per workbook
mcvars == <<wbs, nassign, nimport, nsave, phase, hist>>

Col(a, th, ti) == [argb |-> a, theme |-> th, tint |-> ti]
Red == Col("FFFF0000", 0, "0")        \* one of the indexed colours
Odd == Col("FF123456", 0, "0")
Th4 == Col("", 4, "0")
Th4t == Col("", 4, "-0.25")
E(st, co) == [style |-> st, color |-> co]

BFont == [name |-> "Arial", size |-> "11", bold |-> FALSE, italic |-> FALSE, underline |-> "none", strike |-> FALSE,
          color |-> Red, sch |-> "none"]
BFill == [pattern |-> "solid", fg |-> Odd, bg |-> NoColor]
BBorder == [left |-> E("thin", Red), right |-> E("thin", NoColor), top |-> Edge0, bottom |-> E("double", Th4),
            diagonal |-> Edge0, up |-> FALSE, down |-> FALSE]
BAlign == [h |-> "left", v |-> "center", wrap |-> FALSE, rot |-> 0]
BProt == [locked |-> TRUE, hidden |-> FALSE]
Base == [font |-> <<BFont>>, fill |-> <<BFill>>, border |-> <<BBorder>>, align |-> <<BAlign>>, numFmt |-> <<NumOf("0.00")>>,
         prot |-> <<BProt>>]
F(f) == [Base EXCEPT !.font = <<f>>]
Fi(f) == [Base EXCEPT !.fill = <<f>>]
Bo(b) == [Base EXCEPT !.border = <<b>>]
Al(a) == [Base EXCEPT !.align = <<a>>]

FontVariants ==
  {F([BFont EXCEPT !.name = "Verdana"]), F([BFont EXCEPT !.size = "10.5"]), F([BFont EXCEPT !.bold = TRUE]),
   F([BFont EXCEPT !.italic = TRUE]), F([BFont EXCEPT !.underline = "double"]), F([BFont EXCEPT !.strike = TRUE]),
   F([BFont EXCEPT !.color = Th4]), F([BFont EXCEPT !.color = Th4t]), F([BFont EXCEPT !.color = NoColor])}
FillVariants ==
  {Fi([BFill EXCEPT !.pattern = "darkGray"]), Fi([BFill EXCEPT !.fg = Red]), Fi([BFill EXCEPT !.bg = Th4t]),
   Fi([BFill EXCEPT !.pattern = "gray125", !.fg = NoColor])}
BorderVariants ==
  {Bo([BBorder EXCEPT !.left = E("thick", Red)]), Bo([BBorder EXCEPT !.left = E("thin", Odd)]),
   Bo([BBorder EXCEPT !.right = E("thin", Red)]), Bo([BBorder EXCEPT !.top = E("dashed", NoColor)]),
   Bo([BBorder EXCEPT !.bottom = E("double", Th4t)]), Bo([BBorder EXCEPT !.diagonal = E("hair", Odd), !.up = TRUE]),
   Bo([BBorder EXCEPT !.diagonal = E("hair", Odd), !.down = TRUE])}
AlignVariants ==
  {Al([BAlign EXCEPT !.h = "center"]), Al([BAlign EXCEPT !.v = "top"]), Al([BAlign EXCEPT !.wrap = TRUE]),
   Al([BAlign EXCEPT !.rot = 90])}
OtherVariants ==
  {[Base EXCEPT !.numFmt = <<NumOf("0.000")>>], [Base EXCEPT !.numFmt = <<NumOf("m/d/yyyy")>>], [Base EXCEPT !.numFmt = <<NumOf("General")>>],
   [Base EXCEPT !.prot = <<[BProt EXCEPT !.locked = FALSE]>>], [Base EXCEPT !.prot = <<[BProt EXCEPT !.hidden = TRUE]>>]}
(* a component left out / given as the explicit default *)
Partial ==
  {[Base EXCEPT !.font = <<>>], [Base EXCEPT !.font = <<DefaultFont>>], [Base EXCEPT !.fill = <<>>],
   [Base EXCEPT !.fill = <<DefaultFill>>], [Base EXCEPT !.border = <<>>], [Base EXCEPT !.border = <<DefaultBorder>>],
   [Base EXCEPT !.align = <<>>], [Base EXCEPT !.numFmt = <<>>], [Base EXCEPT !.prot = <<>>],
   [EmptyStyle EXCEPT !.align = <<BAlign>>], [EmptyStyle EXCEPT !.font = <<BFont>>]}
(* fonts whose fields run into each other when written without separators *)
KeyAdjacent ==
  {F([BFont EXCEPT !.name = "Arial1", !.size = "1"]),                       \* next to Base: "Arial" "11"
   F([BFont EXCEPT !.name = "Arial", !.size = "111"]), F([BFont EXCEPT !.name = "Arial1", !.size = "11"])}
Palette == {Base} \cup FontVariants \cup FillVariants \cup BorderVariants \cup AlignVariants \cup OtherVariants
           \cup Partial \cup KeyAdjacent

(* styles for the import scenario: two custom number formats (they get the same id in two workbooks), *)
(* the same formats inside the base style, a built-in format, another font                               *)
Metre == "0.0\" m\""
Kilo  == "0.000\" kg\""
ImportPalette == {[EmptyStyle EXCEPT !.numFmt = <<NumOf(Metre)>>], [EmptyStyle EXCEPT !.numFmt = <<NumOf(Kilo)>>],
                  [Base EXCEPT !.numFmt = <<NumOf(Kilo)>>], Base, F([BFont EXCEPT !.name = "Verdana"])}

(* two styles of the palette differ in at most one attribute, or are key-adjacent *)
Near(s, t) == s = t \/ s = Base \/ t = Base \/ (s \in KeyAdjacent /\ t \in KeyAdjacent)
StylesOf(B) == {x.sty : x \in B.cells} \cup {x.sty : x \in B.rows} \cup {x.sty : x \in B.cols}
Allowed(w, s) == ~Pairs \/ \A t \in StylesOf(wbs[w].given) : Near(s, t)

CellPos == {<<1, 1>>, <<1, 2>>, <<2, 2>>}
RowPos  == {2}
ColPos  == {2, 3}
RD(ht, ch, ord, hid, tb, dd) == [ht |-> ht, ch |-> ch, ord |-> ord, hid |-> hid, tb |-> tb, dd |-> dd]
CD(w, hid, bf) == [w |-> w, hid |-> hid, bf |-> bf]
(* style only / height as set_height leaves it / hidden / a height WITHOUT customHeight (an auto-fitted row) /  *)
(* set_custom_height(false) before set_height, thickBot and dyDescent                                          *)
RowDims == {RD("0", FALSE, "hc", FALSE, FALSE, "0"), RD("15.75", TRUE, "hc", FALSE, FALSE, "0"),
            RD("0", FALSE, "hc", TRUE, FALSE, "0"), RD("15.75", FALSE, "hc", FALSE, FALSE, "0"),
            RD("15.75", FALSE, "ch", FALSE, TRUE, "0.25")}
ColDims == {CD("8.38", FALSE, FALSE), CD("12.5", FALSE, FALSE), CD("12.5", TRUE, FALSE), CD("12.5", FALSE, TRUE)}

(* ---- wide pools for simulation: one random style per draw ---------------------------------------- *)
Names == {"Arial", "Arial1", "Arial11", "Calibri", "Verdana", "Times New Roman"}
SizesP == {"1", "11", "111", "8", "10.5", "12"}
Colors == {NoColor, Red, Odd, Th4, Th4t, Col("", 1, "0"), Col("FF00FF00", 0, "0.5"), Col("FFABCDEF", 0, "0")}
Unders == {"none", "single", "double", "singleAccounting", "doubleAccounting"}
Patterns == {"none", "solid", "gray125", "darkGray", "lightUp"}
EdgeStyles == {"none", "thin", "thick", "double", "dashed", "mediumDashDot", "hair"}
Codes == {"General", "0.00", "0.000", "m/d/yyyy", "@", "yyyy-mm-dd", "[$-404]e/m/d", "#,##0.00_);[Red](#,##0.00)",
          "0.0\" m\"", "0.000\" kg\""}
(* (every operator below takes the state-dependent dummy z: TLC evaluates a definition without *)
(*  parameters and without variables only once, which would freeze the draw)                  *)
R(S) == RandomElement(S)
RandFont(z) == [name |-> R(Names), size |-> R(SizesP), bold |-> R(BOOLEAN), italic |-> R(BOOLEAN), underline |-> R(Unders),
                strike |-> R(BOOLEAN), color |-> R(Colors), sch |-> R({"none", "minor"})]
(* (a pattern "none" with a foreground colour is drawn by checks/c05.py only: see C05-KF2) *)
RandFill(z) == LET p == R(Patterns) IN [pattern |-> p, fg |-> IF p = "none" THEN NoColor ELSE R(Colors), bg |-> R(Colors)]
RandEdge(z) == [style |-> R(EdgeStyles), color |-> R(Colors)]
RandBorder(z) == [left |-> RandEdge(z), right |-> RandEdge(z), top |-> RandEdge(z), bottom |-> RandEdge(z),
                  diagonal |-> RandEdge(z), up |-> R(BOOLEAN), down |-> R(BOOLEAN)]
RandAlign(z) == [h |-> R({"general", "left", "center", "right", "fill", "justify"}), v |-> R({"bottom", "top", "center"}),
                 wrap |-> R(BOOLEAN), rot |-> R({0, 45, 90, 180, 255})]
RandProt(z) == [locked |-> R(BOOLEAN), hidden |-> R(BOOLEAN)]
Maybe(x) == IF R({1, 2, 3}) = 1 THEN <<>> ELSE <<x>>
RandStyle(z) == [font |-> Maybe(RandFont(z)), fill |-> Maybe(RandFill(z)), border |-> Maybe(RandBorder(z)),
                 align |-> Maybe(RandAlign(z)), numFmt |-> Maybe(NumOf(R(Codes))), prot |-> Maybe(RandProt(z))]

Small == PalKind = "import"
StylePool(z) == IF Wide THEN {RandStyle(z)} ELSE IF Small THEN ImportPalette ELSE Palette
CellPool(z)  == IF Wide THEN {<<R(1..6), R(1..6)>>} ELSE IF Small THEN {<<1, 1>>, <<1, 2>>} ELSE CellPos
RowPool(z)   == IF Wide THEN {R(1..8)} ELSE IF Small THEN {} ELSE RowPos
ColPool(z)   == IF Wide THEN {R(1..8)} ELSE IF Small THEN {} ELSE ColPos
RowDimPool(z) == IF Wide THEN {RD(R({"0", "15.75", "30", "409.5"}), R(BOOLEAN), R({"hc", "ch"}), R(BOOLEAN), R(BOOLEAN), R({"0", "0", "0.25"}))}
                 ELSE RowDims
ColDimPool(z) == IF Wide THEN {CD(R({"8.38", "12.5", "0.5", "255"}), R(BOOLEAN), R(BOOLEAN))} ELSE ColDims

(* import items: target carrier <- source cell *)
Item(k, r, c, r2, c2) == [k |-> k, r |-> r, c |-> c, r2 |-> r2, c2 |-> c2]
ItemPool(z, v) ==
  IF Wide THEN LET cs  == wbs[v].book.cells                 \* mostly from a cell that has a style
                   src == IF cs = {} \/ R(1..5) = 1 THEN <<R(1..6), R(1..6)>> ELSE LET x == R(cs) IN <<x.r, x.c>>
               IN {Item(R({"cell", "row", "col"}), R(1..6), R(1..6), src[1], src[2])}
  ELSE {Item("cell", p[1], p[2], q[1], q[2]) : p \in {<<1, 1>>, <<1, 2>>}, q \in {<<1, 1>>, <<1, 2>>}}
       \cup {Item("row", 1, 1, q[1], q[2]) : q \in {<<1, 1>>}} \cup {Item("col", 1, 2, q[1], q[2]) : q \in {<<1, 1>>}}

(* the script form of one step: what checks/c05.py hands to the driver *)
Log(rec) == hist' = Append(hist, rec)
AssignRec(w, cs, rs, ks) == [a |-> "Assign", w |-> w, cells |-> cs, rows |-> rs, cols |-> ks]
Books == 1..NBooks

MCInit == /\ Init /\ nassign = 0 /\ nimport = 0 /\ nsave = [w \in Books |-> 0] /\ phase = [w \in Books |-> "edit"]
          /\ hist = <<[a |-> "Init", n |-> NBooks]>>

Assign(w) ==
  /\ phase[w] = "edit" /\ nassign < MaxAssign /\ (nsave[w] = 0 \/ Wide) /\ nsave[w] < MaxSaves
  /\ nassign' = nassign + 1 /\ UNCHANGED <<nimport, nsave, phase>>
  /\ \/ \E p \in CellPool(nassign), s \in StylePool(nassign) :
          /\ Allowed(w, s) /\ SetCell(w, p[1], p[2], s)
          /\ Log(AssignRec(w, <<[r |-> p[1], c |-> p[2], sty |-> s]>>, <<>>, <<>>))
     \/ \E r \in RowPool(nassign), d \in RowDimPool(nassign), s \in StylePool(nassign) :
          /\ Allowed(w, s) /\ SetRow(w, r, d, s)
          /\ Log(AssignRec(w, <<>>, <<[r |-> r, ht |-> d.ht, ch |-> d.ch, ord |-> d.ord, hid |-> d.hid, tb |-> d.tb, dd |-> d.dd,
                                       sty |-> s]>>, <<>>))
     \/ \E c \in ColPool(nassign), d \in ColDimPool(nassign), s \in StylePool(nassign) :
          /\ Allowed(w, s) /\ SetCol(w, c, d, s)
          /\ Log(AssignRec(w, <<>>, <<>>, <<[c |-> c, w |-> d.w, hid |-> d.hid, bf |-> d.bf, sty |-> s]>>))
(* get_style(..).clone() of a cell of workbook v, set_style on a carrier of workbook w *)
DoImport(w, v) ==
  /\ w # v /\ phase[w] = "edit" /\ phase[v] = "edit" /\ nimport < MaxImport /\ nsave[w] < MaxSaves
  /\ nimport' = nimport + 1 /\ UNCHANGED <<nassign, nsave, phase>>
  /\ \E it \in ItemPool(nimport, v) :
        /\ Import(w, v, it)
        /\ Log([a |-> "Import", w |-> w, v |-> v, items |-> <<it>>])
DoSave(w) ==
  /\ phase[w] = "edit" /\ (NBooks = 1 => nassign >= 1) /\ nsave[w] < MaxSaves
  /\ Save(w) /\ Log([a |-> "Save", w |-> w])
  /\ phase' = [phase EXCEPT ![w] = "saved"] /\ nsave' = [nsave EXCEPT ![w] = @ + 1] /\ UNCHANGED <<nassign, nimport>>
DoReload(w) ==
  /\ phase[w] = "saved"
  /\ Reload(w) /\ Log([a |-> "Reload", w |-> w])
  /\ phase' = [phase EXCEPT ![w] = "edit"] /\ UNCHANGED <<nassign, nimport, nsave>>

MCNext == \E w \in Books : Assign(w) \/ DoSave(w) \/ DoReload(w) \/ \E v \in Books : DoImport(w, v)
MCSpec == MCInit /\ [][MCNext]_mcvars
View == <<wbs, nassign, nimport, nsave, phase>>

(* every workbook went through its save/reload rounds: nothing is enabled any more *)
Done == \A w \in Books : nsave[w] = MaxSaves /\ phase[w] = "edit"
Emit == (EmitReplay /\ Done) => PrintT(<<"REPLAY", ToJson(hist)>>)
=============================================================================
