CONSTANTS Wide = FALSE MaxRow = 5 MaxCol = 4 Depth = 1 Family = "full" EmitReplay = FALSE
SPECIFICATION MCSpec
VIEW View
INVARIANTS InGrid WellFormed RemoveUndoesInsert MoveExact CopyExact
PROPERTY OthersUntouchedMC
CHECK_DEADLOCK FALSE
