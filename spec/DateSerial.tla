---------------------------- MODULE DateSerial ----------------------------
(***************************************************************************)
(* Excel's 1900 date system: calendar date + time of day <-> serial number.*)
(*                                                                         *)
(* The module is a calendar clock: it starts on a January 1st and is       *)
(* advanced by the Gregorian successor rule (month lengths, leap years     *)
(* every 4th year except centuries not divisible by 400) while the serial  *)
(* number is advanced by 1 per day -- by 2 from 1900-02-28 to 1900-03-01,  *)
(* because serial 60 is reserved for the day 1900-02-29 that never         *)
(* existed.  Its invariants tie this *definition* of the date system to    *)
(* the closed forms (ordinal day arithmetic and its inverse) that the      *)
(* conformance check (Trace_DateSerial) uses as oracle for the library.    *)
(* The argument is inductive over the years: every year of `Years` starts  *)
(* from the closed form of its January 1st and must arrive at the closed   *)
(* form of the next January 1st.                                           *)
(*                                                                         *)
(* An exact serial is the rational  n + sod/86400  (n = day number, sod =  *)
(* second of the day); it is represented by the pair <<n, sod>>.           *)
(***************************************************************************)
EXTENDS Integers, Sequences, TLC

CONSTANTS Years,     \* the years the clock walks through, a subset of 1900..9999
          Step       \* seconds per tick of the time of day; divides 86400

FirstYear == 1900
LastYear  == 9999

---------------------------------------------------------------------------
(* the Gregorian calendar, by its rules *)
IsLeap(y)      == (y % 4 = 0 /\ y % 100 # 0) \/ y % 400 = 0
MonthLen(y, m) == IF m = 2 THEN (IF IsLeap(y) THEN 29 ELSE 28)
                  ELSE IF m \in {4, 6, 9, 11} THEN 30 ELSE 31
YearLen(y)     == IF IsLeap(y) THEN 366 ELSE 365
ValidDate(dt)  == /\ dt[1] \in FirstYear..LastYear
                  /\ dt[2] \in 1..12
                  /\ dt[3] \in 1..MonthLen(dt[1], dt[2])
NextDate(dt)   == IF dt[3] < MonthLen(dt[1], dt[2]) THEN <<dt[1], dt[2], dt[3] + 1>>
                  ELSE IF dt[2] < 12 THEN <<dt[1], dt[2] + 1, 1>>
                  ELSE <<dt[1] + 1, 1, 1>>

(* time of day *)
Sod(h, mi, s) == h * 3600 + mi * 60 + s
HMS(sod)      == <<sod \div 3600, (sod \div 60) % 60, sod % 60>>
ValidTime(t)  == t[1] \in 0..23 /\ t[2] \in 0..59 /\ t[3] \in 0..59

---------------------------------------------------------------------------
(* closed forms: proleptic Gregorian ordinal (0001-01-01 = 1) and its inverse *)
LeapsUpTo(p)          == p \div 4 - p \div 100 + p \div 400
DaysBeforeYear(y)     == 365 * (y - 1) + LeapsUpTo(y - 1)
CumDays               == <<0, 31, 59, 90, 120, 151, 181, 212, 243, 273, 304, 334>>
DaysBeforeMonth(y, m) == CumDays[m] + (IF m > 2 /\ IsLeap(y) THEN 1 ELSE 0)
Ord(dt)               == DaysBeforeYear(dt[1]) + DaysBeforeMonth(dt[1], dt[2]) + dt[3]

DateOfOrd(o) ==
  LET n0   == o - 1
      n400 == n0 \div 146097        r400 == n0 % 146097
      n100 == r400 \div 36524       r100 == r400 % 36524
      n4   == r100 \div 1461        r4   == r100 % 1461
      n1   == r4 \div 365           r1   == r4 % 365
      y    == 400 * n400 + 100 * n100 + 4 * n4 + n1 + 1
  IN  IF n1 = 4 \/ n100 = 4 THEN <<y - 1, 12, 31>>
      ELSE LET m == CHOOSE k \in 1..12 : /\ DaysBeforeMonth(y, k) <= r1
                                         /\ r1 < DaysBeforeMonth(y, k) + MonthLen(y, k)
           IN  <<y, m, r1 - DaysBeforeMonth(y, m) + 1>>

(* the 1900 date system: day count from 1899-12-30 from 1900-03-01 on, from 1899-12-31 before *)
Epoch       == Ord(<<1899, 12, 30>>)
March1900   == Ord(<<1900, 3, 1>>)
SerialDay(dt)   == LET o == Ord(dt) IN IF o >= March1900 THEN o - Epoch ELSE o - Epoch - 1
DateOfSerial(n) == IF n >= 61 THEN DateOfOrd(n + Epoch) ELSE DateOfOrd(n + Epoch + 1)   \* n # 60
MaxSerial   == 2958465

(* exact serials <<n, sod>> in time order *)
ExactLess(a, b) == a[1] < b[1] \/ (a[1] = b[1] /\ a[2] < b[2])

(* display under the number format yyyy-mm-dd hh:mm:ss *)
Pad2(k) == IF k < 10 THEN "0" \o ToString(k) ELSE ToString(k)
Pad4(k) == IF k < 10 THEN "000" \o ToString(k) ELSE IF k < 100 THEN "00" \o ToString(k)
           ELSE IF k < 1000 THEN "0" \o ToString(k) ELSE ToString(k)
Display(dt, t) == Pad4(dt[1]) \o "-" \o Pad2(dt[2]) \o "-" \o Pad2(dt[3]) \o " " \o
                  Pad2(t[1]) \o ":" \o Pad2(t[2]) \o ":" \o Pad2(t[3])

(* Display under other date formats.  A cell shows the calendar date of its serial whatever the  *)
(* time of day: units a format does not show (seconds; for a date-only format the whole time)    *)
(* are dropped, never rounded into the units it does show.                                      *)
MonthAbbr == <<"Jan", "Feb", "Mar", "Apr", "May", "Jun", "Jul", "Aug", "Sep", "Oct", "Nov", "Dec">>
DisplayFormats == {"yyyy-mm-dd hh:mm:ss", "yyyy-mm-dd", "dd/mm/yyyy", "m/d/yyyy", "d-mmm-yy", "yyyy/mm/dd;@",
                   "yyyy-mm-dd hh:mm"}
DisplayAs(f, dt, t) ==
  CASE f = "yyyy-mm-dd hh:mm:ss" -> Display(dt, t)
    [] f = "yyyy-mm-dd"       -> Pad4(dt[1]) \o "-" \o Pad2(dt[2]) \o "-" \o Pad2(dt[3])
    [] f = "dd/mm/yyyy"       -> Pad2(dt[3]) \o "/" \o Pad2(dt[2]) \o "/" \o Pad4(dt[1])
    [] f = "m/d/yyyy"         -> ToString(dt[2]) \o "/" \o ToString(dt[3]) \o "/" \o Pad4(dt[1])
    [] f = "d-mmm-yy"         -> ToString(dt[3]) \o "-" \o MonthAbbr[dt[2]] \o "-" \o Pad2(dt[1] % 100)
    [] f = "yyyy/mm/dd;@"     -> Pad4(dt[1]) \o "/" \o Pad2(dt[2]) \o "/" \o Pad2(dt[3])   \* section for numbers
    [] f = "yyyy-mm-dd hh:mm" -> Pad4(dt[1]) \o "-" \o Pad2(dt[2]) \o "-" \o Pad2(dt[3]) \o " " \o
                                 Pad2(t[1]) \o ":" \o Pad2(t[2])

---------------------------------------------------------------------------
(* Binary fractions.  A double x with 1 <= x < 2^31 is  n + F / 2^52  for integers n, F; F is   *)
(* written with four digits base 2^13:  f = <<f3, f2, f1, f0>>,  F = f3*2^39+f2*2^26+f1*2^13+f0. *)
(* TLC integers have 32 bits, so the product F * 86400 is formed digit by digit.                *)
Base == 8192
FracOK(f) == Len(f) = 4 /\ \A i \in 1..4 : f[i] \in 0..(Base - 1)

(* F/2^52 * 86400 = t[1] + (t[2]*2^39 + t[3]*2^26 + t[4]*2^13 + t[5]) / 2^52, t[1] whole seconds *)
Times86400(f) ==
  LET p0 == f[4] * 86400
      p1 == f[3] * 86400 + p0 \div Base
      p2 == f[2] * 86400 + p1 \div Base
      p3 == f[1] * 86400 + p2 \div Base
  IN  <<p3 \div Base, p3 % Base, p2 % Base, p1 % Base, p0 % Base>>

(* the fraction is the time of day `sod` up to double-precision rounding: less than 2^-13 s     *)
(* (0.12 ms, three units in the last place of the largest serial of the date system) away       *)
FracIsSecond(f, sod) ==
  LET t == Times86400(f)
  IN  \/ t[1] = sod     /\ t[2] = 0
      \/ t[1] = sod - 1 /\ t[2] = Base - 1

(* order of doubles given as <<n, f3, f2, f1, f0>>: lexicographic *)
DoubleLess(a, b) ==
  IF a[1] # b[1] THEN a[1] < b[1] ELSE
  IF a[2] # b[2] THEN a[2] < b[2] ELSE
  IF a[3] # b[3] THEN a[3] < b[3] ELSE
  IF a[4] # b[4] THEN a[4] < b[4] ELSE a[5] < b[5]

---------------------------------------------------------------------------
(* the clock *)
VARIABLE clk          \* [date |-> <<y,m,d>>, sod |-> second of the day, serial |-> day number]
vars == <<clk>>

Start(y) == [date |-> <<y, 1, 1>>, sod |-> 0, serial |-> SerialDay(<<y, 1, 1>>)]

Post_TickTime(c) == [c EXCEPT !.sod = @ + Step]
Post_TickDay(c)  == [date   |-> NextDate(c.date),
                     sod    |-> 0,
                     serial |-> c.serial + (IF c.date = <<1900, 2, 28>> THEN 2 ELSE 1)]

Init     == \E y \in Years : clk = Start(y)
TickTime == /\ clk.date[1] \in Years
            /\ clk.sod + Step < 86400
            /\ clk' = Post_TickTime(clk)
TickDay  == /\ clk.date[1] \in Years
            /\ clk.sod + Step >= 86400
            /\ clk.date # <<LastYear, 12, 31>>
            /\ clk' = Post_TickDay(clk)
Next == TickTime \/ TickDay
Spec == Init /\ [][Next]_vars

TypeOK     == /\ clk.date[1] \in FirstYear..LastYear /\ clk.date[2] \in 1..12
              /\ clk.date[3] \in 1..MonthLen(clk.date[1], clk.date[2])
              /\ clk.sod \in 0..86399 /\ clk.serial \in 1..MaxSerial
Defn       == clk.serial = SerialDay(clk.date)              \* clock = closed form (incl. hand-over)
Inverse    == DateOfSerial(clk.serial) = clk.date           \* closed-form inverse
OrdInverse == DateOfOrd(Ord(clk.date)) = clk.date
NoPhantom  == clk.serial # 60
Ends       == /\ clk.date = <<1900, 1, 1>>   => clk.serial = 1
              /\ clk.date = <<1900, 2, 28>>  => clk.serial = 59
              /\ clk.date = <<1900, 3, 1>>   => clk.serial = 61
              /\ clk.date = <<9999, 12, 31>> => clk.serial = MaxSerial
TimeOK     == /\ ValidTime(HMS(clk.sod))
              /\ Sod(HMS(clk.sod)[1], HMS(clk.sod)[2], HMS(clk.sod)[3]) = clk.sod
(* The digit-wise fraction arithmetic: 86400 = 2^7 * 675, so a time of day that is a multiple of *)
(* 675 s is the binary fraction (sod/675)/128 exactly = <<(sod/675)*64, 0, 0, 0>>; one unit in   *)
(* the last place beside an exact fraction is accepted, 2^-26 day (1.3 ms) beside it is not.    *)
FracArith  == /\ clk.sod % 675 = 0 =>
                   LET f == <<(clk.sod \div 675) * 64, 0, 0, 0>>
                   IN  /\ Times86400(f) = <<clk.sod, 0, 0, 0, 0>>
                       /\ FracIsSecond(f, clk.sod) /\ ~FracIsSecond(f, clk.sod + 1)
                       /\ clk.sod > 0 => ~FracIsSecond(f, clk.sod - 1)
              /\ FracIsSecond(<<4095, 8191, 8191, 8191>>, 43200) /\ FracIsSecond(<<4096, 0, 0, 1>>, 43200)
              /\ ~FracIsSecond(<<4095, 8191, 0, 0>>, 43200)      /\ ~FracIsSecond(<<4096, 1, 0, 0>>, 43200)
              /\ DoubleLess(<<59, 0, 0, 0, 0>>, <<59, 0, 0, 0, 1>>) /\ DoubleLess(<<59, 8191, 0, 0, 0>>, <<61, 0, 0, 0, 0>>)
              /\ ~DoubleLess(<<61, 0, 0, 0, 0>>, <<61, 0, 0, 0, 0>>) /\ ~DoubleLess(<<61, 0, 1, 0, 0>>, <<61, 0, 0, 8191, 0>>)
(* the renderings agree with each other on the components they share (examined on the days where *)
(* the padding changes and at the month ends: string building is the costly part of this model) *)
Displays   == clk.date[3] \in {1, 9, 10, 28, 29, 30, 31} =>
              LET t == HMS(clk.sod)
                  d == clk.date
              IN  /\ DisplayAs("yyyy-mm-dd hh:mm", d, t) \o ":" \o Pad2(t[3]) = Display(d, t)
                  /\ DisplayAs("yyyy-mm-dd", d, t) \o " " \o Pad2(t[1]) \o ":" \o Pad2(t[2])
                        = DisplayAs("yyyy-mm-dd hh:mm", d, t)
                  /\ DisplayAs("yyyy-mm-dd", d, t) = DisplayAs("yyyy-mm-dd", d, <<0, 0, 0>>)
                  /\ \A f \in DisplayFormats : DisplayAs(f, d, t) # ""
Monotone   == [][ExactLess(<<clk.serial, clk.sod>>, <<clk'.serial, clk'.sod>>)]_vars
=============================================================================
