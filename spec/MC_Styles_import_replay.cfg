CONSTANTS KeyMode = "exact" NBooks = 2 PalKind = "import" MaxImport = 1 MaxAssign = 2 MaxSaves = 1 Pairs = FALSE Wide = FALSE EmitReplay = TRUE
SPECIFICATION MCSpec
INVARIANTS Emit
CHECK_DEADLOCK FALSE
