--------------------------- MODULE MC_SaveAtomic ---------------------------
(* Bounded instances of SaveAtomic.tla.                                                        *)
(*   PlanMode = "any"   : every chunking of 1..MaxChunks chunks of 1..MaxChunk bytes around a  *)
(*                        BufCap-byte buffer, every instance, destination present or not,      *)
(*                        every result (ok / short by any amount / error) of every system call *)
(*                        and a kill in every state                                            *)
(*   PlanMode = "plans" : single-chunk payloads under each fault plan the check can really     *)
(*                        produce; one REPLAY line per behaviour (EmitReplay)                  *)
EXTENDS SaveAtomic, Json

CONSTANTS MaxChunk, MaxChunks, PlanMode, EmitReplay

VARIABLE hist
mcvars == <<cfg, env, disk, sink, pc, nxt, buf, pend, phase, failed, ret, hist>>

RECURSIVE SeqsUpTo(_)
SeqsUpTo(n) == IF n = 0 THEN {<<>>}
               ELSE SeqsUpTo(n - 1) \cup {Append(s, c) : s \in {t \in SeqsUpTo(n - 1) : Len(t) = n - 1}, c \in 1..MaxChunk}
ChunkSeqs == SeqsUpTo(MaxChunks) \ {<<>>}

(* instances: the buffered sequential writers (xlsx, light xlsx, csv), the compound-file writer of the
   password-protected saves (payload built first, written without the BufCap buffer), a caller-supplied writer *)
Cfg(mode, ch, ex, bu, bf, st) == [mode |-> mode, chunks |-> ch, size |-> SumSeq(ch), existed |-> ex, buffered |-> bu,
                                  buildFirst |-> bf, stale |-> st]
(* a temporary file left by an earlier killed save: none, shorter than / as long as / longer than the new file *)
Stales(ch) == {0, SumSeq(ch), SumSeq(ch) + 1} \cup (IF SumSeq(ch) > 1 THEN {SumSeq(ch) - 1} ELSE {})
PathCfgs == UNION {{Cfg("path", ch, ex, i[1], i[2], st) : ex \in BOOLEAN, i \in {<<TRUE, FALSE>>, <<FALSE, TRUE>>}, st \in Stales(ch)}
                   : ch \in ChunkSeqs}
SinkCfgs == {Cfg("sink", ch, FALSE, FALSE, FALSE, 0) : ch \in {s \in ChunkSeqs : PlanMode = "any" \/ SumSeq(s) <= 4}}

(* the number of write calls a fault-free save of c makes is at most this *)
MaxWrites(c) == Len(c.chunks) + 1
Plans(c) ==
  IF PlanMode = "any" THEN {[t |-> "any"]}
  ELSE IF c.mode = "sink" THEN {[t |-> "none"]}
  ELSE IF c.stale > 0          \* a left-over temporary file: fault-free, and one fault of each kind
  THEN {[t |-> "none"], [t |-> "limit", k |-> c.size - 1], [t |-> "failwrite", i |-> 1, sticky |-> TRUE, unlink |-> FALSE],
        [t |-> "failcall", call |-> "create"], [t |-> "failcall", call |-> "rename"], [t |-> "crash", j |-> 1], [t |-> "crash", j |-> 2]}
  ELSE {[t |-> "none"]}
       \cup {[t |-> "limit", k |-> k] : k \in 0..(c.size - 1)}
       \cup {[t |-> "failwrite", i |-> i, sticky |-> s, unlink |-> u] : i \in 1..MaxWrites(c), s \in BOOLEAN, u \in BOOLEAN}
       \cup {[t |-> "failcall", call |-> x] : x \in {"create", "rename", "build"}}
       \cup {[t |-> "crash", j |-> j] : j \in 0..(MaxWrites(c) + 2)}

MCInit == /\ \E c \in PathCfgs \cup SinkCfgs : \E p \in Plans(c) : InitWith(c, p)
          /\ hist = <<[a |-> "Init", cfg |-> cfg, plan |-> env.plan]>>

CallName == CASE pc' = "crashed" -> "Crash"
              [] pc = "create" -> "Create"
              [] pend > 0 /\ cfg.mode = "path" -> "Write"
              [] pend > 0 -> "SinkWrite"
              [] pc = "rename" -> "Rename"
              [] pc = "cleanup" -> "Unlink"
              [] OTHER -> "Return"
Visible == env'.calls # env.calls \/ sink' # sink \/ (pc' \in {"done", "crashed"} /\ pc \notin {"done", "crashed"})
Log == hist' = IF Visible
               THEN Append(hist, [a |-> CallName, dest |-> disk'.dest, tmp |-> disk'.tmp, ret |-> ret', got |-> sink'.got])
               ELSE hist

(* Next of SaveAtomic, one disjunct per named action so that TLC's coverage shows which were taken *)
DoCreate     == ~CrashNow /\ (\E r \in Results : Create(r)) /\ Log
DoBuild      == ~CrashNow /\ (\E r \in Results : Build(r)) /\ Log
DoHand       == ~CrashNow /\ (Hand) /\ Log
DoAllHanded  == ~CrashNow /\ (AllHanded) /\ Log
DoFlush      == ~CrashNow /\ (Flush) /\ Log
DoSysWrite   == ~CrashNow /\ (\E r \in {"ok", "short", "err"} : \E m \in 0..pend : SysWrite(r, m)) /\ Log
DoRename     == ~CrashNow /\ (\E r \in Results : Rename(r)) /\ Log
DoRemoveTmp  == ~CrashNow /\ (\E r \in Results : RemoveTmp(r)) /\ Log
DoReturn     == ~CrashNow /\ (Return) /\ Log
DoSinkHand   == ~CrashNow /\ (SinkHand) /\ Log
DoSinkWrite  == ~CrashNow /\ (\E r \in {"ok", "err", "zero"} : \E m \in 0..pend : SinkWrite(r, m)) /\ Log
DoCrash      == Crash /\ Log
DoTerminated == Terminated /\ Log
MCNext == \/ DoCreate \/ DoBuild \/ DoHand \/ DoAllHanded \/ DoFlush \/ DoSysWrite \/ DoRename \/ DoRemoveTmp
          \/ DoReturn \/ DoSinkHand \/ DoSinkWrite \/ DoCrash \/ DoTerminated
(* it is the same relation *)
SameNext == [][Next]_vars
MCSpec == MCInit /\ [][MCNext]_mcvars

View == vars

TypeOK ==
  /\ disk.dest.k \in {"absent", "old", "new"} /\ disk.tmp.k \in {"absent", "new", "stale"}
  /\ disk.dest.n \in 0..cfg.size /\ disk.tmp.n \in 0..cfg.size
  /\ disk.dest.junk = 0 /\ (disk.tmp.junk > 0 => disk.tmp.k = "stale")      \* the temporary file is created empty
  /\ buf \in 0..BufCap /\ pend \in 0..(BufCap + MaxChunk) /\ nxt \in 1..(Len(cfg.chunks) + 1)
  /\ ret \in {"none", "ok", "err", "panic"} /\ failed \in BOOLEAN
  /\ pc \in {"create", "build", "write", "flush", "rename", "cleanup", "return", "done", "crashed"}
  /\ sink.got \in 0..cfg.size

(* a save that is not killed always comes to an end: checked as absence of deadlock (Terminated stutters) *)
Emit == (EmitReplay /\ pc \in {"done", "crashed"}) => PrintT(<<"REPLAY", ToJson(hist)>>)
=============================================================================
