CONSTANTS Depth = 40 MaxSheets = 3 Pairing = "one" Family = "all" Wide = TRUE EmitReplay = TRUE
SPECIFICATION MCSpec
INVARIANTS Emit WellFormed
CHECK_DEADLOCK FALSE
