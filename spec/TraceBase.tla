---------------------------- MODULE TraceBase ----------------------------
(***************************************************************************)
(* Common part of every trace specification.  A recorded trace is an       *)
(* ndjson file (one event per line) named by the environment variable      *)
(* TRACE; KNOWN names a JSON array with the ids of the *open* known        *)
(* findings whose deviations may be used to explain an event.              *)
(*                                                                         *)
(* Protocol with /verif/lib/vlib.py (TLC is the only judge):               *)
(*   <<"MISMATCH", l, ...>>  event l is explained neither by the intended  *)
(*                           action nor by an enabled deviation            *)
(*   <<"KF", id, l>>         event l was explained by deviation `id`       *)
(*   <<"CONSUMED", k>>       printed by the post-condition: k events were  *)
(*                           consumed (must equal the number of lines)     *)
(***************************************************************************)
EXTENDS Naturals, Sequences, TLC, Json, IOUtils

Rec   == ndJsonDeserialize(IOEnv.TRACE)
Known == JsonDeserialize(IOEnv.KNOWN)
KFOn(id) == \E i \in DOMAIN Known : Known[i] = id

Mismatch(l, what)   == PrintT(<<"MISMATCH", l, what>>)
KFHit(id, l)        == PrintT(<<"KF", id, l>>)

(* smallest element of a non-empty set of naturals *)
MinOf(S) == CHOOSE x \in S : \A y \in S : x <= y

Consumed == PrintT(<<"CONSUMED", TLCGet("stats").diameter - 1>>)
=============================================================================
