CONSTANTS
  ChannelNames = {"font_name", "cell_text"}
  IdReaders = {"font_name"}
  IdWriters = {"font_name"}
  MaxLen = 2
  MaxGen = 2
  XChannels = {"cell_text", "cached_string"}
  XEndBug = FALSE
SPECIFICATION CSpec
INVARIANTS WrittenSafe
CHECK_DEADLOCK FALSE
