---- MODULE MC_NumFmt2 ----
EXTENDS NumFmt2, Json

Q(chars)  == Item("q", chars)
B(c)      == Item("b", <<c>>)
E(c)      == Item("e", <<c>>)
Pad(c)    == Item("pad", <<c>>)
Fill(c)   == Item("fill", <<c>>)
Pct       == Item("pct", <<>>)
At        == Item("at", <<>>)
Cur(c, l) == [t |-> "cur", c |-> c, l |-> l]
Tok(c)    == Item("d", c)
El(c)     == Item("el", c)

Ph(k, c) == [i \in 1..k |-> c]
NumS(pre, ip, grp, fp, sc, post) == [Sec0 EXCEPT !.pre = pre, !.ip = ip, !.grp = grp, !.fp = fp, !.sc = sc, !.post = post]
Plain(ip, fp) == NumS(<<>>, ip, FALSE, fp, 0, <<>>)
SciS(ip, fp, es, ep) == [Sec0 EXCEPT !.k = "sci", !.ip = ip, !.fp = fp, !.esign = es, !.ep = ep]
FracS(ip, np, dp) == [Sec0 EXCEPT !.k = "frac", !.ip = ip, !.np = np, !.dp = dp]
FracFix(ip, np, d) == [Sec0 EXCEPT !.k = "frac", !.ip = ip, !.np = np, !.dfix = d]
LitS(items) == [Sec0 EXCEPT !.k = "lit", !.pre = items]
TextS(items) == [Sec0 EXCEPT !.k = "text", !.pre = items]
DateS(items) == [Sec0 EXCEPT !.k = "date", !.pre = items]
Col(s, c) == [s EXCEPT !.color = c]
Cond(s, op, v) == [s EXCEPT !.cop = op, !.cval = v]
Rc(neg, i, f) == [neg |-> neg, int |-> i, frac |-> f]
Red == <<"R", "e", "d">>

Z(k) == Ph(k, "0")
H(k) == Ph(k, "#")
Qm(k) == Ph(k, "?")
yyyy == Tok(<<"y","y","y","y">>)  mm == Tok(<<"m","m">>)  dd == Tok(<<"d","d">>)  hh == Tok(<<"h","h">>)
h1 == Tok(<<"h">>)  ss == Tok(<<"s","s">>)  ampm == Tok(<<"A","M","/","P","M">>)

MCCatalogue == <<
  (* single sections: placeholders, padding, optional digits *)
  << Plain(Z(3), <<>>) >>,                                           \* 000
  << Plain(H(1), H(2)) >>,                                           \* #.##
  << Plain(<<"?", "?", "0">>, <<"0", "?">>) >>,                      \* ??0.0?
  << Plain(Z(1), <<"0", "#", "#">>) >>,                              \* 0.0##
  (* grouping, scaling, percent *)
  << NumS(<<>>, <<"#", "#", "#", "0">>, TRUE, Z(1), 0, <<>>) >>,     \* #,##0.0
  << NumS(<<>>, Z(4), TRUE, <<>>, 0, <<>>) >>,                       \* 0,000
  << NumS(<<>>, <<"#", "#", "#", "#">>, TRUE, <<>>, 0, <<>>) >>,     \* #,###
  << NumS(<<>>, Z(1), FALSE, Z(2), 1, <<>>) >>,                      \* 0.00,
  << NumS(<<>>, Z(1), FALSE, <<>>, 1, <<>>) >>,                      \* 0,
  << NumS(<<>>, Z(1), FALSE, Z(1), 0, <<Pct>>) >>,                   \* 0.0%
  (* literals, sections *)
  << NumS(<<Q(<<"x">>)>>, Z(1), FALSE, Z(2), 0, <<B(" "), Q(<<"k","g">>)>>) >>,        \* "x"0.00 "kg"
  << NumS(<<>>, Z(1), FALSE, Z(2), 0, <<Pad(")")>>), NumS(<<B("(")>>, Z(1), FALSE, Z(2), 0, <<B(")")>>) >>,   \* 0.00_);(0.00)
  << Plain(Z(1), Z(1)), Col(NumS(<<B("-")>>, Z(1), FALSE, Z(1), 0, <<>>), Red), LitS(<<Q(<<"z","e","r","o">>)>>) >>,
  << NumS(<<B("$")>>, <<"#", "#", "#", "0">>, TRUE, Z(2), 0, <<>>), NumS(<<B("-"), B("$")>>, <<"#", "#", "#", "0">>, TRUE, Z(2), 0, <<>>),
     LitS(<<B("-")>>), TextS(<<At, Pad("-")>>) >>,
  << NumS(<<Cur(<<"k","r">>, <<"4","1","D">>), B(" ")>>, Z(1), FALSE, Z(2), 0, <<>>) >>,
  << NumS(<<>>, Z(1), FALSE, <<>>, 0, <<Pct, Q(<<" ", "x">>)>>), NumS(<<B("(")>>, Z(1), FALSE, <<>>, 0, <<Pct, B(")")>>) >>,
  (* conditions *)
  << Cond(Plain(Z(1), Z(1)), <<">", "=">>, Rc(FALSE, <<1, 0>>, <<>>)), NumS(<<Q(<<"s">>)>>, Z(1), FALSE, Z(2), 0, <<>>) >>,
  << Cond(Plain(Z(1), <<>>), <<">">>, Rc(FALSE, <<5, 0>>, <<>>)), Cond(Plain(Z(1), Z(1)), <<"<">>, Rc(TRUE, <<1>>, <<5>>)),
     Plain(Z(1), Z(2)) >>,
  (* scientific *)
  << SciS(Z(1), Z(2), "+", Z(2)) >>,
  << SciS(<<"#", "#", "0">>, Z(1), "+", Z(1)) >>,
  << SciS(Z(1), <<>>, "-", Z(1)) >>,
  (* fractions *)
  << FracS(H(1), Qm(1), Qm(1)) >>,
  << FracS(Z(1), Qm(2), Qm(2)) >>,
  << FracS(<<>>, Qm(1), Qm(1)) >>,
  << FracFix(H(1), Qm(1), <<8>>) >>,
  << FracFix(H(1), Qm(2), <<1, 6>>) >>,
  (* dates *)
  << DateS(<<yyyy, B("-"), mm, B("-"), dd>>) >>,
  << DateS(<<h1, B(":"), mm, B(":"), ss, B(" "), ampm>>) >>,
  << DateS(<<El(<<"h">>)>>) >>
>>

(* block starts (in units of Block = 20 numbers): 0.00.., 0.40.., 0.80.., 9.80.., 99.80.., 999.80.., 1234.40..,
   9999.80.. *)
QuickStarts == {0, 2, 4, 49, 499, 4999, 6172, 49999}
RuleStarts == {0, 49, 4999, 6172}             \* enough for every rule (MC_NumFmt2_replay.cfg)
(* thorough (Block = 50): 0.00 .. 9.99 contiguous, then 99.50.., 100.00.., 124.50.., 500.00.., 999.50.., 1000.00..,
   1234.00.., 1234.50.., 4999.50.., 5000.00.., 9999.50.. *)
ThoroughStarts == 0..19 \cup {199, 200, 249, 1000, 1999, 2000, 2468, 2469, 9999, 10000, 19999}

(* a deviant design for the vacuity guard: literals are not rendered *)
DevLit == {KLit}

(* replay run: one REPLAY line per (format, value) pair the machine visits *)
SpecR == Init2 /\ [][Advance]_vars2
EmitReplay == PrintT(<<"REPLAY", ToJson([secs |-> CurF, x |-> CurV])>>)
====
