\* behaviours to be run on the real library: every history of <= 2 SetCell (2 sheets, 2x2 window,
\* 8 value classes) and SetActive, followed by an export with each trim x wrap combination
CONSTANTS NSheets = 2 MaxR = 2 MaxC = 2 MaxCells = 2 FreeLen = 0 Escape = FALSE Overwrite = TRUE Record = TRUE
CONSTANTS Values <- ReplayValues FreeAlphabet <- NoFree
SPECIFICATION Spec
CONSTRAINT BuildOnly
CHECK_DEADLOCK FALSE
