----------------------------- MODULE MC_Resave -----------------------------
(* Bounded instance of Resave.tla: every original file of a small family (foreign files with their own cell  *)
(* format 0, duplicate cell formats, blank cells with and without style, unused shared strings, default-     *)
(* valued and custom rows, parts the library does not model; and files the library wrote itself), optional  *)
(* single-cell edit, MaxGen generations of save + load.                                                     *)
EXTENDS Resave, Json

CONSTANTS Family,       \* "full" | "mid2" | "mid", "quick2" (thorough) | "quick" | "small" (replays)
          EmitReplay    \* TRUE: print one REPLAY line per behaviour when generation 1 is reached

VARIABLE hist
mcvars == <<mem, file, orig, d0, gen, edit, prev, prevFile, hist>>

(* raw-cell variants of one position; "none" = no cell there.  xf 1 duplicates cell format 0, xf 2 is S1 *)
Raw(r, c, t, v, xf) == [r |-> r, c |-> c, t |-> t, v |-> v, f |-> "", xf |-> xf]
Variants(r, c) ==
  { Raw(r, c, "", "", -1), Raw(r, c, "", "", 1), Raw(r, c, "", "", 2), Raw(r, c, "s", 1, -1), Raw(r, c, "s", 2, 1),
    Raw(r, c, "n", "1.5", 2), Raw(r, c, "s", 1, 0) }
FewVariants(r, c) == { Raw(r, c, "", "", 1), Raw(r, c, "s", 2, 2), Raw(r, c, "n", "1.5", -1) }
Opt(S) == {{}} \cup {{x} : x \in S}

CellSets ==
  IF Family = "full"
  THEN {a \cup b \cup c : a \in Opt(Variants(1, 1)), b \in Opt(Variants(1, 2)), c \in Opt(FewVariants(2, 1))}
  ELSE IF Family \in {"mid", "mid2"}
  THEN {a \cup b \cup c : a \in Opt(Variants(1, 1)), b \in Opt(FewVariants(1, 2)), c \in Opt(FewVariants(2, 1))}
  ELSE IF Family \in {"quick", "quick2"}
  THEN {a \cup c : a \in Opt(Variants(1, 1)), c \in Opt(FewVariants(2, 1))}
  ELSE {a \cup b : a \in Opt(FewVariants(1, 1) \cup {Raw(1, 1, "", "", 2)}),
                     b \in Opt({Raw(2, 1, "s", 2, 1), Raw(2, 1, "", "", -1), Raw(2, 1, "", "", 2)})}

(* ht1 = <<height, hidden>> of row 1 *)
RowsFor(cs, ht1, extraRow) ==
  {[r |-> r, ht |-> IF r = 1 THEN ht1[1] ELSE "0", hid |-> IF r = 1 THEN ht1[2] ELSE FALSE, xf |-> -1] : r \in {x.r : x \in cs}}
  \cup extraRow

(* the other features of a file: string table with / without an unused item, a part the library does not model,
   row 1 plain / with a custom height / hidden, an extra row without cells (default-valued / styled / hidden / hidden
   with a height), a column entry (default-valued / hidden / wide / styled / all three).  "full": every combination;
   "mid2": the base file and at most two deviations from it; otherwise the base file and every single deviation *)
Feat(sst, ex, ht1, er, co) == [sst |-> sst, ex |-> ex, ht1 |-> ht1, er |-> er, co |-> co]
SstSet == {<<"a", "a&b">>, <<"a", "a&b", "unused">>}
ExSet  == {{}, {"customXml"}}
HtSet  == {<<"0", FALSE>>, <<"20", FALSE>>, <<"0", TRUE>>}             \* row 1 (it may hold cells): plain / custom height / hidden
ERow(ht, hid, xf) == {[r |-> 3, ht |-> ht, hid |-> hid, xf |-> xf]}   \* row 3 never holds a cell of the file
ErSet  == {{}, ERow("0", FALSE, -1), ERow("0", FALSE, 2), ERow("0", TRUE, -1), ERow("20", TRUE, -1)}
          \* none / plain empty / styled empty / hidden empty / hidden with height
ECol(w, hid, xf) == {[min |-> 2, max |-> 2, w |-> w, hid |-> hid, xf |-> xf]}
(* equal declared columns 2 and 4 (hidden / wide / styled): column 3 not declared, declared but different, or equal too *)
Gap(w, hid, xf)  == {[min |-> 2, max |-> 2, w |-> w, hid |-> hid, xf |-> xf], [min |-> 4, max |-> 4, w |-> w, hid |-> hid, xf |-> xf]}
GapSets == {Gap("8.38", TRUE, -1), Gap("12", FALSE, -1), Gap("8.38", FALSE, 2),
            Gap("8.38", TRUE, -1) \cup {[min |-> 3, max |-> 3, w |-> "30", hid |-> FALSE, xf |-> -1]},
            {[min |-> 2, max |-> 4, w |-> "8.38", hid |-> TRUE, xf |-> -1]}}
CoSet  == {{}, ECol("8.38", FALSE, -1), ECol("8.38", TRUE, -1), ECol("12", FALSE, -1), ECol("8.38", FALSE, 2), ECol("12", TRUE, 2)} \cup GapSets
AllFeatures == {Feat(a, b, c, d, e) : a \in SstSet, b \in ExSet, c \in HtSet, d \in ErSet, e \in CoSet}
Base == Feat(<<"a", "a&b">>, {}, <<"0", FALSE>>, {}, {})
Differs(x) == (IF x.sst # Base.sst THEN 1 ELSE 0) + (IF x.ex # Base.ex THEN 1 ELSE 0)
              + (IF x.ht1 # Base.ht1 THEN 1 ELSE 0) + (IF x.er # Base.er THEN 1 ELSE 0) + (IF x.co # Base.co THEN 1 ELSE 0)
Features == IF Family = "full" THEN AllFeatures
            ELSE IF Family \in {"mid2", "quick2"} THEN {x \in AllFeatures : Differs(x) <= 2}
            ELSE {x \in AllFeatures : Differs(x) <= 1}

Files ==
  { [x0 |-> x0, xfs |-> <<x0, "S1">>, sst |-> ft.sst, extra |-> ft.ex, rid |-> "o",
     sheets |-> << [cells |-> cs, rows |-> RowsFor(cs, ft.ht1, ft.er), cols |-> ft.co] >>] :
      x0 \in {"X0", "L0"}, ft \in Features, cs \in CellSets }

EditPositions == {<<1, 1>>, <<2, 1>>, <<3, 3>>}
EditValues    == {<<"text", "new&">>, <<"num", "7">>}

MCInit == \E f \in Files : Open(f) /\ hist = <<[a |-> "Open", file |-> f]>>

MCEdit == \E p \in EditPositions, v \in EditValues :
            /\ EditCell(1, p[1], p[2], v[1], v[2])
            /\ hist' = Append(hist, [a |-> "Edit", s |-> 1, r |-> p[1], c |-> p[2], k |-> v[1], v |-> v[2]])
MCResave == \E rid \in Rids : Resave(rid) /\ UNCHANGED hist

MCNext == MCEdit \/ MCResave
MCSpec == MCInit /\ [][MCNext]_mcvars

View == <<mem, file, orig, d0, gen, edit, prev, prevFile>>

Emit == (EmitReplay /\ gen = 1) => PrintT(<<"REPLAY", ToJson(hist)>>)
=============================================================================
