CONSTANTS Years <- AllYears Step = 43200
SPECIFICATION Spec
INVARIANTS TypeOK Defn Inverse OrdInverse NoPhantom Ends TimeOK FracArith Displays
PROPERTY Monotone
CHECK_DEADLOCK FALSE
