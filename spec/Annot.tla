------------------------------- MODULE Annot -------------------------------
(***************************************************************************)
(* C06: the sheet list and the annotations of a workbook, and what a save  *)
(* followed by a reload does to them.                                      *)
(*                                                                         *)
(* Abstract state (one workbook):                                          *)
(*   wb.sheets   sequence (tab order) of sheets                            *)
(*   wb.active   index stored in the workbook view (0-based, as the        *)
(*               library stores it; nothing keeps it below Len(sheets))    *)
(*   wb.names    defined names kept at workbook level                      *)
(*   wb.prot     <<>> or <<workbook protection record>>                    *)
(* a sheet:                                                                *)
(*   name, state ("visible" | "hidden" | "veryHidden"),                    *)
(*   merges   set of range texts      links  set of [cell,url,loc,tip]     *)
(*   comments set of [r,c,author,text,vr,vc]  (vr,vc: cell the VML shape   *)
(*            of the comment points to, 0-based; text = the runs of the    *)
(*            comment one after the other, blanks included)                *)
(*   code     <<>> or <<code name>>: stored in the same sheetPr element as *)
(*            the tab colour; carried and driven, NOT part of the property *)
(*   dvs      set of validation records   cfs      set of [sqref, rules]   *)
(*   af, tab, prot   <<>> or <<value>>    views    sequence of views       *)
(*   ps, hf   page setup / header-footer records                           *)
(*   names    defined names kept with this sheet                           *)
(* a defined name: [name, local, ref, addr, hidden]; local = localSheetId  *)
(* (0-based sheet index) or -1; ref = the sheet its address designates     *)
(* ("" if none); addr = the address text.  A name is unique per scope:     *)
(* the same name may be global and local to several sheets at once.        *)
(*                                                                         *)
(* Every operation is wb' = <Op>P(wb, args) with <Op>P a plain operator,   *)
(* so that the trace specification can evaluate it.  SaveLoad is modelled  *)
(* in two halves that mirror the file format:                              *)
(*   SaveWb  builds the abstract package: per sheet the hyperlink elements *)
(*           of the sheet part (location, or r:id = k for the k-th         *)
(*           external link met while enumerating the links) and the        *)
(*           relationships part (Id = k for the k-th external link met     *)
(*           while enumerating the links AGAIN); a comments part (author   *)
(*           table + authorId) and a VML part (one shape per comment);     *)
(*           one flat list of defined names.                               *)
(*   LoadWb  resolves r:id through the relationships, authorId through the *)
(*           author table, joins comment and shape by cell reference and   *)
(*           re-homes defined names by localSheetId, else by the sheet     *)
(*           named in the address, else at workbook level.                 *)
(* q1 / q2 are the two enumerations of a sheet's link cells.  Intended     *)
(* design: ONE order (q1 = q2); the deviant design (two independently      *)
(* seeded hash maps) lets them differ - TLC refutes AnnotationsKept for it *)
(* (MC_Annot_deviant.cfg).                                                 *)
(***************************************************************************)
EXTENDS Naturals, Integers, Sequences, FiniteSets, TLC

VARIABLES wb, last
vars == <<wb, last>>

(* ---------------------------------------------------------------- sheets *)
DefaultPs == [paper |-> 0, orient |-> "default", scale |-> 0, fith |-> 0, fitw |-> 0, hdpi |-> 0, vdpi |-> 0]
NewSheet(nm) == [name |-> nm, state |-> "visible", code |-> <<>>, merges |-> {}, links |-> {}, comments |-> {}, dvs |-> {}, cfs |-> {},
                 af |-> <<>>, tab |-> <<>>, views |-> <<>>, ps |-> DefaultPs, hf |-> [h |-> "", f |-> ""],
                 prot |-> <<>>, names |-> {}]
EmptyWb == [sheets |-> <<>>, active |-> 0, names |-> {}, prot |-> <<>>]
RECURSIVE InitSheets(_, _, _)
InitSheets(w, nms, k) == IF k > Len(nms) THEN w ELSE InitSheets([w EXCEPT !.sheets = Append(@, NewSheet(nms[k]))], nms, k + 1)
InitWb(nms) == InitSheets(EmptyWb, nms, 1)

NameUsed(w, nm) == \E i \in DOMAIN w.sheets : w.sheets[i].name = nm
AllNames(w) == w.names \cup UNION {w.sheets[i].names : i \in DOMAIN w.sheets}

(* ------------------------------------------- operations (post operators) *)
(* new_sheet / set_sheet_name refuse a name that any sheet already has *)
AddSheetP(w, nm)     == IF NameUsed(w, nm) THEN w ELSE [w EXCEPT !.sheets = Append(@, NewSheet(nm))]
RenameP(w, i, nm)    == IF NameUsed(w, nm) THEN w ELSE [w EXCEPT !.sheets[i].name = nm]
(* remove_sheet keeps the active tab (0-based) inside the remaining sheets (since /repo cb0eeea) *)
RemoveSheetP(w, i)   == [w EXCEPT !.sheets = SubSeq(@, 1, i - 1) \o SubSeq(@, i + 1, Len(@)),
                                  !.active = IF @ >= Len(w.sheets) - 1 /\ Len(w.sheets) >= 2 THEN Len(w.sheets) - 2 ELSE @]
SetStateP(w, i, st)  == [w EXCEPT !.sheets[i].state = st]
SetActiveP(w, k)     == [w EXCEPT !.active = k]
AddMergeP(w, i, rg)  == [w EXCEPT !.sheets[i].merges = @ \cup {rg}]
(* a cell carries at most one hyperlink: a new one replaces the old one *)
AddLinkP(w, i, cell, url, loc, tip) ==
  [w EXCEPT !.sheets[i].links = {x \in @ : x.cell # cell} \cup {[cell |-> cell, url |-> url, loc |-> loc, tip |-> tip]}]
SetCodeP(w, i, cn) == [w EXCEPT !.sheets[i].code = <<cn>>]
(* the text of a comment: its runs ([t, b]: text, bold) one after the other *)
RECURSIVE CatRuns(_, _)
CatRuns(runs, k) == IF k > Len(runs) THEN "" ELSE runs[k].t \o CatRuns(runs, k + 1)
AddCommentP(w, i, r, c, au, tx) ==
  [w EXCEPT !.sheets[i].comments = @ \cup {[r |-> r, c |-> c, author |-> au, text |-> tx, vr |-> r - 1, vc |-> c - 1]}]
AddNameP(w, home, n) == IF home = 0 THEN [w EXCEPT !.names = @ \cup {n}] ELSE [w EXCEPT !.sheets[home].names = @ \cup {n}]
AddDvP(w, i, d)      == [w EXCEPT !.sheets[i].dvs = @ \cup {d}]
AddCfP(w, i, x)      == [w EXCEPT !.sheets[i].cfs = @ \cup {x}]
SetAfP(w, i, rg)     == [w EXCEPT !.sheets[i].af = <<rg>>]
SetTabP(w, i, argb)  == [w EXCEPT !.sheets[i].tab = <<argb>>]
AddViewP(w, i, v)    == [w EXCEPT !.sheets[i].views = Append(@, v)]
SetPsP(w, i, p)      == [w EXCEPT !.sheets[i].ps = p]
SetHfP(w, i, h, f)   == [w EXCEPT !.sheets[i].hf = [h |-> IF h = "" THEN @.h ELSE h, f |-> IF f = "" THEN @.f ELSE f]]
SetProtP(w, i, p)    == [w EXCEPT !.sheets[i].prot = <<p>>]
SetWbProtP(w, p)     == [w EXCEPT !.prot = <<p>>]

(* contracts of the operations (outside them the specification demands nothing) *)
CanAddMerge(w, i, rg)      == rg \notin w.sheets[i].merges
CanAddComment(w, i, r, c)  == r >= 1 /\ c >= 1 /\ ~\E x \in w.sheets[i].comments : x.r = r /\ x.c = c
CanAddName(w, home, n)     == /\ home \in 0..Len(w.sheets)
                              /\ n.local < Len(w.sheets)
                              /\ ~\E m \in AllNames(w) : m.name = n.name /\ m.local = n.local      \* unique per (name, scope)
CanRemoveSheet(w, i)       == Len(w.sheets) >= 2 /\ \A n \in AllNames(w) : n.local < 0
CanAddDv(w, i, d)          == d \notin w.sheets[i].dvs
(* (Worksheet::set_name re-targets the addresses of the names kept with the sheet: outside this model) *)
CanRename(w, i)            == w.sheets[i].names = {}
CanAddCf(w, i, x)          == x \notin w.sheets[i].cfs

(* ------------------------------------------------------------ save + load *)
IsEnum(q, S) == Len(q) = Cardinality(S) /\ {q[k] : k \in DOMAIN q} = S
LinkCells(sh) == {x.cell : x \in sh.links}
LinkAt(sh, cell) == CHOOSE x \in sh.links : x.cell = cell
(* the external link cells in the order in which the enumeration q meets them *)
ExtSeq(sh, q) == SelectSeq(q, LAMBDA cell : ~LinkAt(sh, cell).loc)
PosIn(q, x) == CHOOSE k \in DOMAIN q : q[k] = x

RC(x) == <<x.r, x.c>>
AuthorsOf(sh) == {x.author : x \in sh.comments}

(* abstract sheet part + its relationships + comments part + VML part *)
SaveSheet(sh, q1, q2, authorSeq) ==
  [ sheet   |-> sh,                                             \* everything that is written in place
    xlinks  |-> { IF x.loc THEN [cell |-> x.cell, kind |-> "loc", v |-> x.url, rid |-> 0, tip |-> x.tip]
                           ELSE [cell |-> x.cell, kind |-> "rid", v |-> "", rid |-> PosIn(ExtSeq(sh, q1), x.cell), tip |-> x.tip]
                  : x \in sh.links },
    rels    |-> [k \in 1..Len(ExtSeq(sh, q2)) |-> LinkAt(sh, ExtSeq(sh, q2)[k]).url],
    authors |-> authorSeq,
    clist   |-> { [r |-> x.r, c |-> x.c, aid |-> PosIn(authorSeq, x.author), text |-> x.text] : x \in sh.comments },
    shapes  |-> { [vr |-> x.vr, vc |-> x.vc] : x \in sh.comments } ]

LoadSheet(fs) ==
  [ fs.sheet EXCEPT
      !.links    = { [cell |-> e.cell, url |-> IF e.kind = "loc" THEN e.v ELSE fs.rels[e.rid], loc |-> e.kind = "loc",
                       tip |-> e.tip]
                     : e \in fs.xlinks },
      !.comments = { LET sp == CHOOSE s \in fs.shapes : s.vr = e.r - 1 /\ s.vc = e.c - 1      \* joined by cell reference
                     IN [r |-> e.r, c |-> e.c, author |-> fs.authors[e.aid], text |-> e.text, vr |-> sp.vr, vc |-> sp.vc]
                     : e \in fs.clist },
      !.names    = {} ]

(* where a defined name lives after a load *)
Home(n, sheets) ==
  IF n.local >= 0 THEN n.local + 1
  ELSE IF n.ref # "" /\ \E i \in DOMAIN sheets : sheets[i].name = n.ref
       THEN CHOOSE i \in DOMAIN sheets : sheets[i].name = n.ref
       ELSE 0

SaveWb(w, Q1, Q2, AU) ==
  [ parts |-> [i \in DOMAIN w.sheets |-> SaveSheet(w.sheets[i], Q1[i], Q2[i], AU[i])],
    active |-> w.active, prot |-> w.prot, dnames |-> AllNames(w) ]
LoadWb(f) ==
  LET shs == [i \in DOMAIN f.parts |-> LoadSheet(f.parts[i])] IN
  [ sheets |-> [i \in DOMAIN shs |-> [shs[i] EXCEPT !.names = {n \in f.dnames : Home(n, shs) = i}]],
    active |-> f.active,
    names  |-> {n \in f.dnames : Home(n, shs) = 0},
    prot   |-> f.prot ]
SaveLoadP(w, Q1, Q2, AU) == LoadWb(SaveWb(w, Q1, Q2, AU))

(* ---------------------------------------------------------------- actions *)
Op(o) == last' = [op |-> o]
AddSheet(nm)              == wb' = AddSheetP(wb, nm) /\ Op("addsheet")
Rename(i, nm)             == i \in DOMAIN wb.sheets /\ CanRename(wb, i) /\ wb' = RenameP(wb, i, nm) /\ Op("rename")
RemoveSheet(i)            == i \in DOMAIN wb.sheets /\ CanRemoveSheet(wb, i) /\ wb' = RemoveSheetP(wb, i) /\ Op("removesheet")
SetState(i, st)           == i \in DOMAIN wb.sheets /\ wb' = SetStateP(wb, i, st) /\ Op("setstate")
SetActive(k)              == wb' = SetActiveP(wb, k) /\ Op("setactive")
AddMerge(i, rg)           == i \in DOMAIN wb.sheets /\ CanAddMerge(wb, i, rg) /\ wb' = AddMergeP(wb, i, rg) /\ Op("addmerge")
AddLink(i, cell, url, loc, tip) == i \in DOMAIN wb.sheets /\ wb' = AddLinkP(wb, i, cell, url, loc, tip) /\ Op("addlink")
SetCode(i, cn)            == i \in DOMAIN wb.sheets /\ wb' = SetCodeP(wb, i, cn) /\ Op("setcode")
AddComment(i, r, c, au, tx) == i \in DOMAIN wb.sheets /\ CanAddComment(wb, i, r, c) /\ wb' = AddCommentP(wb, i, r, c, au, tx)
                               /\ Op("addcomment")
AddName(home, n)          == CanAddName(wb, home, n) /\ wb' = AddNameP(wb, home, n) /\ Op("addname")
AddDv(i, d)               == i \in DOMAIN wb.sheets /\ CanAddDv(wb, i, d) /\ wb' = AddDvP(wb, i, d) /\ Op("adddv")
AddCf(i, x)               == i \in DOMAIN wb.sheets /\ CanAddCf(wb, i, x) /\ wb' = AddCfP(wb, i, x) /\ Op("addcf")
SetAf(i, rg)              == i \in DOMAIN wb.sheets /\ wb' = SetAfP(wb, i, rg) /\ Op("setaf")
SetTab(i, argb)           == i \in DOMAIN wb.sheets /\ wb' = SetTabP(wb, i, argb) /\ Op("settab")
AddView(i, v)             == i \in DOMAIN wb.sheets /\ wb' = AddViewP(wb, i, v) /\ Op("addview")
SetPs(i, p)               == i \in DOMAIN wb.sheets /\ wb' = SetPsP(wb, i, p) /\ Op("setps")
SetHf(i, h, f)            == i \in DOMAIN wb.sheets /\ wb' = SetHfP(wb, i, h, f) /\ Op("sethf")
SetProt(i, p)             == i \in DOMAIN wb.sheets /\ wb.sheets[i].prot = <<>> /\ wb' = SetProtP(wb, i, p) /\ Op("setprot")
SetWbProt(p)              == wb.prot = <<>> /\ wb' = SetWbProtP(wb, p) /\ Op("setwbprot")
(* Q1, Q2: per sheet an enumeration of its link cells; AU: per sheet an enumeration of its comment authors *)
SaveLoad(Q1, Q2, AU) ==
  /\ \A i \in DOMAIN wb.sheets : /\ IsEnum(Q1[i], LinkCells(wb.sheets[i])) /\ IsEnum(Q2[i], LinkCells(wb.sheets[i]))
                                 /\ IsEnum(AU[i], AuthorsOf(wb.sheets[i]))
  /\ wb' = SaveLoadP(wb, Q1, Q2, AU)
  /\ Op("saveload")

(* ------------------------------------------------------------- properties *)
(* what must survive: everything, with defined names compared as one collection (where a name is kept -        *)
(* workbook list or a sheet's list - is representation; LoadWb fixes it by the Home rule)                        *)
Kept(w) == [ sheets |-> [i \in DOMAIN w.sheets |-> [w.sheets[i] EXCEPT !.names = {}, !.code = <<>>]],
             active |-> w.active, prot |-> w.prot, dnames |-> AllNames(w) ]
AnnotationsKept == [][last'.op = "saveload" => Kept(wb') = Kept(wb)]_vars
(* after a load every name sits where the Home rule puts it *)
Homed(w) == /\ \A n \in w.names : Home(n, w.sheets) = 0
            /\ \A i \in DOMAIN w.sheets : \A n \in w.sheets[i].names : Home(n, w.sheets) = i
HomedAfterLoad == last.op = "saveload" => Homed(wb)

WellFormed ==
  /\ \A i, j \in DOMAIN wb.sheets : wb.sheets[i].name = wb.sheets[j].name => i = j           \* names unique
  /\ \A i \in DOMAIN wb.sheets :
       /\ \A x, y \in wb.sheets[i].links : x.cell = y.cell => x = y                          \* one link per cell
       /\ \A x, y \in wb.sheets[i].comments : RC(x) = RC(y) => x = y                         \* one comment per cell
       /\ Len(wb.sheets[i].af) <= 1 /\ Len(wb.sheets[i].tab) <= 1 /\ Len(wb.sheets[i].prot) <= 1
  /\ \A n, m \in AllNames(wb) : (n.name = m.name /\ n.local = m.local) => n = m    \* a name is unique within its scope only
  /\ \A n \in AllNames(wb) : n.local < Len(wb.sheets)
=============================================================================
