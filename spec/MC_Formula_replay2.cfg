CONSTANTS MaxRow = 5 MaxCol = 4 EmitReplay = FALSE EmitWb = TRUE MaxToks = 1 Depth = 1 NCells = 2
  UsePercent = FALSE UseParens = FALSE
  Operands <- WbOperandsSmall FnNames <- NoFns InfixOps <- NoOps PrefixOps <- NoPre BlankRuns <- NoBlanks
SPECIFICATION MCSpec
INVARIANTS EmitWbInv
CHECK_DEADLOCK FALSE
