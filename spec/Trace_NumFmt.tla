---------------------------- MODULE Trace_NumFmt ----------------------------
(***************************************************************************)
(* Conformance of helper::number_format::to_formatted_string,              *)
(* Cell::get_formatted_value and Worksheet::get_formatted_value with       *)
(* NumFmt.tla.  One event = one batch of items.                            *)
(*                                                                         *)
(*  a = "fmt"      number x (digit sequences) under pattern (k, th, pct):  *)
(*                 every observed text must be Fmt(x, p)                   *)
(*  a = "general"  numbers and text under General: shown unchanged         *)
(*  a = "builtin"  built-in format id x finite number: no panic            *)
(*                                                                         *)
(* Input facts logged by the driver (std only, never the library) are      *)
(* checked here where the specification can: the value string fed to the   *)
(* library is NumText(x), the format code is PatText(p), the exact decimal *)
(* expansion p100 of the IEEE product 100.0*x agrees with the decimal      *)
(* 100*x to 15 significant digits ("gen" mismatches are tool errors).      *)
(*                                                                         *)
(* Known findings (the deviant outcome is the exact function the pinned    *)
(* code computes; anything else is still a mismatch):                      *)
(*  C19-KF1  0-decimal patterns cut the fraction off instead of rounding   *)
(*  C19-KF2  a fraction shorter than the pattern is multiplied by 10^k     *)
(*           (32-bit, wrapping) instead of being padded with zeros         *)
(*  C19-KF3  rounding up increments the kept fraction digits as an         *)
(*           integer: leading zeros are lost, 9..9 carries stay in place   *)
(*  C19-KF4  percentage patterns with decimals round to a whole percent    *)
(*  C19-KF5  percentages round the binary product 100.0*x, not 100*x       *)
(*  C19-KF6  General re-renders text that parses as a number               *)
(*  C19-KF7  date/time built-in formats panic outside chrono's calendar    *)
(***************************************************************************)
EXTENDS NumFmt, TraceBase

VARIABLE l
tvars == <<l, n, ds>>

Ev == Rec[l]

FirstBad(items, Ok(_)) ==
  LET bad == {j \in DOMAIN items : ~Ok(items[j])} IN IF bad = {} THEN 0 ELSE MinOf(bad)

Pat(it) == [k |-> it.k, th |-> it.th, pct |-> it.pct]

----------------------------------------------------------------------------
(* comparison of magnitudes given as digits * 10^e *)
ScaledEq(a, ea, b, eb) ==
  LET m == IF ea < eb THEN ea ELSE eb
  IN  StripLeft(a \o Zeros(ea - m)) = StripLeft(b \o Zeros(eb - m))

(* y rounded to 15 significant digits (half away) equals the decimal number z *)
LeadZeros(d) == Len(d) - Len(StripLeft(d))
Sig15Eq(y, z) ==
  LET d    == y.int \o y.frac
      lead == LeadZeros(d)
      sig  == SubSeq(d, lead + 1, Len(d))
  IN  IF Len(sig) <= 15 THEN y.int = z.int /\ y.frac = z.frac
      ELSE LET kept == SubSeq(sig, 1, 15)
               r    == IF sig[16] >= 5 THEN Inc(kept) ELSE kept
           IN  ScaledEq(r, Len(y.int) - lead - 15, z.int \o z.frac, 0 - Len(z.frac))

(* the driver's fact p100 = exact decimal expansion of the f64 product 100.0 * x *)
P100Ok(it) == /\ IsNumber(it.p100)
              /\ it.p100.neg = it.x.neg
              /\ Sig15Eq(it.p100, Shift2(it.x))

FmtGenOk(it) ==
  /\ IsNumber(it.x)
  /\ SigDigits(it.x) <= 15
  /\ ~(it.x.neg /\ IsZero(it.x))             \* negative zero is not driven: whether it "has a sign" is not stated
  /\ it.rt                                   \* f64::to_string(parse(s)) = s: s is the shortest form
  /\ it.s = NumText(it.x)
  /\ it.k \in 0..KMax /\ it.th \in BOOLEAN /\ it.pct \in BOOLEAN
  /\ ~(it.th /\ it.pct)
  /\ it.fmt = PatText(Pat(it))
  /\ it.pct => P100Ok(it)

----------------------------------------------------------------------------
(* what the pinned code computes *)

(* i32 multiplication v * 10^k with wrap-around (release build), on 16-bit halves *)
Mul10(hl) == LET lo == hl[2] * 10 IN <<(hl[1] * 10 + lo \div 65536) % 65536, lo % 65536>>
RECURSIVE MulPow10(_, _)
MulPow10(hl, k) == IF k = 0 THEN hl ELSE MulPow10(Mul10(hl), k - 1)
WrapMulPow10(v, k) ==
  LET r == MulPow10(<<v \div 65536, v % 65536>>, k)
  IN  IF r[1] >= 32768 THEN (r[1] - 65536) * 65536 + r[2] ELSE r[1] * 65536 + r[2]

LeftText(x, th) == Concat(SignChars(x.neg) \o (IF th THEN Group3Chars(x.int) ELSE DigitChars(x.int)))

RoundsUp(x, k)   == Len(x.frac) > k /\ x.frac[k + 1] >= 5
(* format_straight_numeric_value, "right" part *)
ImplFracText(x, k) ==
  LET fr == IF x.frac = <<>> THEN <<0>> ELSE x.frac
  IN  IF Len(fr) = k THEN DigitsText(fr)
      ELSE IF fr = <<0>> THEN DigitsText(Zeros(k))
      ELSE IF k > Len(fr) THEN ToString(WrapMulPow10(Val(fr), k))
      ELSE IF fr[k + 1] > 4 THEN ToString(Val(SubSeq(fr, 1, k)) + 1)
      ELSE DigitsText(SubSeq(fr, 1, k))
ImplNumText(x, k, th) == IF k = 0 THEN LeftText(x, th) ELSE LeftText(x, th) \o "." \o ImplFracText(x, k)

(* format_as_percentage: format!("{:.k}%", (100.0 * x).round()) on the binary product y *)
ImplPctText(y, k) ==
  Concat(SignChars(y.neg)) \o DigitsText(RoundHalfAway(y, 0).int)
  \o (IF k > 0 THEN "." \o DigitsText(Zeros(k)) ELSE "") \o "%"

AllOut(it, t) == /\ it.outcome = "ok"
                 /\ it.out = t /\ it.outws = t /\ it.outws2 = t /\ it.outcell = t

FmtIntended(it) == AllOut(it, Fmt(it.x, Pat(it)))

(* triggers: predicates over the arguments, as narrow as the mechanism *)
TrigKF1(it) == ~it.pct /\ it.k = 0 /\ RoundsUp(it.x, 0)
TrigKF2(it) == ~it.pct /\ it.x.frac # <<>> /\ Len(it.x.frac) < it.k
TrigKF3(it) == /\ ~it.pct /\ it.k > 0 /\ RoundsUp(it.x, it.k)
               /\ LET kept == SubSeq(it.x.frac, 1, it.k)            \* the increment changes the digit count
                  IN  Len(StripLeft(Inc(kept))) # it.k
ProductExact(it) == it.p100.int = Shift2(it.x).int /\ it.p100.frac = Shift2(it.x).frac
TrigKF4(it) == it.pct /\ it.k > 0 /\ Shift2(it.x).frac # <<>>
TrigKF5(it) == it.pct /\ ~ProductExact(it)

FmtKF(it) ==      \* id of the deviation that explains the item, "" if none
  IF it.outcome # "ok" THEN ""
  ELSE IF ~it.pct THEN
    IF ~AllOut(it, ImplNumText(it.x, it.k, it.th)) THEN ""
    ELSE IF KFOn("C19-KF1") /\ TrigKF1(it) THEN "C19-KF1"
    ELSE IF KFOn("C19-KF2") /\ TrigKF2(it) THEN "C19-KF2"
    ELSE IF KFOn("C19-KF3") /\ TrigKF3(it) THEN "C19-KF3"
    ELSE ""
  ELSE
    IF KFOn("C19-KF4") /\ TrigKF4(it) /\ AllOut(it, ImplPctText(Shift2(it.x), it.k)) THEN "C19-KF4"
    ELSE IF KFOn("C19-KF5") /\ TrigKF5(it) /\ (it.k = 0 \/ KFOn("C19-KF4"))
            /\ AllOut(it, ImplPctText(it.p100, it.k)) THEN "C19-KF5"
    ELSE ""

----------------------------------------------------------------------------
(* General *)
CharDigit(ch) == CHOOSE d \in 0..9 : DC[d + 1] = ch
IsDigitChar(ch) == \E d \in 0..9 : DC[d + 1] = ch

(* plain decimal text: [+-] digits [. digits], at least one digit, <= 15 significant digits: the
   specification itself knows which number it denotes and how that number's shortest form reads *)
Body(chars)    == IF chars # <<>> /\ Head(chars) \in {"-", "+"} THEN Tail(chars) ELSE chars
DotAt(cs)      == LET d == {i \in DOMAIN cs : cs[i] = "."} IN IF d = {} THEN 0 ELSE MinOf(d)
IntChars(cs)   == IF DotAt(cs) = 0 THEN cs ELSE SubSeq(cs, 1, DotAt(cs) - 1)
FracChars(cs)  == IF DotAt(cs) = 0 THEN <<>> ELSE SubSeq(cs, DotAt(cs) + 1, Len(cs))
AllDigitChars(cs) == \A i \in DOMAIN cs : IsDigitChar(cs[i])
ToDigits(cs)   == [i \in 1..Len(cs) |-> CharDigit(cs[i])]
PlainNumber(chars) ==
  LET b == Body(chars)
  IN  [neg |-> chars # <<>> /\ Head(chars) = "-",
       int |-> NormInt(ToDigits(IntChars(b))), frac |-> StripRight(ToDigits(FracChars(b)))]
IsPlainDecimal(chars) ==
  LET b == Body(chars)
  IN  /\ Len(b) <= 40
      /\ AllDigitChars(IntChars(b)) /\ AllDigitChars(FracChars(b))
      /\ Len(IntChars(b)) + Len(FracChars(b)) > 0
      /\ SigDigits(PlainNumber(chars)) <= 15

GenGenOk(it) ==
  /\ it.text = Concat(it.chars)
  /\ it.kind \in {"num", "text"}
  /\ it.kind = "num" => it.rt                               \* numbers are driven in their shortest form
  /\ IsPlainDecimal(it.chars) => it.isnum /\ it.canon = NumText(PlainNumber(it.chars))

GenIntended(it) == AllOut(it, it.text)
(* C19-KF6: to_formatted_string parses every value as f64 first and prints the number back *)
TrigKF6(it) == it.kind = "text" /\ it.isnum /\ it.canon # it.text
GenKF(it) == IF KFOn("C19-KF6") /\ TrigKF6(it) /\ AllOut(it, it.canon) THEN "C19-KF6" ELSE ""

----------------------------------------------------------------------------
(* built-in ids: no panic *)
DateIds == (14..22) \cup (27..36) \cup (45..47) \cup (50..58)
(* chrono's NaiveDate covers -262143-01-01 .. +262142-12-31.  Serials >= 60 count from 1899-12-30
   (last day 95051805), serials < 1 count from 1970-01-01 (first day -96465292). *)
LastDay  == <<9, 5, 0, 5, 1, 8, 0, 5>>
FirstDay == <<9, 6, 4, 6, 5, 2, 9, 2>>
RECURSIVE LexLess(_, _)
LexLess(a, b) == a # <<>> /\ (Head(a) < Head(b) \/ (Head(a) = Head(b) /\ LexLess(Tail(a), Tail(b))))
DigitsLess(a, b) == Len(a) < Len(b) \/ (Len(a) = Len(b) /\ LexLess(a, b))      \* normalised digit strings
OutOfCalendar(x) ==
  IF ~x.neg THEN DigitsLess(LastDay, x.int) \/ (x.int = LastDay /\ x.frac # <<>>)   \* floor(x) > last day, or a time of
                                                                                      \* day that may round into the next day
  ELSE IF x.frac = <<>> THEN DigitsLess(FirstDay, x.int)                             \* floor(x) = -int
  ELSE ~DigitsLess(x.int, FirstDay)                                                  \* floor(x) = -(int+1)

BuiltinGenOk(it) == it.finite /\ it.known /\ IsNumber(it.x) /\ it.fid \in 0..200
BuiltinIntended(it) == it.outcome = "ok" /\ it.okh /\ it.okw
TrigKF7(it) == it.fid \in DateIds /\ OutOfCalendar(it.x)
BuiltinKF(it) == IF KFOn("C19-KF7") /\ TrigKF7(it) /\ it.outcome = "panic" /\ ~it.okh /\ ~it.okw
                 THEN "C19-KF7" ELSE ""

----------------------------------------------------------------------------
KFIds == {"C19-KF1", "C19-KF2", "C19-KF3", "C19-KF4", "C19-KF5", "C19-KF6", "C19-KF7"}

Intended(a, it) == CASE a = "fmt" -> FmtIntended(it) [] a = "general" -> GenIntended(it) [] a = "builtin" -> BuiltinIntended(it)
Deviation(a, it) == CASE a = "fmt" -> FmtKF(it) [] a = "general" -> GenKF(it) [] a = "builtin" -> BuiltinKF(it)
ItemGenOk(a, it) == CASE a = "fmt" -> FmtGenOk(it) [] a = "general" -> GenGenOk(it) [] a = "builtin" -> BuiltinGenOk(it)
(* the expected text, for the diagnostic line (kept short: TLC wraps long tuples over several lines) *)
Want(a, it) == CASE a = "fmt" -> Fmt(it.x, Pat(it))
                 [] a = "general" -> IF Len(it.chars) <= 24 THEN it.text ELSE "(the text)"
                 [] a = "builtin" -> "no panic"

(* verdict per item: "ok", a finding id, or "bad" *)
Verdict(a, it) == IF Intended(a, it) THEN "ok"
                  ELSE LET d == Deviation(a, it) IN IF d = "" THEN "bad" ELSE d

Judge(e) ==
  IF e.a \notin {"fmt", "general", "builtin"} THEN Mismatch(l, <<"impl", e.a, e.outcome>>)    \* Fatal: hang or crash
  ELSE LET badgen == {j \in DOMAIN e.items : ~ItemGenOk(e.a, e.items[j])}
       IN  IF badgen # {} THEN Mismatch(l, <<"gen", e.a, MinOf(badgen)>>)
           ELSE LET vs == {Verdict(e.a, e.items[j]) : j \in DOMAIN e.items}      \* each item is judged once
                IN  /\ IF "bad" \notin vs THEN TRUE
                       ELSE LET j == FirstBad(e.items, LAMBDA it : Verdict(e.a, it) # "bad")
                            IN  Mismatch(l, <<"impl", e.a, j, Want(e.a, e.items[j])>>)
                    /\ \A id \in KFIds : IF id \in vs THEN KFHit(id, l) ELSE TRUE

TraceInit == l = 1 /\ n = 0 /\ ds = FixedDigits(0)
TraceNext == l <= Len(Rec) /\ l' = l + 1 /\ Judge(Ev) /\ UNCHANGED <<n, ds>>
TraceSpec == TraceInit /\ [][TraceNext]_tvars
=============================================================================
