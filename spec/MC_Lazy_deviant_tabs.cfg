CONSTANTS Home = "pos" TabNo = "counter" Chart = "cached" Perm = TRUE Depth = 3 MaxEdits = 2 Shapes = "all" Wide = FALSE EmitReplay = FALSE
SPECIFICATION MCSpec
VIEW StateView
INVARIANTS LazyEqEager ValidFile Kept Present SavedLikeEager SaveWorks
PROPERTY AccessMonotone
CHECK_DEADLOCK FALSE
