---------------------------- MODULE Trace_Sheet ----------------------------
(***************************************************************************)
(* Trace validation for C07: every recorded operation of the real library  *)
(* must be a step of Sheet.tla.  The driver logs, after every operation,   *)
(* the projection of all sheets (public getters); an event is accepted iff *)
(* the logged state equals Post(state, args) of the specification.  On a   *)
(* mismatch the specification state follows the observation so that the    *)
(* rest of the trace is still checked.                                     *)
(***************************************************************************)
EXTENDS Sheet, TraceBase, SequencesExt

VARIABLE l
tvars == <<sh, last, l>>

SheetOfObs(o) == [name |-> o.name, cells |-> ToSet(o.cells), rows |-> ToSet(o.rows), cols |-> ToSet(o.cols),
                  merges |-> ToSet(o.merges), comments |-> ToSet(o.comments), cf |-> ToSet(o.cf), af |-> o.af]
SheetsOf(list) == [i \in DOMAIN list |-> SheetOfObs(list[i])]
(* nothing listed twice *)
NoDupSheet(o) == /\ Len(o.cells) = Cardinality(ToSet(o.cells))
                 /\ Len(o.rows) = Cardinality(ToSet(o.rows))
                 /\ Len(o.cols) = Cardinality(ToSet(o.cols))
                 /\ Len(o.merges) = Cardinality(ToSet(o.merges))
                 /\ Len(o.comments) = Cardinality(ToSet(o.comments))
                 /\ Len(o.cf) = Cardinality(ToSet(o.cf))
                 /\ Len(o.af) <= 1
NoDup(list) == \A i \in DOMAIN list : NoDupSheet(list[i])

InContract(e) ==
  CASE e.a = "Insert" -> e.s \in DOMAIN sh /\ CanInsert(sh[e.s], e.ax, e.p, e.n)
    [] e.a = "Remove" -> e.s \in DOMAIN sh /\ CanRemove(sh[e.s], e.ax, e.p, e.n)
    [] e.a \in {"Move", "Copy"} -> e.s \in DOMAIN sh /\ CanMove(e.g, e.dr, e.dc)
    [] e.a = "SetCell" -> e.s \in DOMAIN sh /\ e.cell.r \in 1..MaxRow /\ e.cell.c \in 1..MaxCol
    [] e.a = "RemoveCell" -> e.s \in DOMAIN sh
    [] OTHER -> FALSE

Expected(e) ==
  CASE e.a = "Insert"     -> [sh EXCEPT ![e.s] = InsSheet(@, e.ax, e.p, e.n)]
    [] e.a = "Remove"     -> [sh EXCEPT ![e.s] = RemSheet(@, e.ax, e.p, e.n)]
    [] e.a = "Move"       -> [sh EXCEPT ![e.s] = MoveSheet(@, e.g, e.dr, e.dc)]
    [] e.a = "Copy"       -> [sh EXCEPT ![e.s] = CopySheet(@, e.g, e.dr, e.dc)]
    [] e.a = "SetCell"    -> [sh EXCEPT ![e.s] = SetCellSheet(@, e.cell)]
    [] e.a = "RemoveCell" -> [sh EXCEPT ![e.s] = RemoveCellSheet(@, e.r, e.c)]

Fields == {"name", "cells", "rows", "cols", "merges", "comments", "cf", "af"}
Diff(want, got) ==
  IF DOMAIN want # DOMAIN got THEN <<"sheet count", Len(want), Len(got)>>
  ELSE LET bad == {i \in DOMAIN want : want[i] # got[i]}
           i == MinOf(bad)
           fs == {f \in Fields : want[i][f] # got[i][f]}
           f == CHOOSE x \in fs : TRUE
       IN <<"sheet", i, fs, "expected", want[i][f], "observed", got[i][f]>>

Ev == Rec[l]

Step(e) ==
  IF e.a = "Fatal" THEN sh' = sh /\ Mismatch(l, <<"impl", "fatal", e.outcome>>)
  ELSE
  LET obs == SheetsOf(e.obs) IN
  IF e.a = "Init"
  THEN /\ sh' = obs
       /\ IF e.outcome = "ok" /\ NoDup(e.obs) /\ obs = SheetsOf(e.sheets) THEN TRUE
          ELSE Mismatch(l, <<"init", Diff(SheetsOf(e.sheets), obs)>>)
  ELSE IF ~InContract(e)
  THEN sh' = obs /\ Mismatch(l, <<"gen", e.a>>)
  ELSE LET want == Expected(e) IN
       IF e.outcome = "ok" /\ NoDup(e.obs) /\ obs = want
       THEN sh' = want
       ELSE /\ sh' = obs
            /\ Mismatch(l, <<"impl", e.a, e.outcome, IF e.outcome = "ok" /\ obs # want THEN Diff(want, obs) ELSE <<"dup/panic">> >>)

TraceInit == l = 1 /\ sh = <<>> /\ last = [op |-> "init", s |-> 0]
TraceNext == l <= Len(Rec) /\ l' = l + 1 /\ Step(Ev) /\ UNCHANGED last
TraceSpec == TraceInit /\ [][TraceNext]_tvars
=============================================================================
