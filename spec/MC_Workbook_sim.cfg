CONSTANTS MaxRow = 1048576 MaxCol = 16384
  NSheets = {1, 2, 3} Pool = "full" NPos = 4 MaxCells = 12 Depth = 14 MaxSaves = 3 Wide = TRUE Emit = "paths" Dev = {}
SPECIFICATION MCSpec
INVARIANTS EmitInv WellFormed
CHECK_DEADLOCK FALSE
