CONSTANTS MaxRow = 5 MaxCol = 4 EmitReplay = FALSE EmitWb = FALSE MaxToks = 1 Depth = 3 NCells = 1
  UsePercent = FALSE UseParens = FALSE
  Operands <- WbOperandsTiny FnNames <- NoFns InfixOps <- NoOps PrefixOps <- NoPre BlankRuns <- NoBlanks
SPECIFICATION MCSpec
VIEW View
INVARIANTS RefsInGrid CellsInGrid
PROPERTY TargetsKept
CHECK_DEADLOCK FALSE
