CONSTANTS KeyMode = "exact" NBooks = 2 PalKind = "import" MaxImport = 1 MaxAssign = 2 MaxSaves = 2 Pairs = FALSE Wide = FALSE EmitReplay = FALSE
SPECIFICATION MCSpec
VIEW View
INVARIANTS Faithful DimsKept FaithfulFile NoMerge NoGrowth StableSizes WellFormed
CHECK_DEADLOCK FALSE
