\* one cell anywhere in a 2x2 window holding any text of length <= 3 over the 7-character alphabet {a , " ' CR LF SP}
CONSTANTS NSheets = 1 MaxR = 2 MaxC = 2 MaxCells = 1 FreeLen = 0 Escape = TRUE Overwrite = FALSE Record = FALSE
CONSTANTS Values <- DeepValues FreeAlphabet <- NoFree
SPECIFICATION Spec
INVARIANTS TypeOK InStep ParsedEqualsGrid Rectangular WellFormed FoldAgrees
CHECK_DEADLOCK FALSE
