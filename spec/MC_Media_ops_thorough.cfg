CONSTANTS Wide = FALSE MaxRow = 6 MaxCol = 5 Depth = 2 Family = "all" Gen = FALSE EmitReplay = FALSE
          MediaKey = "content" ChartCache = "tolerant"
SPECIFICATION MCSpec
VIEW View
INVARIANTS InGrid RemoveUndoesInsert ModelRemovalsAllowed
CHECK_DEADLOCK FALSE
