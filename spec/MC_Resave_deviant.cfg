CONSTANTS MaxGen = 1 DropStyledBlank = TRUE ColFold = "adjacent" RowSkip = "never" Family = "mid" EmitReplay = FALSE
SPECIFICATION MCSpec
VIEW View
INVARIANTS OrigSim
CHECK_DEADLOCK FALSE
