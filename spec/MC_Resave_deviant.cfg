CONSTANTS MaxGen = 1 DropStyledBlank = TRUE Family = "mid" EmitReplay = FALSE
SPECIFICATION MCSpec
VIEW View
INVARIANTS OrigSim
CHECK_DEADLOCK FALSE
