CONSTANTS Sharing = "shared" Scenario = "empty" EmitReplay = FALSE
SPECIFICATION MSpec
VIEW View
INVARIANTS PartIffRel
CHECK_DEADLOCK FALSE
