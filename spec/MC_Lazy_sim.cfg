CONSTANTS Home = "pos" TabNo = "fresh" Chart = "cached" Perm = TRUE Depth = 9 MaxEdits = 5 Shapes = "rich" Wide = TRUE EmitReplay = TRUE
SPECIFICATION MCSpec
INVARIANTS Emit LazyEqEager ValidFile Kept Present
CHECK_DEADLOCK FALSE
