---- MODULE MC_PwdHash ----
EXTENDS PwdHash, Json
MCNoHash == [op |-> "None"]
(* the term the conformance check evaluates with real hash functions (read by checks/c15.py) *)
ASSUME PrintT(<<"TERM", ToJson(Template)>>)
(* lemmas about the oracle itself (constant level) *)
ASSUME UnrollIsEcma
ASSUME OrderMatters
(* replay emission: one line per behaviour of maximal length (MC_PwdHash_replay.cfg, no VIEW) *)
Emit == (pc = "idle" /\ Len(hist) = MaxHist) => PrintT(<<"REPLAY", ToJson(hist)>>)
====
