CONSTANTS Home = "pos" TabNo = "fresh" Chart = "cached" Perm = TRUE Depth = 2 MaxEdits = 2 Shapes = "rich" Wide = TRUE EmitReplay = TRUE
SPECIFICATION MCSpec
INVARIANTS Emit
CHECK_DEADLOCK FALSE
