CONSTANTS MaxCol = 16384 MaxRow = 1048576 LastName = 18278
SPECIFICATION Spec
INVARIANTS TypeOK ClosedForm Positional Lengths LastColumn
PROPERTY Ordered
CHECK_DEADLOCK FALSE
